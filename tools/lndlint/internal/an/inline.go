package an

import (
	"bytes"
	"fmt"
	"go/ast"
	"go/token"
	"go/types"
	"os"
	"sort"
	"strings"

	"golang.org/x/tools/go/packages"
	"golang.org/x/tools/go/types/typeutil"

	"lndlint/internal/load"
	"lndlint/internal/xtools/diff"
	"lndlint/internal/xtools/refactor/inline"
)

// Helper tolerance.
//
// Rule instances name the function in which a decision is taken. Moving a
// block of such a function into a new helper ("extract function") keeps the
// behaviour and must not raise an alarm, and a defect hidden in a new helper
// must not escape the rules that inspect its caller. Both are served by
// analysing the program with every *new* function (one the reviewed tree's
// baseline does not know) inlined at its static call sites: the inliner is
// the refactoring tool of golang.org/x/tools (internal/refactor/inline,
// vendored under internal/xtools), which preserves the semantics of the
// call (it falls back to a function literal where it cannot reduce the
// call). The transformed files are handed to the type checker as an overlay
// and the rules run on the result. A new unexported function whose every
// reference was inlined is removed from the overlay (it is dead code
// there). Whenever the transformation fails or the transformed program does
// not type-check, the untransformed program is analysed instead.

// InlineNote records what the helper inlining did (evidence, report).
type InlineNote struct {
	Helper  string `json:"helper"`
	Calls   int    `json:"calls_inlined"`
	Skipped int    `json:"calls_left"`
	Removed bool   `json:"declaration_removed"`
}

// NewHelperOverlay returns replacement contents for the files of res in
// which calls of functions unknown to the names baseline were inlined, or
// nil when there is nothing to do. base is the overlay res was loaded with.
func NewHelperOverlay(res *load.Result, base map[string][]byte) (map[string][]byte, []InlineNote) {
	if namesBaseline == nil {
		return nil, nil
	}
	type cand struct {
		obj    *types.Func
		decl   *ast.FuncDecl
		pkg    *packages.Package
		file   *ast.File
		id     string
		callee *inline.Callee
	}
	contents := map[string][]byte{}
	read := func(name string) []byte {
		if b, ok := contents[name]; ok {
			return b
		}
		b, ok := base[name]
		if !ok {
			b, _ = os.ReadFile(name)
		}
		contents[name] = b
		return b
	}
	cands := map[*types.Func]*cand{}
	for _, pkg := range res.Roots {
		for _, file := range pkg.Syntax {
			fname := pkg.Fset.Position(file.Pos()).Filename
			if IsTestish(fname) {
				continue
			}
			for _, d := range file.Decls {
				fd, ok := d.(*ast.FuncDecl)
				if !ok || fd.Body == nil || fd.Name.Name == "init" || fd.Name.Name == "main" || fd.Name.Name == "_" {
					continue
				}
				obj, _ := pkg.TypesInfo.Defs[fd.Name].(*types.Func)
				if obj == nil {
					continue
				}
				id := FuncID(obj)
				if _, known := namesBaseline[id]; known {
					continue
				}
				cands[obj] = &cand{obj: obj, decl: fd, pkg: pkg, file: file, id: id}
			}
		}
	}
	if len(cands) == 0 {
		return nil, nil
	}
	logf := func(string, ...any) {}
	for _, c := range cands {
		fname := c.pkg.Fset.Position(c.file.Pos()).Filename
		callee, err := inline.AnalyzeCallee(logf, c.pkg.Fset, c.pkg.Types, c.pkg.TypesInfo, c.decl, read(fname))
		if err == nil {
			c.callee = callee
		}
	}
	// references and static call sites
	refs := map[*types.Func]int{}
	// the edits of one inlining (or of one removed declaration) are applied
	// together or not at all
	type group struct {
		helper *types.Func // nil: removal of a declaration
		edits  []diff.Edit
	}
	fileEdits := map[string][]*group{}
	inlined := map[*types.Func]int{}
	skipped := map[*types.Func]int{}
	for _, pkg := range res.Roots {
		for _, file := range pkg.Syntax {
			fname := pkg.Fset.Position(file.Pos()).Filename
			ast.Inspect(file, func(n ast.Node) bool {
				switch x := n.(type) {
				case *ast.Ident:
					if f, ok := pkg.TypesInfo.Uses[x].(*types.Func); ok {
						if _, isCand := cands[f.Origin()]; isCand {
							refs[f.Origin()]++
						}
					}
				case *ast.CallExpr:
					f := typeutil.StaticCallee(pkg.TypesInfo, x)
					if f == nil {
						return true
					}
					c := cands[f.Origin()]
					if c == nil {
						return true
					}
					if c.callee == nil || IsTestish(fname) {
						skipped[c.obj]++
						return true
					}
					content := read(fname)
					r, err := safeInline(&inline.Caller{Fset: pkg.Fset, Types: pkg.Types, Info: pkg.TypesInfo, File: file, Call: x, Content: content}, c.callee)
					if err != nil || r == nil {
						skipped[c.obj]++
						return true
					}
					fileEdits[fname] = append(fileEdits[fname], &group{c.obj, diff.Bytes(content, r.Content)})
					inlined[c.obj]++
				}
				return true
			})
		}
	}
	// remove the declarations of new unexported functions nothing refers to
	removed := map[*types.Func]bool{}
	for _, c := range cands {
		// (a round after its last call was inlined: removal and inlining never
		// touch the same function in one round)
		if c.obj.Exported() || refs[c.obj] != 0 {
			continue
		}
		if sig, _ := c.obj.Type().(*types.Signature); sig != nil && sig.Recv() != nil && ifaceMethodNamed(c.pkg.Types, c.obj.Name()) {
			// an unexported method can only satisfy an interface of its own
			// package: it stays when one declares a method of that name
			continue
		}
		fname := c.pkg.Fset.Position(c.file.Pos()).Filename
		start := c.decl.Pos()
		if c.decl.Doc != nil {
			start = c.decl.Doc.Pos()
		}
		s, e := c.pkg.Fset.Position(start).Offset, c.pkg.Fset.Position(c.decl.End()).Offset
		fileEdits[fname] = append(fileEdits[fname], &group{nil, []diff.Edit{{Start: s, End: e, New: ""}}})
		removed[c.obj] = true
	}
	if len(fileEdits) == 0 {
		return nil, nil
	}
	overlay := map[string][]byte{}
	for k, v := range base {
		overlay[k] = v
	}
	for fname, groups := range fileEdits {
		// removals first, then the inlinings in source order
		sort.SliceStable(groups, func(i, j int) bool {
			if (groups[i].helper == nil) != (groups[j].helper == nil) {
				return groups[i].helper == nil
			}
			if len(groups[i].edits) == 0 || len(groups[j].edits) == 0 {
				return len(groups[i].edits) > len(groups[j].edits)
			}
			return groups[i].edits[0].Start < groups[j].edits[0].Start
		})
		var keep []diff.Edit
		same := func(a, b diff.Edit) bool { return a.Start == b.Start && a.End == b.End && a.New == b.New }
		clash := func(e diff.Edit) bool {
			for _, k := range keep {
				if same(k, e) {
					continue // e.g. the same import added by two inlinings
				}
				if e.Start < k.End && k.Start < e.End {
					return true
				}
				if e.Start == e.End && k.Start == k.End && e.Start == k.Start {
					return true // two different insertions at one point: order undefined
				}
				if e.Start == e.End && k.Start < e.Start && e.Start < k.End {
					return true
				}
			}
			return false
		}
		for _, g := range groups {
			bad := false
			for _, e := range g.edits {
				if clash(e) {
					bad = true
					break
				}
			}
			if bad {
				// nested in another inlined call or in a removed declaration:
				// the next round sees it
				if g.helper != nil {
					inlined[g.helper]--
					skipped[g.helper]++
				}
				continue
			}
			for _, e := range g.edits {
				dup := false
				for _, k := range keep {
					if same(k, e) {
						dup = true
					}
				}
				if !dup {
					keep = append(keep, e)
				}
			}
		}
		diff.SortEdits(keep)
		out, err := diff.ApplyBytes(read(fname), keep)
		if err != nil {
			return nil, nil
		}
		overlay[fname] = out
	}
	var notes []InlineNote
	for _, c := range cands {
		if inlined[c.obj] > 0 || removed[c.obj] {
			notes = append(notes, InlineNote{Helper: c.id, Calls: inlined[c.obj], Skipped: skipped[c.obj], Removed: removed[c.obj]})
		}
	}
	sort.Slice(notes, func(i, j int) bool { return notes[i].Helper < notes[j].Helper })
	if len(notes) == 0 {
		return nil, nil
	}
	return overlay, notes
}

func safeInline(caller *inline.Caller, callee *inline.Callee) (r *inline.Result, err error) {
	defer func() {
		if p := recover(); p != nil {
			r, err = nil, fmt.Errorf("inliner panic: %v", p)
		}
	}()
	return inline.Inline(caller, callee, &inline.Options{Logf: func(string, ...any) {}})
}

// SameOverlay reports whether two overlays hold the same contents.
func SameOverlay(a, b map[string][]byte) bool {
	if len(a) != len(b) {
		return false
	}
	for k, v := range a {
		if !bytes.Equal(v, b[k]) {
			return false
		}
	}
	return true
}

// NotesString renders inline notes for reports.
func NotesString(notes []InlineNote) string {
	var parts []string
	for _, n := range notes {
		s := fmt.Sprintf("%s (%d call(s) inlined", n.Helper, n.Calls)
		if n.Skipped > 0 {
			s += fmt.Sprintf(", %d left", n.Skipped)
		}
		if n.Removed {
			s += ", declaration removed"
		}
		parts = append(parts, s+")")
	}
	return strings.Join(parts, "; ")
}

var _ = token.NoPos

// ifaceMethodNamed reports whether an interface type declared in pkg (or
// embedded in one of its declarations) has a method called name.
func ifaceMethodNamed(pkg *types.Package, name string) bool {
	sc := pkg.Scope()
	for _, n := range sc.Names() {
		tn, ok := sc.Lookup(n).(*types.TypeName)
		if !ok {
			continue
		}
		it, ok := tn.Type().Underlying().(*types.Interface)
		if !ok {
			continue
		}
		for i := 0; i < it.NumMethods(); i++ {
			if it.Method(i).Name() == name {
				return true
			}
		}
	}
	return false
}
