package htlcswitch

import (
	"io"
	"testing"
	"time"

	"github.com/btcsuite/btcd/btcutil/v2"
	"github.com/lightningnetwork/lnd/htlcswitch/hop"
	"github.com/lightningnetwork/lnd/lnwire"
	"github.com/lightningnetwork/lnd/record"
	"github.com/stretchr/testify/require"
)

// probe1Iterator is a hop iterator of an onion that decoded fine (the outer
// DecodeHopIterators result is CodeNone) but whose payload is invalid AND whose
// error encrypter cannot be derived (in production: the ECDH of
// sphinx.NewOnionErrorEncrypter fails, e.g. a remote signer hiccup).
type probe1Iterator struct {
	encrypterCode lnwire.FailCode
}

func (p *probe1Iterator) HopPayload() (*hop.Payload, hop.RouteRole, error) {
	return nil, hop.RouteRoleCleartext, hop.ErrInvalidPayload{
		Type:      record.AmtOnionType,
		Violation: hop.OmittedViolation,
	}
}

func (p *probe1Iterator) EncodeNextHop(io.Writer) error { return nil }

func (p *probe1Iterator) ExtractErrorEncrypter(hop.ErrorEncrypterExtracter,
	bool) (hop.ErrorEncrypter, lnwire.FailCode) {

	return nil, p.encrypterCode
}

// TestProbe1MalformedFailCarriesInnerFailCode drives the REAL
// channelLink.processRemoteAdds with one locked-in incoming Add whose onion
// decodes (outer failure code == CodeNone), whose payload is invalid, and for
// which ExtractErrorEncrypter then fails with CodeInvalidOnionKey.
//
// The link must answer with update_fail_malformed_htlc carrying that code
// (BADONION bit set). On the unmodified tree it sends the OUTER decode result,
// which is CodeNone at that point: failure_code 0 without the BADONION bit, for
// which BOLT 2 makes the receiver fail the channel.
func TestProbe1MalformedFailCarriesInnerFailCode(t *testing.T) {
	t.Parallel()

	const chanAmt = btcutil.SatoshiPerBitcoin * 5
	const chanReserve = btcutil.SatoshiPerBitcoin * 1
	harness, err := newSingleLinkTestHarness(t, chanAmt, chanReserve)
	require.NoError(t, err)

	//nolint:forcetypeassert
	coreLink := harness.aliceLink.(*channelLink)

	// Outer decode succeeds for every Add and hands out the probe
	// iterator. Installed before the link is started.
	coreLink.cfg.DecodeHopIterators = func(_ []byte,
		reqs []hop.DecodeHopIteratorRequest, _ bool) (
		[]hop.DecodeHopIteratorResponse, error) {

		resps := make([]hop.DecodeHopIteratorResponse, len(reqs))
		for i := range reqs {
			resps[i] = hop.DecodeHopIteratorResponse{
				HopIterator: &probe1Iterator{
					encrypterCode: lnwire.CodeInvalidOnionKey,
				},
				FailCode: lnwire.CodeNone,
			}
		}

		return resps, nil
	}

	require.NoError(t, harness.start())
	defer harness.aliceLink.Stop()

	aliceMsgs := coreLink.cfg.Peer.(*mockPeer).sentMsgs //nolint:forcetypeassert

	ctx := linkTestContext{
		t:           t,
		aliceSwitch: harness.aliceSwitch,
		aliceLink:   harness.aliceLink,
		aliceMsgs:   aliceMsgs,
		bobChannel:  harness.bobChannel,
	}

	// Lock in one Add from Bob on both commitments.
	htlc := generateHtlc(t, coreLink, 0)
	ctx.sendHtlcBobToAlice(htlc)
	ctx.sendCommitSigBobToAlice(1)
	ctx.receiveRevAndAckAliceToBob()
	ctx.receiveCommitSigAliceToBob(1)
	ctx.sendRevAndAckBobToAlice()

	// processRemoteAdds now runs on the locked-in Add.
	var msg lnwire.Message
	select {
	case msg = <-aliceMsgs:
	case <-time.After(15 * time.Second):
		t.Fatalf("alice sent nothing for the undecodable add")
	}

	malformed, ok := msg.(*lnwire.UpdateFailMalformedHTLC)
	require.Truef(t, ok, "expected UpdateFailMalformedHTLC, got %T", msg)
	require.Equal(t, htlc.ID, malformed.ID)

	if malformed.FailureCode&lnwire.FlagBadOnion == 0 {
		t.Fatalf("PROBE FIRES: update_fail_malformed_htlc sent with "+
			"failure_code=%d (%v): BADONION bit is not set, the "+
			"peer must fail the channel (BOLT 2); expected %v",
			uint16(malformed.FailureCode), malformed.FailureCode,
			lnwire.CodeInvalidOnionKey)
	}
	require.Equal(t, lnwire.CodeInvalidOnionKey, malformed.FailureCode)
}
