// Copyright 2019 The Go Authors. All rights reserved.
// Use of this source code is governed by a BSD-style
// license that can be found in the LICENSE file.

// Package diff computes differences between text files or strings.
package diff

import (
	"fmt"
	"sort"
	"strings"
)

// An Edit describes the replacement of a portion of a text file.
type Edit struct {
	Start, End int    // byte offsets of the region to replace
	New        string // the replacement
}

func (e Edit) String() string {
	return fmt.Sprintf("{Start:%d,End:%d,New:%q}", e.Start, e.End, e.New)
}

// Apply applies a sequence of edits to the src buffer and returns the
// result. Edits are applied in order of start offset; edits with the
// same start offset are applied in they order they were provided.
//
// Apply returns an error if any edit is out of bounds,
// or if any pair of edits is overlapping.
func Apply(src string, edits []Edit) (string, error) {
	edits, size, err := validate(src, edits)
	if err != nil {
		return "", err
	}

	// Apply edits.
	out := make([]byte, 0, size)
	lastEnd := 0
	for _, edit := range edits {
		if lastEnd < edit.Start {
			out = append(out, src[lastEnd:edit.Start]...)
		}
		out = append(out, edit.New...)
		lastEnd = edit.End
	}
	out = append(out, src[lastEnd:]...)

	if len(out) != size {
		panic("wrong size")
	}

	return string(out), nil
}

// ApplyBytes is like Apply, but it accepts a byte slice.
// The result is always a new array.
func ApplyBytes(src []byte, edits []Edit) ([]byte, error) {
	res, err := Apply(string(src), edits)
	return []byte(res), err
}

// validate checks that edits are consistent with src,
// and returns the size of the patched output.
// It may return a different slice.
func validate(src string, edits []Edit) ([]Edit, int, error) {
	if !sort.IsSorted(editsSort(edits)) {
		edits = append([]Edit(nil), edits...)
		SortEdits(edits)
	}

	// Check validity of edits and compute final size.
	size := len(src)
	lastEnd := 0
	for _, edit := range edits {
		if !(0 <= edit.Start && edit.Start <= edit.End && edit.End <= len(src)) {
			return nil, 0, fmt.Errorf("diff has out-of-bounds edits")
		}
		if edit.Start < lastEnd {
			return nil, 0, fmt.Errorf("diff has overlapping edits")
		}
		size += len(edit.New) + edit.Start - edit.End
		lastEnd = edit.End
	}

	return edits, size, nil
}

// SortEdits orders a slice of Edits by (start, end) offset.
// This ordering puts insertions (end = start) before deletions
// (end > start) at the same point, but uses a stable sort to preserve
// the order of multiple insertions at the same point.
// (Apply detects multiple deletions at the same point as an error.)
func SortEdits(edits []Edit) {
	sort.Stable(editsSort(edits))
}

type editsSort []Edit

func (a editsSort) Len() int { return len(a) }
func (a editsSort) Less(i, j int) bool {
	if cmp := a[i].Start - a[j].Start; cmp != 0 {
		return cmp < 0
	}
	return a[i].End < a[j].End
}
func (a editsSort) Swap(i, j int) { a[i], a[j] = a[j], a[i] }

// lineEdits expands and merges a sequence of edits so that each
// resulting edit replaces one or more complete lines.
// See ApplyEdits for preconditions.
func lineEdits(src string, edits []Edit) ([]Edit, error) {
	edits, _, err := validate(src, edits)
	if err != nil {
		return nil, err
	}

	// Do all deletions begin and end at the start of a line,
	// and all insertions end with a newline?
	// (This is merely a fast path.)
	for _, edit := range edits {
		if edit.Start >= len(src) || // insertion at EOF
			edit.Start > 0 && src[edit.Start-1] != '\n' || // not at line start
			edit.End > 0 && src[edit.End-1] != '\n' || // not at line start
			edit.New != "" && edit.New[len(edit.New)-1] != '\n' { // partial insert
			goto expand // slow path
		}
	}
	return edits, nil // aligned

expand:
	if len(edits) == 0 {
		return edits, nil // no edits (unreachable due to fast path)
	}
	expanded := make([]Edit, 0, len(edits)) // a guess
	prev := edits[0]
	// TODO(adonovan): opt: start from the first misaligned edit.
	// TODO(adonovan): opt: avoid quadratic cost of string += string.
	for _, edit := range edits[1:] {
		between := src[prev.End:edit.Start]
		if !strings.Contains(between, "\n") {
			// overlapping lines: combine with previous edit.
			prev.New += between + edit.New
			prev.End = edit.End
		} else {
			// non-overlapping lines: flush previous edit.
			expanded = append(expanded, expandEdit(prev, src))
			prev = edit
		}
	}
	return append(expanded, expandEdit(prev, src)), nil // flush final edit
}

// expandEdit returns edit expanded to complete whole lines.
func expandEdit(edit Edit, src string) Edit {
	// Expand start left to start of line.
	// (delta is the zero-based column number of start.)
	start := edit.Start
	if delta := start - 1 - strings.LastIndex(src[:start], "\n"); delta > 0 {
		edit.Start -= delta
		edit.New = src[start-delta:start] + edit.New
	}

	// Expand end right to end of line.
	end := edit.End
	if end > 0 && src[end-1] != '\n' ||
		edit.New != "" && edit.New[len(edit.New)-1] != '\n' {
		if nl := strings.IndexByte(src[end:], '\n'); nl < 0 {
			edit.End = len(src) // extend to EOF
		} else {
			edit.End = end + nl + 1 // extend beyond \n
		}
	}
	edit.New += src[end:edit.End]

	return edit
}
