package spec

import (
	"go/ast"

	"lndlint/internal/an"
)

// c08Replay: what a link replays when it comes up, and the store operations
// that make an acknowledgement durable for every reference handed in.
func c08Replay(r *an.Run) {
	p := r.Prog

	r.Obl("restart-replays-every-unfinished-package", "GUARD",
		"channelLink.resolveFwdPkg replays the settles/fails of the package it is given (processRemoteSettleFails) exactly when the package's SettleFailFilter is not full, and its adds (processRemoteAdds) exactly when its AckFilter is not full or the package is still in FwdStateLockedIn (a package without adds has a trivially full ack filter and must pass processRemoteAdds once to get its forwarding filter written): each of these conditions alone makes the call unavoidable, nothing else restricts it; both are called once, with that package; channelLink.resolveFwdPkgs hands every package channel.LoadFwdPkgs returned to resolveFwdPkg (every iteration of the loop over exactly that list); processRemoteAdds leaves a loop over the adds by return only after l.failf (the link is being torn down)",
		"a settle/fail recorded in a forwarding package whose first hand-over to the switch was lost is propagated only by this replay: an additional condition (e.g. all adds of the package resolved) leaves the incoming HTLC and the circuit dangling although downstream was paid; a locked-in package that is never handed to processRemoteAdds is never marked processed, is reloaded at every restart and never collected", 2,
		func(o *an.Obl) {
			f := p.Func(hs + "channelLink.resolveFwdPkg")
			notFull := func(filter string) an.Fact {
				c := `$p0.` + filter + `.IsFull()`
				return an.Truth(canonTerm(`^`+regexpQuote(c)+`$`), false, "!"+c)
			}
			lockedIn := an.Cmp(an.FieldPath(an.Param(0), "State"), an.EQ, c08f5LockedIn, "$p0.State == FwdStateLockedIn")
			for _, rp := range []struct {
				callee  string
				allowed []string
				conds   []an.Fact
			}{
				{"processRemoteSettleFails", []string{`^!\(\w+\.SettleFailFilter\.IsFull\(\)\)$`}, []an.Fact{notFull("SettleFailFilter")}},
				{"processRemoteAdds", []string{`^!\(\w+\.AckFilter\.IsFull\(\)\)$`, `^\w+\.State == (channeldb|chanstate)\.FwdStateLockedIn$`}, []an.Fact{notFull("AckFilter"), lockedIn}},
			} {
				cs := f.Calls(an.CalleeIs(hs+"channelLink."+rp.callee), true)
				if !c08OneDirect(o, f, rp.callee, cs) {
					continue
				}
				if a := f.ArgCanon(cs[0]); a[0] != "$p0" {
					o.FailAt(f.ID+"#replays-other-package:"+rp.callee, cs[0].Where(), "%s is given %s, expected the package being resolved", rp.callee, a[0])
				}
				c08f5CalledExactlyWhen(o, f, cs[0], rp.callee+" on restart", rp.allowed, rp.conds...)
			}
			notReassigned(o, f, f.Params(false)[0].Name())
			// every package the channel has stored is resolved
			g := p.Func(hs + "channelLink.resolveFwdPkgs")
			ld := g.Calls(an.CalleeIs(lw+"LightningChannel.LoadFwdPkgs"), true)
			rs := g.Calls(an.CalleeIs(hs+"channelLink.resolveFwdPkg"), true)
			if c08OneDirect(o, g, "channel.LoadFwdPkgs", ld) && c08OneDirect(o, g, "resolveFwdPkg", rs) {
				all := g.Canon(ld[0].Node.(*ast.CallExpr))
				loopRe := "^" + regexpQuote(all) + "$"
				mustPass(o, g, "channel.LoadFwdPkgs", ld, an.OkErrNil, rs)
				loopVisitsAll(o, g, loopRe)
				everyIteration(o, g, loopRe, rs, "resolveFwdPkg")
				if a := g.ArgCanon(rs[0]); a[0] != "$elem("+all+")" {
					o.FailAt(g.ID+"#resolves-other-package", rs[0].Where(), "resolveFwdPkg is given %s, expected the package of this iteration ($elem(%s))", a[0], all)
				}
			}
			// processRemoteAdds gives up on the remaining adds only when the link
			// is being failed
			h := p.Func(hs + "channelLink.processRemoteAdds")
			failf := h.Calls(an.CalleeIs(hs+"channelLink.failf"), false)
			var rets []an.Site
			for _, rt := range h.Returns() {
				if rt.Node != nil && enclosingLoopHeader(h, rt.Node) != "" {
					rets = append(rets, rt)
				}
			}
			o.Site("%s: %d returns inside its loops, %d l.failf calls", h.ID, len(rets), len(failf))
			if len(rets) > 0 {
				before(o, h, "l.failf", failf, "return inside a loop over the adds", rets)
			}
		})

	r.Obl("forwarding-package-store-covers-every-reference", "PATH",
		"the forwarding-package store of channeldb processes every element it is handed: AckAddHtlcs / ackAddHtlcsAtHeight every AddRef (every height group, every index), AckSettleFails (channel and switch packager, both through ackSettleFails) / ackSettleFailsAtHeight every SettleFailRef (every destination, height and index), AddFwdPkg every add and settle/fail of the package, LoadFwdPkgs / LoadChannelFwdPkgs (both through loadChannelFwdPkgs) every stored height: none of their loops is left by break, goto or a successful return, none runs over a part of its operand, and none was replaced",
		"AckAddHtlcs is what makes `this incoming add has been answered` durable together with the commitment signature (CommitDiff.AddAcks), AckSettleFails the same for a delivered response: a reference that is skipped stays un-acked, so the add is forwarded a second time (or the response re-delivered) after the next restart and the package never completes", 9,
		func(o *an.Obl) {
			if !p.HasPkg("channeldb") {
				o.FailAt("channeldb#not-loaded", "", "package channeldb is not loaded")
				return
			}
			want := map[string]int{
				"channeldb.ChannelPackager.AddFwdPkg":   2,
				"channeldb.loadChannelFwdPkgs":          1,
				"channeldb.ChannelPackager.AckAddHtlcs": 2,
				"channeldb.ackAddHtlcsAtHeight":         1,
				"channeldb.ackSettleFails":              3,
				"channeldb.ackSettleFailsAtHeight":      1,
			}
			total := 0
			for _, id := range c08SortedKeys(want) {
				f := p.FuncOpt(id)
				if f == nil {
					o.FailAt(id+"#missing", "", "store function %s not found: the anchor moved", id)
					continue
				}
				n := 0
				for _, lf := range append([]*an.Func{f}, f.Lits...) {
					n += checkLoops(o, id, lf)
				}
				total += n
				o.Site("%s: %d loops checked", id, n)
				if n < want[id] {
					o.FailAt(id+"#fewer-loops", f.Where(f.Body.Pos()), "%s has %d loops, %d were confirmed by reading: a per-element loop was replaced", id, n, want[id])
				}
			}
			// the entry points hand everything they get to those functions
			for _, d := range []struct{ from, to, arg string }{
				{"channeldb.ChannelPackager.AckSettleFails", "channeldb.ackSettleFails", "$p1"},
				{"channeldb.SwitchPackager.AckSettleFails", "channeldb.ackSettleFails", "$p1"},
				{"channeldb.ChannelPackager.LoadFwdPkgs", "channeldb.loadChannelFwdPkgs", "$recv.source"},
				{"channeldb.SwitchPackager.LoadChannelFwdPkgs", "channeldb.loadChannelFwdPkgs", "$p1"},
			} {
				f := p.FuncOpt(d.from)
				if f == nil {
					o.FailAt(d.from+"#missing", "", "store function %s not found: the anchor moved", d.from)
					continue
				}
				cs := f.Calls(an.CalleeIs(d.to), true)
				if !needExactly(o, f, d.to, cs, 1) {
					continue
				}
				if a := f.ArgCanon(cs[0]); a[1] != d.arg {
					o.FailAt(d.from+"#delegates-part", cs[0].Where(), "%s hands %s to %s, expected %s", d.from, a[1], d.to, d.arg)
				}
				if _, isRet := cs[0].V.Node.(*ast.ReturnStmt); !isRet {
					o.FailAt(d.from+"#delegation-shape", cs[0].Where(), "%s does not return the result of %s directly", d.from, d.to)
				}
				for _, lf := range append([]*an.Func{f}, f.Lits...) {
					if n := checkLoops(o, d.from, lf); n != 0 {
						o.Site("%s: %d loops checked", d.from, n)
					}
				}
			}
			// AckAddHtlcs hands each height group to ackAddHtlcsAtHeight
			if f := p.FuncOpt("channeldb.ChannelPackager.AckAddHtlcs"); f != nil {
				cs := f.Calls(an.CalleeIs("channeldb.ackAddHtlcsAtHeight"), true)
				if needExactly(o, f, "ackAddHtlcsAtHeight", cs, 1) {
					if hdr := enclosingLoopHeader(f, cs[0].Node); hdr == "" {
						o.FailAt(f.ID+"#groups-not-looped", cs[0].Where(), "ackAddHtlcsAtHeight is not called inside a loop over the height groups")
					} else {
						everyIteration(o, f, "^"+regexpQuote(hdr)+"$", cs, "ackAddHtlcsAtHeight")
					}
				}
			}
		})
}

func c08SortedKeys(m map[string]int) []string {
	var out []string
	for k := range m {
		out = append(out, k)
	}
	sortStrings(out)
	return out
}
