#!/bin/bash
# usage: tryseed.sh <patch.diff> <Cxx>...   applies a seeded change to /repo, runs the checks, reverts.
patch="$1"; shift
cd /repo || exit 2
# every seeded tree compiles its changed packages into the checker's private build cache: trim it before it fills the disk
sz=$(du -s /root/.cache/go-build-verif 2>/dev/null | cut -f1); [ "${sz:-0}" -gt 40000000 ] && rm -rf /root/.cache/go-build-verif/*
if [ -n "$(git status --porcelain)" ]; then echo "/repo not clean"; exit 2; fi
git apply "$patch" || { echo "patch does not apply"; exit 2; }
# evidence of a seeded tree goes to a scratch directory, never to /verif/evidence
scratch=${LLVERIF:-$(mktemp -d)}; mkdir -p "$scratch"; cp /verif/known_findings.json "$scratch"/ 2>/dev/null
for id in "$@"; do (cd /verif && . ./env.sh && ${LL:-./bin/lndlint} check -verif "$scratch" "$id" 2>&1 | grep -E "^(OK|FAIL|VIOLATION|KNOWN)" | cut -c1-400); done
git checkout -- . && git status --porcelain | head -3
[ -z "$LLVERIF" ] && rm -rf "$scratch"
