package graphdb

import (
	"testing"

	"github.com/lightningnetwork/lnd/fn/v2"
	"github.com/lightningnetwork/lnd/graph/db/models"
	"github.com/lightningnetwork/lnd/lnwire"
	"github.com/lightningnetwork/lnd/routing/route"
	"github.com/stretchr/testify/require"
)

// TestProbeCacheKeepsDroppedInboundFee (package dir: graph/db) shows that the
// graph cache keeps the inbound fee of a node after that node replaced its
// policy by one that carries no inbound fee record (GraphCache.UpdatePolicy
// only ever writes channel.InboundFee inside InboundFee.WhenSome). The kv/sql
// store paths rebuild DirectedChannel.InboundFee from the current policy and
// report zero, so pathfinding with and without the cache disagree, and with the
// cache a dropped discount (negative inbound fee) keeps being subtracted from
// what the route pays that node.
func TestProbeCacheKeepsDroppedInboundFee(t *testing.T) {
	nodeA, nodeB := pubKey1, pubKey2

	discount := lnwire.Fee{BaseFee: -5000, FeeRate: -60000}

	// Policy of node A (node 1) with an inbound discount.
	outPolicyA := &models.CachedEdgePolicy{
		ChannelID: 1000,
		IsNode1:   true,
		ToNodePubKey: func() route.Vertex {
			return nodeB
		},
		InboundFee: fn.Some(discount),
	}
	outPolicyB := &models.CachedEdgePolicy{
		ChannelID: 1000,
		IsNode1:   false,
		ToNodePubKey: func() route.Vertex {
			return nodeA
		},
	}

	cache := NewGraphCache(10)
	cache.AddNodeFeatures(nodeA, lnwire.EmptyFeatureVector())
	cache.AddNodeFeatures(nodeB, lnwire.EmptyFeatureVector())
	cache.AddChannel(&models.CachedEdgeInfo{
		ChannelID:     1000,
		NodeKey1Bytes: pubKey1,
		NodeKey2Bytes: pubKey2,
		Capacity:      500,
	}, outPolicyA, outPolicyB)

	inboundOfA := func() lnwire.Fee {
		var fee lnwire.Fee
		_ = cache.ForEachChannel(nodeA, func(c *DirectedChannel) error {
			fee = c.InboundFee
			return nil
		})

		return fee
	}
	require.Equal(t, discount, inboundOfA())

	// Node A announces a new policy without an inbound fee record.
	newPolicyA := &models.CachedEdgePolicy{
		ChannelID:   1000,
		IsNode1:     true,
		FeeBaseMSat: 1,
		ToNodePubKey: func() route.Vertex {
			return nodeB
		},
	}
	cache.UpdatePolicy(newPolicyA, nodeA, nodeB)

	require.Equal(t, lnwire.Fee{}, inboundOfA(),
		"cache still applies the inbound fee of the replaced policy")
}
