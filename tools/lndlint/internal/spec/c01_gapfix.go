package spec

// Helpers of the C01 obligations added while closing the adversarial gaps
// (tools/scripts/gaps/advA-gap-report.txt G12-G39, G69).

import (
	"go/ast"
	"go/token"
	"go/types"
	"regexp"
	"strings"

	"lndlint/internal/an"
	"lndlint/internal/flow"
)

// c01ObjTerm matches identifiers that refer to obj.
func c01ObjTerm(obj types.Object) an.Term {
	return func(fn *an.Func, e ast.Expr) bool {
		id, ok := e.(*ast.Ident)
		return ok && obj != nil && (fn.Info().Uses[id] == obj || fn.Info().Defs[id] == obj)
	}
}

func c01ObjOf(f *an.Func, e ast.Expr) types.Object {
	id, ok := ast.Unparen(e).(*ast.Ident)
	if !ok {
		return nil
	}
	if o := f.Info().Uses[id]; o != nil {
		return o
	}
	return f.Info().Defs[id]
}

// c01LitFields returns field -> canonical value of a keyed composite literal.
func c01LitFields(f *an.Func, cl *ast.CompositeLit) map[string]string {
	out := map[string]string{}
	for _, el := range cl.Elts {
		if kv, ok := el.(*ast.KeyValueExpr); ok {
			out[an.Text(kv.Key)] = f.Canon(kv.Value)
		}
	}
	return out
}

// c01LitsOfType lists the composite literals of the named type (pkg.Name) in
// the body of f, nested function literals included.
func c01LitsOfType(f *an.Func, typeID string) []*ast.CompositeLit {
	var out []*ast.CompositeLit
	ast.Inspect(f.Body, func(n ast.Node) bool {
		if c, ok := n.(*ast.CompositeLit); ok && an.TypeID(f.Info().TypeOf(c)) == typeID {
			out = append(out, c)
		}
		return true
	})
	return out
}

// c01FundingPerspectives: in CreateCommitmentTxns the first CreateCommitTx
// call is the local perspective and the transactions are returned as (ours,
// theirs).
func c01FundingPerspectives(o *an.Obl, g *an.Func, gs []an.Site) {
	a := g.ArgCanon(gs[0])
	ok := len(a) == 11 && reMatch(`^lnwallet\.DeriveCommitmentKeys\(\$p4, lntypes\.Local, `, a[2]) &&
		a[3] == "$p2" && a[4] == "$p3" && a[5] == "$p0" && a[6] == "$p1" && a[8] == "$p8" && strings.HasSuffix(a[10], ".localAuxLeaves")
	o.Site("funding path: local perspective %s", gs[0].String())
	if !ok {
		o.FailAt(g.ID+"#local-perspective", gs[0].Where(), "the first CreateCommitTx call of the funding path must be our perspective (local commit point and Local owner, ourChanCfg, theirChanCfg, localBalance, remoteBalance, initiator, localAuxLeaves); got %v", a)
	}
	var names []string
	for i, pv := range g.Params(false) {
		if i <= 5 || i == 8 {
			names = append(names, pv.Name())
		}
	}
	notReassigned(o, g, names...)
	succ := g.StrictSuccessReturns()
	if !need(o, g, "success return", succ, 1) {
		return
	}
	for _, s := range succ {
		rs, _ := s.Node.(*ast.ReturnStmt)
		if rs == nil || len(rs.Results) != 3 {
			o.FailAt(g.ID+"#return-shape", s.Where(), "unexpected success return %s", s.String())
			continue
		}
		for i := 0; i < 2; i++ {
			want := g.Canon(gs[i].Node.(ast.Expr))
			got := g.Canon(rs.Results[i])
			o.Site("funding path: result %d is the transaction of call %d", i, i)
			if got != want {
				o.FailAt(g.ID+"#return-order", s.Where(), "result %d of CreateCommitmentTxns must be the transaction built by the %s perspective call; got %s", i, []string{"local", "remote"}[i], got)
			}
		}
	}
}

// c01FeeCanon extracts the fee operand of the `fee > balance.ToSatoshis()`
// atoms of the fee switch.
func c01FeeCanon(atoms []string) string {
	x := strings.TrimSuffix(strings.TrimPrefix(atoms[1], "("), " > $p0.ToSatoshis())")
	y := strings.TrimSuffix(strings.TrimPrefix(atoms[2], "("), " > $p1.ToSatoshis())")
	if x != y {
		return ""
	}
	return x
}

// c01BuilderResult: the unsignedCommitmentTx handed back by
// createUnsignedCommitmentTx carries the two balance parameters (whose only
// writers are the fee switch) and the fee that was debited.
func c01BuilderResult(o *an.Obl, f *an.Func, fee string) {
	lits := c01LitsOfType(f, lw+"unsignedCommitmentTx")
	if len(lits) != 1 {
		o.FailAt(f.ID+"#result-literal", f.Where(f.Body.Pos()), "expected one unsignedCommitmentTx literal in %s, found %d", f.ID, len(lits))
		return
	}
	got := c01LitFields(f, lits[0])
	o.Site("builder result: ourBalance=%s theirBalance=%s fee=%s", got["ourBalance"], got["theirBalance"], got["fee"])
	for k, want := range map[string]string{"ourBalance": "$p0", "theirBalance": "$p1", "fee": fee} {
		if got[k] != want {
			o.FailAt(f.ID+"#result-"+k, f.Where(lits[0].Pos()), "the returned unsignedCommitmentTx has %s = %s; expected %s (the balances move by the fee switch only)", k, got[k], want)
		}
	}
	// the capacity check adds the same fee to the sum of the outputs
	var sumObj types.Object
	ast.Inspect(f.Body, func(n ast.Node) bool {
		be, ok := n.(*ast.BinaryExpr)
		if !ok || be.Op != token.GTR || !strings.HasSuffix(f.Canon(be.Y), ".Capacity") {
			return true
		}
		lhs := ast.Unparen(be.X)
		// a temporary holding the sum (`t := total + fee; if t > Capacity`)
		if id, ok := lhs.(*ast.Ident); ok {
			if d := f.UniqueDef(id); d != nil {
				lhs = ast.Unparen(d)
			}
		}
		if add, ok := lhs.(*ast.BinaryExpr); ok && add.Op == token.ADD {
			if f.Canon(add.Y) != fee {
				o.FailAt(f.ID+"#capacity-fee", f.Where(be.Pos()), "the capacity check adds %s to the outputs, not the commitment fee %s", f.Canon(add.Y), fee)
			}
			sumObj = c01ObjOf(f, add.X)
		}
		return true
	})
	c01SumOfOutputs(o, f, sumObj, `^\S*Amount\(\$elem\(\$v:\*\S*MsgTx\.TxOut\)\.Value\)$`)
}

// c01SumOfOutputs: the local obj is written by exactly one `+=` of the value
// of every output of the transaction (rhsRe on the canonical right-hand side).
func c01SumOfOutputs(o *an.Obl, f *an.Func, obj types.Object, rhsRe string) {
	if obj == nil {
		o.FailAt(f.ID+"#output-sum", f.Where(f.Body.Pos()), "cannot find the variable holding the sum of the transaction outputs in %s", f.ID)
		return
	}
	ws := f.Assigns(c01ObjTerm(obj), true)
	n := 0
	for _, w := range ws {
		as, ok := w.Node.(*ast.AssignStmt)
		if ok && as.Tok == token.ADD_ASSIGN && len(as.Rhs) == 1 && reMatch(rhsRe, c01ElemNorm(f.Canon(as.Rhs[0]))) {
			n++
			o.Site("output sum %s", w.String())
			continue
		}
		rhs := ""
		if ok && len(as.Rhs) == 1 {
			rhs = f.Canon(as.Rhs[0])
		}
		o.FailAt(f.ID+"#output-sum-writer", w.Where(), "%s: the sum of the outputs is also written by %s (canonical right-hand side %s)", f.ID, w.String(), rhs)
	}
	if n != 1 {
		o.FailAt(f.ID+"#output-sum-count", f.Where(f.Body.Pos()), "%s: expected exactly one `total += Amount(txOut.Value)` over the outputs of the commitment transaction, found %d", f.ID, n)
	}
}

// c01ComputeViewBalances: the complete writer table of the two balances
// computeView returns. part "fee" reports on the starting balance and the
// credit-back of the previous fee (and on any write that is not an
// application of the evaluated deltas), part "deltas" on the writes that
// apply the balance deltas of evaluateHTLCView.
func c01ComputeViewBalances(o *an.Obl, g *an.Func, isInit an.Term, part string) {
	succ := g.StrictSuccessReturns()
	if !needExactly(o, g, "success return", succ, 1) {
		return
	}
	rs, _ := succ[0].Node.(*ast.ReturnStmt)
	if rs == nil || len(rs.Results) < 2 {
		o.FailAt(g.ID+"#return-shape", succ[0].Where(), "unexpected success return of computeView")
		return
	}
	objs := []types.Object{c01ObjOf(g, rs.Results[0]), c01ObjOf(g, rs.Results[1])}
	if objs[0] == nil || objs[1] == nil || objs[0] == objs[1] {
		o.FailAt(g.ID+"#returned-balances", succ[0].Where(), "computeView must return two distinct balance variables; got %s", succ[0].String())
		return
	}
	tipRecv := func(e ast.Expr) ast.Expr {
		var out ast.Expr
		ast.Inspect(e, func(n ast.Node) bool {
			if c, ok := n.(*ast.CallExpr); ok {
				if sel, ok := c.Fun.(*ast.SelectorExpr); ok && sel.Sel.Name == "tip" && out == nil {
					out = sel.X
				}
			}
			return true
		})
		return out
	}
	var chain types.Object
	sameChain := func(s an.Site, rhs ast.Expr) {
		x := tipRecv(rhs)
		obj := types.Object(nil)
		if x != nil {
			obj = c01ObjOf(g, x)
		}
		if _, isVar := obj.(*types.Var); !isVar || obj.(*types.Var).IsField() {
			o.FailAt(g.ID+"#chain-not-selected", s.Where(), "%s does not read the tip of the commitment chain selected for whoseCommitChain", s.String())
			return
		}
		if chain == nil {
			chain = obj
			selectorConsistent(o, g, s, x, an.Param(1), canonTerm(`commitChains\.Local$`), canonTerm(`commitChains\.Remote$`), "commitment chain")
			return
		}
		if obj != chain {
			o.FailAt(g.ID+"#chain-differs", s.Where(), "%s reads a different commitment chain than the starting balances", s.String())
		}
	}
	deltas := `\$recv\.evaluateHTLCView\(.*\)#2`
	for i, side := range []struct {
		bal, dside string
		init       bool
	}{{"ourBalance", "Local", true}, {"theirBalance", "Remote", false}} {
		cnt := map[string]int{}
		dterm := canonTerm(`^` + deltas + `\.` + side.dside + `$`)
		for _, s := range g.Assigns(c01ObjTerm(objs[i]), true) {
			as, ok := s.Node.(*ast.AssignStmt)
			if !ok || len(as.Rhs) != 1 || len(as.Lhs) != 1 {
				o.FailAt(g.ID+"#balance-writer-"+side.bal, s.Where(), "unclassified write of the %s computeView returns: %s", side.bal, s.String())
				continue
			}
			// `b = b + e` / `b = b - e` is `b += e` / `b -= e`; so is
			// `t := b; ...; b = t + e` when b is not written between the two
			// (the shape an extracted `b = apply(b, e)` helper has once it is
			// inlined: the parameter is bound to the balance, the returns
			// become the assignments).
			if tok, operand := c01SelfUpdate(g, s, objs[i]); operand != nil {
				as = &ast.AssignStmt{Lhs: as.Lhs, TokPos: as.TokPos, Tok: tok, Rhs: []ast.Expr{operand}}
			}
			rhs := g.Canon(as.Rhs[0])
			if strings.Contains(rhs, "evaluateHTLCView(") != (part == "deltas") {
				continue
			}
			o.Site("computeView %s writer: %s", side.bal, s.String())
			switch {
			case as.Tok == token.DEFINE && reMatch(`^.+\.tip\(\)\.`+side.bal+`$`, rhs):
				cnt["start"]++
				sameChain(s, as.Rhs[0])
			case as.Tok == token.ADD_ASSIGN && reMatch(`^lnwire\.NewMSatFromSatoshis\(.+\.tip\(\)\.fee\)$`, rhs):
				cnt["credit-back"]++
				sameChain(s, as.Rhs[0])
				desc := "IsInitiator"
				if !side.init {
					desc = "!IsInitiator"
				}
				guarded(o, g, s, an.Truth(isInit, side.init, desc))
			case as.Tok == token.ADD_ASSIGN && reMatch(`^lnwire\.MilliSatoshi\(`+deltas+`\.`+side.dside+`\)$`, rhs):
				cnt["delta+"]++
				guarded(o, g, s, an.Cmp(dterm, an.GE, an.IntConst(0), "deltas."+side.dside+" >= 0"))
			case as.Tok == token.SUB_ASSIGN && (reMatch(`^lnwire\.MilliSatoshi\(\(-1 \* `+deltas+`\.`+side.dside+`\)\)$`, rhs) || reMatch(`^lnwire\.MilliSatoshi\(-`+deltas+`\.`+side.dside+`\)$`, rhs)):
				cnt["delta-"]++
				guarded(o, g, s, an.Cmp(dterm, an.LT, an.IntConst(0), "deltas."+side.dside+" < 0"))
			default:
				o.FailAt(g.ID+"#balance-writer-"+side.bal, s.Where(), "unclassified write of the %s computeView returns: %s (canonical right-hand side %s); allowed: start from tip().%s, credit the previous fee back (+= NewMSatFromSatoshis(tip().fee)), apply deltas.%s", side.bal, s.String(), rhs, side.bal, side.dside)
			}
		}
		kinds := []string{"start", "credit-back"}
		if part == "deltas" {
			kinds = []string{"delta+", "delta-"}
		}
		for _, k := range kinds {
			if cnt[k] != 1 {
				o.FailAt(g.ID+"#balance-"+side.bal+"-"+k, g.Where(g.Body.Pos()), "computeView: expected exactly one %q write of %s, found %d", k, side.bal, cnt[k])
			}
		}
	}
}

// c01SelfUpdate recognises the write s of the variable obj as an in-place
// update `obj = <current value of obj> (+|-) operand` and returns the
// equivalent compound token (+= / -=) and the operand; (0, nil) otherwise.
// The current value of obj is the identifier obj itself, or a local that is
// defined exactly once, from the identifier obj, such that no other write of
// obj lies on a path from that definition to s.
func c01SelfUpdate(g *an.Func, s an.Site, obj types.Object) (token.Token, ast.Expr) {
	as, ok := s.Node.(*ast.AssignStmt)
	if !ok || as.Tok != token.ASSIGN || len(as.Lhs) != 1 || len(as.Rhs) != 1 || s.V == nil {
		return 0, nil
	}
	be, ok := ast.Unparen(as.Rhs[0]).(*ast.BinaryExpr)
	if !ok || (be.Op != token.ADD && be.Op != token.SUB) {
		return 0, nil
	}
	tok := token.ADD_ASSIGN
	if be.Op == token.SUB {
		tok = token.SUB_ASSIGN
	}
	id, ok := ast.Unparen(be.X).(*ast.Ident)
	if !ok {
		return 0, nil
	}
	// the operand must not read the balance itself
	reads := false
	ast.Inspect(be.Y, func(n ast.Node) bool {
		if x, ok := n.(*ast.Ident); ok && g.Info().Uses[x] == obj {
			reads = true
		}
		return true
	})
	if reads {
		return 0, nil
	}
	if g.Info().Uses[id] == obj {
		return tok, be.Y
	}
	// a temporary holding the balance
	owner := g
	def := g.UniqueDef(id)
	if def == nil {
		for _, l := range g.Lits {
			if l.Lit.Pos() <= id.Pos() && id.End() <= l.Lit.End() {
				if d := l.UniqueDef(id); d != nil {
					owner, def = l, d
				}
			}
		}
	}
	if def == nil {
		return 0, nil
	}
	src, ok := ast.Unparen(def).(*ast.Ident)
	if !ok || owner.Info().Uses[src] != obj {
		return 0, nil
	}
	gr := g.Graph()
	d := gr.Containing(src, true)
	if d == nil || d == s.V {
		return 0, nil
	}
	for _, w := range g.Assigns(c01ObjTerm(obj), true) {
		if w.V == nil || w.V == s.V {
			continue
		}
		if w.V == d {
			return 0, nil
		}
		if gr.Reach(d, nil, map[*flow.Vertex]bool{s.V: true})[w.V] && gr.Reach(w.V, nil, map[*flow.Vertex]bool{d: true})[s.V] {
			return 0, nil
		}
	}
	// the definition is executed before the write on every path
	if !gr.Reach(d, nil, nil)[s.V] {
		return 0, nil
	}
	return tok, be.Y
}

// c01ReachingDefs returns, for the variable obj, the definition vertices of f
// whose value can be in effect at vertex at ("decl" = zero-value declaration).
func c01ReachingDefs(f *an.Func, obj types.Object, at *flow.Vertex) (assigns []*flow.Vertex, zero bool) {
	g := f.Graph()
	kinds := map[*flow.Vertex]string{}
	for _, v := range g.V {
		for _, k := range assignedTo(f, v, obj) {
			kinds[v] = k
		}
	}
	for d, k := range kinds {
		stop := map[*flow.Vertex]bool{}
		for other := range kinds {
			if other != d {
				stop[other] = true
			}
		}
		// start behind d so that a loop back to d itself is seen as well
		reaches := false
		for _, e := range d.Out {
			if e.To == at || (!stop[e.To] && g.Reach(e.To, nil, stop)[at]) {
				reaches = true
			}
		}
		if !reaches || stop[at] {
			continue
		}
		if k == "decl" {
			zero = true
		} else {
			assigns = append(assigns, d)
		}
	}
	return
}

// c01VerifierFeeds: each second-level transaction the verifier rebuilds is
// fed from the HTLC index of its own direction.
func c01VerifierFeeds(o *an.Obl, v *an.Func, callee, index string) {
	sites := v.Calls(an.CalleeIs(callee), true)
	if !need(o, v, callee, sites, 1) {
		return
	}
	idxRe := `^\$p1\.` + index + `\[`
	for _, s := range sites {
		// the closure holding the call
		var lit *an.Func
		for _, l := range v.Lits {
			if l.Lit.Pos() <= s.Node.Pos() && s.Node.End() <= l.Lit.End() && (lit == nil || l.Lit.Pos() >= lit.Lit.Pos()) {
				lit = l
			}
		}
		if lit == nil {
			o.FailAt(v.ID+"#"+index+"-closure", s.Where(), "%s is no longer built inside the sighash closure", callee)
			continue
		}
		top := lit
		for top.Parent != nil && top.Parent != v {
			top = top.Parent
		}
		var obj types.Object
		mixed := false
		ast.Inspect(top.Lit.Body, func(n ast.Node) bool {
			sel, ok := n.(*ast.SelectorExpr)
			if !ok || (sel.Sel.Name != "localOutputIndex" && sel.Sel.Name != "Amount" && sel.Sel.Name != "ourWitnessScript") {
				return true
			}
			if x := c01ObjOf(v, sel.X); x != nil {
				if obj != nil && obj != x {
					mixed = true
				}
				obj = x
			}
			return true
		})
		if obj == nil || mixed {
			o.FailAt(v.ID+"#"+index+"-htlc", s.Where(), "cannot identify the single HTLC descriptor the closure around %s reads", callee)
			continue
		}
		at := v.Graph().Containing(top.Lit, true)
		site := an.Site{Fn: v, V: at, Node: top.Lit}
		guarded(o, v, site, an.Cmp(canonTerm(idxRe), an.NE, an.Nil(), index+"[outputIndex] != nil"))
		defs, zero := c01ReachingDefs(v, obj, at)
		if zero || len(defs) == 0 {
			o.FailAt(v.ID+"#"+index+"-unset", s.Where(), "the HTLC read by the closure around %s may be unset when the closure is created", callee)
		}
		for _, d := range defs {
			as, ok := d.Node.(*ast.AssignStmt)
			rhs := ""
			if ok && len(as.Rhs) == 1 {
				rhs = v.Canon(as.Rhs[0])
			}
			o.Site("%s closure reads the HTLC assigned at %s: %s", callee, v.Where(d.Pos()), rhs)
			if !reMatch(idxRe, rhs) {
				o.FailAt(v.ID+"#"+index+"-feed", v.Where(d.Pos()), "the closure that rebuilds %s reads an HTLC taken from %s; it must come from %s of the local commitment", callee, rhs, index)
			}
		}
	}
}

// c01SigHashTypes: the verifier's sighash computations and the signer's sign
// descriptors use the result of HtlcSigHashType(chanType).
func c01SigHashTypes(o *an.Obl, signer, verifier *an.Func) {
	want := "lnwallet.HtlcSigHashType($p0.ChanType)"
	n := 0
	for _, c := range []struct {
		name string
		arg  int
	}{{"CalcWitnessSigHash", 2}, {"CalcTapscriptSignaturehash", 1}} {
		for _, s := range verifier.Calls(an.CalleeNamed(c.name), true) {
			n++
			a := verifier.ArgCanon(s)
			o.Site("%s hash type %s", s.String(), a[c.arg])
			if a[c.arg] != want {
				o.FailAt(verifier.ID+"#sighash-type", s.Where(), "%s computes the HTLC sighash with hash type %s instead of HtlcSigHashType(chanType)", s.String(), a[c.arg])
			}
		}
	}
	if n < 4 {
		o.FailAt(verifier.ID+"#sighash-sites", "", "expected the four sighash computations of the verifier (witness v0 and tapscript, success and timeout), found %d", n)
	}
	want = "lnwallet.HtlcSigHashType($p1.ChanType)"
	lits := c01LitsOfType(signer, "input.SignDescriptor")
	if len(lits) < 2 {
		o.FailAt(signer.ID+"#sign-descriptors", "", "expected the two sign descriptors of the signer, found %d", len(lits))
	}
	for _, l := range lits {
		got := c01LitFields(signer, l)["HashType"]
		o.Site("signer sign descriptor at %s: HashType=%s", signer.Where(l.Pos()), got)
		if got != want {
			o.FailAt(signer.ID+"#sighash-type", signer.Where(l.Pos()), "the signer's sign descriptor has HashType %s instead of HtlcSigHashType(chanType)", got)
		}
	}
}

// c01LiveAddsFilter: the debit loop of evaluateHTLCView ranges over the adds
// of the party that are not in the party's skip set.
func c01LiveAddsFilter(o *an.Obl, f *an.Func, debit an.Site, party string) {
	var loop *ast.RangeStmt
	ast.Inspect(f.Body, func(n ast.Node) bool {
		if rs, ok := n.(*ast.RangeStmt); ok && rs.Pos() <= debit.Node.Pos() && debit.Node.End() <= rs.End() {
			if loop == nil || rs.Pos() >= loop.Pos() {
				loop = rs
			}
		}
		return true
	})
	fail := func(msg string, a ...any) {
		o.FailAt(f.ID+"#live-adds-filter", debit.Where(), msg, a...)
	}
	if loop == nil {
		fail("the debit is not inside a loop")
		return
	}
	var call *ast.CallExpr
	if id, ok := ast.Unparen(loop.X).(*ast.Ident); ok {
		if d := f.UniqueDef(id); d != nil {
			call, _ = ast.Unparen(d).(*ast.CallExpr)
		}
	}
	if call == nil || !strings.HasSuffix(an.CalleeID(f.Info(), call), ".Filter") || len(call.Args) != 2 {
		fail("the debit loop no longer ranges over fn.Filter(view.Updates.GetForParty(party), liveAdd): %s", an.Text(loop.X))
		return
	}
	if got := f.Canon(call.Args[0]); got != "$p0.Updates.GetForParty("+party+")" {
		fail("the debit loop filters %s, expected the updates of the debited party %s", got, party)
	}
	fl, _ := ast.Unparen(call.Args[1]).(*ast.FuncLit)
	var lf *an.Func
	if fl != nil {
		lf = f.LitFunc(fl)
	}
	if lf == nil {
		fail("the live-add predicate is not a function literal")
		return
	}
	var rets []*ast.ReturnStmt
	ast.Inspect(fl.Body, func(n ast.Node) bool {
		if r, ok := n.(*ast.ReturnStmt); ok {
			rets = append(rets, r)
		}
		_, nested := n.(*ast.FuncLit)
		return !nested
	})
	if len(rets) != 1 || len(rets[0].Results) != 1 {
		fail("the live-add predicate has %d return statements; expected one conjunction", len(rets))
		return
	}
	var conj []string
	var split func(e ast.Expr)
	split = func(e ast.Expr) {
		e = ast.Unparen(e)
		if id, ok := e.(*ast.Ident); ok {
			if d := lf.UniqueDef(id); d != nil {
				split(d)
				return
			}
		}
		if be, ok := e.(*ast.BinaryExpr); ok && be.Op == token.LAND {
			split(be.X)
			split(be.Y)
			return
		}
		conj = append(conj, lf.Canon(e))
	}
	split(rets[0].Results[0])
	o.Site("live-add predicate: %s", strings.Join(conj, " && "))
	isAdd, notSkipped := 0, 0
	for _, c := range conj {
		switch {
		case c == "$lit.p0.isAdd()":
			isAdd++
		case strings.HasPrefix(c, "!") && strings.HasSuffix(c, ".GetForParty("+party+").Contains($lit.p0.HtlcIndex)"):
			notSkipped++
		default:
			fail("unexpected conjunct %s in the live-add predicate", c)
		}
	}
	if isAdd != 1 || notSkipped != 1 {
		fail("the live-add predicate must be `pd.isAdd() && !skip[party].Contains(pd.HtlcIndex)`; got %s", strings.Join(conj, " && "))
	}
}

// c01FamilyDescriptor: the entry a settle/fail entry point appends is built
// from the HTLC it looked up and stamped with the counter of the log it is
// appended to.
func c01FamilyDescriptor(o *an.Obl, f *an.Func, app an.Site, fn, from, to string, idx int, settle bool) {
	arg := callArg(app, 0)
	var cl *ast.CompositeLit
	if id, ok := ast.Unparen(arg).(*ast.Ident); ok {
		if d := f.UniqueDef(id); d != nil {
			if u, ok := ast.Unparen(d).(*ast.UnaryExpr); ok {
				cl, _ = ast.Unparen(u.X).(*ast.CompositeLit)
			}
		}
	}
	if cl == nil {
		o.FailAt(f.ID+"#appended-descriptor", app.Where(), "%s: the appended entry is not a uniquely defined &paymentDescriptor{...}", fn)
		return
	}
	got := c01LitFields(f, cl)
	htlc := "$recv.updateLogs." + from + ".lookupHtlc($p" + itoa(idx) + ")"
	o.Site("%s appends %s", fn, c01KvString(got))
	check := func(k string, allowed ...string) {
		for _, a := range allowed {
			if got[k] == a {
				return
			}
		}
		o.FailAt(f.ID+"#descriptor-"+k, f.Where(cl.Pos()), "%s: the appended entry has %s = %q; expected %s", fn, k, got[k], strings.Join(allowed, " or "))
	}
	check("LogIndex", "$recv.updateLogs."+to+".logIndex")
	check("ParentIndex", "$p"+itoa(idx), htlc+".HtlcIndex")
	check("Amount", htlc+".Amount")
	switch {
	case settle:
		check("EntryType", "lnwallet.Settle")
		check("RPreimage", "$p0")
	case fn == "MalformedFailHTLC":
		check("EntryType", "lnwallet.MalformedFail")
	default:
		check("EntryType", "lnwallet.Fail")
	}
}

// c01CounterConstructor: newUpdateLog stores its two parameters in the
// counters of the same name, and every caller passes the (log index, htlc
// index) pair of one side of one commitment.
func c01CounterConstructor(o *an.Obl, p *an.Prog) {
	f := p.Func(lw + "newUpdateLog")
	lits := c01LitsOfType(f, lw+"updateLog")
	if len(lits) != 1 {
		o.FailAt(f.ID+"#literal", f.Where(f.Body.Pos()), "expected one updateLog literal in newUpdateLog, found %d", len(lits))
		return
	}
	got := c01LitFields(f, lits[0])
	o.Site("newUpdateLog: logIndex=%s htlcCounter=%s", got["logIndex"], got["htlcCounter"])
	if got["logIndex"] != "$p0" || got["htlcCounter"] != "$p1" {
		o.FailAt(f.ID+"#counter-pairing", f.Where(lits[0].Pos()), "newUpdateLog(logIndex, htlcCounter) must store its first parameter in logIndex and its second in htlcCounter; got logIndex=%s htlcCounter=%s", got["logIndex"], got["htlcCounter"])
	}
	re := regexp.MustCompile(`^(.*\.)(Local|Remote)LogIndex$`)
	n := 0
	for _, fn := range p.Funcs(false, "lnwallet") {
		for _, s := range fn.Calls(an.CalleeIs(lw+"newUpdateLog"), true) {
			n++
			a := fn.ArgCanon(s)
			o.Site("newUpdateLog caller %s (%s, %s)", s.String(), a[0], a[1])
			m := re.FindStringSubmatch(a[0])
			if m == nil || a[1] != m[1]+m[2]+"HtlcIndex" {
				o.FailAt(fn.ID+"#newUpdateLog-args", s.Where(), "newUpdateLog must receive (<commit>.<Side>LogIndex, <commit>.<Side>HtlcIndex) of one commitment and side; got (%s, %s)", a[0], a[1])
			}
		}
	}
	if n == 0 {
		o.FailAt(f.ID+"#no-callers", "", "no caller of newUpdateLog found")
	}
}

// c01DustBody: HtlcIsDust itself: trimmed iff amount minus the second-level
// fee is strictly below the dust limit; the fee is the success fee for the
// HTLCs the commitment owner receives and the timeout fee for those it offers.
func c01DustBody(o *an.Obl, p *an.Prog) {
	f := p.Func(lw + "HtlcIsDust")
	rets := f.Returns()
	if len(rets) != 1 {
		o.FailAt(f.ID+"#returns", f.Where(f.Body.Pos()), "expected a single return in HtlcIsDust, found %d", len(rets))
		return
	}
	rs, _ := rets[0].Node.(*ast.ReturnStmt)
	var feeObj types.Object
	okShape := false
	if rs != nil && len(rs.Results) == 1 {
		if be, ok := ast.Unparen(rs.Results[0]).(*ast.BinaryExpr); ok && be.Op == token.LSS && f.Canon(be.Y) == "$p5" {
			if sub, ok := ast.Unparen(be.X).(*ast.BinaryExpr); ok && sub.Op == token.SUB && f.Canon(sub.X) == "$p4" {
				feeObj = c01ObjOf(f, sub.Y)
				okShape = feeObj != nil
			}
		}
	}
	o.Site("HtlcIsDust returns %s", rets[0].String())
	if !okShape {
		o.FailAt(f.ID+"#threshold", rets[0].Where(), "HtlcIsDust must return (htlcAmt - htlcFee) < dustLimit (strictly below the limit: BOLT 3 trims outputs below, not at, the dust limit); got %s", rets[0].String())
		return
	}
	notReassigned(o, f, f.Params(false)[4].Name(), f.Params(false)[5].Name())
	ws := f.Assigns(c01ObjTerm(feeObj), false)
	atoms := []string{"$p1", "$p2.IsLocal()", "$p2.IsRemote()"}
	for _, val := range an.Valuations(atoms) {
		if val[atoms[1]] == val[atoms[2]] {
			continue
		}
		reach := f.ReachUnder(an.ByCanon(val))
		var got []string
		for _, w := range ws {
			if as, ok := w.Node.(*ast.AssignStmt); ok && reach[w.V] && len(as.Rhs) == 1 {
				got = append(got, f.Canon(as.Rhs[0]))
			}
		}
		// incoming on the owner's own commitment: the owner claims with a
		// success transaction; offered by the owner: timeout transaction
		want := "lnwallet.HtlcTimeoutFee($p0, $p3)"
		if val[atoms[0]] == val[atoms[1]] {
			want = "lnwallet.HtlcSuccessFee($p0, $p3)"
		}
		o.Site("HtlcIsDust fee table (incoming=%v, local commitment=%v) -> %v", val[atoms[0]], val[atoms[1]], got)
		if len(got) != 1 || got[0] != want {
			o.FailAt(f.ID+"#fee-table", f.Where(f.Body.Pos()), "HtlcIsDust: for incoming=%v on the %s commitment the second-level fee is %v, expected exactly [%s]", val[atoms[0]], map[bool]string{true: "local", false: "remote"}[val[atoms[1]]], got, want)
		}
	}
}

// c01DustPolarity: in the loops that trim dust the test's true edge ends the
// iteration without any effect (sense "skip"); in the dust-sum loops the false
// edge does (sense "sum").
func c01DustPolarity(o *an.Obl, f *an.Func, s an.Site, sense string) {
	if s.V.Kind != flow.KCond || ast.Unparen(s.V.Node.(ast.Expr)) != ast.Expr(s.Node.(*ast.CallExpr)) {
		o.FailAt(f.ID+"#dust-test-shape", s.Where(), "%s: the result of HtlcIsDust is not tested directly", s.String())
		return
	}
	var loop ast.Node
	ast.Inspect(f.Body, func(n ast.Node) bool {
		switch n.(type) {
		case *ast.RangeStmt, *ast.ForStmt:
			if n.Pos() <= s.Node.Pos() && s.Node.End() <= n.End() && (loop == nil || n.Pos() >= loop.Pos()) {
				loop = n
			}
		}
		return true
	})
	if loop == nil {
		o.FailAt(f.ID+"#dust-test-loop", s.Where(), "%s is not inside a loop", s.String())
		return
	}
	inLoop := func(v *flow.Vertex) bool {
		return v.Node != nil && loop.Pos() <= v.Node.Pos() && v.Node.End() <= loop.End()
	}
	idleOnTrue := sense != "sum"
	o.Site("%s: dust test at %s has sense %q", f.ID, s.Where(), sense)
	for _, e := range s.V.Out {
		if e.Kind != flow.ETrue && e.Kind != flow.EFalse {
			continue
		}
		isIdle := (e.Kind == flow.ETrue) == idleOnTrue
		// walk until the loop is left or its head is reached again
		seen := map[*flow.Vertex]bool{}
		work := []*flow.Vertex{e.To}
		effect := ""
		for len(work) > 0 {
			v := work[len(work)-1]
			work = work[:len(work)-1]
			if seen[v] {
				continue
			}
			seen[v] = true
			if v.Kind == flow.KRange || v.Node == nil && v.Kind != flow.KJoin {
				continue
			}
			if v.Kind != flow.KJoin {
				if !inLoop(v) {
					continue
				}
				if v.Kind == flow.KCond && v.Node.Pos() < s.Node.Pos() {
					continue // the loop condition of a three-clause loop
				}
				if br, ok := v.Node.(*ast.BranchStmt); ok && br.Tok == token.CONTINUE {
					// fall through to its target
				} else if as, ok := v.Node.(*ast.AssignStmt); ok && v.Node.Pos() < s.Node.Pos() && as.Tok == token.ASSIGN {
					continue // the post statement of a three-clause loop
				} else {
					effect = an.Text(v.Node)
					break
				}
			}
			for _, out := range v.Out {
				work = append(work, out.To)
			}
		}
		switch {
		case isIdle && effect != "":
			o.FailAt(f.ID+"#dust-polarity", s.Where(), "%s: the %v edge of the dust test must end the iteration without effect, but reaches %q (the polarity of the test is inverted or the branch does work)", f.ID, e.Kind == flow.ETrue, effect)
		case !isIdle && effect == "":
			o.FailAt(f.ID+"#dust-polarity", s.Where(), "%s: the %v edge of the dust test does nothing: the HTLCs it selects are not processed", f.ID, e.Kind == flow.ETrue)
		}
	}
}

// c01EffectiveFeeInputs: in fetchCommitmentView the fee whose rate is compared
// with the floor is Capacity minus the sum of the outputs of the transaction
// the builder returned; the builder is given tip().height+1 and the
// commitment records that height.
func c01EffectiveFeeInputs(o *an.Obl, g *an.Func) {
	var sumObj types.Object
	ast.Inspect(g.Body, func(n ast.Node) bool {
		be, ok := n.(*ast.BinaryExpr)
		if ok && be.Op == token.SUB && g.Canon(be.X) == "$recv.channelState.Capacity" {
			sumObj = c01ObjOf(g, be.Y)
		}
		return true
	})
	c01SumOfOutputs(o, g, sumObj, `^\S*Amount\(\$elem\(\$recv\.commitBuilder\.createUnsignedCommitmentTx\(.*\)\.txn\.TxOut\)\.Value\)$`)
	heightRe := `^\(\$v:\*lnwallet\.commitmentChain\.tip\(\)\.height \+ 1\)$`
	for _, s := range g.Calls(an.CalleeIs(lw+"CommitmentBuilder.createUnsignedCommitmentTx"), false) {
		a := g.ArgCanon(s)
		o.Site("builder height argument %s", a[4])
		if !reMatch(heightRe, a[4]) {
			o.FailAt(g.ID+"#builder-height", s.Where(), "createUnsignedCommitmentTx must be given the next height of the commitment chain (tip().height + 1); got %s", a[4])
		}
	}
	for _, cl := range c01LitsOfType(g, lw+"commitment") {
		got := c01LitFields(g, cl)
		o.Site("commitment literal height=%s", got["height"])
		if !reMatch(heightRe, got["height"]) {
			o.FailAt(g.ID+"#commitment-height", g.Where(cl.Pos()), "the new commitment must record the next height of its chain (tip().height + 1); got %s", got["height"])
		}
	}
}

// c01ComputeViewFeeRate: the fee rate the weight loop of computeView
// classifies with is the evaluated view's rate, overridden by the dry-run rate
// only when the state is not updated; fetchCommitmentView hands the same rate
// to the builder and stores it in the commitment (from where the signer and
// populateHtlcIndexes read it).
func c01ComputeViewFeeRate(o *an.Obl, p *an.Prog) {
	f := p.Func(lw + "LightningChannel.computeView")
	var obj types.Object
	for _, s := range f.Calls(an.CalleeIs(lw+"HtlcIsDust"), false) {
		x := c01ObjOf(f, callArg(s, 3))
		if x == nil || (obj != nil && obj != x) {
			o.FailAt(f.ID+"#fee-rate-variable", s.Where(), "computeView: the dust tests do not share one fee-rate variable")
			return
		}
		obj = x
	}
	if obj == nil {
		o.FailAt(f.ID+"#fee-rate-variable", f.Where(f.Body.Pos()), "computeView: no dust test found")
		return
	}
	cnt := map[string]int{}
	for _, s := range f.Assigns(c01ObjTerm(obj), true) {
		as, ok := s.Node.(*ast.AssignStmt)
		rhs := ""
		if ok && len(as.Rhs) == 1 {
			rhs = f.Canon(as.Rhs[0])
		}
		o.Site("computeView fee rate writer %s", s.String())
		switch {
		case ok && as.Tok == token.DEFINE && reMatch(`^\$recv\.evaluateHTLCView\(.*\)\.FeePerKw$`, rhs):
			cnt["view"]++
		case ok && as.Tok == token.ASSIGN && reMatch(`^\$p3\.UnwrapOr\(\$v:\S*SatPerKWeight\)$`, rhs):
			cnt["dry-run"]++
			guarded(o, f, s, an.Truth(an.Param(2), false, "!updateState"))
		default:
			o.FailAt(f.ID+"#fee-rate-writer", s.Where(), "computeView: unclassified write of the fee rate used by the dust tests: %s", s.String())
		}
	}
	if cnt["view"] != 1 || cnt["dry-run"] > 1 {
		o.FailAt(f.ID+"#fee-rate-source", f.Where(f.Body.Pos()), "computeView: the fee rate of the dust tests must be defined once from the evaluated view (found %d definitions)", cnt["view"])
	}
	g := p.Func(lw + "LightningChannel.fetchCommitmentView")
	rateRe := `^\$recv\.computeView\(.*\)#3\.FeePerKw$`
	for _, s := range g.Calls(an.CalleeIs(lw+"CommitmentBuilder.createUnsignedCommitmentTx"), false) {
		a := g.ArgCanon(s)
		o.Site("builder fee rate %s", a[3])
		if !reMatch(rateRe, a[3]) {
			o.FailAt(g.ID+"#builder-fee-rate", s.Where(), "the builder must classify with the fee rate of the view computeView evaluated; got %s", a[3])
		}
	}
	for _, cl := range c01LitsOfType(g, lw+"commitment") {
		got := c01LitFields(g, cl)["feePerKw"]
		o.Site("commitment literal feePerKw=%s", got)
		if !reMatch(rateRe, got) {
			o.FailAt(g.ID+"#commitment-fee-rate", g.Where(cl.Pos()), "the commitment must store the fee rate its transaction was built with; got %s", got)
		}
	}
}

// c01AddHtlcDirections: the output loops of createUnsignedCommitmentTx add the
// element they just classified, with the direction of the list they range
// over, to the owner's transaction.
func c01AddHtlcDirections(o *an.Obl, p *an.Prog) {
	f := p.Func(lw + "CommitmentBuilder.createUnsignedCommitmentTx")
	for _, s := range f.Calls(an.CalleeIs(lw+"addHTLC"), false) {
		a := f.ArgCanon(s)
		hdr := enclosingLoopHeader(f, s.Node)
		want := ""
		switch {
		case outgoingList.MatchString(hdr) && !incomingList.MatchString(hdr):
			want = "false"
		case incomingList.MatchString(hdr) && !outgoingList.MatchString(hdr):
			want = "true"
		}
		o.Site("%s [owner=%s incoming=%s htlc=%s loop=%s]", s.String(), a[1], a[2], a[3], hdr)
		if want == "" || a[2] != want || a[3] != "$elem("+hdr+")" || a[1] != "$p2" {
			o.FailAt(f.ID+"#addHTLC-direction", s.Where(), "addHTLC inside the loop over %s must add that loop's element with isIncoming=%s to whoseCommit's transaction; got (owner %s, isIncoming %s, htlc %s)", hdr, want, a[1], a[2], a[3])
		}
	}
}

// c01ElemNorm rewrites, in a canonical form, `X[$key(X)]` (the element read
// through the key of a `for i := range X` loop) to `$elem(X)` (the value
// variable of `for _, x := range X`).
func c01ElemNorm(c string) string {
	for from := 0; ; {
		k := strings.Index(c[from:], "[$key(")
		if k < 0 {
			return c
		}
		k += from
		start := k + len("[$key(")
		depth, end := 1, -1
		for i := start; i < len(c); i++ {
			if c[i] == '(' {
				depth++
			} else if c[i] == ')' {
				depth--
				if depth == 0 {
					end = i
					break
				}
			}
		}
		if end < 0 || end+1 >= len(c) || c[end+1] != ']' {
			from = k + 1
			continue
		}
		x := c[start:end]
		if !strings.HasSuffix(c[:k], x) {
			from = k + 1
			continue
		}
		c = c[:k-len(x)] + "$elem(" + x + ")" + c[end+2:]
		from = 0
	}
}
