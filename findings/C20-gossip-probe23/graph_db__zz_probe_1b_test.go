package graphdb

import (
	"testing"

	"github.com/lightningnetwork/lnd/lnwire"
	"github.com/stretchr/testify/require"
)

// TestProbeBlankKeyZombieNotRevivedByClaimedTimestamps: a zombie stored with
// two blank keys is the marker for a channel whose funding validation failed
// ("so this edge can't be resurrected"): no update can resurrect it because
// processZombieUpdate finds no key to verify against. The unauthenticated
// timestamps a peer states in reply_channel_range must not lift that marker
// either.
//
// NOTE: no repair is applied for this one: the existing
// testFilterKnownChanIDsZombieRevival marks its zombies with blank keys and
// asserts that they ARE revived, so a blank-key guard changes what an
// existing test asserts.
func TestProbeBlankKeyZombieNotRevivedByClaimedTimestamps(t *testing.T) {
	ctx := t.Context()
	graph := MakeTestGraph(t)
	v := lnwire.GossipVersion1
	vGraph := NewVersionedGraph(graph, v)

	scid := lnwire.ShortChannelID{BlockHeight: 2}
	require.NoError(t, graph.MarkEdgeZombie(
		ctx, v, scid.ToUint64(), [33]byte{}, [33]byte{},
	))

	_, err := vGraph.FilterKnownChanIDs(ctx, []ChannelUpdateInfo{{
		ShortChannelID: scid,
		Version:        v,
		Node1Freshness: lnwire.UnixTimestamp(1000),
		Node2Freshness: lnwire.UnixTimestamp(1000),
	}}, func(ChannelUpdateInfo) bool { return false })
	require.NoError(t, err)

	zombie, _, _, err := vGraph.IsZombieEdge(ctx, scid.ToUint64())
	require.NoError(t, err)
	require.True(t, zombie, "blank-key zombie was revived by "+
		"peer-claimed timestamps")
}
