package spec

func init() {
	registry["C04"].Mutants = append(registry["C04"].Mutants, []Mutant{
		{Name: "seed5-C04-i", File: "lnwallet/channel.go",
			Old:    "\t\t\thtlc.Amt.ToSatoshis(),\n\t\t\tchanState.RemoteChanCfg.DustLimit,\n",
			New:    "\t\t\thtlc.Amt.ToSatoshis(),\n\t\t\tchanState.LocalChanCfg.DustLimit,\n",
			Expect: "dust-limit-belongs-to-the-owner-of-the-commitment"},
		{Name: "seed5-C04-j", File: "channeldb/revocation_log.go",
			Old:    "\t\t// We've found the record, no need to visit the old bucket.\n\t\tif err == nil {\n\t\t\treturn &rl, nil, nil\n\t\t}\n\n\t\t// Return the error if it doesn't say the log cannot be found.\n\t\tif err != ErrLogEntryNotFound {\n\t\t\treturn nil, nil, err\n\t\t}\n",
			New:    "\t\tif err != nil {\n\t\t\treturn nil, nil, err\n\t\t}\n\n\t\t// We've found the record, no need to visit the old bucket.\n\t\treturn &rl, nil, nil\n",
			Expect: "legacy-revocation-bucket-consulted-before-a-height-is-declared-unknown"},
	}...)
}
