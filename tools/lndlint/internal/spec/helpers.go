package spec

import (
	"fmt"
	"go/ast"
	"strings"

	"lndlint/internal/an"
)

// short renders a site without the enclosing function id.
func constructOf(f *an.Func, s an.Site) string {
	if s.Node == nil {
		return f.ID + "#implicit-return"
	}
	return f.ID + "#" + an.Text(s.Node)
}

// mustPass: every target in f is reachable only through a success edge of
// a call in `through`. Counts every through-site and target as a matched
// construct.
func mustPass(o *an.Obl, f *an.Func, what string, through []an.Site, mode an.OkMode, targets []an.Site) {
	if len(through) == 0 {
		o.FailAt(f.ID+"#no-"+what, f.Where(f.Body.Pos()), "no call of %s found in %s: the required step is gone", what, f.ID)
		return
	}
	for _, s := range through {
		o.Site("through %s", s.String())
	}
	for _, t := range targets {
		o.Site("target %s", t.String())
	}
	if len(targets) == 0 {
		o.FailAt(f.ID+"#no-targets-"+what, f.Where(f.Body.Pos()), "no target sites for rule %q in %s", what, f.ID)
		return
	}
	es, direct := f.UnionOk(through, mode)
	for _, t := range targets {
		if direct[t.V] {
			continue
		}
		if bad := f.MustPass([]an.Site{t}, es); len(bad) > 0 {
			o.FailAt(constructOf(f, t)+"<-"+what, t.Where(), "%s can be reached without a successful %s: %s", t.String(), what, bad[0])
		}
	}
}

// guarded: site s is reachable only via an edge establishing fact.
func guarded(o *an.Obl, f *an.Func, s an.Site, fact an.Fact) {
	ok, n := f.Guarded(s, fact)
	o.Site("%s guarded by [%s] (%d establishing edges)", s.String(), fact.Desc, n)
	if !ok {
		o.FailAt(constructOf(f, s)+"<-"+fact.Desc, s.Where(),
			"%s is not dominated by the guard [%s]; %d edges establish it in %s; guards that do hold here: %s",
			s.String(), fact.Desc, n, f.ID, strings.Join(f.GuardsAt(s), " ; "))
	}
}

// guardedAll applies guarded to every site and every fact.
func guardedAll(o *an.Obl, f *an.Func, sites []an.Site, facts ...an.Fact) {
	for _, s := range sites {
		for _, fc := range facts {
			guarded(o, f, s, fc)
		}
	}
}

// before: every b is preceded by one of a on all paths.
func before(o *an.Obl, f *an.Func, whatA string, a []an.Site, whatB string, b []an.Site) {
	if len(a) == 0 {
		o.FailAt(f.ID+"#no-"+whatA, f.Where(f.Body.Pos()), "no %s found in %s", whatA, f.ID)
		return
	}
	if len(b) == 0 {
		o.FailAt(f.ID+"#no-"+whatB, f.Where(f.Body.Pos()), "no %s found in %s", whatB, f.ID)
		return
	}
	for _, s := range b {
		o.Site("%s before %s", whatA, s.String())
		if !f.Before(a, s) {
			o.FailAt(constructOf(f, s)+"<-before-"+whatA, s.Where(), "%s can be reached without first executing %s", s.String(), whatA)
		}
	}
}

// exactlyCalls asserts the number of call sites.
func need(o *an.Obl, f *an.Func, what string, sites []an.Site, min int) bool {
	if len(sites) < min {
		o.FailAt(f.ID+"#missing-"+what, f.Where(f.Body.Pos()), "expected at least %d %s in %s, found %d", min, what, f.ID, len(sites))
		return false
	}
	return true
}

// theLit returns the single function literal passed to a call matching pred
// in f.
func theLit(f *an.Func, pred an.CallPred, what string) *an.Func {
	lits := f.LitArgs(pred)
	if len(lits) == 0 {
		panic(an.AnchorError{Msg: fmt.Sprintf("closure passed to %s in %s", what, f.ID)})
	}
	return lits[0]
}

// callArg returns the i-th argument of the call site.
func callArg(s an.Site, i int) ast.Expr {
	c := s.Node.(*ast.CallExpr)
	if i >= len(c.Args) {
		return nil
	}
	return c.Args[i]
}

var kvUpdate = an.CalleeIs("kvdb.Update", "kvdb.Batch")
