package spec

import (
	"go/ast"
	"go/token"
	"go/types"

	"lndlint/internal/an"
	"lndlint/internal/flow"
)

// Helpers of the C17 / C18 rules that pin the value of a local or parameter:
// every statement that writes a variable is enumerated (all assignment
// tokens, tuple assignments, ++/--, element and slice writes, address-of,
// range variables, var specs) so that a rule can table the writes it allows
// and report every other one.

// c17BaseIdent returns the identifier an assignable expression is rooted at
// (x, x[i], x[a:b], *x, (x)); nil for anything else (field selections are
// writes to the field, not to the variable).
func c17BaseIdent(e ast.Expr) *ast.Ident {
	for {
		switch x := e.(type) {
		case *ast.ParenExpr:
			e = x.X
		case *ast.IndexExpr:
			e = x.X
		case *ast.SliceExpr:
			e = x.X
		case *ast.StarExpr:
			e = x.X
		case *ast.Ident:
			return x
		default:
			return nil
		}
	}
}

// c17ObjOfIdent resolves an identifier to the object it uses or defines.
func c17ObjOfIdent(f *an.Func, id *ast.Ident) types.Object {
	if id == nil {
		return nil
	}
	if o := f.Info().Uses[id]; o != nil {
		return o
	}
	return f.Info().Defs[id]
}

// c17VarWrite is one statement (or expression) of f that writes, or makes
// writable from elsewhere, the variable obj.
type c17VarWrite struct {
	Node  ast.Node // *ast.AssignStmt, *ast.IncDecStmt, *ast.ValueSpec, *ast.RangeStmt or *ast.UnaryExpr (&x)
	Lhs   ast.Expr // the left-hand side expression rooted at the variable (nil for & and var specs without it)
	Rhs   ast.Expr // the value assigned when the statement pairs one value with this left-hand side
	Tok   token.Token
	Whole bool // the whole variable is written (the left-hand side is the bare identifier)
	Tuple bool // part of an assignment with several left-hand sides
}

// c17WritesOf lists every write of obj in the body of f, closures included.
func c17WritesOf(f *an.Func, obj types.Object) []c17VarWrite {
	var out []c17VarWrite
	if obj == nil {
		return out
	}
	is := func(e ast.Expr) (*ast.Ident, bool) {
		id := c17BaseIdent(e)
		return id, id != nil && c17ObjOfIdent(f, id) == obj
	}
	ast.Inspect(f.Body, func(n ast.Node) bool {
		switch x := n.(type) {
		case *ast.AssignStmt:
			for i, l := range x.Lhs {
				id, ok := is(l)
				if !ok {
					continue
				}
				w := c17VarWrite{Node: x, Lhs: l, Tok: x.Tok, Whole: ast.Unparen(l) == ast.Expr(id), Tuple: len(x.Lhs) > 1}
				if len(x.Lhs) == len(x.Rhs) {
					w.Rhs = x.Rhs[i]
				}
				out = append(out, w)
			}
		case *ast.IncDecStmt:
			if id, ok := is(x.X); ok {
				out = append(out, c17VarWrite{Node: x, Lhs: x.X, Tok: x.Tok, Whole: ast.Unparen(x.X) == ast.Expr(id)})
			}
		case *ast.ValueSpec:
			for i, nm := range x.Names {
				if f.Info().Defs[nm] != obj {
					continue
				}
				w := c17VarWrite{Node: x, Lhs: nm, Tok: token.VAR, Whole: true, Tuple: len(x.Names) > 1}
				if len(x.Values) == len(x.Names) {
					w.Rhs = x.Values[i]
				}
				out = append(out, w)
			}
		case *ast.RangeStmt:
			for _, e := range []ast.Expr{x.Key, x.Value} {
				if e == nil {
					continue
				}
				if id, ok := is(e); ok {
					out = append(out, c17VarWrite{Node: x, Lhs: e, Tok: x.Tok, Whole: ast.Unparen(e) == ast.Expr(id)})
				}
			}
		case *ast.UnaryExpr:
			if x.Op == token.AND {
				if _, ok := is(x.X); ok {
					out = append(out, c17VarWrite{Node: x, Tok: token.AND})
				}
			}
		}
		return true
	})
	return out
}

// c17UsesOf lists the identifiers of f's body (closures included) that refer to
// obj, definitions excluded.
func c17UsesOf(f *an.Func, obj types.Object) []*ast.Ident {
	var out []*ast.Ident
	ast.Inspect(f.Body, func(n ast.Node) bool {
		if id, ok := n.(*ast.Ident); ok && f.Info().Uses[id] == obj {
			out = append(out, id)
		}
		return true
	})
	return out
}

// c17SiteOfNode returns the site of the flow vertex of f at which n is
// evaluated (n may be a sub-expression); ok is false when n lies inside a
// function literal or is not part of the graph.
func c17SiteOfNode(f *an.Func, n ast.Node) (an.Site, bool) {
	v := f.Graph().Containing(n, false)
	if v == nil {
		return an.Site{}, false
	}
	node := n
	if v.Node != nil {
		if _, isStmt := n.(ast.Stmt); !isStmt {
			node = v.Node
		}
	}
	return an.Site{Fn: f, V: v, Node: node}, true
}

// c17StrictlyAfter returns the vertices that can execute after v has executed.
func c17StrictlyAfter(g *flow.Graph, v *flow.Vertex) map[*flow.Vertex]bool {
	out := map[*flow.Vertex]bool{}
	for _, e := range v.Out {
		for w := range g.Reach(e.To, nil, nil) {
			out[w] = true
		}
	}
	return out
}

// c17HoldsSinceLastWrite: the guard `fact` that dominates site s is still about
// the current value there: no write of the variables in objs lies between an
// establishing edge and s (every path from such a write to s takes an
// establishing edge again).  `guarded` alone accepts `if x < 0 {return}; x -= y;
// return x`.
func c17HoldsSinceLastWrite(o *an.Obl, f *an.Func, s an.Site, fact an.Fact, objs ...types.Object) {
	es := f.EdgesOf(fact)
	g := f.Graph()
	for _, obj := range objs {
		for _, w := range c17WritesOf(f, obj) {
			ws, ok := c17SiteOfNode(f, w.Node)
			if !ok {
				continue
			}
			for _, e := range ws.V.Out {
				if es[e] {
					continue
				}
				if g.Reach(e.To, es, nil)[s.V] {
					o.FailAt(constructOf(f, s)+"<-stale-"+fact.Desc, f.Where(w.Node.Pos()), "%s relies on [%s] but %s is written at %s after that test", s.String(), fact.Desc, obj.Name(), an.Text(w.Node))
				}
			}
		}
	}
	o.Site("%s: [%s] is tested after the last write of its operands", s.String(), fact.Desc)
}

// c17ParamObjs returns the parameter objects of f at the given positions.
func c17ParamObjs(f *an.Func, idx ...int) []types.Object {
	ps := f.Params(false)
	var out []types.Object
	for _, i := range idx {
		if i < len(ps) && ps[i] != nil {
			out = append(out, ps[i])
		}
	}
	return out
}

// c17ParamNames returns the names of the parameters of f at the given positions.
func c17ParamNames(f *an.Func, idx ...int) []string {
	var out []string
	for _, p := range c17ParamObjs(f, idx...) {
		out = append(out, p.Name())
	}
	return out
}

// c17LocalObj returns the variable named name that is defined in f's body
// (closures included); nil when there is none or more than one.
func c17LocalObj(f *an.Func, name string) types.Object {
	var found []types.Object
	ast.Inspect(f.Body, func(n ast.Node) bool {
		if id, ok := n.(*ast.Ident); ok && id.Name == name {
			if o, ok := f.Info().Defs[id].(*types.Var); ok && o != nil {
				found = append(found, o)
			}
		}
		return true
	})
	if len(found) != 1 {
		return nil
	}
	return found[0]
}

// c17ObjTerm matches an identifier that refers to the variable obj.
func c17ObjTerm(obj types.Object) an.Term {
	return func(f *an.Func, e ast.Expr) bool {
		id, ok := e.(*ast.Ident)
		return ok && obj != nil && c17ObjOfIdent(f, id) == obj
	}
}

// c17BuilderKeeps reads, from the top-level statements of the close
// transaction builder b, the operator under which each party's output is
// kept, normalised to the operand order `balance <op> dust limit`. The
// condition is recognised by what it compares (parameter 3 with 1 for the
// local output, 4 with 2 for the remote one), in either operand order, written
// in the if or held by a temporary with a unique definition. The if
// statements are returned in the order (local, remote).
func c17BuilderKeeps(b *an.Func) (map[string]token.Token, map[string]*ast.IfStmt) {
	swapOp := map[token.Token]token.Token{token.GEQ: token.LEQ, token.LEQ: token.GEQ, token.GTR: token.LSS, token.LSS: token.GTR}
	keeps := map[string]token.Token{}
	where := map[string]*ast.IfStmt{}
	for _, st := range b.Body.List {
		ifs, ok := st.(*ast.IfStmt)
		if !ok {
			continue
		}
		cond := ast.Unparen(ifs.Cond)
		if id, ok := cond.(*ast.Ident); ok {
			if d := b.UniqueDef(id); d != nil {
				cond = ast.Unparen(d)
			}
		}
		be, ok := cond.(*ast.BinaryExpr)
		if !ok {
			continue
		}
		if _, cmp := swapOp[be.Op]; !cmp {
			continue
		}
		x, y := ast.Unparen(be.X), ast.Unparen(be.Y)
		for _, side := range []struct {
			party     string
			bal, dust int
		}{{"Local", 3, 1}, {"Remote", 4, 2}} {
			switch {
			case an.Param(side.bal)(b, x) && an.Param(side.dust)(b, y):
				keeps[side.party], where[side.party] = be.Op, ifs
			case an.Param(side.dust)(b, x) && an.Param(side.bal)(b, y):
				keeps[side.party], where[side.party] = swapOp[be.Op], ifs
			}
		}
	}
	return keeps, where
}
