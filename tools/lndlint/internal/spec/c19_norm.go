package spec

import (
	"go/ast"
	"go/token"
	"go/types"
	"strings"

	"lndlint/internal/an"
	"lndlint/internal/flow"
)

// Shape-independent reading of "the values a local receives", used by the C19
// rules that pin the per-hop arithmetic:
//
//   - a value computed by an immediately invoked literal that the flow layer
//     splices (what helper inlining leaves behind) is the values its return
//     statements yield; when they yield one variable of the literal, that
//     variable carries the outer one and its definitions count as definitions
//     of the outer variable (c19NormDefs);
//   - a temporary with a single plain definition stands for that definition
//     (c19Subst);
//   - the lower clamp of x at b is `if x < b { x = b }`, `x = max(x, b)` or, in
//     a function that returns x, `if x < b { return b }` (c19IsMaxOf and the
//     rules using it).

// c19LitReturns lists the return statements of lit itself.
func c19LitReturns(lit *ast.FuncLit) []*ast.ReturnStmt {
	var out []*ast.ReturnStmt
	ast.Inspect(lit.Body, func(n ast.Node) bool {
		switch x := n.(type) {
		case *ast.FuncLit:
			return false
		case *ast.ReturnStmt:
			out = append(out, x)
		}
		return true
	})
	return out
}

// c19NormDefs is c19LocalDefs read through spliced literals. carriers holds
// the literal-local variables that carry the value of the named variable out
// of a literal: they are the same value, not shadows of it.
func c19NormDefs(fn *an.Func, name string) (objs []types.Object, carriers map[types.Object]bool, defs []c19LocalDef) {
	objs0, defs0 := c19LocalDefs(fn, name)
	info := fn.Info()
	root := fn.Root()
	carriers = map[types.Object]bool{}
	var expand func(d c19LocalDef, depth int) []c19LocalDef
	expand = func(d c19LocalDef, depth int) []c19LocalDef {
		keep := []c19LocalDef{d}
		if d.Rhs == nil || depth > 3 || (d.Tok != "=" && d.Tok != ":=" && d.Tok != "var") {
			return keep
		}
		lit := flow.IIFE(d.Rhs)
		if lit == nil || !flow.Spliceable(lit) {
			return keep
		}
		rets := c19LitReturns(lit)
		if len(rets) == 0 {
			return keep
		}
		// the outer variable is not read while the literal computes its value
		used := false
		ast.Inspect(lit.Body, func(n ast.Node) bool {
			if id, ok := n.(*ast.Ident); ok && info.Uses[id] == d.Obj && d.Obj != nil {
				used = true
			}
			return !used
		})
		if used {
			return keep
		}
		var carrier types.Object
		nCarriers := 0
		isCarrier := func(e ast.Expr) types.Object {
			id, ok := ast.Unparen(e).(*ast.Ident)
			if !ok {
				return nil
			}
			v, ok := info.Uses[id].(*types.Var)
			if !ok || v.IsField() || v.Pos() < lit.Body.Pos() || v.Pos() >= lit.Body.End() {
				return nil
			}
			return v
		}
		for _, r := range rets {
			if len(r.Results) != 1 {
				return keep
			}
			if o := isCarrier(r.Results[0]); o != nil && o != carrier {
				carrier = o
				nCarriers++
			}
		}
		var out []c19LocalDef
		if nCarriers == 1 {
			carriers[carrier] = true
			_, cds := c19DefsIn(fn, lit.Body, func(_ *ast.Ident, o types.Object) bool { return o == carrier })
			for _, cd := range cds {
				out = append(out, expand(cd, depth+1)...)
			}
		}
		for _, r := range rets {
			if nCarriers == 1 && isCarrier(r.Results[0]) != nil {
				continue
			}
			rd := c19LocalDef{Tok: "=", Rhs: r.Results[0], Node: r, Fn: c19Innermost(root, r), Obj: d.Obj}
			out = append(out, expand(rd, depth+1)...)
		}
		return out
	}
	type key struct {
		n ast.Node
		r ast.Expr
	}
	seen := map[key]bool{}
	for _, d := range defs0 {
		for _, e := range expand(d, 0) {
			if !seen[key{e.Node, e.Rhs}] {
				seen[key{e.Node, e.Rhs}] = true
				defs = append(defs, e)
			}
		}
	}
	for _, o := range objs0 {
		if !carriers[o] {
			objs = append(objs, o)
		}
	}
	return objs, carriers, defs
}

// c19Subst renders e with every local that has a single plain definition
// (and whose name is not in keep) replaced by that definition. It returns the
// text and the defining expressions it substituted.
func c19Subst(fn *an.Func, e ast.Expr, keep map[string]bool) (string, []ast.Expr) {
	var used []ast.Expr
	var cl func(e ast.Expr, depth int) ast.Expr
	cl = func(e ast.Expr, depth int) ast.Expr {
		switch x := e.(type) {
		case *ast.Ident:
			if depth > 5 || keep[x.Name] {
				return x
			}
			if v, ok := fn.Info().Uses[x].(*types.Var); !ok || v.IsField() {
				return x
			}
			d := fn.UniqueDef(x)
			if d == nil || flow.IIFE(d) != nil {
				return x
			}
			used = append(used, d)
			r := cl(d, depth+1)
			if _, bin := ast.Unparen(r).(*ast.BinaryExpr); bin {
				if _, par := r.(*ast.ParenExpr); !par {
					r = &ast.ParenExpr{X: r}
				}
			}
			return r
		case *ast.ParenExpr:
			return &ast.ParenExpr{X: cl(x.X, depth)}
		case *ast.BinaryExpr:
			return &ast.BinaryExpr{X: cl(x.X, depth), Op: x.Op, Y: cl(x.Y, depth)}
		case *ast.UnaryExpr:
			if x.Op == token.AND {
				return x
			}
			return &ast.UnaryExpr{Op: x.Op, X: cl(x.X, depth)}
		case *ast.StarExpr:
			return &ast.StarExpr{X: cl(x.X, depth)}
		case *ast.SelectorExpr:
			if id, ok := x.X.(*ast.Ident); ok {
				if _, isPkg := fn.Info().Uses[id].(*types.PkgName); isPkg {
					return x
				}
			}
			return &ast.SelectorExpr{X: cl(x.X, depth), Sel: x.Sel}
		case *ast.IndexExpr:
			return &ast.IndexExpr{X: cl(x.X, depth), Index: cl(x.Index, depth)}
		case *ast.CallExpr:
			c := &ast.CallExpr{Fun: cl(x.Fun, depth), Ellipsis: x.Ellipsis}
			for _, a := range x.Args {
				c.Args = append(c.Args, cl(a, depth))
			}
			return c
		}
		return e
	}
	return an.Text(cl(e, 0)), used
}

// c19ObjTerm matches an identifier of one of the given variables.
func c19ObjTerm(objs map[types.Object]bool) an.Term {
	return func(f *an.Func, e ast.Expr) bool {
		id, ok := ast.Unparen(e).(*ast.Ident)
		if !ok {
			return false
		}
		if o := f.Info().Uses[id]; o != nil {
			return objs[o]
		}
		return objs[f.Info().Defs[id]]
	}
}

// c19InUnsplicedLit reports whether n sits in a function literal whose body
// is not part of fn's flow graph (s is c19SiteFor(fn, n)).
func c19InUnsplicedLit(s an.Site, n ast.Node) bool {
	if s.V == nil {
		return true
	}
	if s.V.Node == nil {
		return false
	}
	in := false
	ast.Inspect(s.V.Node, func(m ast.Node) bool {
		if fl, ok := m.(*ast.FuncLit); ok && fl.Body.Pos() <= n.Pos() && n.End() <= fl.Body.End() {
			in = true
		}
		return !in
	})
	return in
}

// c19IsMaxOf reports whether e is the builtin max applied to exactly the two
// operands x and y (in either order), each recognised by its predicate.
func c19IsMaxOf(fn *an.Func, e ast.Expr, x, y func(ast.Expr) bool) bool {
	c, ok := ast.Unparen(e).(*ast.CallExpr)
	if !ok || len(c.Args) != 2 {
		return false
	}
	id, ok := ast.Unparen(c.Fun).(*ast.Ident)
	if !ok || id.Name != "max" {
		return false
	}
	if _, builtin := fn.Info().Uses[id].(*types.Builtin); !builtin {
		return false
	}
	return (x(c.Args[0]) && y(c.Args[1])) || (x(c.Args[1]) && y(c.Args[0]))
}

// c19NormForm is d.form() with temporaries substituted.
func c19NormForm(fn *an.Func, d c19LocalDef, keep map[string]bool) (string, []ast.Expr) {
	tok := d.Tok
	if tok == "var" || tok == ":=" {
		tok = "="
	}
	if d.Rhs == nil {
		return tok, nil
	}
	txt, used := c19Subst(fn, d.Rhs, keep)
	return tok + " " + txt, used
}

// c19DefinedAsN is c19DefinedAs on the normalised reading: definitions are
// taken through spliced literals (c19NormDefs), forms are compared after
// substituting single-definition temporaries whose names are not in keep
// (c19Subst). It also returns the variables carrying the value.
func c19DefinedAsN(o *an.Obl, fn *an.Func, name string, keep map[string]bool, forms ...string) (map[string][]c19LocalDef, map[types.Object]bool, map[ast.Node][]ast.Expr) {
	objs, carriers, defs := c19NormDefs(fn, name)
	out := map[string][]c19LocalDef{}
	temps := map[ast.Node][]ast.Expr{}
	same := map[types.Object]bool{}
	for c := range carriers {
		same[c] = true
	}
	for _, ob := range objs {
		same[ob] = true
	}
	if len(objs) == 0 {
		o.FailAt(fn.ID+"#no-"+name, fn.Where(fn.Body.Pos()), "cannot find the local %s in %s", name, fn.ID)
		return out, same, temps
	}
	if len(objs) > 1 {
		o.FailAt(fn.ID+"#shadowed-"+name, fn.Where(objs[1].Pos()), "%s declares %d variables called %s: the one computed is not the one used", fn.ID, len(objs), name)
	}
	want := map[string]bool{}
	for _, f := range forms {
		want[f] = true
	}
	for _, d := range defs {
		fm, used := c19NormForm(fn, d, keep)
		if d.Tok == "zero" && !want["zero"] {
			continue
		}
		o.Site("%s: %s %s", fn.ID, name, fm)
		if !want[fm] {
			o.FailAt(fn.ID+"#"+name, fn.Where(d.Node.Pos()), "%s %s is not one of the expected forms %v", name, fm, forms)
			continue
		}
		out[fm] = append(out[fm], d)
		temps[d.Node] = used
	}
	for _, f := range forms {
		if len(out[f]) == 0 && f != "zero" {
			o.FailAt(fn.ID+"#no-"+name+"-form", fn.Where(fn.Body.Pos()), "%s never receives the value `%s` in %s", name, strings.TrimPrefix(f, "= "), fn.ID)
		}
	}
	return out, same, temps
}
