package lnwallet

import (
	"io"
	"testing"
	"time"

	"github.com/btcsuite/btcd/chainhash/v2"
	"github.com/lightningnetwork/lnd/channeldb"
	"github.com/lightningnetwork/lnd/input"
	"github.com/lightningnetwork/lnd/lnwire"
	"github.com/lightningnetwork/lnd/shachain"
	"github.com/stretchr/testify/require"
)

// probeRefreshingStore stands in for "another goroutine calls
// OpenChannel.Refresh() right after ReceiveRevocation added the secret to the
// in-memory store": Refresh takes the OpenChannel mutex, ReceiveRevocation
// holds only the LightningChannel mutex while it changes RevocationStore,
// RemoteCurrentRevocation and RemoteNextRevocation, so nothing orders the two.
// (link.UpdateShortChanID -> l.channel.State().Refresh() and
// funding.waitForZeroConfChannel -> c.Refresh() do this on the live object
// when a zero-conf channel confirms.)
//
// The Refresh runs in its own goroutine, as it does in the daemon. The store
// gives it half a second to get through: if nothing orders the two (the
// defect), it completes at once, in the middle of ReceiveRevocation; if the
// secret is added with the channel state's mutex held, it can only complete
// once the revocation is on disk.
type probeRefreshingStore struct {
	shachain.Store
	refresh  func() error
	done     bool
	finished chan error
}

func (s *probeRefreshingStore) AddNextEntry(h *chainhash.Hash) error {
	if err := s.Store.AddNextEntry(h); err != nil {
		return err
	}
	if !s.done {
		s.done = true
		go func() {
			s.finished <- s.refresh()
		}()

		select {
		case err := <-s.finished:
			s.finished <- err

		case <-time.After(500 * time.Millisecond):
		}
	}

	return nil
}

func (s *probeRefreshingStore) Encode(w io.Writer) error {
	return s.Store.Encode(w)
}

func TestProbeRefreshDuringReceiveRevocation(t *testing.T) {
	t.Parallel()

	aliceChannel, bobChannel, err := CreateTestChannels(
		t, channeldb.SingleFunderTweaklessBit,
	)
	require.NoError(t, err)

	htlc, _ := createHTLC(0, lnwire.NewMSatFromSatoshis(20000))
	addAndReceiveHTLC(t, aliceChannel, bobChannel, htlc, nil)
	require.NoError(t, ForceStateTransition(aliceChannel, bobChannel))

	// Next round up to Bob's revocation.
	htlc2, _ := createHTLC(1, lnwire.NewMSatFromSatoshis(30000))
	addAndReceiveHTLC(t, aliceChannel, bobChannel, htlc2, nil)

	aliceSig, err := aliceChannel.SignNextCommitment(ctxb)
	require.NoError(t, err)
	require.NoError(t, bobChannel.ReceiveNewCommitment(aliceSig.CommitSigs))

	revokedHeight := bobChannel.currentHeight
	bobRev, _, _, err := bobChannel.RevokeCurrentCommitment()
	require.NoError(t, err)

	state := aliceChannel.channelState
	probeStore := &probeRefreshingStore{
		Store:    state.RevocationStore,
		refresh:  state.Refresh,
		finished: make(chan error, 2),
	}
	state.RevocationStore = probeStore

	_, _, err = aliceChannel.ReceiveRevocation(bobRev)
	require.NoError(t, err)
	require.True(t, probeStore.done)

	select {
	case err := <-probeStore.finished:
		require.NoError(t, err)
	case <-time.After(10 * time.Second):
		t.Fatalf("refresh did not return")
	}

	// What is on disk now?
	diskChans, err := state.Db.FetchOpenChannels(state.IdentityPub)
	require.NoError(t, err)
	disk := diskChans[0]

	require.Equal(t, revokedHeight+1, disk.RemoteCommitment.CommitHeight)

	wantSecret, err := bobChannel.channelState.RevocationProducer.AtIndex(
		revokedHeight,
	)
	require.NoError(t, err)

	got, err := disk.RevocationStore.LookUp(revokedHeight)
	require.NoErrorf(t, err, "the secret of revoked remote commitment "+
		"%d is not in the store on disk", revokedHeight)
	require.Equal(t, *wantSecret, *got)

	nextSecret, err := bobChannel.channelState.RevocationProducer.AtIndex(
		revokedHeight + 1,
	)
	require.NoError(t, err)
	require.True(t, input.ComputeCommitmentPoint(nextSecret[:]).IsEqual(
		disk.RemoteCurrentRevocation,
	), "RemoteCurrentRevocation on disk is not the point of the "+
		"remote commitment on disk")
}
