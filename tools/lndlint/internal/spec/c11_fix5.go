package spec

import (
	"go/ast"
	"go/token"
	"go/types"

	"lndlint/internal/an"
	"lndlint/internal/flow"
)

func init() {
	specExtras["C11"] = append(specExtras["C11"], c11f5Rules)
}

// c11f5ParamNames lists the named parameters of f.
func c11f5ParamNames(f *an.Func) []string {
	var out []string
	for _, v := range f.Params(false) {
		if v != nil && v.Name() != "" && v.Name() != "_" {
			out = append(out, v.Name())
		}
	}
	return out
}

// c11f5ResultObjs returns the objects bound to the two results of the call at
// s when the call is the whole right-hand side of `a, b := call` / `a, b = call`.
func c11f5ResultObjs(f *an.Func, s an.Site) (first, second types.Object) {
	as, ok := s.V.Node.(*ast.AssignStmt)
	if !ok || len(as.Lhs) != 2 || len(as.Rhs) != 1 || ast.Unparen(as.Rhs[0]) != s.Node {
		return nil, nil
	}
	pick := func(e ast.Expr) types.Object {
		id, ok := ast.Unparen(e).(*ast.Ident)
		if !ok || id.Name == "_" {
			return nil
		}
		if o := f.Info().Defs[id]; o != nil {
			return o
		}
		return f.Info().Uses[id]
	}
	return pick(as.Lhs[0]), pick(as.Lhs[1])
}

// c11f5Obj matches an identifier that refers to obj.
func c11f5Obj(obj types.Object) an.Term {
	return func(f *an.Func, e ast.Expr) bool {
		id, ok := e.(*ast.Ident)
		return ok && obj != nil && f.Info().Uses[id] == obj
	}
}

// c11f5Assigners lists the vertices of f that assign obj.
func c11f5Assigners(f *an.Func, obj types.Object) []*flow.Vertex {
	var out []*flow.Vertex
	for _, v := range f.Graph().V {
		hit := false
		v.Inspect(false, func(n ast.Node) bool {
			switch x := n.(type) {
			case *ast.AssignStmt:
				for _, l := range x.Lhs {
					if id, ok := ast.Unparen(l).(*ast.Ident); ok && (f.Info().Defs[id] == obj || f.Info().Uses[id] == obj) {
						hit = true
					}
				}
			case *ast.IncDecStmt:
				if id, ok := ast.Unparen(x.X).(*ast.Ident); ok && f.Info().Uses[id] == obj {
					hit = true
				}
			}
			return true
		})
		if hit {
			out = append(out, v)
		}
	}
	return out
}

// c11f5Timeout is the fact "isTimeout(<errObj>) answered want".
func c11f5Timeout(errObj types.Object, want bool, desc string) an.Fact {
	return an.Fact{Desc: desc, Hold: func(f *an.Func, e *flow.Edge) bool {
		if e.From.Kind != flow.KCond || (e.Kind != flow.ETrue && e.Kind != flow.EFalse) || (e.Kind == flow.ETrue) != want {
			return false
		}
		return c11f5IsTimeoutTest(f, e.From, errObj)
	}}
}

// c11f5IsTimeoutTest: the condition atom at v is isTimeout(x); with errObj
// not nil x must be that variable.
func c11f5IsTimeoutTest(f *an.Func, v *flow.Vertex, errObj types.Object) bool {
	ex, ok := v.Node.(ast.Expr)
	if !ok {
		return false
	}
	c, ok := ast.Unparen(ex).(*ast.CallExpr)
	if !ok || an.CalleeID(f.Info(), c) != "brontide.isTimeout" || len(c.Args) != 1 {
		return false
	}
	if errObj == nil {
		return true
	}
	id, ok := ast.Unparen(c.Args[0]).(*ast.Ident)
	return ok && f.Info().Uses[id] == errObj
}

// c11f5FieldWrite describes one assignment to a Machine field.
type c11f5FieldWrite struct {
	site an.Site
	rhs  ast.Expr // nil for ++/--
	tok  token.Token
}

// c11f5Writes lists the writes of Machine.<name> in f with the right-hand
// side that belongs to the field (parallel assignments are split).
func c11f5Writes(f *an.Func, owner, name string) []c11f5FieldWrite {
	fld := an.Field(owner, name, nil)
	var out []c11f5FieldWrite
	for _, s := range f.Assigns(fld, false) {
		switch st := s.Node.(type) {
		case *ast.IncDecStmt:
			out = append(out, c11f5FieldWrite{site: s, tok: st.Tok})
		case *ast.AssignStmt:
			for i, l := range st.Lhs {
				if !fld(f, an.Strip(f.Info(), l)) {
					continue
				}
				w := c11f5FieldWrite{site: s, tok: st.Tok}
				if len(st.Lhs) == len(st.Rhs) {
					w.rhs = st.Rhs[i]
				}
				out = append(out, w)
			}
		}
	}
	return out
}

// c11f5ResumableRead checks the state discipline of one resumable read
// function: f reads with the single io.ReadFull call rf; each field of keep
// holds partial progress. save decides whether a right-hand side is the
// legitimate "remember what was consumed" form.
func c11f5ResumableRead(o *an.Obl, f *an.Func, owner string, keep []string, save map[string]func(w c11f5FieldWrite, nObj types.Object) bool, saveText map[string]string) {
	rfs := f.Calls(an.CalleeIs("io.ReadFull"), false)
	if !needExactly(o, f, "io.ReadFull", rfs, 1) {
		return
	}
	rf := rfs[0]
	nObj, errObj := c11f5ResultObjs(f, rf)
	if nObj == nil || errObj == nil {
		o.FailAt(f.ID+"#read-results-unbound", rf.Where(), "%s does not bind the byte count and the error of %s: progress of an interrupted read cannot be remembered", f.ID, an.Text(rf.Node))
		return
	}
	g := f.Graph()
	// every isTimeout test of the function judges the error of that read
	nTests := 0
	for _, v := range g.V {
		if v.Kind != flow.KCond || !c11f5IsTimeoutTest(f, v, nil) {
			continue
		}
		nTests++
		if !c11f5IsTimeoutTest(f, v, errObj) {
			o.FailAt(f.ID+"#timeout-of-another-error", f.Where(v.Pos()), "%s is not applied to the error returned by %s", an.Text(v.Node), an.Text(rf.Node))
			continue
		}
		for _, u := range c11f5Assigners(f, errObj) {
			if u != rf.V && g.Reach(u, nil, map[*flow.Vertex]bool{rf.V: true})[v] {
				o.FailAt(f.ID+"#timeout-of-another-error", f.Where(v.Pos()), "the error tested by %s can come from %s instead of the stream read", an.Text(v.Node), an.Text(u.Node))
			}
		}
	}
	if nTests == 0 {
		o.FailAt(f.ID+"#no-timeout-test", rf.Where(), "%s never asks whether the read error is a timeout: either every error keeps partial state or none does", f.ID)
		return
	}
	isTO := c11f5Timeout(errObj, true, "isTimeout(err) of the stream read")
	notTO := c11f5Timeout(errObj, false, "!isTimeout(err)")
	readOK := an.Cmp(c11f5Obj(errObj), an.EQ, an.Nil(), "the read returned no error")
	rets := f.Returns()
	for _, name := range keep {
		var saves, resets []an.Site
		for _, w := range c11f5Writes(f, owner, name) {
			o.Site("%s: write of %s: %s", f.ID, name, an.Text(w.site.Node))
			if !f.Before([]an.Site{rf}, w.site) {
				o.FailAt(f.ID+"#"+name+"-written-before-the-read", w.site.Where(), "%s is written (%s) on a path that has not read from the stream yet: the progress a deadline interrupted is forgotten before it is used", name, an.Text(w.site.Node))
			}
			switch {
			case w.rhs != nil && w.tok == token.ASSIGN && (an.IntConst(0)(f, ast.Unparen(w.rhs)) || an.IsNilIdent(f.Info(), w.rhs)):
				resets = append(resets, w.site)
			case save[name](w, nObj):
				saves = append(saves, w.site)
				guarded(o, f, w.site, isTO)
			default:
				o.FailAt(f.ID+"#"+name+"-unexpected-write", w.site.Where(), "%s writes %s with %s; allowed are the reset to the zero value and, on the timeout edge, %s", f.ID, name, an.Text(w.site.Node), saveText[name])
			}
		}
		if len(saves) == 0 {
			o.FailAt(f.ID+"#"+name+"-never-remembered", rf.Where(), "%s never records %s: a read that a deadline interrupts inside a record cannot be picked up again, although the interrupted write can (Flush)", f.ID, saveText[name])
			continue
		}
		mustDoUnlessFrom(o, f, rf.V, "the reset of "+name, resets, rets, isTO)
		mustDoUnlessFrom(o, f, rf.V, "the update of "+name+" ("+saveText[name]+")", saves, rets, notTO, readOK)
	}
}

func c11f5Rules(r *an.Run) {
	p := r.Prog
	const mach = "brontide.Machine"

	r.Obl("interrupted-read-resumes-where-it-stopped", "STATE",
		"the read side keeps partial progress across a read deadline the way Flush keeps nextHeaderSend/nextBodySend across a write deadline: Machine.nextHeaderRead is written only in ReadHeader, nextBodyLen and nextBodyRead only in ReadBody, and no other function reads them; each of the two reads the stream with one io.ReadFull whose count and error are bound; after that read every path to a return resets the function's progress fields to their zero value, except the paths on which isTimeout applied to the error of that very read answered true, and those paths all record the progress: nextHeaderRead grows by the count just read; nextBodyLen becomes len(buf) and nextBodyRead is extended by exactly buf[read:read+n] (read = the copy of the remembered bytes, n = the count just read); no progress field is written before the stream read; isTimeout answers true only for an error that errors.As finds to be a net.Error whose Timeout() is true",
		"fragmentation includes a read deadline firing inside a record: if the consumed bytes are forgotten the next read starts mid-record and every later record fails authentication; if they are kept after any other error, or not cleared once the frame is complete, the next record is assembled at a stale offset or its header is skipped; progress recorded with a wrong count duplicates or drops ciphertext bytes", 40,
		func(o *an.Obl) {
			// who writes, who reads
			home := map[string]string{"nextHeaderRead": mach + ".ReadHeader", "nextBodyLen": mach + ".ReadBody", "nextBodyRead": mach + ".ReadBody"}
			readers := map[string]map[string]bool{
				"nextHeaderRead": {mach + ".ReadHeader": true},
				"nextBodyLen":    {mach + ".ReadHeader": true, mach + ".ReadBody": true},
				"nextBodyRead":   {mach + ".ReadBody": true},
			}
			for _, f := range p.Funcs(false, "brontide") {
				for name, owner := range home {
					for _, w := range c11f5Writes(f, mach, name) {
						o.Site("writer of %s: %s", name, w.site.String())
						if f.Root().ID != owner {
							o.FailAt(f.Root().ID+"#writes-"+name, w.site.Where(), "%s writes Machine.%s; only %s, which knows whether its stream read timed out, may", f.Root().ID, name, owner)
						}
					}
				}
				if f.Root() != f {
					continue
				}
				ast.Inspect(f.Body, func(n ast.Node) bool {
					sel, ok := n.(*ast.SelectorExpr)
					if !ok {
						return true
					}
					for name, allowed := range readers {
						if an.Field(mach, name, nil)(f, sel) && !allowed[f.ID] {
							o.FailAt(f.ID+"#uses-"+name, f.Where(sel.Pos()), "%s refers to Machine.%s: the bytes of an incomplete record are remembered for the resumed read only, nothing else may see or change them", f.ID, name)
						}
					}
					return true
				})
			}

			recvFld := func(name string) an.Term { return an.Field(mach, name, an.Recv()) }
			rh := p.Func(mach + ".ReadHeader")
			c11f5ResumableRead(o, rh, mach, []string{"nextHeaderRead"},
				map[string]func(c11f5FieldWrite, types.Object) bool{
					"nextHeaderRead": func(w c11f5FieldWrite, nObj types.Object) bool {
						if w.rhs == nil {
							return false
						}
						rhs := ast.Unparen(w.rhs)
						if w.tok == token.ADD_ASSIGN {
							return c11f5Obj(nObj)(rh, rhs)
						}
						return w.tok == token.ASSIGN && an.Bin(token.ADD, recvFld("nextHeaderRead"), c11f5Obj(nObj))(rh, rhs)
					},
				},
				map[string]string{"nextHeaderRead": "the offset advanced by the count the read returned"})

			rb := p.Func(mach + ".ReadBody")
			copied := an.CallTo("builtin.copy", nil, an.Param(1), recvFld("nextBodyRead"))
			c11f5ResumableRead(o, rb, mach, []string{"nextBodyLen", "nextBodyRead"},
				map[string]func(c11f5FieldWrite, types.Object) bool{
					"nextBodyLen": func(w c11f5FieldWrite, _ types.Object) bool {
						return w.rhs != nil && w.tok == token.ASSIGN && an.Len(an.Param(1))(rb, an.Strip(rb.Info(), w.rhs))
					},
					"nextBodyRead": func(w c11f5FieldWrite, nObj types.Object) bool {
						if w.rhs == nil || w.tok != token.ASSIGN {
							return false
						}
						c, ok := ast.Unparen(w.rhs).(*ast.CallExpr)
						if !ok || an.CalleeID(rb.Info(), c) != "builtin.append" || len(c.Args) != 2 || !c.Ellipsis.IsValid() {
							return false
						}
						sl, ok := ast.Unparen(c.Args[1]).(*ast.SliceExpr)
						if !ok || sl.Max != nil || sl.Low == nil || sl.High == nil {
							return false
						}
						return an.Match(rb, recvFld("nextBodyRead"), c.Args[0]) &&
							an.Match(rb, an.Param(1), sl.X) &&
							an.Match(rb, copied, sl.Low) &&
							an.Match(rb, an.Bin(token.ADD, copied, c11f5Obj(nObj)), sl.High)
					},
				},
				map[string]string{
					"nextBodyLen":  "the length of the caller's buffer, len(buf)",
					"nextBodyRead": "the remembered bytes extended by buf[read:read+n]",
				})
			notReassigned(o, rb, c11f5ParamNames(rb)...)

			// the judge of "may be retried"
			it := p.Func("brontide.isTimeout")
			rets := it.Returns()
			if needExactly(o, it, "return", rets, 1) {
				rs, _ := rets[0].Node.(*ast.ReturnStmt)
				ok := false
				if rs != nil && len(rs.Results) == 1 {
					if be, isBin := ast.Unparen(rs.Results[0]).(*ast.BinaryExpr); isBin && be.Op == token.LAND {
						as, isCall := ast.Unparen(be.X).(*ast.CallExpr)
						to, isCall2 := ast.Unparen(be.Y).(*ast.CallExpr)
						if isCall && isCall2 && an.CalleeID(it.Info(), as) == "errors.As" && len(as.Args) == 2 && an.Match(it, an.Param(0), as.Args[0]) {
							target, _ := an.Strip(it.Info(), as.Args[1]).(*ast.Ident)
							sel, _ := ast.Unparen(to.Fun).(*ast.SelectorExpr)
							if target != nil && sel != nil && sel.Sel.Name == "Timeout" && len(to.Args) == 0 {
								x, _ := ast.Unparen(sel.X).(*ast.Ident)
								tobj := it.Info().Uses[target]
								if x != nil && tobj != nil && it.Info().Uses[x] == tobj && an.TypeID(tobj.Type()) == "net.Error" {
									ok = true
								}
							}
						}
					}
					o.Site("isTimeout returns %s", it.Canon(rs.Results[0]))
				}
				if !ok {
					o.FailAt(it.ID+"#definition", rets[0].Where(), "isTimeout is not `errors.As(err, &netErr) && netErr.Timeout()` with netErr a net.Error: partial read state would be kept after errors that are not a deadline, or dropped after one")
				}
			}
		})

	r.Obl("accept-hands-out-an-error-or-a-connection", "PATH",
		"in package brontide every function whose first result is an interface and whose last is an error returns the untyped nil as first result wherever its error result is not the nil constant; Listener.Accept returns the conn field of the handshake result it received only where the err field of that same result was compared equal to nil",
		"handshake acts that fail must fail closed for the caller too: a nil *Conn wrapped in net.Conn compares unequal to nil, so a caller that tests the connection takes the failed handshake for an established one and panics on first use; a result whose error is dropped hands out that same typed nil with a nil error", 4,
		func(o *an.Obl) {
			n := 0
			for _, f := range p.Funcs(false, "brontide") {
				res := f.Results()
				if len(res) < 2 || !an.IsErrorType(res[len(res)-1]) {
					continue
				}
				if _, isIface := res[0].Underlying().(*types.Interface); !isIface || an.IsErrorType(res[0]) {
					continue
				}
				for _, s := range f.Returns() {
					rs, ok := s.Node.(*ast.ReturnStmt)
					if !ok || len(rs.Results) != len(res) {
						o.FailAt(f.ID+"#opaque-return", s.Where(), "%s returns through %s: cannot tell the connection from the error", f.ID, s.String())
						continue
					}
					n++
					o.Site("%s", s.String())
					if f.ClassifyReturn(s) == an.RetSuccess {
						continue
					}
					if !an.IsNilIdent(f.Info(), rs.Results[0]) {
						o.FailAt(f.ID+"#value-together-with-error", s.Where(), "%s returns %s together with a possibly non-nil error %s: a typed nil pointer inside the interface is not nil for the caller", f.ID, an.Text(rs.Results[0]), an.Text(rs.Results[len(res)-1]))
					}
				}
			}
			if n == 0 {
				o.FailAt("brontide#no-interface-error-returns", "", "no function returning (interface, error) found in brontide: the anchor (Listener.Accept) moved")
			}
			acc := p.Func("brontide.Listener.Accept")
			connFld := an.Field("brontide.maybeConn", "conn", nil)
			handed := 0
			for _, s := range acc.Returns() {
				rs, ok := s.Node.(*ast.ReturnStmt)
				if !ok || len(rs.Results) != 2 || an.IsNilIdent(acc.Info(), rs.Results[0]) {
					continue
				}
				handed++
				x := ast.Unparen(rs.Results[0])
				if !connFld(acc, x) {
					o.FailAt(acc.ID+"#hands-out-unknown-value", s.Where(), "Accept returns %s, expected the conn field of the received handshake result", an.Text(x))
					continue
				}
				base := an.TextIs(an.Text(x.(*ast.SelectorExpr).X))
				guarded(o, acc, s, an.Cmp(an.Field("brontide.maybeConn", "err", base), an.EQ, an.Nil(), "the err field of the same result == nil"))
			}
			if handed == 0 {
				o.FailAt(acc.ID+"#never-hands-out", acc.Where(acc.Body.Pos()), "Accept never returns a connection")
			}
		})

	r.Obl("listener-closes-what-it-drops", "PATH",
		"Listener.doHandshake leaves only after it closed the connection it was handed (Close on the parameter, on the conn field of the Conn built around it, or on that Conn) or passed that Conn to acceptConn, on every path including the exits taken on <-l.quit; Listener.acceptConn leaves only after it sent maybeConn{conn: its parameter} on l.conns or closed the parameter; Dial returns a failure after the Conn was built only after closing its connection",
		"a handshake that is abandoned (malformed act, shutdown) must fail closed: the socket of a dropped connection stays open towards a peer that keeps waiting, and in acceptConn it is a fully authenticated transport that nobody holds any more", 26,
		func(o *an.Obl) {
			// the Conn built around the handed-in connection
			connLit := func(inner an.Term) an.Term {
				return func(f *an.Func, e ast.Expr) bool {
					cl, ok := e.(*ast.CompositeLit)
					if !ok || an.TypeID(f.Info().TypeOf(cl)) != "brontide.Conn" {
						return false
					}
					for _, el := range cl.Elts {
						kv, ok := el.(*ast.KeyValueExpr)
						if !ok {
							continue
						}
						if k, ok := kv.Key.(*ast.Ident); ok && k.Name == "conn" {
							return an.Match(f, inner, kv.Value)
						}
					}
					return false
				}
			}
			closesOf := func(f *an.Func, raw, wrapped an.Term) []an.Site {
				var out []an.Site
				for _, s := range f.Calls(an.CalleeNamed("Close"), false) {
					sel, ok := ast.Unparen(s.Node.(*ast.CallExpr).Fun).(*ast.SelectorExpr)
					if !ok {
						continue
					}
					x := sel.X
					switch {
					case raw != nil && an.Match(f, raw, x):
					case an.Match(f, wrapped, x):
					case an.Match(f, an.Field("brontide.Conn", "conn", wrapped), x):
					default:
						continue
					}
					out = append(out, s)
				}
				return out
			}

			dh := p.Func("brontide.Listener.doHandshake")
			w := connLit(an.Param(0))
			sites := closesOf(dh, an.Param(0), w)
			nClose := len(sites)
			for _, s := range dh.Calls(an.CalleeIs("brontide.Listener.acceptConn"), false) {
				if an.Match(dh, w, callArg(s, 0)) {
					sites = append(sites, s)
				}
			}
			if nClose == 0 || len(sites) == nClose {
				o.FailAt(dh.ID+"#anchors", dh.Where(dh.Body.Pos()), "doHandshake: found %d Close calls on the connection and %d hand-overs to acceptConn", nClose, len(sites)-nClose)
			} else {
				mustDoUnless(o, dh, "closing the connection or handing it to acceptConn", sites, dh.Returns())
				notReassigned(o, dh, c11f5ParamNames(dh)...)
			}

			ac := p.Func("brontide.Listener.acceptConn")
			var done []an.Site
			for _, v := range ac.Graph().V {
				ss, ok := v.Node.(*ast.SendStmt)
				if !ok || !an.Match(ac, an.Field("brontide.Listener", "conns", an.Recv()), ss.Chan) {
					continue
				}
				cl, ok := ast.Unparen(ss.Value).(*ast.CompositeLit)
				if !ok {
					continue
				}
				for _, el := range cl.Elts {
					if kv, ok := el.(*ast.KeyValueExpr); ok {
						if k, ok := kv.Key.(*ast.Ident); ok && k.Name == "conn" && an.Match(ac, an.Param(0), kv.Value) {
							done = append(done, an.Site{Fn: ac, V: v, Node: ss})
						}
					}
				}
			}
			nSend := len(done)
			done = append(done, closesOf(ac, nil, an.Param(0))...)
			if nSend == 0 {
				o.FailAt(ac.ID+"#anchors", ac.Where(ac.Body.Pos()), "acceptConn no longer sends maybeConn{conn: conn} on l.conns")
			} else {
				mustDoUnless(o, ac, "sending the connection to Accept or closing it", done, ac.Returns())
				notReassigned(o, ac, c11f5ParamNames(ac)...)
			}

			dl := p.Func("brontide.Dial")
			anyConn := connLit(an.Any())
			var built []an.Site
			for _, v := range dl.Graph().V {
				as, ok := v.Node.(*ast.AssignStmt)
				if !ok || len(as.Rhs) != 1 {
					continue
				}
				if anyConn(dl, an.Strip(dl.Info(), as.Rhs[0])) {
					built = append(built, an.Site{Fn: dl, V: v, Node: as})
				}
			}
			if needExactly(o, dl, "construction of the Conn", built, 1) {
				var inner an.Term = func(f *an.Func, e ast.Expr) bool { return false }
				if cl, ok := an.Strip(dl.Info(), built[0].Node.(*ast.AssignStmt).Rhs[0]).(*ast.CompositeLit); ok {
					for _, el := range cl.Elts {
						if kv, ok := el.(*ast.KeyValueExpr); ok {
							if k, ok := kv.Key.(*ast.Ident); ok && k.Name == "conn" {
								if id, ok := ast.Unparen(kv.Value).(*ast.Ident); ok {
									inner = c11f5Obj(dl.Info().Uses[id])
								}
							}
						}
					}
				}
				closes := closesOf(dl, inner, anyConn)
				var fails []an.Site
				for _, s := range dl.Returns() {
					if dl.ClassifyReturn(s) != an.RetSuccess {
						fails = append(fails, s)
					}
				}
				mustDoUnlessFrom(o, dl, built[0].V, "closing the dialled connection", closes, fails)
			}
		})

	r.Obl("pending-send-survives-a-failed-flush", "WHO",
		"Machine.nextHeaderSend and nextBodySend are written only by WriteMessage (the new ciphertext), Flush (the advance) and releaseBuffers (the release); releaseBuffers is called only from Flush and WriteMessage, in both only where len(nextHeaderSend) == 0 and len(nextBodySend) == 0 were both established (nothing is pending), and from Conn.ClearPendingSend; nothing in package brontide calls ClearPendingSend",
		"a write that a deadline interrupts is resumed by the next Flush from the bytes still pending; a path inside the transport that drops them after an error (it cannot know that the caller will not retry) truncates the record on the wire while WriteMessage accepts the next one, and every later record fails authentication", 16,
		func(o *an.Obl) {
			writers := map[string]bool{mach + ".WriteMessage": true, mach + ".Flush": true, mach + ".releaseBuffers": true}
			for _, f := range p.Funcs(false, "brontide") {
				for _, name := range []string{"nextHeaderSend", "nextBodySend"} {
					for _, w := range c11f5Writes(f, mach, name) {
						o.Site("writer of %s: %s", name, w.site.String())
						if !writers[f.Root().ID] {
							o.FailAt(f.Root().ID+"#writes-"+name, w.site.Where(), "%s writes Machine.%s", f.Root().ID, name)
						}
					}
				}
				for _, s := range f.Calls(an.CalleeIs("brontide.Conn.ClearPendingSend"), false) {
					o.FailAt(f.Root().ID+"#clears-pending-send", s.Where(), "%s calls ClearPendingSend: the transport itself drops a record that may be partly on the wire", f.Root().ID)
				}
				for _, s := range f.Calls(an.CalleeIs(mach+".releaseBuffers"), false) {
					o.Site("%s", s.String())
					switch f.Root().ID {
					case "brontide.Conn.ClearPendingSend":
					case mach + ".Flush", mach + ".WriteMessage":
						for _, name := range []string{"nextHeaderSend", "nextBodySend"} {
							l := an.Len(an.Field(mach, name, an.Recv()))
							guarded(o, f, s, an.AnyOf("len("+name+") == 0", an.Cmp(l, an.EQ, an.IntConst(0), ""), an.CmpX(l, an.LE, an.IntConst(0), "")))
						}
					default:
						o.FailAt(f.Root().ID+"#releases-pending-send", s.Where(), "%s calls releaseBuffers", f.Root().ID)
					}
				}
			}
		})
}
