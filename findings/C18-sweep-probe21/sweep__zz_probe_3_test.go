package sweep

import (
	"github.com/btcsuite/btcd/btcutil/v2"
	"github.com/lightningnetwork/lnd/fn/v2"
	"github.com/lightningnetwork/lnd/input"
	"github.com/lightningnetwork/lnd/lnwallet/chainfee"
	"github.com/stretchr/testify/require"
	"testing"
)

// Probe 3: re-offering an input (UtxoSweeper.handleNewInput ->
// handleExistingInput) replaces its params wholesale, dropping the
// StartingFeeRate recorded by markInputsPublishFailed, so the next sweep of
// the same input starts again from the estimator's answer, below a fee rate
// that was already offered.
func TestProbeReofferedInputForgetsOfferedFeeRate(t *testing.T) {
	t.Parallel()

	const deadline = int32(1000)
	offered := chainfee.SatPerKWeight(6000)

	s := New(&UtxoSweeperConfig{})
	s.currentHeight = 900

	inp := createTestInput(1_000_000, input.WitnessKeyHash)
	params := Params{
		Budget:         btcutil.Amount(100_000),
		DeadlineHeight: fn.Some(deadline),
	}
	pi := &SweeperInput{
		Input:          &inp,
		state:          Published,
		params:         params,
		DeadlineHeight: deadline,
	}
	s.inputs[inp.OutPoint()] = pi

	set, err := NewBudgetInputSet(
		[]SweeperInput{*pi}, deadline, fn.None[AuxSweeper](),
	)
	require.NoError(t, err)

	// The sweeping tx failed while offering 6000 sat/kw.
	s.handleBumpEventTxFailed(&bumpResp{
		set:    set,
		result: &BumpResult{Event: TxFailed, FeeRate: offered},
	})
	require.Equal(t, fn.Some(offered), pi.params.StartingFeeRate)

	// The resolver offers the very same input again (e.g. after the
	// channel arbitrator relaunches it) with its usual params.
	err = s.handleNewInput(&sweepInputMessage{
		input:      &inp,
		params:     params,
		resultChan: make(chan Result, 1),
	})
	require.NoError(t, err)

	got := s.inputs[inp.OutPoint()].params.StartingFeeRate
	require.Equal(t, fn.Some(offered), got, "the fee rate already "+
		"offered for this input was forgotten")
}
