package spec

import (
	"go/ast"
	"go/token"
	"go/types"

	"lndlint/internal/an"
)

// c18RateCeilingClamps is the body of C18/rate-ceiling-clamps.
func c18RateCeilingClamps(o *an.Obl, p *an.Prog) {
	tp := sw + "TxPublisher."

	// ---- MaxFeeRateAllowed: min(Budget / weight, MaxFeeRate)
	f := p.Func(sw + "BumpRequest.MaxFeeRateAllowed")
	// the budget rate in full: the request's budget over the weight of the
	// request's inputs
	const budgetRe = `^lnwallet/chainfee\.NewSatPerKWeight\(\$recv\.Budget, sweep\.calcSweepTxWeight\(\$recv\.Inputs, [^()]*\)\)$`
	budget := canonTerm(budgetRe)
	cap := an.FieldPath(an.Recv(), "MaxFeeRate")
	nCap, nBudget := 0, 0
	succ := f.SuccessReturns()
	for _, s := range succ {
		rs, _ := s.Node.(*ast.ReturnStmt)
		if rs == nil || len(rs.Results) != 2 {
			o.FailAt(f.ID+"#returns", s.Where(), "cannot read the rate returned at %s", s.String())
			continue
		}
		c := f.Canon(rs.Results[0])
		o.Site("MaxFeeRateAllowed returns %s", c)
		switch {
		case c == "$recv.MaxFeeRate":
			nCap++
			guarded(o, f, s, an.CmpX(budget, an.GT, cap, "Budget/weight > MaxFeeRate"))
		case reMatch(budgetRe, c):
			nBudget++
			guarded(o, f, s, an.CmpX(budget, an.LE, cap, "Budget/weight <= MaxFeeRate"))
		default:
			o.FailAt(f.ID+"#returns", s.Where(), "MaxFeeRateAllowed returns %s, expected r.MaxFeeRate or Budget over the weight of the request's inputs", c)
		}
	}
	if nCap != 1 || nBudget != 1 {
		o.FailAt(f.ID+"#exits", f.Where(f.Body.Pos()), "expected one exit with the configured maximum and one with the budget rate, found %d and %d", nCap, nBudget)
	}
	mustPass(o, f, "calcSweepTxWeight", f.Calls(an.CalleeIs(sw+"calcSweepTxWeight"), false), an.OkErrNil, succ)
	c17NoFieldWrites(o, f, "$recv.MaxFeeRate", "$recv.Budget", "$recv.Inputs")

	// ---- the fee function is built with exactly that value as ceiling
	g := p.Func(tp + "initializeFeeFunction")
	for _, fn := range p.Funcs(false, "sweep") {
		for _, s := range fn.Calls(an.CalleeIs(sw+"NewLinearFeeFunction"), true) {
			if fn.Root().ID != g.ID {
				o.FailAt(fn.ID+"#builds-fee-function", s.Where(), "%s builds a fee function; only initializeFeeFunction passes the checked ceiling", fn.ID)
			}
		}
	}
	nf := g.Calls(an.CalleeIs(sw+"NewLinearFeeFunction"), false)
	if need(o, g, "NewLinearFeeFunction", nf, 1) {
		for _, s := range nf {
			a := g.ArgCanon(s)
			o.Site("NewLinearFeeFunction ceiling = %s", a[0])
			if a[0] != "$p0.MaxFeeRateAllowed()" {
				o.FailAt(g.ID+"#ceiling", s.Where(), "the fee function's ceiling is %s, expected the request's MaxFeeRateAllowed() unchanged", a[0])
			}
		}
		mustPass(o, g, "MaxFeeRateAllowed", g.Calls(an.CalleeIs(sw+"BumpRequest.MaxFeeRateAllowed"), false), an.OkErrNil, nf)
	}
	notReassigned(o, g, c17ParamNames(g, 0)...)

	// ---- the constructor
	c := p.Func(sw + "NewLinearFeeFunction")
	notReassigned(o, c, c17ParamNames(c, 0)...)
	nLit := 0
	for _, cl := range p.CompositeLitsOf(p.LookupType("sweep", "LinearFeeFunction")) {
		if cl.Fn == nil || an.IsTestish(cl.Fn.Filename()) {
			continue
		}
		if cl.Fn.Root().ID != c.ID {
			o.FailAt(cl.Fn.ID+"#builds-fee-function", cl.Where, "%s builds a LinearFeeFunction outside its constructor", cl.Fn.ID)
			continue
		}
		nLit++
		ending := ""
		for _, el := range cl.Node.(*ast.CompositeLit).Elts {
			kv, ok := el.(*ast.KeyValueExpr)
			if !ok {
				o.FailAt(c.ID+"#literal", cl.Where, "positional LinearFeeFunction literal")
				continue
			}
			switch an.Text(kv.Key) {
			case "endingFeeRate":
				ending = cl.Fn.Canon(kv.Value)
				o.Site("constructor endingFeeRate = %s", an.Text(kv.Value))
				if ending != "$p0" {
					o.FailAt(c.ID+"#ending", c.Where(kv.Pos()), "endingFeeRate is initialised from %s", an.Text(kv.Value))
				}
			case "currentFeeRate", "startingFeeRate":
				// a rate placed directly in the literal bypasses the cap of the
				// starting rate: only the ceiling itself is known not to exceed it
				o.Site("constructor literal %s = %s", an.Text(kv.Key), an.Text(kv.Value))
				if v := cl.Fn.Canon(kv.Value); v != "$p0" {
					o.FailAt(c.ID+"#literal-"+an.Text(kv.Key), c.Where(kv.Pos()), "the literal sets %s to %s; without the cap only the ceiling itself may be placed there", an.Text(kv.Key), v)
				}
			}
		}
		if ending == "" {
			o.FailAt(c.ID+"#ending", cl.Where, "a LinearFeeFunction literal does not set endingFeeRate")
		}
	}
	if nLit == 0 {
		o.FailAt(c.ID+"#ending", c.Where(c.Body.Pos()), "the constructor builds no LinearFeeFunction literal")
	}
	// the ceiling is never written after construction
	for _, fn := range p.Funcs(false, "sweep") {
		for _, s := range fn.Assigns(an.Field(sw+"LinearFeeFunction", "endingFeeRate", nil), true) {
			o.FailAt(fn.ID+"#writes-ending", s.Where(), "%s writes the ceiling of an existing fee function: %s", fn.ID, s.String())
		}
	}

	// the starting rate is never above the ending rate when the per-block
	// delta `end - start` is computed (the delta is stored in an unsigned
	// type): either `start > end` is false or start was set to end
	var deltas, caps []an.Site
	var startObj, endObj types.Object
	for _, v := range c.Graph().V {
		as, ok := v.Node.(*ast.AssignStmt)
		if !ok {
			continue
		}
		ast.Inspect(as, func(n ast.Node) bool {
			if _, isLit := n.(*ast.FuncLit); isLit {
				return false
			}
			be, ok := n.(*ast.BinaryExpr)
			if !ok || be.Op != token.SUB {
				return true
			}
			x, xok := ast.Unparen(be.X).(*ast.Ident)
			y, yok := ast.Unparen(be.Y).(*ast.Ident)
			if !xok || !yok || c.Info().TypeOf(x) == nil || an.TypeID(c.Info().TypeOf(x)) != "lnwallet/chainfee.SatPerKWeight" {
				return true
			}
			ex, sy := c17ObjOfIdent(c, x), c17ObjOfIdent(c, y)
			if (endObj != nil && ex != endObj) || (startObj != nil && sy != startObj) {
				o.FailAt(c.ID+"#delta", c.Where(be.Pos()), "a second rate difference %s", an.Text(be))
				return true
			}
			endObj, startObj = ex, sy
			deltas = append(deltas, an.Site{Fn: c, V: v, Node: as})
			return true
		})
	}
	if !need(o, c, "delta computation from end - start", deltas, 1) {
		return
	}
	// end: one definition, the ceiling of the function under construction
	for i, w := range c17WritesOf(c, endObj) {
		sel, _ := w.Rhs.(*ast.SelectorExpr)
		ok := i == 0 && w.Tok == token.DEFINE && !w.Tuple && sel != nil && an.Field(sw+"LinearFeeFunction", "endingFeeRate", nil)(c, sel)
		if ok {
			base, _ := ast.Unparen(sel.X).(*ast.Ident)
			var def ast.Expr
			if base != nil {
				def = c.UniqueDef(base)
			}
			u, _ := def.(*ast.UnaryExpr)
			isLit := false
			if u != nil && u.Op == token.AND {
				_, isLit = ast.Unparen(u.X).(*ast.CompositeLit)
			}
			ok = isLit
		}
		o.Site("%s = %s", endObj.Name(), an.Text(w.Node))
		if !ok {
			o.FailAt(c.ID+"#end-definition", c.Where(w.Node.Pos()), "the rate the start is capped at is written by %s, expected one definition from the ceiling of the function under construction", an.Text(w.Node))
		}
	}
	// start: defined once, afterwards only `start = end`
	for i, w := range c17WritesOf(c, startObj) {
		s, inGraph := c17SiteOfNode(c, w.Node)
		switch {
		case i == 0 && w.Tok == token.DEFINE && inGraph:
			o.Site("start defined by %s", an.Text(w.Node))
		case inGraph && w.Tok == token.ASSIGN && w.Whole && !w.Tuple && w.Rhs != nil && c17ObjTerm(endObj)(c, ast.Unparen(w.Rhs)):
			o.Site("start = end at %s", s.Where())
			caps = append(caps, s)
		default:
			o.FailAt(c.ID+"#start-reassigned", c.Where(w.Node.Pos()), "the starting rate is changed by %s; only the cap `start = end` is tabled", an.Text(w.Node))
		}
	}
	le := an.CmpX(c17ObjTerm(startObj), an.LE, c17ObjTerm(endObj), "start <= end")
	if len(caps) == 0 {
		// rejecting instead of capping is as good
		guardedAll(o, c, deltas, le)
	} else {
		mustDoUnless(o, c, "start = end", caps, deltas, le)
	}
	for _, s := range c.Assigns(an.Field(sw+"LinearFeeFunction", "currentFeeRate", nil), false) {
		o.Site("%s", s.String())
		before(o, c, "the cap of the starting rate", deltas, "the assignment of currentFeeRate", []an.Site{s})
	}

	// ---- the schedule clamps at the ceiling
	h := p.Func(sw + "LinearFeeFunction.feeRateAtPosition")
	notReassigned(o, h, c17ParamNames(h, 0)...)
	end := an.FieldPath(an.Recv(), "endingFeeRate")
	width := an.FieldPath(an.Recv(), "width")
	// the computed rate: the local that is returned
	var rate types.Object
	for _, s := range h.Returns() {
		rs, _ := s.Node.(*ast.ReturnStmt)
		if rs == nil || len(rs.Results) != 1 {
			continue
		}
		if id, ok := ast.Unparen(rs.Results[0]).(*ast.Ident); ok {
			if v, isVar := c17ObjOfIdent(h, id).(*types.Var); isVar && !v.IsField() {
				rate = v
			}
		}
	}
	for _, s := range h.Returns() {
		rs, _ := s.Node.(*ast.ReturnStmt)
		if rs == nil || len(rs.Results) != 1 {
			o.FailAt(h.ID+"#returns", s.Where(), "cannot read the rate returned at %s", s.String())
			continue
		}
		res := ast.Unparen(rs.Results[0])
		switch {
		case h.Canon(res) == "$recv.endingFeeRate":
			fs := []an.Fact{an.CmpX(an.Param(0), an.GE, width, "")}
			if rate != nil {
				fs = append(fs, an.CmpX(c17ObjTerm(rate), an.GT, end, ""))
			}
			guarded(o, h, s, an.AnyOf("p >= width or rate above the ceiling", fs...))
		case rate != nil && c17ObjTerm(rate)(h, res):
			below := an.CmpX(c17ObjTerm(rate), an.LE, end, "feeRate <= endingFeeRate")
			guarded(o, h, s, below)
			guarded(o, h, s, an.CmpX(an.Param(0), an.LT, width, "p < width"))
			c17HoldsSinceLastWrite(o, h, s, below, rate)
		default:
			o.FailAt(h.ID+"#returns", s.Where(), "feeRateAtPosition returns %s", an.Text(res))
		}
	}
	c17NoFieldWrites(o, h, "$recv.endingFeeRate", "$recv.width")
}
