package spec

import (
	"go/ast"
	"strings"

	"lndlint/internal/an"
)

var chanStatusAlias = map[string]string{
	"ChannelStatusForStore":    "chanStatus",
	"SetChannelStatusForStore": "chanStatus",
	"ConfirmedScidForStore":    "confirmedScid",
	"SetConfirmedScidForStore": "confirmedScid",
}

func codecC02(r *an.Run) {
	p := r.Prog
	pairs := []an.CodecPair{
		{Name: "OpenChannel/chanInfo", TypePkg: "chanstate", TypeName: "OpenChannel",
			Enc:  []string{"channeldb.putChanInfo", "channeldb.extractOpenChannelTlvData"},
			Dec:  []string{"channeldb.fetchChanInfo", "channeldb.amendOpenChannelTlvData"},
			Opts: an.CodecOpts{Alias: chanStatusAlias}, CompareTypes: true, MinEvents: 17,
			DecOnly: map[string]string{"LastWasRevoke": "stored under its own key by UpdateChannelCommitment / AppendRemoteCommitChain (obligation lastWasRevoke-constants)"}},
		{Name: "OpenChannel/revocationState", TypePkg: "chanstate", TypeName: "OpenChannel",
			Enc: []string{"channeldb.putChanRevocationState"}, Dec: []string{"channeldb.fetchChanRevocationState"},
			CompareTypes: true, MinEvents: 4},
		{Name: "ChannelConfig", TypePkg: "chanstate", TypeName: "ChannelConfig",
			Enc: []string{"channeldb.writeChanConfig"}, Dec: []string{"channeldb.readChanConfig"},
			CompareTypes: true, MinEvents: 11, AllFields: true,
			Unserialised: map[string]string{"ChannelStateBounds": "embedded struct: its fields are written individually", "CommitmentParams": "embedded struct: its fields are written individually"}},
		{Name: "ChannelCommitment", TypePkg: "chanstate", TypeName: "ChannelCommitment",
			Enc:          []string{"channeldb.serializeChanCommit", "channeldb.extractCommitTlvData"},
			Dec:          []string{"channeldb.deserializeChanCommit", "channeldb.amendCommitTlvData"},
			CompareTypes: true, MinEvents: 12, AllFields: true},
		{Name: "HTLC", TypePkg: "chanstate", TypeName: "HTLC",
			Enc:          []string{"channeldb.SerializeHtlcs", "channeldb.serializeHtlcExtraData"},
			Dec:          []string{"channeldb.DeserializeHtlcs", "channeldb.deserializeHtlcExtraData"},
			CompareTypes: true, MinEvents: 10, AllFields: true},
		{Name: "LogUpdate", TypePkg: "chanstate", TypeName: "LogUpdate",
			Enc: []string{"channeldb.serializeLogUpdate"}, Dec: []string{"channeldb.deserializeLogUpdate"},
			CompareTypes: true, MinEvents: 2, AllFields: true},
		{Name: "LogUpdates", TypePkg: "chanstate", TypeName: "LogUpdate",
			Enc: []string{"channeldb.serializeLogUpdates"}, Dec: []string{"channeldb.deserializeLogUpdates"},
			CompareTypes: true, MinEvents: 3},
		{Name: "CommitDiff", TypePkg: "chanstate", TypeName: "CommitDiff",
			Enc: []string{"channeldb.serializeCommitDiff"}, Dec: []string{"channeldb.deserializeCommitDiff"},
			CompareTypes: true, MinEvents: 8},
	}
	r.Obl("channel-codec-pairs", "CODEC",
		"for each encoder/decoder pair of the channel state: the ordered sequence of (field, static element type) written to the stream equals the sequence read; the sets of struct fields used by the two sides agree; for the listed types every field is handled; an element written under a condition on the value is read under the same condition (a trailing element written iff set is read iff bytes remain); putChanCommitment and fetchChanCommitment derive the slot sub-key from their flag identically and the local / remote commitment use the true / false slot; the TLV record structs are filled from and re-attached to the same fields",
		"a field dropped, reordered or re-typed on one side makes the reloaded state differ from the stored one (the serialisation defect class named in C02)", 16,
		func(o *an.Obl) {
			for _, cp := range pairs {
				p.CheckPair(o, cp)
			}
			// optional stream elements are read under the condition they were
			// written under
			n := 0
			for _, cp := range pairs {
				n += c02StreamConditions(o, p, cp.Name, cp.Enc, cp.Dec, cp.TypePkg+"."+cp.TypeName)
			}
			if n < 30 {
				o.FailAt("channel-codec-pairs#conditions", "", "only %d stream fields could be compared for their write/read conditions, expected at least 30", n)
			}
			// the two commitment slots
			c02SlotKeys(o, p)
			// the TLV record structs and the structs they extend: record r is
			// filled from field f and f is re-attached from record r
			c02RoundTrip(o, p, "OpenChannel<->openChannelTlvData", []string{"channeldb.extractOpenChannelTlvData"}, []string{"channeldb.amendOpenChannelTlvData"},
				"channeldb.openChannelTlvData", "chanstate.OpenChannel", chanStatusAlias, 16)
			c02RoundTrip(o, p, "ChannelCommitment<->commitTlvData", []string{"channeldb.extractCommitTlvData"}, []string{"channeldb.amendCommitTlvData"},
				"channeldb.commitTlvData", "chanstate.ChannelCommitment", nil, 2)
		})
	r.Obl("channel-tlv-structs", "CODEC",
		"the TLV record structs appended to the channel info and to each commitment have pairwise distinct type numbers, the encoder and decoder hand exactly the declared records to the stream, and a parsed optional record is re-attached to the field with the same type number as the key that guards it",
		"a duplicate or mismatched TLV type silently drops or misroutes a persisted field", 10,
		func(o *an.Obl) {
			p.CheckTlvStruct(o, "channeldb", "openChannelTlvData", "channeldb.openChannelTlvData.encode", "channeldb.openChannelTlvData.decode")
			p.CheckTlvStruct(o, "channeldb", "commitTlvData", "channeldb.commitTlvData.encode", "channeldb.commitTlvData.decode")
			p.CheckPair(o, an.CodecPair{Name: "openChannelTlvData/converters", TypePkg: "channeldb", TypeName: "openChannelTlvData",
				Enc: []string{"channeldb.extractOpenChannelTlvData"}, Dec: []string{"channeldb.amendOpenChannelTlvData"}, AllFields: true, MentionsOnly: true})
			p.CheckPair(o, an.CodecPair{Name: "commitTlvData/converters", TypePkg: "channeldb", TypeName: "commitTlvData",
				Enc: []string{"channeldb.extractCommitTlvData"}, Dec: []string{"channeldb.amendCommitTlvData"}, AllFields: true, MentionsOnly: true})
		})
	r.Obl("element-switches", "CODEC",
		"channeldb.WriteElement and ReadElement: the reader has a case *T exactly for every writer case T, and per type the set of fixed-size operand widths handed to encoding/binary agrees; every encoding/binary call of the two switches uses channeldb.byteOrder",
		"every channel codec pair funnels through these two switches; a case present or widened on one side only breaks all of them at once", 25,
		func(o *an.Obl) {
			p.CheckElementSwitches(o, "channeldb.WriteElement", "channeldb.ReadElement", nil, nil, nil)
			c02ByteOrder(o, p)
		})
	r.Obl("disk-mem-converters", "CODEC",
		"commitment.toDiskCommit and diskCommitToMemCommit/diskHtlcToPayDesc agree on the fields of ChannelCommitment, HTLC, commitment and paymentDescriptor they carry across a restart, and the field pairings are inverse (what toDiskCommit stores from memory field m into disk field d is restored from d into m); toDiskCommit stores the same fields for offered and received HTLCs with Incoming=false / true, extractPayDescs partitions on that flag and diskCommitToMemCommit puts the partitions back; the forwarding package writer and loader agree on FwdPkg and load every part from the bucket or key it was written under",
		"a field set when writing but not restored (or vice versa) is lost at the first restart", 10,
		func(o *an.Obl) {
			p.CheckPair(o, an.CodecPair{Name: "ChannelCommitment/mem<->disk", TypePkg: "chanstate", TypeName: "ChannelCommitment",
				Enc: []string{"lnwallet.commitment.toDiskCommit"}, Dec: []string{"lnwallet.LightningChannel.diskCommitToMemCommit"}, AllFields: true, MentionsOnly: true})
			p.CheckPair(o, an.CodecPair{Name: "HTLC/mem<->disk", TypePkg: "chanstate", TypeName: "HTLC",
				Enc:          []string{"lnwallet.commitment.toDiskCommit"},
				Dec:          []string{"lnwallet.LightningChannel.diskHtlcToPayDesc", "lnwallet.LightningChannel.extractPayDescs"},
				MentionsOnly: true,
				EncOnly:      map[string]string{"Signature": "the stored HTLC signature is consumed by the resolution builders (C05), not by the update log"}})
			p.CheckPair(o, an.CodecPair{Name: "commitment/mem<->disk", TypePkg: "lnwallet", TypeName: "commitment",
				Enc: []string{"lnwallet.commitment.toDiskCommit"}, Dec: []string{"lnwallet.LightningChannel.diskCommitToMemCommit"},
				MentionsOnly: true,
				DecOnly:      map[string]string{"whoseCommit": "argument of the restore call", "dustLimit": "re-derived from the channel config of whoseCommit"}})
			p.CheckPair(o, an.CodecPair{Name: "paymentDescriptor/mem<->disk", TypePkg: "lnwallet", TypeName: "paymentDescriptor",
				Enc: []string{"lnwallet.commitment.toDiskCommit"}, Dec: []string{"lnwallet.LightningChannel.diskHtlcToPayDesc"},
				MentionsOnly: true,
				EncOnly:      map[string]string{"sig": "stored as HTLC.Signature; restored lazily by the resolution builders"},
				DecOnly: map[string]string{"ChanID": "derived from the channel", "EntryType": "derived from custom records",
					"ourPkScript": "re-derived script", "ourWitnessScript": "re-derived script", "theirPkScript": "re-derived script", "theirWitnessScript": "re-derived script"}})
			p.CheckPair(o, an.CodecPair{Name: "FwdPkg", TypePkg: "chanstate", TypeName: "FwdPkg",
				Enc: []string{"channeldb.ChannelPackager.AddFwdPkg"}, Dec: []string{"channeldb.loadFwdPkg"},
				MentionsOnly: true,
				DecOnly:      map[string]string{"State": "derived from the filters", "FwdFilter": "written separately by SetFwdFilter"}})
			// which field feeds which, in both directions
			c02RoundTrip(o, p, "ChannelCommitment<->commitment", []string{"lnwallet.commitment.toDiskCommit"}, []string{"lnwallet.LightningChannel.diskCommitToMemCommit"},
				"chanstate.ChannelCommitment", "lnwallet.commitment", nil, 20)
			c02RoundTrip(o, p, "HTLC<->paymentDescriptor", []string{"lnwallet.commitment.toDiskCommit"}, []string{"lnwallet.LightningChannel.diskHtlcToPayDesc"},
				"chanstate.HTLC", "lnwallet.paymentDescriptor", nil, 16)
			c02HtlcDirection(o, p)
			c02FwdPkgKeys(o, p)
		})

	r.Obl("stored-keys-are-restored", "CODEC",
		"every channel-bucket key written by the three state transitions (and the forwarding package keys) is read by a function reachable from the restore entry points, and every key read there has a writer; RemoteCommitChainTip, UnsignedAckedUpdates and RemoteUnsignedLocalUpdates return the value decoded from the bytes under their key",
		"a value stored under a key nobody reads on reload is state silently dropped by a restart", 14,
		func(o *an.Obl) {
			puts := append(p.KeyUses("channeldb", "Put"), p.KeyUses("channeldb", "CreateBucketIfNotExists")...)
			gets := append(p.KeyUses("channeldb", "Get"), p.KeyUses("channeldb", "NestedReadBucket")...)
			roots := []string{"channeldb.fetchOpenChannel", "channeldb.ChannelStateDB.RemoteCommitChainTip",
				"channeldb.ChannelStateDB.UnsignedAckedUpdates", "channeldb.ChannelStateDB.RemoteUnsignedLocalUpdates",
				"channeldb.ChannelStateDB.LoadFwdPkgs"}
			for _, id := range roots {
				p.Func(id)
			}
			reach := p.Reachable(roots...)
			keys := []string{"chanInfoKey", "chanCommitmentKey", "revocationStateKey", "commitDiffKey",
				"unsignedAckedUpdatesKey", "remoteUnsignedLocalUpdatesKey", "lastWasRevokeKey",
				"localUpfrontShutdownKey", "remoteUpfrontShutdownKey",
				"addBucketKey", "failSettleBucketKey", "ackFilterKey", "settleFailFilterKey", "fwdFilterKey"}
			for _, k := range keys {
				p.LookupObj("channeldb", k)
				var w, rd []string
				for _, u := range puts {
					if u.Key == k {
						w = append(w, u.Root.ID)
					}
				}
				ok := false
				for _, u := range gets {
					if u.Key == k {
						rd = append(rd, u.Root.ID)
						if reach[u.Root.ID] {
							ok = true
						}
					}
				}
				o.Site("key %s: written by %v, read by %v", k, uniq(w), uniq(rd))
				if len(w) == 0 {
					o.FailAt("key-"+k+"#no-writer", "", "key %s has no Put/CreateBucket site in channeldb", k)
				}
				if !ok {
					o.FailAt("key-"+k+"#not-restored", "", "key %s is written by %v but no Get/NestedReadBucket of it is reachable from the restore entry points %v (readers found: %v)", k, uniq(w), roots, uniq(rd))
				}
			}
			c02ReadersReturnDecoded(o, p)
		})

	r.Obl("broadcast-reads-synced-commitment", "WHO",
		"getSignedCommitTx takes the transaction and signature to broadcast from channelState.LocalCommitment (the copy synchronised with disk by memory-after-disk) and never from the in-memory commitment chain: the CommitTx and CommitSig of the one SignedCommitTxInputs literal handed to GetSignedCommitTx are LocalCommitment's, nothing overwrites a CommitTx/CommitSig before signing, and no channel method called from there reads commitChains",
		"the chain tip can be ahead of disk; broadcasting it could publish a state whose predecessor was not durably revoked/recorded", 2,
		func(o *an.Obl) {
			f := p.Func("lnwallet.LightningChannel.getSignedCommitTx")
			info := f.Info()
			nLocal, nChain := 0, 0
			ast.Inspect(f.Body, func(n ast.Node) bool {
				sel, ok := n.(*ast.SelectorExpr)
				if !ok {
					return true
				}
				if an.Field("chanstate.OpenChannel", "LocalCommitment", nil)(f, sel) {
					nLocal++
					o.Site("reads %s at %s", an.Text(sel), f.Where(sel.Pos()))
				}
				if an.Field("lnwallet.LightningChannel", "commitChains", nil)(f, sel) {
					nChain++
					o.FailAt(f.ID+"#reads-commitChains", f.Where(sel.Pos()), "getSignedCommitTx reads the in-memory commitment chain: %s", an.Text(sel))
				}
				return true
			})
			_ = info
			if nLocal == 0 {
				o.FailAt(f.ID+"#no-LocalCommitment", f.Where(f.Body.Pos()), "getSignedCommitTx no longer reads channelState.LocalCommitment")
			}
			// the transaction and signature handed to GetSignedCommitTx are the
			// fields of that copy, and nothing overwrites them on the way
			sign := f.Calls(an.CalleeIs("lnwallet.GetSignedCommitTx"), false)
			if needExactly(o, f, "GetSignedCommitTx", sign, 1) {
				var lit *ast.CompositeLit
				ast.Inspect(f.Body, func(n ast.Node) bool {
					if cl, ok := n.(*ast.CompositeLit); ok && an.TypeID(f.Info().TypeOf(cl)) == "lnwallet.SignedCommitTxInputs" {
						lit = cl
					}
					return true
				})
				arg := sign[0].Node.(*ast.CallExpr).Args[0]
				if lit == nil || len(c02XferDefs(f, arg)) != 1 || ast.Unparen(c02XferDefs(f, arg)[0]) != ast.Expr(lit) {
					o.FailAt(f.ID+"#signed-inputs", sign[0].Where(), "GetSignedCommitTx is not given the one SignedCommitTxInputs literal of getSignedCommitTx")
				} else {
					got := map[string]string{}
					for _, el := range lit.Elts {
						if kv, ok := el.(*ast.KeyValueExpr); ok {
							got[an.Text(kv.Key)] = f.Canon(kv.Value)
						}
					}
					for _, k := range []string{"CommitTx", "CommitSig"} {
						o.Site("SignedCommitTxInputs.%s = %s", k, got[k])
						if got[k] != "$recv.channelState.LocalCommitment."+k {
							o.FailAt(f.ID+"#signed-"+k, f.Where(lit.Pos()), "the %s handed to GetSignedCommitTx is %s, expected channelState.LocalCommitment.%s", k, got[k], k)
						}
					}
				}
				for _, k := range []string{"CommitTx", "CommitSig"} {
					for _, s := range f.Assigns(c02StoredInto(an.FieldPath(nil, k)), true) {
						o.FailAt(f.ID+"#overwrites-"+k, s.Where(), "getSignedCommitTx overwrites a %s before signing: %s", k, s.String())
					}
				}
			}
			// ... also not through a helper method of the channel
			seen := map[string]bool{f.ID: true}
			work := []string{f.ID}
			for len(work) > 0 {
				cur := p.FuncOpt(work[len(work)-1])
				work = work[:len(work)-1]
				if cur == nil {
					continue
				}
				for id := range cur.StaticCallees() {
					if seen[id] || !(strings.HasPrefix(id, lw+"LightningChannel.") || strings.HasPrefix(id, lw+"commitmentChain.")) {
						continue
					}
					seen[id] = true
					work = append(work, id)
					if strings.HasPrefix(id, lw+"commitmentChain.") {
						o.FailAt(f.ID+"#calls-"+id, f.Where(f.Body.Pos()), "getSignedCommitTx reaches %s (through %s): the in-memory commitment chain must not feed the broadcast", id, cur.ID)
						continue
					}
					if h := p.FuncOpt(id); h != nil {
						ast.Inspect(h.Body, func(n ast.Node) bool {
							if sel, ok := n.(*ast.SelectorExpr); ok && an.Field("lnwallet.LightningChannel", "commitChains", nil)(h, sel) {
								o.FailAt(f.ID+"#reads-commitChains-via-"+id, h.Where(sel.Pos()), "getSignedCommitTx calls %s, which reads the in-memory commitment chain: %s", id, an.Text(sel))
							}
							return true
						})
					}
				}
			}
			o.Site("getSignedCommitTx reaches the channel methods %v", keys(seen))
			// ForceClose obtains the transaction through getSignedCommitTx
			fc := p.Func("lnwallet.LightningChannel.ForceClose")
			calls := fc.Calls(an.CalleeIs("lnwallet.LightningChannel.getSignedCommitTx"), true)
			need(o, fc, "getSignedCommitTx", calls, 1)
			for _, c := range calls {
				o.Site("%s", c.String())
			}
		})
}

func uniq(in []string) []string {
	seen := map[string]bool{}
	var out []string
	for _, s := range in {
		if !seen[s] {
			seen[s] = true
			out = append(out, s)
		}
	}
	return out
}
