package spec

import (
	"go/ast"
	"go/types"
	"sort"
	"strings"

	"lndlint/internal/an"
)

func init() {
	register(&Spec{
		ID: "C10",
		Loads: []LoadSpec{
			{Patterns: []string{"./lnwire"}},
			{Dir: "tlv", Patterns: []string{"."}},
		},
		Explanation: "Decides, for every type implementing lnwire.Message and for the onion failure messages, that Encode and Decode touch the same struct fields, in the same order for the positional part, with writer widths that match the width the reader derives from the field type; that the message-type and failure-code registries are total and round-trip (constant -> constructor -> MsgType()/Code()); that WriteMessage refuses payloads above the 65535-byte bound; that every input-derived allocation or copy bound in the decoders is bounded by a 16-bit/8-bit length, by a constant comparison or by the remaining message size; that the TLV stream decoder rejects non-increasing types and non-minimal BigSize encodings and that every primitive decoder checks the record length; and that peer-facing decoding uses the P2P-bounded TLV stream variants; that every TLV record decoder of lnwire takes exactly the record length from the stream on every path that can report success (byte accounting over fixed reads, reads sized from the length, counted loops with a divisibility check, delegation, or a reader limited to the length and shown to be used up); that no value longer than one byte is read with a bare Read; that a length prefix of 8 bits is dominated by a bound it can hold (16 bits: a bound, or the measured data written in full under the frame bound); that ReadElement and every TLV decoder write their destination on every success path; that an Encode which can finish without a field it handles elsewhere decides so on a field it has already written, Decode and DataToSign deciding by the same condition; and that the BigSize and CompactSize integer primitives are never mixed across an Encode/Decode pair.",
		NotDecided: []string{
			"total absence of panics on arbitrary bytes", "that decode-then-encode is a byte-identical fixpoint for every input",
			"preservation of unknown TLV records through re-encoding beyond the choice of the re-packing helper (the helper's arithmetic on record maps is not decided)", "value equality after a round trip",
		},
		Assumptions: append([]string{"the tlv package analysed is /repo/tlv (its own module); the root module compiles against the tagged copy of it in the module cache"}, commonAssumptions...),
		Engines:     "CODEC (trace agreement over all message types), REG, GUARD, BOUND (incl. byte accounting of record decoders), WHO, PATH, MIRROR",
		TagMatrix:   [][]string{{"GOARCH=386"}},
		Run:         runC10,
	})
}

// widths of the lnwire writer primitives in bytes (0 = variable).
var lnwireWriterWidth = map[string]int{
	"lnwire.WriteUint8": 1, "lnwire.WriteUint16": 2, "lnwire.WriteUint32": 4, "lnwire.WriteUint64": 8,
	"lnwire.WriteSatoshi": 8, "lnwire.WriteMilliSatoshi": 8, "lnwire.WriteBool": 1,
	"lnwire.WriteChannelID": 32, "lnwire.WriteShortChannelID": 8, "lnwire.WritePublicKey": 33,
	"lnwire.WriteSig": 64, "lnwire.WriteFundingFlag": 1, "lnwire.WriteChanUpdateMsgFlags": 1, "lnwire.WriteChanUpdateChanFlags": 1,
	"lnwire.WritePingPayload": 0, "lnwire.WritePongPayload": 0,
}

// readWidth is the number of bytes ReadElement consumes for a destination of
// static type t (0 = unknown/variable).
func readWidth(t string) int {
	switch t {
	case "uint8", "bool", "lnwire.FundingFlag", "lnwire.ChanUpdateMsgFlags", "lnwire.ChanUpdateChanFlags":
		return 1
	case "uint16":
		return 2
	case "uint32":
		return 4
	case "uint64", "lnwire.MilliSatoshi", "github.com/btcsuite/btcd/btcutil/v2.Amount", "lnwire.ShortChannelID":
		return 8
	case "lnwire.ChannelID", "[32]byte":
		return 32
	case "*github.com/decred/dcrd/dcrec/secp256k1/v4.PublicKey", "[33]byte":
		return 33
	case "lnwire.Sig":
		return 64
	}
	return 0
}

func isTailField(t types.Type) bool {
	s := types.TypeString(t, func(p *types.Package) string { return an.Short(p.Path()) })
	return strings.HasPrefix(s, "lnwire.ExtraOpaqueData") || strings.HasPrefix(s, "lnwire.CustomRecords") ||
		strings.HasPrefix(s, "fn/v2.Option[") || strings.HasPrefix(s, "tlv.") || strings.HasPrefix(s, "lnwire.Opt") ||
		strings.Contains(s, "tlv.OptionalRecordT") || strings.Contains(s, "tlv.RecordT")
}

type msgType struct {
	named *types.Named
	name  string
}

// messageTypes lists the struct types of lnwire whose pointer implements the
// Message interface.
func messageTypes(p *an.Prog) []msgType {
	pkg := p.Pkg("lnwire")
	iface := p.LookupType("lnwire", "Message").Underlying().(*types.Interface)
	var out []msgType
	for _, n := range pkg.Types.Scope().Names() {
		tn, ok := pkg.Types.Scope().Lookup(n).(*types.TypeName)
		if !ok || tn.IsAlias() {
			continue
		}
		nt, ok := tn.Type().(*types.Named)
		if !ok {
			continue
		}
		if _, isStruct := nt.Underlying().(*types.Struct); !isStruct {
			continue
		}
		if types.Implements(types.NewPointer(nt), iface) {
			if an.IsTestish(pkg.Fset.Position(tn.Pos()).Filename) {
				continue
			}
			out = append(out, msgType{nt, n})
		}
	}
	sort.Slice(out, func(i, j int) bool { return out[i].name < out[j].name })
	return out
}

func checkMessageCodec(o *an.Obl, p *an.Prog, T *types.Named, name, encID, decID string, tabled map[string]string) {
	enc, dec := p.FuncOpt(encID), p.FuncOpt(decID)
	if enc == nil || dec == nil {
		o.FailAt(name+"#methods", "", "%s: Encode/Decode method not found (%s, %s)", name, encID, decID)
		return
	}
	te, me := enc.Trace(T, an.CodecOpts{})
	td, md := dec.Trace(T, an.CodecOpts{})
	// fields used by the methods of T that Encode / Decode call
	for _, h := range methodClosure(p, T, enc) {
		_, m := h.Trace(T, an.CodecOpts{})
		for k := range m {
			me[k] = true
		}
	}
	for _, h := range methodClosure(p, T, dec) {
		_, m := h.Trace(T, an.CodecOpts{})
		for k := range m {
			md[k] = true
		}
	}
	ftype := an.StructFieldTypes(T)
	// TLV record numbers handed to the stream on each side
	ne, nd := tlvNumbers(p, T, enc, true), tlvNumbers(p, T, dec, false)
	pureTLV := map[string]string{
		"ChannelAnnouncement2": "pure-TLV message: Decode extracts through the record producers of the same allRecords() list Encode uses",
		"NodeAnnouncement2":    "pure-TLV message: Decode extracts through the record producers of the same allRecords() list Encode uses",
	}
	if _, tabled := pureTLV[name]; (len(ne) > 0 && len(nd) > 0) || ((len(ne) > 0 || len(nd) > 0) && !tabled) {
		o.Site("%s: tlv types enc=%v dec=%v", name, keys(ne), keys(nd))
		for _, n := range an.SetDiff(ne, nd) {
			o.FailAt(name+"#tlv-enc-only-"+n, enc.Where(enc.Body.Pos()), "%s: Encode emits a record of TLV type %s that Decode never extracts", name, n)
		}
		for _, n := range an.SetDiff(nd, ne) {
			o.FailAt(name+"#tlv-dec-only-"+n, dec.Where(dec.Body.Pos()), "%s: Decode extracts a record of TLV type %s that Encode never emits", name, n)
		}
	}
	first := func(ev []an.Event) ([]string, map[string]an.Event) {
		seen := map[string]an.Event{}
		var order []string
		for _, e := range ev {
			if e.Field == "" {
				continue
			}
			if _, ok := seen[e.Field]; ok {
				continue
			}
			if t, ok := ftype[e.Field]; ok && isTailField(t) {
				continue
			}
			seen[e.Field] = e
			order = append(order, e.Field)
		}
		return order, seen
	}
	oe, se := first(te)
	od, sd := first(td)
	var ie, id []string
	for _, f := range oe {
		if _, ok := sd[f]; ok {
			ie = append(ie, f)
		}
	}
	for _, f := range od {
		if _, ok := se[f]; ok {
			id = append(id, f)
		}
	}
	o.Site("%s: positional fields enc=%v dec=%v", name, ie, id)
	if strings.Join(ie, " ") != strings.Join(id, " ") {
		o.FailAt(name+"#field-order", dec.Where(dec.Body.Pos()), "%s: Encode writes the positional fields in order %v but Decode reads them in order %v", name, ie, id)
	}
	// widths
	for _, f := range ie {
		w := lnwireWriterWidth[se[f].Prim]
		r := readWidth(sd[f].Type)
		if strings.HasSuffix(sd[f].Prim, "ReadElements") || strings.HasSuffix(sd[f].Prim, "ReadElement") {
			if w != 0 && r != 0 && w != r {
				o.FailAt(name+"#width-"+f, se[f].Where, "%s.%s: Encode writes %d bytes (%s) but Decode reads %d bytes for a %s", name, f, w, se[f].Prim, r, sd[f].Type)
			}
		}
	}
	// every field handled by both sides
	for fld := range ftype {
		if _, ok := tabled[name+"."+fld]; ok {
			continue
		}
		if !me[fld] || !md[fld] {
			o.FailAt(name+"#field-"+fld, enc.Where(enc.Body.Pos()), "%s.%s is handled by Encode=%v Decode=%v: a field present on one side only is lost or never sent", name, fld, me[fld], md[fld])
		}
	}
}

func runC10(r *an.Run) {
	p := r.Prog

	r.Obl("message-codecs-agree", "CODEC",
		"for every struct type implementing lnwire.Message: the positional fields are written by Encode and read by Decode in the same order; where Encode uses a fixed-width writer and Decode reads the field through ReadElement(s), the widths agree; every struct field is handled by both methods (tabled exceptions: fields that are derived or deliberately not on the wire)",
		"an asymmetric codec makes a well-formed message decode to a different value (or to garbage) on the peer", 45,
		func(o *an.Obl) {
			tabled := map[string]string{
				"Custom.Type":              "carried in the 2-byte message header, not in the body",
				"QueryShortChanIDs.noSort": "test-only knob that disables sorting before encoding",
				"ReplyChannelRange.noSort": "test-only knob that disables sorting before encoding",
			}
			for _, mt := range messageTypes(p) {
				checkMessageCodec(o, p, mt.named, mt.name, "lnwire."+mt.name+".Encode", "lnwire."+mt.name+".Decode", tabled)
			}
		})
	runC10b(r)
	runC10c(r)
	runC10alias(r)
	unknownRecordsSurvive(r)
	runC10d(r)
	c10RecordSearch(r)
	c10AddressAccounting(r)
}

var _ = ast.Inspect

func runC10b(r *an.Run) {
	p := r.Prog
	r.Obl("registries-round-trip", "REG",
		"makeEmptyMessage has exactly one case per Msg* constant, each constructing a distinct type whose MsgType() returns that constant; makeEmptyOnionError likewise for Code* constants and Code()",
		"a message type without a constructor cannot be decoded; a constructor/type mismatch decodes bytes as the wrong message", 60,
		func(o *an.Obl) {
			registryRoundTrip(o, p, "lnwire.makeEmptyMessage", "MsgType", "Msg", map[string]string{
				"MsgEnd": "sentinel", "MsgError": "", "MsgCustom": "",
			})
			registryRoundTrip(o, p, "lnwire.makeEmptyOnionError", "Code", "Code", map[string]string{
				"CodeNone": "no failure",
			})
		})

	r.Obl("cross-field-validation-symmetric", "GUARD",
		"every validity constraint between two fields of a message (comparisons of field values or lengths) that Encode enforces is enforced with the same operator by Decode and vice versa",
		"if Decode accepts a message that Encode refuses (or the reverse) the decoded value cannot be re-encoded: the canonical fixpoint breaks", 2,
		func(o *an.Obl) {
			re := `^\((len\()?\$recv\.[A-Za-z.]+\)? (==|!=|<|<=|>|>=) (len\()?\$recv\.[A-Za-z.]+\)?\)$`
			n := 0
			for _, mt := range messageTypes(p) {
				side := func(id string) map[string]bool {
					out := map[string]bool{}
					f := p.FuncOpt(id)
					if f == nil {
						return out
					}
					for _, g := range append([]*an.Func{f}, methodClosure(p, mt.named, f)...) {
						for _, v := range g.Graph().V {
							c := g.AtomCanon(v)
							if c != "" && reMatch(re, c) {
								out[c] = true
							}
						}
					}
					return out
				}
				e, d := side("lnwire."+mt.name+".Encode"), side("lnwire."+mt.name+".Decode")
				for a := range e {
					n++
					o.Site("%s: Encode enforces %s (Decode: %v)", mt.name, a, d[a])
				}
				for a := range d {
					n++
					o.Site("%s: Decode enforces %s (Encode: %v)", mt.name, a, e[a])
				}
				for _, a := range an.SetDiff(e, d) {
					o.FailAt(mt.name+"#enc-only-constraint", "", "%s: Encode enforces %s but Decode does not: Decode can accept a message that cannot be re-encoded", mt.name, a)
				}
				for _, a := range an.SetDiff(d, e) {
					o.FailAt(mt.name+"#dec-only-constraint", "", "%s: Decode enforces %s but Encode does not", mt.name, a)
				}
			}
			_ = n
		})

	r.Obl("write-message-bound", "GUARD",
		"WriteMessage returns success only below !(payload length > MaxMsgBody) with MaxMsgBody = 65533 + ... as declared, after Encode succeeded; ReadMessage decodes only through makeEmptyMessage",
		"a message above 65535 bytes cannot be framed by the transport", 3,
		func(o *an.Obl) {
			f := p.Func("lnwire.WriteMessage")
			succ := f.StrictSuccessReturns()
			// the payload length is identified by what it is computed from
			// (everything written after the start minus the type bytes), not
			// by the name of the local holding it: temporaries with a unique
			// definition are expanded by Canon.
			payloadLen := canonTerm(`^\(\(\$p0\.Len\(\) - \$p0\.Len\(\)\) - \$p0\.Write\(`)
			maxBody := an.PkgVar("lnwire", "MaxMsgBody")
			guardedAll(o, f, succ, an.CmpX(payloadLen, an.LE, maxBody, "payload length <= MaxMsgBody"))
			// every comparison against MaxMsgBody compares that payload length
			nCmp := 0
			ast.Inspect(f.Body, func(n ast.Node) bool {
				be, ok := n.(*ast.BinaryExpr)
				if !ok {
					return true
				}
				var other ast.Expr
				switch {
				case an.Match(f, maxBody, be.Y):
					other = be.X
				case an.Match(f, maxBody, be.X):
					other = be.Y
				default:
					return true
				}
				nCmp++
				c := f.Canon(other)
				o.Site("payload length = %s", c)
				if !an.Match(f, payloadLen, other) {
					o.FailAt(f.ID+"#payload-length", f.Where(be.Pos()), "the payload length is computed as %s, expected buf.Len() - oldByteSize - msgTypeBytes", c)
				}
				return true
			})
			if nCmp == 0 {
				o.FailAt(f.ID+"#payload-length", f.Where(f.Body.Pos()), "no comparison of the payload length against MaxMsgBody")
			}
			mustPass(o, f, "msg.Encode", f.Calls(an.CalleeNamed("Encode"), false), an.OkErrNil, succ)
			if v := constValue(p, "lnwire", "MaxMsgBody"); v != "65533" {
				o.FailAt("lnwire.MaxMsgBody", "", "MaxMsgBody = %s, expected 65533 (65535 minus the 2-byte type)", v)
			}
			g := p.Func("lnwire.ReadMessage")
			mustPass(o, g, "makeEmptyMessage", g.Calls(an.CalleeIs("lnwire.makeEmptyMessage"), false), an.OkErrNil, g.StrictSuccessReturns())
			mustPass(o, g, "msg.Decode", g.Calls(an.CalleeNamed("Decode"), false), an.OkErrNil, g.StrictSuccessReturns())
		})
}

func keys(m map[string]bool) []string {
	var out []string
	for k := range m {
		out = append(out, k)
	}
	sort.Strings(out)
	return out
}

// methodClosure returns the methods of T (and package functions taking a *T)
// statically reachable from start, excluding start itself.
func methodClosure(p *an.Prog, T *types.Named, start *an.Func) []*an.Func {
	seen := map[string]bool{start.ID: true}
	type item struct {
		f     *an.Func
		depth int
	}
	work := []item{{start, 0}}
	var out []*an.Func
	// method names of T and of its embedded struct types
	owners := []string{"lnwire." + T.Obj().Name() + "."}
	if st, ok := T.Underlying().(*types.Struct); ok {
		for i := 0; i < st.NumFields(); i++ {
			if st.Field(i).Embedded() {
				if n := an.NamedOf(st.Field(i).Type()); n != nil {
					owners = append(owners, "lnwire."+n.Obj().Name()+".")
				}
			}
		}
	}
	for len(work) > 0 {
		it := work[len(work)-1]
		work = work[:len(work)-1]
		if it.depth >= 4 {
			continue
		}
		for id := range it.f.StaticCallees() {
			if !strings.HasPrefix(id, "lnwire.") {
				continue
			}
			last := id[strings.LastIndex(id, ".")+1:]
			cands := []string{id}
			if p.FuncOpt(id) == nil {
				// interface method: the receiver's own method of that name
				for _, ow := range owners {
					cands = append(cands, ow+last)
				}
			}
			for _, c := range cands {
				if seen[c] {
					continue
				}
				// never cross into the other direction or other messages' codecs
				if last == "Encode" || last == "Decode" {
					owned := false
					for _, ow := range owners[1:] {
						owned = owned || strings.HasPrefix(c, ow)
					}
					if !owned {
						continue
					}
					if (last == "Encode") != strings.HasSuffix(start.ID, ".Encode") {
						continue
					}
				}
				g := p.FuncOpt(c)
				if g == nil {
					continue
				}
				seen[c] = true
				out = append(out, g)
				work = append(work, item{g, it.depth + 1})
			}
		}
	}
	return out
}

// tlvNumbers collects the TLV type numbers (from static types) of the record
// producers an encoder appends / passes, or a decoder hands to
// ExtractRecords / a stream.
func tlvNumbers(p *an.Prog, T *types.Named, f *an.Func, enc bool) map[string]bool {
	out := map[string]bool{}
	fs := append([]*an.Func{f}, methodClosure(p, T, f)...)
	for _, g := range fs {
		info := g.Info()
		ast.Inspect(g.Body, func(n ast.Node) bool {
			c, ok := n.(*ast.CallExpr)
			if !ok {
				return true
			}
			id := an.CalleeID(info, c)
			consider := false
			switch {
			case id == "builtin.append" && len(c.Args) > 0:
				consider = strings.Contains(types.TypeString(info.TypeOf(c.Args[0]), nil), "RecordProducer")
			case strings.HasSuffix(id, ".ExtractRecords"), strings.HasSuffix(id, ".PackRecords"), strings.HasSuffix(id, "EncodeMessageExtraData"),
				strings.HasSuffix(id, "ParseAndExtractCustomRecords"), strings.HasSuffix(id, "ParseAndExtractExtraData"), strings.HasSuffix(id, "MergeAndEncode"):
				consider = true
			}
			if !consider {
				return true
			}
			for _, a := range c.Args {
				t := info.TypeOf(a)
				if pt, ok := t.(*types.Pointer); ok {
					t = pt.Elem()
				}
				if num := an.TlvNumberOf(t); num != "" {
					out[num] = true
				}
			}
			return true
		})
	}
	return out
}
