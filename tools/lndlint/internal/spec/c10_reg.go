package spec

import (
	"go/ast"
	"go/types"
	"strings"

	"lndlint/internal/an"
)

// registryRoundTrip checks a `switch code { case K: ... &T{} ... }` factory
// against the method T.<method>() that reports the constant back.
func registryRoundTrip(o *an.Obl, p *an.Prog, factoryID, method, constPrefix string, exempt map[string]string) {
	f := p.Func(factoryID)
	info := f.Info()
	var sw *ast.SwitchStmt
	ast.Inspect(f.Body, func(n ast.Node) bool {
		if s, ok := n.(*ast.SwitchStmt); ok && sw == nil && s.Tag != nil {
			sw = s
		}
		return sw == nil
	})
	if sw == nil {
		o.FailAt(factoryID+"#switch", f.Where(f.Body.Pos()), "no tagged switch in %s", factoryID)
		return
	}
	constOf := map[string]string{} // type -> const
	typeOf := map[string]string{}  // const -> type
	for _, cl := range sw.Body.List {
		cc := cl.(*ast.CaseClause)
		if cc.List == nil {
			continue
		}
		var lit string
		for _, st := range cc.Body {
			ast.Inspect(st, func(n ast.Node) bool {
				if c, ok := n.(*ast.CompositeLit); ok && lit == "" {
					if nt := an.NamedOf(info.TypeOf(c)); nt != nil {
						lit = nt.Obj().Name()
					}
				}
				return lit == ""
			})
		}
		for _, e := range cc.List {
			id, ok := ast.Unparen(e).(*ast.Ident)
			if !ok {
				continue
			}
			k, ok := info.Uses[id].(*types.Const)
			if !ok {
				continue
			}
			o.Site("%s: %s -> %s", factoryID, k.Name(), lit)
			if lit == "" {
				o.FailAt(factoryID+"#no-type-"+k.Name(), f.Where(cc.Pos()), "case %s constructs no message value", k.Name())
				continue
			}
			if prev, dup := typeOf[k.Name()]; dup {
				o.FailAt(factoryID+"#dup-const-"+k.Name(), f.Where(cc.Pos()), "constant %s is mapped twice (%s, %s)", k.Name(), prev, lit)
			}
			if prev, dup := constOf[lit]; dup {
				o.FailAt(factoryID+"#dup-type-"+lit, f.Where(cc.Pos()), "type %s is constructed for two constants (%s, %s)", lit, prev, k.Name())
			}
			typeOf[k.Name()] = lit
			constOf[lit] = k.Name()
		}
	}
	// round trip
	for typ, k := range constOf {
		m := p.FuncOpt("lnwire." + typ + "." + method)
		if m == nil {
			o.FailAt(factoryID+"#no-method-"+typ, "", "%s has no %s method", typ, method)
			continue
		}
		rets := m.Returns()
		got := ""
		if len(rets) == 1 {
			if rs, ok := rets[0].Node.(*ast.ReturnStmt); ok && len(rs.Results) == 1 {
				if id, ok := ast.Unparen(rs.Results[0]).(*ast.Ident); ok {
					got = id.Name
				}
			}
		}
		if got != k {
			o.FailAt(factoryID+"#roundtrip-"+typ, m.Where(m.Body.Pos()), "%s constructs %s for %s, but %s.%s() reports %s", factoryID, typ, k, typ, method, got)
		}
	}
	// totality over the declared constants
	scope := p.Pkg("lnwire").Types.Scope()
	for _, n := range scope.Names() {
		if !strings.HasPrefix(n, constPrefix) {
			continue
		}
		c, ok := scope.Lookup(n).(*types.Const)
		if !ok {
			continue
		}
		if _, ok := exempt[n]; ok {
			continue
		}
		if _, ok := typeOf[n]; !ok {
			// only integer constants of the registry block
			if b, ok := c.Type().Underlying().(*types.Basic); !ok || b.Info()&types.IsInteger == 0 {
				continue
			}
			o.FailAt(factoryID+"#unhandled-"+n, "", "constant %s has no case in %s: a message of that type cannot be decoded", n, factoryID)
		}
	}
}
