package spec

// Reported gaps (tools/scripts/gaps/advB-report.md, section C06) that the
// obligations report since they were completed.
func init() {
	const revokeOld = "\trevocationMsg, err := lc.generateRevocation(lc.currentHeight)\n\tif err != nil {\n\t\treturn nil, nil, nil, err\n\t}\n\n\tlc.log.Tracef(\"revoking height=%v, now at height=%v\",\n\t\tlc.commitChains.Local.tail().height,\n\t\tlc.currentHeight+1)\n\n\t// Advance our tail, as we've revoked our previous state.\n\tlc.commitChains.Local.advanceTail()\n\tlc.currentHeight++\n"
	const revokeNew = "\tlc.currentHeight++\n\trevocationMsg, err := lc.generateRevocation(lc.currentHeight)\n\tif err != nil {\n\t\treturn nil, nil, nil, err\n\t}\n\n\tlc.log.Tracef(\"revoking height=%v, now at height=%v\",\n\t\tlc.commitChains.Local.tail().height,\n\t\tlc.currentHeight)\n\n\t// Advance our tail, as we've revoked our previous state.\n\tlc.commitChains.Local.advanceTail()\n"
	registry["C06"].Mutants = append(registry["C06"].Mutants, []Mutant{
		// secret-stored-only-if-consistent
		{Name: "closed-store-compares-bucket-with-itself", File: "shachain/store.go",
			Old:    "\t\te, err := newElement.derive(store.buckets[i].index)\n\t\tif err != nil {\n\t\t\treturn err\n\t\t}\n\n\t\tif !e.isEqual(&store.buckets[i]) {",
			New:    "\t\t_, err := newElement.derive(store.buckets[i].index)\n\t\tif err != nil {\n\t\t\treturn err\n\t\t}\n\n\t\tif !store.buckets[i].isEqual(&store.buckets[i]) {",
			Expect: "secret-stored-only-if-consistent"},
		{Name: "closed-store-mismatch-needs-self-mismatch", File: "shachain/store.go",
			Old:    "\t\tif !e.isEqual(&store.buckets[i]) {",
			New:    "\t\tif !e.isEqual(&store.buckets[i]) &&\n\t\t\t!store.buckets[i].isEqual(&store.buckets[i]) {",
			Expect: "secret-stored-only-if-consistent"},
		{Name: "closed-store-derives-from-stored-bucket", File: "shachain/store.go",
			Old:    "\t\te, err := newElement.derive(store.buckets[i].index)",
			New:    "\t\te, err := store.buckets[i].derive(store.buckets[i].index)",
			Expect: "secret-stored-only-if-consistent"},
		{Name: "closed-store-loop-skips-every-other-bucket", File: "shachain/store.go",
			Old:    "\t\t\t\t\"previous ones\")\n\t\t}\n\t}\n",
			New:    "\t\t\t\t\"previous ones\")\n\t\t}\n\t\ti++\n\t}\n",
			Expect: "secret-stored-only-if-consistent"},
		{Name: "closed-store-loop-jumps-to-the-end", File: "shachain/store.go",
			Old:    "\t\t\t\t\"previous ones\")\n\t\t}\n\t}\n",
			New:    "\t\t\t\t\"previous ones\")\n\t\t}\n\t\ti = bucket - 1\n\t}\n",
			Expect: "secret-stored-only-if-consistent"},
		{Name: "closed-store-bucket-of-next-index", File: "shachain/store.go",
			Old:    "\tbucket := countTrailingZeros(newElement.index)",
			New:    "\tbucket := countTrailingZeros(newElement.index + 1)",
			Expect: "secret-stored-only-if-consistent"},
		{Name: "closed-store-new-element-takes-stored-hash", File: "shachain/store.go",
			Old:    "\t\tindex: store.index,\n\t\thash:  *hash,\n\t}\n\n\tbucket :=",
			New:    "\t\tindex: store.index,\n\t\thash:  store.buckets[0].hash,\n\t}\n\t_ = hash\n\n\tbucket :=",
			Expect: "secret-stored-only-if-consistent"},
		// release-only-after-durable-commitment
		{Name: "closed-revoke-height-advanced-before-release", File: "lnwallet/channel.go",
			Old: revokeOld, New: revokeNew,
			Expect: "release-only-after-durable-commitment"},
		{Name: "closed-revoke-through-method-value", File: "lnwallet/channel.go",
			Old:    "\trevocationMsg, err := lc.generateRevocation(lc.currentHeight)",
			New:    "\tgenerate := lc.generateRevocation\n\trevocationMsg, err := generate(lc.currentHeight + 1)",
			Expect: "release-only-after-durable-commitment"},
		{Name: "closed-revocation-overwritten-with-next-secret", File: "lnwallet/channel.go",
			Old:    "\trevocationMsg.NextRevocationKey = input.ComputeCommitmentPoint(nextCommitSecret[:])\n",
			New:    "\trevocationMsg.NextRevocationKey = input.ComputeCommitmentPoint(nextCommitSecret[:])\n\tcopy(revocationMsg.Revocation[:], nextCommitSecret[:])\n",
			Expect: "release-only-after-durable-commitment"},
		// own-chain-indexes
		{Name: "closed-generate-revocation-indexes-exchanged", File: "lnwallet/channel.go",
			Old:    "\tcommitSecret, err := lc.channelState.RevocationProducer.AtIndex(height)\n\tif err != nil {\n\t\treturn nil, err\n\t}\n\tcopy(revocationMsg.Revocation[:], commitSecret[:])\n\n\t// Along with this revocation, we'll also send the _next_ commitment\n\t// point that the remote party should use to create our next commitment\n\t// transaction. We use a +2 here as we already gave them a look ahead\n\t// of size one after the ChannelReady message was sent:\n\t//\n\t// 0: current revocation, 1: their \"next\" revocation, 2: this revocation\n\t//\n\t// We're revoking the current revocation. Once they receive this\n\t// message they'll set the \"current\" revocation for us to their stored\n\t// \"next\" revocation, and this revocation will become their new \"next\"\n\t// revocation.\n\t//\n\t// Put simply in the window slides to the left by one.\n\trevHeight := height + 2\n\tnextCommitSecret, err := lc.channelState.RevocationProducer.AtIndex(\n\t\trevHeight,\n\t)\n",
			New:    "\tcommitSecret, err := lc.channelState.RevocationProducer.AtIndex(height + 2)\n\tif err != nil {\n\t\treturn nil, err\n\t}\n\tcopy(revocationMsg.Revocation[:], commitSecret[:])\n\n\t// Along with this revocation, we'll also send the _next_ commitment\n\t// point that the remote party should use to create our next commitment\n\t// transaction. We use a +2 here as we already gave them a look ahead\n\t// of size one after the ChannelReady message was sent:\n\t//\n\t// 0: current revocation, 1: their \"next\" revocation, 2: this revocation\n\t//\n\t// We're revoking the current revocation. Once they receive this\n\t// message they'll set the \"current\" revocation for us to their stored\n\t// \"next\" revocation, and this revocation will become their new \"next\"\n\t// revocation.\n\t//\n\t// Put simply in the window slides to the left by one.\n\trevHeight := height + 2\n\tnextCommitSecret, err := lc.channelState.RevocationProducer.AtIndex(\n\t\theight,\n\t)\n",
			Expect: "own-chain-indexes"},
		{Name: "closed-generate-revocation-height-bumped", File: "lnwallet/channel.go",
			Old:    "\trevocationMsg := &lnwire.RevokeAndAck{}\n\tcommitSecret, err :=",
			New:    "\trevocationMsg := &lnwire.RevokeAndAck{}\n\theight++\n\tcommitSecret, err :=",
			Expect: "own-chain-indexes"},
		{Name: "closed-force-close-state-number-decremented", File: "lnwallet/channel.go",
			Old:    "\trevocation, err := chanState.RevocationProducer.AtIndex(stateNum)",
			New:    "\tstateNum--\n\trevocation, err := chanState.RevocationProducer.AtIndex(stateNum)",
			Expect: "own-chain-indexes"},
		{Name: "closed-secret-through-concrete-producer", File: "lnwallet/channel.go",
			Old:    "\tcopy(revocationMsg.Revocation[:], commitSecret[:])\n",
			New:    "\tcopy(revocationMsg.Revocation[:], commitSecret[:])\n\tif rp, ok := lc.channelState.RevocationProducer.(*shachain.RevocationProducer); ok {\n\t\tif s, err := rp.AtIndex(height + 1); err == nil {\n\t\t\tlc.log.Tracef(\"next secret %x\", s[:])\n\t\t}\n\t}\n",
			Expect: "own-chain-indexes"},
	}...)
}
