package spec

import (
	"go/ast"
	"go/types"
	"regexp"
	"sort"
	"strings"

	"lndlint/internal/an"
)

func init() {
	register(&Spec{
		ID:          "C12",
		Loads:       []LoadSpec{{Patterns: []string{"./contractcourt", "./htlcswitch", "./lnwallet"}}},
		Explanation: "Decides the go-to-chain predicate (false exactly below expiry - delta; received HTLCs always, offered ones if forwarded or past the grace period), that offered HTLCs are timed against the outgoing delta and received ones against the incoming delta and only when the preimage is known, that every HTLC of the confirmed commitment receives exactly one disposition per direction, that the two dangling-HTLC passes share their guard chain and fail back only HTLCs absent from the confirmed (resp. local) set whose preimage is unknown, that every produced chain action has a consumer, that the confirmed-commitment key selects the matching evaluation and the chain watcher records the key of the commitment that actually matched, and that each resolver-producing action appends one resolver per HTLC with a resolution.",
		NotDecided: []string{
			"the HTLC sets themselves and their subset relations", "block timing relative to each expiry",
			"uint32 wrap of expiry - delta for expiries below the delta (observation, see DESIGN.md section 9)",
		},
		Assumptions: commonAssumptions,
		Engines:     "TABLE, ROLE, GUARD, REG (consumer partition), PATH",
		Run:         runC12,
	})
}

const cc = "contractcourt."

func runC12(r *an.Run) {
	p := r.Prog

	r.Obl("go-to-chain-predicate", "TABLE",
		"shouldGoOnChain returns false exactly when currentHeight < htlc.RefundTimeout - broadcastDelta; otherwise true for an incoming HTLC and (isForwarded || upTime > PaymentsExpirationGracePeriod) for an outgoing one",
		"a later cut-off than expiry - delta risks the upstream HTLC timing out before the downstream one is resolved on chain", 4,
		func(o *an.Obl) {
			f := p.Func(cc + "ChannelArbitrator.shouldGoOnChain")
			var falseRet, trueRet, tailRet []an.Site
			for _, s := range f.Returns() {
				rs := s.Node.(*ast.ReturnStmt)
				switch c := f.Canon(rs.Results[0]); {
				case c == "false":
					falseRet = append(falseRet, s)
				case c == "true":
					trueRet = append(trueRet, s)
				default:
					tailRet = append(tailRet, s)
					o.Site("outgoing verdict: %s", c)
					if !strings.Contains(c, ".IsForwardedHTLC(") || !strings.Contains(c, "> $recv.cfg.PaymentsExpirationGracePeriod") || !strings.Contains(c, "||") {
						o.FailAt(f.ID+"#outgoing-verdict", s.Where(), "the outgoing verdict is %s, expected isForwarded || upTime > PaymentsExpirationGracePeriod", c)
					}
				}
			}
			if len(falseRet) != 1 || len(trueRet) != 1 || len(tailRet) != 1 {
				o.FailAt(f.ID+"#returns", f.Where(f.Body.Pos()), "expected the three verdict returns, found %d/%d/%d", len(falseRet), len(trueRet), len(tailRet))
				return
			}
			cut := canonTerm(`^\(\$p0\.RefundTimeout - \$p1\)$`)
			guarded(o, f, falseRet[0], an.CmpX(an.Param(2), an.LT, cut, "currentHeight < RefundTimeout - broadcastDelta"))
			guarded(o, f, trueRet[0], an.CmpX(an.Param(2), an.GE, cut, "currentHeight >= RefundTimeout - broadcastDelta"))
			guarded(o, f, trueRet[0], an.Truth(an.FieldPath(an.Param(0), "Incoming"), true, "htlc.Incoming"))
			guarded(o, f, tailRet[0], an.CmpX(an.Param(2), an.GE, cut, "currentHeight >= RefundTimeout - broadcastDelta"))
			guarded(o, f, tailRet[0], an.Truth(an.FieldPath(an.Param(0), "Incoming"), false, "!htlc.Incoming"))
		})

	r.Obl("deltas-and-preimage-by-direction", "ROLE",
		"every shouldGoOnChain call: offered HTLCs (loops over outgoingHTLCs and the dangling set) are timed with OutgoingBroadcastDelta, received ones with IncomingBroadcastDelta; a received HTLC contributes to the decision only below preimageAvailable; the height passed is the function's height parameter",
		"a received HTLC timed with the outgoing delta is claimed too late; one counted without its preimage forces a pointless close", 4,
		func(o *an.Obl) {
			n := 0
			for _, f := range p.Funcs(false, "contractcourt") {
				for _, s := range f.Calls(an.CalleeIs(cc+"ChannelArbitrator.shouldGoOnChain"), false) {
					n++
					a := f.ArgCanon(s)
					hdr := enclosingLoopHeader(f, s.Node)
					o.Site("%s delta=%s loop=%s", s.String(), a[1], hdr)
					want := ""
					switch {
					case strings.Contains(hdr, "outgoingHTLCs") || strings.Contains(hdr, "[]chanstate.HTLC") || strings.Contains(hdr, "pendingRemoteHTLCs"):
						want = "$recv.cfg.OutgoingBroadcastDelta"
					case strings.Contains(hdr, "incomingHTLCs"):
						want = "$recv.cfg.IncomingBroadcastDelta"
					}
					if want == "" {
						o.FailAt(f.ID+"#delta-unclassified", s.Where(), "cannot relate the shouldGoOnChain call to an HTLC direction (loop over %s)", hdr)
						continue
					}
					if a[1] != want {
						o.FailAt(f.ID+"#delta", s.Where(), "an HTLC from %s is timed with %s, expected %s", hdr, a[1], want)
					}
					if ok, _ := regexp.MatchString(`^\$p\d+$`, a[2]); !ok {
						o.FailAt(f.ID+"#height-arg", s.Where(), "shouldGoOnChain is asked about height %s, expected the height the evaluation was called with", a[2])
					}
					if !strings.HasPrefix(a[0], "$elem(") {
						o.FailAt(f.ID+"#htlc-arg", s.Where(), "the HTLC checked (%s) is not the loop element", a[0])
					}
					if want == "$recv.cfg.IncomingBroadcastDelta" {
						guarded(o, f, s, an.Truth(an.ResultOf(an.CallTo(cc+"ChannelArbitrator.isPreimageAvailable", nil), 0), true, "preimageAvailable"))
					}
				}
			}
			if n < 4 {
				o.FailAt("shouldGoOnChain#sites", "", "expected at least 4 call sites, found %d", n)
			}
		})

	r.Obl("one-disposition-per-htlc", "TABLE",
		"checkCommitChainActions: in the loop over offered HTLCs each iteration appends the HTLC to exactly one of {FailDust (dust), OutgoingWatch (not yet due), Timeout (due)}; in the loop over received HTLCs to exactly one of {IncomingDustFinal (dust), IncomingWatch}",
		"an HTLC with two dispositions gets two resolvers or is both resolved and failed back; one with none is never resolved", 5,
		func(o *an.Obl) {
			f := p.Func(cc + "ChannelArbitrator.checkCommitChainActions")
			type app struct {
				site an.Site
				key  string
				loop string
			}
			var apps []app
			for _, v := range f.Graph().V {
				as, ok := v.Node.(*ast.AssignStmt)
				if !ok || len(as.Lhs) != 1 {
					continue
				}
				ix, ok := as.Lhs[0].(*ast.IndexExpr)
				if !ok || an.TypeID(f.Info().TypeOf(ix.X)) != cc+"ChainActionMap" {
					continue
				}
				apps = append(apps, app{an.Site{Fn: f, V: v, Node: as}, f.Canon(ix.Index), enclosingLoopHeader(f, as)})
			}
			byLoop := map[string][]app{}
			for _, a := range apps {
				o.Site("%s -> %s (loop %s)", a.site.String(), a.key, a.loop)
				byLoop[a.loop] = append(byLoop[a.loop], a)
			}
			want := map[string][]string{
				"outgoingHTLCs": {cc + "HtlcFailDustAction", cc + "HtlcOutgoingWatchAction", cc + "HtlcTimeoutAction"},
				"incomingHTLCs": {cc + "HtlcIncomingDustFinalAction", cc + "HtlcIncomingWatchAction"},
			}
			for dir, keys := range want {
				var got []string
				var sites []app
				for loop, as := range byLoop {
					if strings.HasSuffix(loop, "."+dir) {
						for _, a := range as {
							got = append(got, a.key)
							sites = append(sites, a)
						}
					}
				}
				sort.Strings(got)
				if strings.Join(got, ",") != strings.Join(keys, ",") {
					o.FailAt(f.ID+"#dispositions-"+dir, f.Where(f.Body.Pos()), "dispositions for %s are %v, expected %v", dir, got, keys)
					continue
				}
				// exactly one per iteration: from the loop body entry, cutting
				// the edges out of every append vertex, the loop head must be
				// unreachable (no path skips all appends), and from each
				// append no other append is reachable before the loop head
				var head *an.FlowVertex
				for _, v := range f.Graph().V {
					if rs, ok := v.Node.(*ast.RangeStmt); ok && v.Kind.String() == "range" && strings.HasSuffix(f.Canon(rs.X), "."+dir) && rs.Pos() <= sites[0].site.Node.Pos() && sites[0].site.Node.End() <= rs.End() {
						head = v
					}
				}
				if head == nil {
					o.FailAt(f.ID+"#loop-"+dir, f.Where(f.Body.Pos()), "cannot find the disposition loop over %s", dir)
					continue
				}
				stop := map[*an.FlowVertex]bool{head: true}
				for _, a := range sites {
					stop[a.site.V] = true
				}
				var body *an.FlowVertex
				for _, e := range head.Out {
					if e.Kind == 4 {
						body = e.To
					}
				}
				reach := f.Graph().Reach(body, nil, stop)
				if reach[head] {
					// is there a path that reaches head without an append?
					// Reach stops at appends, so reaching head means skipping all
					o.FailAt(f.ID+"#skipped-"+dir, f.Where(head.Pos()), "an iteration over %s can complete without any disposition", dir)
				}
				for _, a := range sites {
					st2 := map[*an.FlowVertex]bool{head: true}
					for _, b := range sites {
						if b.site.V != a.site.V {
							st2[b.site.V] = true
						}
					}
					rr := f.Graph().Reach(a.site.V, nil, st2)
					for _, b := range sites {
						if b.site.V != a.site.V && rr[b.site.V] {
							o.FailAt(f.ID+"#double-"+dir, b.site.Where(), "an HTLC of %s can receive both %s and %s in one iteration", dir, a.key, b.key)
						}
					}
				}
			}
			// dust is decided by a negative output index
			for _, a := range apps {
				if strings.HasSuffix(a.key, "DustAction") || strings.HasSuffix(a.key, "DustFinalAction") {
					guarded(o, f, a.site, an.Cmp(an.FieldPath(nil, "OutputIndex"), an.LT, an.IntConst(0), "htlc.OutputIndex < 0"))
				}
			}
		})

	r.Obl("dangling-htlcs-failed-back-only-when-safe", "GUARD",
		"checkRemoteDanglingActions and checkRemoteDiffActions reach FailDangling / FailDust only for an offered HTLC that is not in the confirmed (resp. local) set, whose preimage lookup succeeded and is not available; dust goes to FailDust and everything else to FailDangling; the dangling variant additionally waits for (goToChain || commitsConfirmed)",
		"an upstream fail-back for an HTLC that still has an output on the confirmed commitment lets the downstream peer claim it while we already refunded upstream", 12,
		func(o *an.Obl) {
			for _, name := range []string{"checkRemoteDanglingActions", "checkRemoteDiffActions"} {
				f := p.Func(cc + "ChannelArbitrator." + name)
				var apps []an.Site
				keys := map[string]int{}
				for _, v := range f.Graph().V {
					as, ok := v.Node.(*ast.AssignStmt)
					if !ok || len(as.Lhs) != 1 {
						continue
					}
					ix, ok := as.Lhs[0].(*ast.IndexExpr)
					if !ok || an.TypeID(f.Info().TypeOf(ix.X)) != cc+"ChainActionMap" {
						continue
					}
					s := an.Site{Fn: f, V: v, Node: as}
					apps = append(apps, s)
					k := f.Canon(ix.Index)
					keys[k]++
					guarded(o, f, s, an.Truth(an.ResultOf(an.CallTo(cc+"ChannelArbitrator.isPreimageAvailable", nil), 0), false, "!preimageAvailable"))
					mustPass(o, f, "isPreimageAvailable", f.Calls(an.CalleeIs(cc+"ChannelArbitrator.isPreimageAvailable"), false), an.OkErrNil, []an.Site{s})
					if strings.HasSuffix(k, "HtlcFailDustAction") {
						guarded(o, f, s, an.Cmp(an.FieldPath(nil, "OutputIndex"), an.LT, an.IntConst(0), "htlc.OutputIndex < 0"))
					} else {
						guarded(o, f, s, an.Cmp(an.FieldPath(nil, "OutputIndex"), an.GE, an.IntConst(0), "htlc.OutputIndex >= 0"))
					}
				}
				if keys[cc+"HtlcFailDustAction"] != 1 || keys[cc+"HtlcFailDanglingAction"] != 1 || len(keys) != 2 {
					o.FailAt(f.ID+"#keys", f.Where(f.Body.Pos()), "%s must produce exactly FailDust and FailDangling, produces %v", name, keys)
				}
				if name == "checkRemoteDiffActions" {
					// membership in the confirmed set excludes: the `ok` of the
					// lookup in the map built from confHTLCs
					for _, s := range apps {
						guarded(o, f, s, an.Truth(an.LocalNamed("ok"), false, "HTLC is not on the confirmed commitment"))
					}
					// confirmed / dangling selection by pendingConf
					for _, lv := range []struct{ name, whenPending, otherwise string }{
						{"confHTLCs", cc + "RemotePendingHtlcSet", cc + "RemoteHtlcSet"},
						{"danglingHTLCs", cc + "RemoteHtlcSet", cc + "RemotePendingHtlcSet"},
					} {
						for _, s := range f.Assigns(an.LocalNamed(lv.name), false) {
							c := f.Canon(s.Node.(*ast.AssignStmt).Rhs[0])
							pend, _ := f.Guarded(s, an.Truth(an.Param(1), true, ""))
							want := lv.otherwise
							if pend {
								want = lv.whenPending
							}
							o.Site("%s (pendingConf=%v) <- %s", lv.name, pend, c)
							if !strings.HasSuffix(c, "["+want+"]") {
								o.FailAt(f.ID+"#"+lv.name, s.Where(), "%s is taken from %s when pendingConf=%v, expected the set %s", lv.name, c, pend, want)
							}
						}
					}
				} else {
					for _, s := range apps {
						guarded(o, f, s, an.AnyOf("goToChain || commitsConfirmed", an.Truth(an.LocalNamed("goToChain"), true, ""), an.Truth(an.Param(2), true, "")))
					}
					// the candidate list holds only remote HTLCs not on the local commitment
					for _, s := range f.Assigns(an.LocalNamed("pendingRemoteHTLCs"), false) {
						if as, ok := s.Node.(*ast.AssignStmt); ok && isAppend(f, as.Rhs[0]) {
							guarded(o, f, s, an.Truth(an.LocalNamed("ok"), false, "HTLC is not on the local commitment"))
						}
					}
				}
			}
		})

	r.Obl("chain-actions-consumed", "REG",
		"every ChainAction constant that some function stores into a ChainActionMap is read by a consumer (a switch case in prepContractResolutions or an index read in the state machine): FailDust, IncomingDustFinal and FailDangling by the fail-back paths, Timeout / OutgoingWatch / IncomingWatch (and legacy Claim) by resolver creation",
		"a disposition nobody consumes is an HTLC that is silently never resolved or failed back", 6,
		func(o *an.Obl) {
			produced, consumed := map[string]bool{}, map[string]bool{}
			for _, f := range p.Funcs(false, "contractcourt") {
				info := f.Info()
				ast.Inspect(f.Body, func(n ast.Node) bool {
					switch x := n.(type) {
					case *ast.AssignStmt:
						for _, l := range x.Lhs {
							if ix, ok := l.(*ast.IndexExpr); ok && an.TypeID(info.TypeOf(ix.X)) == cc+"ChainActionMap" {
								if id, ok := ix.Index.(*ast.Ident); ok {
									if _, isC := info.Uses[id].(*types.Const); isC {
										produced[id.Name] = true
									}
								}
							}
						}
					case *ast.SwitchStmt:
						if x.Tag == nil || an.TypeID(info.TypeOf(x.Tag)) != cc+"ChainAction" || strings.HasSuffix(f.ID, "ChainAction.String") {
							return true
						}
						for _, st := range x.Body.List {
							for _, e := range st.(*ast.CaseClause).List {
								if id, ok := e.(*ast.Ident); ok {
									if _, isC := info.Uses[id].(*types.Const); isC {
										consumed[id.Name] = true
									}
								}
							}
						}
					}
					return true
				})
				// index reads
				ast.Inspect(f.Body, func(n ast.Node) bool {
					as, isAs := n.(*ast.AssignStmt)
					ast.Inspect(n, func(m ast.Node) bool {
						ix, ok := m.(*ast.IndexExpr)
						if !ok || an.TypeID(info.TypeOf(ix.X)) != cc+"ChainActionMap" {
							return true
						}
						if isAs {
							for _, l := range as.Lhs {
								if l == ast.Expr(ix) {
									return true
								}
							}
						}
						if id, ok := ix.Index.(*ast.Ident); ok {
							if _, isC := info.Uses[id].(*types.Const); isC {
								consumed[id.Name+"#read"] = true
							}
						}
						return true
					})
					return false
				})
			}
			for k := range produced {
				okc := consumed[k]
				// an index read other than the self-append counts
				o.Site("action %s produced; consumed by switch=%v", k, okc)
			}
			// precise consumer check: reads that are not the self-append
			reads := map[string]bool{}
			for _, f := range p.Funcs(false, "contractcourt") {
				info := f.Info()
				for _, v := range f.Graph().V {
					v.Inspect(true, func(n ast.Node) bool {
						ix, ok := n.(*ast.IndexExpr)
						if !ok || an.TypeID(info.TypeOf(ix.X)) != cc+"ChainActionMap" {
							return true
						}
						id, ok := ix.Index.(*ast.Ident)
						if !ok {
							return true
						}
						// skip `m[K] = append(m[K], x)`
						if as, isAs := v.Node.(*ast.AssignStmt); isAs && len(as.Lhs) == 1 {
							if lx, isIx := as.Lhs[0].(*ast.IndexExpr); isIx && an.Text(lx) == an.Text(ix) {
								return true
							}
						}
						reads[id.Name] = true
						return true
					})
				}
			}
			for k := range produced {
				if !consumed[k] && !reads[k] {
					o.FailAt("ChainAction-"+k+"#unconsumed", "", "chain action %s is produced but no function consumes it", k)
				}
			}
			if len(produced) < 6 {
				o.FailAt("ChainAction#produced", "", "expected at least 6 produced actions, found %d", len(produced))
			}
		})

	r.Obl("confirmed-commitment-selects-evaluation", "TABLE",
		"constructChainActions: LocalHtlcSet -> checkLocalChainActions, RemoteHtlcSet -> checkRemoteChainActions(pendingConf=false), RemotePendingHtlcSet -> checkRemoteChainActions(pendingConf=true); checkRemoteChainActions evaluates the pending set exactly when pendingConf; the chain watcher records RemoteHtlcSet when the current remote commitment matched the spend and RemotePendingHtlcSet when the pending one did",
		"evaluating the HTLC set of a commitment other than the confirmed one gives resolvers for outputs that do not exist and fails back HTLCs that do", 6,
		func(o *an.Obl) {
			f := p.Func(cc + "ChannelArbitrator.constructChainActions")
			want := map[string][2]string{
				"LocalHtlcSet":         {cc + "ChannelArbitrator.checkLocalChainActions", ""},
				"RemoteHtlcSet":        {cc + "ChannelArbitrator.checkRemoteChainActions", "false"},
				"RemotePendingHtlcSet": {cc + "ChannelArbitrator.checkRemoteChainActions", "true"},
			}
			for _, s := range append(f.Calls(an.CalleeIs(cc+"ChannelArbitrator.checkLocalChainActions"), false), f.Calls(an.CalleeIs(cc+"ChannelArbitrator.checkRemoteChainActions"), false)...) {
				a := f.ArgCanon(s)
				id := an.CalleeID(f.Info(), s.Node.(*ast.CallExpr))
				matched := ""
				for k, w := range want {
					if ok, _ := f.Guarded(s, an.Cmp(an.Any(), an.EQ, an.PkgVar("contractcourt", k), "")); ok {
						matched = k
						o.Site("case %s -> %s(pending=%s)", k, id, a[3])
						if id != w[0] || (w[1] != "" && a[3] != w[1]) {
							o.FailAt(f.ID+"#case-"+k, s.Where(), "confirmed key %s evaluates %s with flag %s, expected %s(%s)", k, id, a[3], w[0], w[1])
						}
						delete(want, k)
					}
				}
				if matched == "" {
					o.FailAt(f.ID+"#unkeyed-call", s.Where(), "%s is not below a case of the confirmed-commitment switch", s.String())
				}
			}
			for k := range want {
				o.FailAt(f.ID+"#missing-case-"+k, f.Where(f.Body.Pos()), "no evaluation for confirmed key %s", k)
			}
			g := p.Func(cc + "ChannelArbitrator.checkRemoteChainActions")
			for _, s := range g.Assigns(an.LocalNamed("confHTLCs"), false) {
				c := g.Canon(s.Node.(*ast.AssignStmt).Rhs[0])
				pend, _ := g.Guarded(s, an.Truth(an.Param(3), true, ""))
				o.Site("checkRemoteChainActions: confHTLCs (pendingConf=%v) <- %s", pend, c)
				wantSet := cc + "RemoteHtlcSet"
				if pend {
					wantSet = cc + "RemotePendingHtlcSet"
				}
				if !strings.HasSuffix(c, "["+wantSet+"]") {
					o.FailAt(g.ID+"#confHTLCs", s.Where(), "with pendingConf=%v the confirmed set is %s, expected %s", pend, c, wantSet)
				}
			}
			// chain watcher
			h := p.Func(cc + "chainWatcher.handleKnownRemoteState")
			n := 0
			for _, s := range h.Assigns(an.Field(cc+"CommitSet", "ConfCommitKey", nil), false) {
				n++
				c := h.Canon(s.Node.(*ast.AssignStmt).Rhs[0])
				cur, _ := h.Guarded(s, an.Cmp(an.CallNamed("TxHash", an.FieldPath(an.FieldPath(nil, "remoteCommit"), "CommitTx")), an.EQ, an.Any(), ""))
				pen, _ := h.Guarded(s, an.Cmp(an.CallNamed("TxHash", an.FieldPath(an.FieldPath(nil, "remotePendingCommit"), "CommitTx")), an.EQ, an.Any(), ""))
				o.Site("handleKnownRemoteState: ConfCommitKey <- %s (current matched=%v, pending matched=%v)", c, cur, pen)
				switch {
				case cur && !strings.HasSuffix(c, "("+cc+"RemoteHtlcSet)"), pen && !strings.HasSuffix(c, "("+cc+"RemotePendingHtlcSet)"), !cur && !pen:
					o.FailAt(h.ID+"#ConfCommitKey", s.Where(), "the confirmed-commitment key recorded is %s although the matching commitment is current=%v pending=%v", c, cur, pen)
				}
			}
			if n != 2 {
				o.FailAt(h.ID+"#ConfCommitKey-sites", h.Where(h.Body.Pos()), "expected two ConfCommitKey assignments, found %d", n)
			}
		})

	r.Obl("one-resolver-per-resolved-htlc", "PATH",
		"prepContractResolutions: each of the Claim, Timeout, IncomingWatch and OutgoingWatch cases appends exactly one resolver per HTLC whose resolution was found (an HTLC without resolution is logged and skipped), built from that resolution and that HTLC; success/incoming-contest resolvers come from the incoming resolution map, timeout/outgoing-contest ones from the outgoing map",
		"a resolver built from the wrong map or appended twice spends the wrong output or double-resolves the HTLC", 8,
		func(o *an.Obl) {
			f := p.Func(cc + "ChannelArbitrator.prepContractResolutions")
			want := map[string][2]string{
				cc + "newSuccessResolver":         {"HtlcClaimAction", "inResolutionMap"},
				cc + "newTimeoutResolver":         {"HtlcTimeoutAction", "outResolutionMap"},
				cc + "newIncomingContestResolver": {"HtlcIncomingWatchAction", "inResolutionMap"},
				cc + "newOutgoingContestResolver": {"HtlcOutgoingWatchAction", "outResolutionMap"},
			}
			for ctor, w := range want {
				cs := f.Calls(an.CalleeIs(ctor), false)
				if len(cs) != 1 {
					o.FailAt(f.ID+"#"+ctor, f.Where(f.Body.Pos()), "expected one construction of %s, found %d", ctor, len(cs))
					continue
				}
				s := cs[0]
				o.Site("%s", s.String())
				guarded(o, f, s, an.Cmp(an.Any(), an.EQ, an.PkgVar("contractcourt", w[0]), "htlcAction == "+w[0]))
				guarded(o, f, s, an.Truth(an.LocalNamed("ok"), true, "resolution found"))
				// the resolution comes from the right map
				c := s.Node.(*ast.CallExpr)
				if id, ok := c.Args[0].(*ast.Ident); ok {
					if call, _ := f.UniqueCallDef(id); call == nil {
						// comma-ok index: find `resolution, ok := m[htlcOp]` in the same case
						found := false
						ast.Inspect(f.Body, func(n ast.Node) bool {
							as, isAs := n.(*ast.AssignStmt)
							if !isAs || len(as.Lhs) != 2 || len(as.Rhs) != 1 {
								return true
							}
							l, isId := as.Lhs[0].(*ast.Ident)
							if !isId || f.Info().Defs[l] == nil || f.Info().Defs[l] != f.Info().Uses[id] {
								return true
							}
							if ix, isIx := as.Rhs[0].(*ast.IndexExpr); isIx {
								found = true
								if m, isM := ix.X.(*ast.Ident); !isM || m.Name != w[1] {
									o.FailAt(f.ID+"#"+ctor+"-map", f.Where(as.Pos()), "%s is built from %s, expected %s", ctor, an.Text(ix.X), w[1])
								}
							}
							return true
						})
						if !found {
							o.FailAt(f.ID+"#"+ctor+"-source", s.Where(), "cannot find where the resolution passed to %s is looked up", ctor)
						}
					}
				}
				// appended exactly once after construction
				var apps []an.Site
				for _, a := range f.Assigns(an.LocalNamed("htlcResolvers"), false) {
					if as, ok := a.Node.(*ast.AssignStmt); ok && isAppend(f, as.Rhs[0]) && strings.Contains(f.Canon(as.Rhs[0]), ctor+"(") {
						apps = append(apps, a)
					}
				}
				if len(apps) != 1 || !f.Before([]an.Site{s}, apps[0]) {
					o.FailAt(f.ID+"#"+ctor+"-append", s.Where(), "the resolver built by %s is appended %d times", ctor, len(apps))
				}
			}
		})

	r.Obl("htlc-sets-come-from-their-commitment", "ROLE",
		"wherever an HTLC set is stored under one of the keys LocalHtlcSet / RemoteHtlcSet / RemotePendingHtlcSet its value is taken from that very commitment: the local commitment, the current remote commitment, the remote commit chain tip (pending) - at arbitrator start-up (newActiveChannelArbitrator), in the chain watcher's commit set (newChainSet) and in the link's three contract updates (after SignNextCommitment: the pending remote HTLCs; after RevokeCurrentCommitment: our HTLCs; after ReceiveRevocation: the remote HTLCs); copies between the arbitrator's own maps keep the key",
		"the go-to-chain decision and the dispositions are computed per set: an HTLC that exists only on the pending remote commitment but is filed under another key (or missing) is never timed out on chain before its incoming HTLC expires", 10,
		func(o *an.Obl) {
			source := map[string]*regexp.Regexp{
				"LocalHtlcSet":         regexp.MustCompile(`LocalCommitment\.Htlcs|localCommit\.Htlcs|LatestCommitments\(\)\.Htlcs|RevokeCurrentCommitment\(\)#`),
				"RemoteHtlcSet":        regexp.MustCompile(`RemoteCommitment\.Htlcs|remoteCommit\.Htlcs|LatestCommitments\(\)#1\.Htlcs|ReceiveRevocation\(`),
				"RemotePendingHtlcSet": regexp.MustCompile(`RemoteCommitChainTip\(\).*\.Commitment\.Htlcs|SignNextCommitment\(.*\.PendingHTLCs`),
			}
			n := 0
			check := func(f *an.Func, key string, val ast.Expr, where string) {
				n++
				c := f.Canon(val)
				o.Site("%s: %s <- %s", where, key, c)
				if strings.Contains(c, "["+cc+key+"]") {
					return // copy under the same key
				}
				for other := range source {
					if other != key && strings.Contains(c, "["+cc+other+"]") {
						o.FailAt(f.ID+"#set-"+key, where, "the set stored under %s is copied from the set of %s", key, other)
						return
					}
				}
				if !source[key].MatchString(c) {
					o.FailAt(f.ID+"#set-"+key, where, "the set stored under %s is taken from %s, expected the HTLCs of that commitment", key, c)
				}
			}
			keyName := func(f *an.Func, e ast.Expr) string {
				c := f.Canon(e)
				for k := range source {
					if c == cc+k {
						return k
					}
				}
				return ""
			}
			for _, f := range p.Funcs(false, "contractcourt", "htlcswitch") {
				if strings.HasSuffix(f.ID, "HtlcSetKey.String") {
					continue
				}
				ast.Inspect(f.Body, func(nd ast.Node) bool {
					switch x := nd.(type) {
					case *ast.FuncLit:
						return false
					case *ast.AssignStmt:
						if len(x.Lhs) == 1 && len(x.Rhs) == 1 {
							if ix, ok := x.Lhs[0].(*ast.IndexExpr); ok {
								if k := keyName(f, ix.Index); k != "" {
									check(f, k, x.Rhs[0], f.Where(x.Pos()))
								}
							}
						}
					case *ast.CompositeLit:
						var key string
						var htlcs ast.Expr
						for _, el := range x.Elts {
							kv, ok := el.(*ast.KeyValueExpr)
							if !ok {
								continue
							}
							if k := keyName(f, kv.Key); k != "" {
								check(f, k, kv.Value, f.Where(kv.Pos()))
							}
							if an.Text(kv.Key) == "HtlcKey" {
								key = keyName(f, kv.Value)
							}
							if an.Text(kv.Key) == "Htlcs" {
								htlcs = kv.Value
							}
						}
						if key != "" && htlcs != nil {
							check(f, key, htlcs, f.Where(x.Pos()))
						}
					}
					return true
				})
			}
			if n < 10 {
				o.FailAt("HtlcSetKey#sites", "", "expected at least 10 keyed HTLC-set writes, found %d", n)
			}
			// the pending set is filled whenever a chain tip exists
			f := p.Func(cc + "newActiveChannelArbitrator")
			for _, v := range f.Graph().V {
				as, ok := v.Node.(*ast.AssignStmt)
				if !ok || len(as.Lhs) != 1 {
					continue
				}
				if ix, ok := as.Lhs[0].(*ast.IndexExpr); ok && keyName(f, ix.Index) == "RemotePendingHtlcSet" {
					guarded(o, f, an.Site{Fn: f, V: v, Node: as}, an.IsNil(an.LocalNamed("pendingRemoteCommitment"), false, "a remote commit chain tip exists"))
				}
			}
		})

	failBackSites(r)
}
