package spec

import (
	"go/ast"
	"go/types"
	"sort"
	"strings"

	"lndlint/internal/an"
)

// c02SlotKeys: putChanCommitment and fetchChanCommitment derive the sub-key of
// the commitment slot from their `local` flag in the same way.
func c02SlotKeys(o *an.Obl, p *an.Prog) {
	sel := func(id, method string) []string {
		f := p.Func(id)
		c02ParamsStable(o, f)
		calls := f.CallsMatching(an.CallNamed(method, nil), false)
		if !needExactly(o, f, method+"(commitKey, ..)", calls, 1) {
			return nil
		}
		obj := c02ObjOf(f, calls[0].Node.(*ast.CallExpr).Args[0])
		if obj == nil {
			o.FailAt(f.ID+"#slot-key", calls[0].Where(), "the key of %s is not a local variable: %s", method, an.Text(calls[0].Node))
			return nil
		}
		// the flag parameter
		flag := ""
		for i, pr := range f.Params(false) {
			if b, ok := pr.Type().(*types.Basic); ok && b.Kind() == types.Bool {
				flag = "$p" + itoa(i)
			}
		}
		var out []string
		for _, s := range f.Assigns(func(fn *an.Func, e ast.Expr) bool { return c02ObjOf(fn, e) == obj }, false) {
			as, ok := s.Node.(*ast.AssignStmt)
			if !ok || len(as.Rhs) != 1 {
				out = append(out, "?"+an.Text(s.Node))
				continue
			}
			cond := "always"
			if ok, _ := f.Guarded(s, an.Truth(canonTerm("^"+regexpQuote(flag)+"$"), true, "")); ok {
				cond = "local"
			} else if ok, _ := f.Guarded(s, an.Truth(canonTerm("^"+regexpQuote(flag)+"$"), false, "")); ok {
				cond = "!local"
			}
			out = append(out, cond+" -> "+f.Canon(as.Rhs[0]))
		}
		sort.Strings(out)
		o.Site("%s: slot key %v", id, out)
		return out
	}
	w := sel("channeldb.putChanCommitment", "Put")
	r := sel("channeldb.fetchChanCommitment", "Get")
	if len(w) != 2 || strings.Join(w, " ; ") != strings.Join(r, " ; ") {
		o.FailAt("chanCommitmentKey#slot-selection", "", "putChanCommitment selects its slot key by %v, fetchChanCommitment by %v: the local and the remote commitment must be stored in and read from the same slot", w, r)
	}
	for _, x := range w {
		if strings.HasPrefix(x, "always") || strings.HasPrefix(x, "?") {
			o.FailAt("chanCommitmentKey#slot-unconditional", "", "the slot key assignment %q does not depend on the local flag", x)
		}
	}
	// the callers: the local commitment with true, the remote one with false
	for _, c := range []struct {
		fn, callee string
		roles      []map[int]string
	}{
		{"channeldb.putChanCommitments", "channeldb.putChanCommitment", []map[int]string{
			{1: `^&\$p1\.LocalCommitment$`, 2: `^true$`}, {1: `^&\$p1\.RemoteCommitment$`, 2: `^false$`}}},
		{"channeldb.fetchChanCommitments", "channeldb.fetchChanCommitment", []map[int]string{
			{1: `^true$`}, {1: `^false$`}}},
	} {
		f := p.Func(c.fn)
		calls := f.Calls(an.CalleeIs(c.callee), false)
		if !needExactly(o, f, c.callee, calls, 2) {
			continue
		}
		for i, s := range calls {
			c02ArgsAre(o, f, s, c.callee, c.roles[i])
		}
	}
	f := p.Func("channeldb.fetchChanCommitments")
	for _, w := range []struct {
		fld  string
		want string
	}{{"LocalCommitment", "true"}, {"RemoteCommitment", "false"}} {
		asg := f.Assigns(an.Field("chanstate.OpenChannel", w.fld, nil), false)
		if !needExactly(o, f, "assignment of "+w.fld, asg, 1) {
			continue
		}
		as := asg[0].Node.(*ast.AssignStmt)
		if c, ok := ast.Unparen(as.Rhs[0]).(*ast.CallExpr); !ok || an.CalleeID(f.Info(), c) != "channeldb.fetchChanCommitment" || len(c.Args) != 2 || f.Canon(c.Args[1]) != w.want {
			o.FailAt(f.ID+"#slot-of-"+w.fld, asg[0].Where(), "%s is restored by %s, expected fetchChanCommitment(.., %s)", w.fld, an.Text(as.Rhs[0]), w.want)
		}
	}
}

// c02ByteOrder: every fixed-size value of the element codec goes through
// encoding/binary with the package's one byte order.
func c02ByteOrder(o *an.Obl, p *an.Prog) {
	n := 0
	for _, id := range []string{"channeldb.WriteElement", "channeldb.ReadElement"} {
		f := p.Func(id)
		for _, s := range f.Calls(an.CalleeNamed("Write", "Read"), true) {
			if fn := an.Callee(f.Info(), s.Node.(*ast.CallExpr)); fn == nil || fn.Pkg() == nil || fn.Pkg().Path() != "encoding/binary" {
				continue
			}
			n++
			if a := f.ArgCanon(s); len(a) < 2 || a[1] != "channeldb.byteOrder" {
				o.FailAt(id+"#byte-order", s.Where(), "%s passes byte order %v to encoding/binary; every element is stored in channeldb.byteOrder", s.String(), a)
			}
		}
		ast.Inspect(f.Body, func(nd ast.Node) bool {
			if sel, ok := nd.(*ast.SelectorExpr); ok {
				if c := f.Canon(sel); c == "binary.LittleEndian" || c == "binary.BigEndian" {
					o.FailAt(id+"#byte-order-literal", f.Where(sel.Pos()), "%s names a byte order (%s) instead of channeldb.byteOrder", id, c)
				}
			}
			return true
		})
	}
	o.Site("element codec: %d encoding/binary calls use channeldb.byteOrder", n)
	if n < 20 {
		o.FailAt("element-switches#byte-order-sites", "", "expected at least 20 encoding/binary calls in WriteElement/ReadElement, found %d", n)
	}
}

// c02FwdPkgKeys: every part of a forwarding package is loaded from the bucket
// or key it was written to.
func c02FwdPkgKeys(o *an.Obl, p *an.Prog) {
	keyRe := `channeldb\.([A-Za-z]+Key)\b`
	keysIn := func(c string) []string {
		var out []string
		for _, m := range c02FindAll(keyRe, c) {
			if _, isVar := p.Pkg("channeldb").Types.Scope().Lookup(m).(*types.Var); isVar && m != "fwdPackagesKey" {
				out = append(out, m)
			}
		}
		return uniq(out)
	}
	// ---- writer
	w := p.Func("channeldb.ChannelPackager.AddFwdPkg")
	c02ParamsStable(o, w)
	enc := map[string][]string{}
	bufField := map[types.Object]string{}
	isBuf := func(obj types.Object) bool { return obj != nil && an.TypeID(obj.Type()) == "bytes.Buffer" }
	fieldOf := func(f *an.Func, e ast.Expr) string {
		// $p1.<Field>...
		c := f.Canon(e)
		if m := c02FindSub(`^&?\$p1\.([A-Za-z]+)`, c); m != "" {
			return m
		}
		return ""
	}
	for _, s := range w.AllCalls(false) {
		c := s.Node.(*ast.CallExpr)
		// putLogUpdate(bucket, idx, &fwdPkg.F[i])
		if an.CalleeID(w.Info(), c) == "channeldb.putLogUpdate" && len(c.Args) == 3 {
			if fld := fieldOf(w, c.Args[2]); fld != "" {
				enc[fld] = append(enc[fld], keysIn(w.Canon(c.Args[0]))...)
				if !reMatch(`^uint16\(\$key\(\$p1\.`+fld+`\)\)$`, w.Canon(c.Args[1])) || !reMatch(`^&\$p1\.`+fld+`\[\$key\(\$p1\.`+fld+`\)\]$`, w.Canon(c.Args[2])) {
					o.FailAt(w.ID+"#fwdpkg-index-"+fld, s.Where(), "AddFwdPkg writes %s under index %s, expected element i under index i of the loop over %s", w.Canon(c.Args[2]), w.Canon(c.Args[1]), fld)
				}
			}
		}
		// fwdPkg.F.Encode(&buf)
		if sel, ok := ast.Unparen(c.Fun).(*ast.SelectorExpr); ok && sel.Sel.Name == "Encode" && len(c.Args) == 1 {
			if fld := fieldOf(w, sel.X); fld != "" {
				if obj := c02ObjOf(w, an.Strip(w.Info(), c.Args[0])); isBuf(obj) {
					bufField[obj] = fld
				}
			}
		}
	}
	for _, s := range w.CallsMatching(an.CallNamed("Put", nil), false) {
		c := s.Node.(*ast.CallExpr)
		if len(c.Args) != 2 {
			continue
		}
		if vc, ok := ast.Unparen(c.Args[1]).(*ast.CallExpr); ok {
			if sel, ok := ast.Unparen(vc.Fun).(*ast.SelectorExpr); ok && sel.Sel.Name == "Bytes" {
				if fld, ok := bufField[c02ObjOf(w, an.Strip(w.Info(), sel.X))]; ok {
					enc[fld] = append(enc[fld], keysIn(w.Canon(c.Args[0]))...)
				}
			}
		}
	}
	// ---- loader
	r := p.Func("channeldb.loadFwdPkg")
	c02ParamsStable(o, r)
	dec := map[string][]string{}
	var lit *ast.CompositeLit
	ast.Inspect(r.Body, func(n ast.Node) bool {
		if cl, ok := n.(*ast.CompositeLit); ok && an.TypeID(r.Info().TypeOf(cl)) == "chanstate.FwdPkg" {
			lit = cl
		}
		return true
	})
	if lit == nil {
		o.FailAt(r.ID+"#literal", r.Where(r.Body.Pos()), "loadFwdPkg no longer builds a FwdPkg literal")
		return
	}
	for _, el := range lit.Elts {
		kv, ok := el.(*ast.KeyValueExpr)
		if !ok {
			continue
		}
		fld := an.Text(kv.Key)
		ks := keysIn(r.Canon(kv.Value))
		// a filter decoded in place: X := &PkgFilter{}; X.Decode(reader over Get(key))
		if obj := c02ObjOf(r, kv.Value); obj != nil {
			for _, s := range r.CallsMatching(an.CallNamed("Decode", nil), false) {
				c := s.Node.(*ast.CallExpr)
				if sel, ok := ast.Unparen(c.Fun).(*ast.SelectorExpr); ok && c02ObjOf(r, sel.X) == obj && len(c.Args) == 1 {
					ks = append(ks, keysIn(r.Canon(c.Args[0]))...)
					mustPass(o, r, "Decode of "+fld, []an.Site{s}, an.OkErrNil, r.SuccessReturns())
				}
			}
		}
		if len(ks) > 0 {
			dec[fld] = uniq(ks)
		}
	}
	for _, fld := range []string{"Adds", "SettleFails", "AckFilter", "SettleFailFilter"} {
		e, d := uniq(enc[fld]), dec[fld]
		sort.Strings(e)
		sort.Strings(d)
		o.Site("FwdPkg.%s: written under %v, loaded from %v", fld, e, d)
		if len(e) != 1 || strings.Join(e, ",") != strings.Join(d, ",") {
			o.FailAt("FwdPkg#key-of-"+fld, "", "FwdPkg.%s is written under %v by AddFwdPkg but loaded from %v by loadFwdPkg", fld, e, d)
		}
	}
	// Source and Height are the bucket path on both sides
	want := map[string]string{"Source": `^\$p1$`, "Height": `^\$p2$`}
	for _, el := range lit.Elts {
		if kv, ok := el.(*ast.KeyValueExpr); ok {
			if re, ok := want[an.Text(kv.Key)]; ok && !reMatch(re, r.Canon(kv.Value)) {
				o.FailAt("FwdPkg#loaded-"+an.Text(kv.Key), r.Where(kv.Pos()), "loadFwdPkg sets %s to %s, expected the %s the package was looked up under", an.Text(kv.Key), r.Canon(kv.Value), strings.ToLower(an.Text(kv.Key)))
			}
		}
	}
}

// c02ReadersReturnDecoded: the store's read accessors hand out the value they
// decoded from the key, not a value that was read and dropped.
func c02ReadersReturnDecoded(o *an.Obl, p *an.Prog) {
	for _, rd := range []struct{ fn, key, dec string }{
		{"channeldb.ChannelStateDB.RemoteCommitChainTip", "commitDiffKey", "deserializeCommitDiff"},
		{"channeldb.ChannelStateDB.UnsignedAckedUpdates", "unsignedAckedUpdatesKey", "deserializeLogUpdates"},
		{"channeldb.ChannelStateDB.RemoteUnsignedLocalUpdates", "remoteUnsignedLocalUpdatesKey", "deserializeLogUpdates"},
	} {
		f := p.Func(rd.fn)
		rets := f.StrictSuccessReturns()
		if len(rets) != 1 {
			o.FailAt(f.ID+"#returns", f.Where(f.Body.Pos()), "expected one success return in %s, found %d", rd.fn, len(rets))
			continue
		}
		obj := c02ObjOf(f, rets[0].Node.(*ast.ReturnStmt).Results[0])
		if obj == nil {
			o.FailAt(f.ID+"#returned-value", rets[0].Where(), "%s does not return a variable: %s", rd.fn, rets[0].String())
			continue
		}
		cl := theLit(f, an.CalleeIs("kvdb.View"), "kvdb.View")
		want := `^channeldb\.` + rd.dec + `\(bytes\.NewReader\(.*\.Get\(channeldb\.` + rd.key + `\)\)\)$`
		var forms []string
		okDef := 0
		for _, s := range cl.Assigns(func(fn *an.Func, e ast.Expr) bool { return c02ObjOf(fn, e) == obj }, false) {
			as, ok := s.Node.(*ast.AssignStmt)
			if !ok {
				continue
			}
			var c string
			switch {
			case len(as.Lhs) == len(as.Rhs):
				c = cl.Canon(as.Rhs[0])
			case len(as.Rhs) == 1 && c02ObjOf(cl, as.Lhs[0]) == obj:
				c = cl.Canon(as.Rhs[0])
			}
			forms = append(forms, c)
			if reMatch(want, c) {
				okDef++
				// nothing but the transaction's end lies between the decode and the return
				mustPass(o, f, "kvdb.View", f.Calls(an.CalleeIs("kvdb.View"), false), an.OkErrNil, rets)
			}
		}
		o.Site("%s returns the value set by %v", rd.fn, forms)
		if okDef != 1 || len(forms) != 1 {
			o.FailAt(f.ID+"#returned-source", rets[0].Where(), "%s returns a variable set by %v inside its transaction, expected exactly the result of %s over the bytes stored under %s", rd.fn, forms, rd.dec, rd.key)
		}
	}
}
