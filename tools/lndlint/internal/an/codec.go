package an

import (
	"fmt"
	"go/ast"
	"go/token"
	"go/types"
	"sort"
	"strings"
)

// Event is one element written to / read from a stream by a codec function.
type Event struct {
	Field   string // field of the value type, "" if the element is not a field
	Type    string // static type of the element (normalised), "" if unknown
	Prim    string // the primitive or nested codec called
	Stream  string // the stream variable the element goes to / comes from
	ifaceOK bool   // the element's static type is an interface (dynamic type decides the wire form)
	Where   string
}

func (e Event) String() string {
	f := e.Field
	if f == "" {
		f = "·"
	}
	return fmt.Sprintf("%s:%s", f, e.Type)
}

// CodecOpts configures tracing.
type CodecOpts struct {
	// Alias maps accessor method names (getter on the encode side, setter on
	// the decode side) to the pseudo field they stand for.
	Alias map[string]string
	// SkipCallees are stream calls that are not element I/O (e.g. logging).
	SkipCallees map[string]bool
}

var (
	ioWriter *types.Interface
	ioReader *types.Interface
)

func init() {
	// io.Writer / io.Reader shapes, built by hand so that no import is needed
	bytesT := types.NewSlice(types.Typ[types.Byte])
	mk := func(name string) *types.Interface {
		params := types.NewTuple(types.NewVar(token.NoPos, nil, "p", bytesT))
		results := types.NewTuple(types.NewVar(token.NoPos, nil, "n", types.Typ[types.Int]), types.NewVar(token.NoPos, nil, "err", types.Universe.Lookup("error").Type()))
		sig := types.NewSignatureType(nil, nil, nil, params, results, false)
		it := types.NewInterfaceType([]*types.Func{types.NewFunc(token.NoPos, nil, name, sig)}, nil)
		it.Complete()
		return it
	}
	ioWriter = mk("Write")
	ioReader = mk("Read")
}

// IsStreamType reports whether t is (or points to) a type implementing
// io.Reader or io.Writer.
func IsStreamType(t types.Type) bool {
	if t == nil {
		return false
	}
	if b, ok := t.Underlying().(*types.Basic); ok && b.Kind() != types.UntypedNil {
		return false
	}
	for _, it := range []*types.Interface{ioWriter, ioReader} {
		if types.Implements(t, it) {
			return true
		}
		if _, isPtr := t.(*types.Pointer); !isPtr {
			if _, isIface := t.Underlying().(*types.Interface); !isIface {
				if types.Implements(types.NewPointer(t), it) {
					return true
				}
			}
		}
	}
	return false
}

// structFields returns field name -> object for the struct behind named type
// t (no embedding expansion).
func structFields(t types.Type) map[*types.Var]string {
	out := map[*types.Var]string{}
	n := NamedOf(t)
	if n == nil {
		return out
	}
	st, ok := n.Underlying().(*types.Struct)
	if !ok {
		return out
	}
	var add func(st *types.Struct, depth int)
	add = func(st *types.Struct, depth int) {
		for i := 0; i < st.NumFields(); i++ {
			fld := st.Field(i)
			if fld.Embedded() && depth < 3 {
				if es, ok := fld.Type().Underlying().(*types.Struct); ok {
					if _, isPtr := fld.Type().(*types.Pointer); !isPtr {
						add(es, depth+1)
						continue
					}
				}
			}
			out[fld] = fld.Name()
		}
	}
	add(st, 0)
	return out
}

// fieldMentions lists, in source order, the fields of T selected inside e
// (and alias method calls on T values).
func (f *Func) fieldMentions(e ast.Node, fields map[*types.Var]string, T *types.Named, opts CodecOpts, local map[types.Object]string) []string {
	var out []string
	info := f.Info()
	ast.Inspect(e, func(n ast.Node) bool {
		switch x := n.(type) {
		case *ast.SelectorExpr:
			if s := info.Selections[x]; s != nil {
				switch s.Kind() {
				case types.FieldVal:
					if v, ok := s.Obj().(*types.Var); ok {
						if name, ok := fields[v.Origin()]; ok {
							out = append(out, name)
							return false
						}
					}
				case types.MethodVal:
					if a, ok := opts.Alias[x.Sel.Name]; ok && NamedOf(s.Recv()) != nil && NamedOf(s.Recv()).Obj() == T.Obj() {
						out = append(out, a)
						return false
					}
				}
			}
		case *ast.KeyValueExpr:
			if k, ok := x.Key.(*ast.Ident); ok {
				if v, ok := info.Uses[k].(*types.Var); ok && v.IsField() {
					if name, ok := fields[v.Origin()]; ok {
						out = append(out, name)
					}
				}
			}
		case *ast.Ident:
			if o := info.Uses[x]; o != nil {
				if name, ok := local[o]; ok {
					out = append(out, name)
				}
			}
		}
		return true
	})
	return out
}

// localLinks computes which locals stand for which field of T in f: locals
// assigned from a field (encode side), locals assigned to a field or passed
// to an alias setter (decode side).
func (f *Func) localLinks(fields map[*types.Var]string, T *types.Named, opts CodecOpts) map[types.Object]string {
	info := f.Info()
	links := map[types.Object]string{}
	ambiguous := map[types.Object]bool{}
	set := func(o types.Object, name string) {
		if o == nil {
			return
		}
		if v, ok := o.(*types.Var); !ok || v.IsField() || (v.Pkg() != nil && v.Parent() == v.Pkg().Scope()) {
			return
		}
		if old, ok := links[o]; ok && old != name {
			ambiguous[o] = true
		}
		links[o] = name
	}
	objOf := func(e ast.Expr) types.Object {
		id, ok := Strip(info, e).(*ast.Ident)
		if !ok {
			return nil
		}
		if o := info.Defs[id]; o != nil {
			return o
		}
		return info.Uses[id]
	}
	identsIn := func(e ast.Expr) []types.Object {
		var out []types.Object
		ast.Inspect(e, func(n ast.Node) bool {
			switch x := n.(type) {
			case *ast.Ident:
				if o, ok := info.Uses[x].(*types.Var); ok && !o.IsField() {
					out = append(out, o)
				}
			case *ast.FuncLit:
				return false
			case *ast.CallExpr:
				// only conversions and builtin wrappers keep the identity
				if tv, ok := info.Types[x.Fun]; ok && tv.IsType() {
					return true
				}
				return false
			}
			return true
		})
		return out
	}
	none := map[types.Object]string{}
	ast.Inspect(f.Body, func(n ast.Node) bool {
		switch x := n.(type) {
		case *ast.AssignStmt:
			if len(x.Lhs) == len(x.Rhs) {
				for i := range x.Lhs {
					// local := <expr mentioning exactly one field>
					if o := objOf(x.Lhs[i]); o != nil {
						if _, isCall := Strip(info, x.Rhs[i]).(*ast.CallExpr); !isCall {
							m := f.fieldMentions(x.Rhs[i], fields, T, opts, none)
							if len(m) == 1 {
								set(o, m[0])
							}
						} else if c, ok := Strip(info, x.Rhs[i]).(*ast.CallExpr); ok {
							// local := X.Getter()
							if sel, ok := c.Fun.(*ast.SelectorExpr); ok {
								if a, ok := opts.Alias[sel.Sel.Name]; ok {
									set(o, a)
								}
							}
						}
					}
					// X.F = <expr mentioning local>
					lm := f.fieldMentions(x.Lhs[i], fields, T, opts, none)
					if len(lm) == 1 {
						if _, isSel := Strip(info, x.Lhs[i]).(*ast.SelectorExpr); isSel {
							for _, o := range identsIn(x.Rhs[i]) {
								set(o, lm[0])
							}
						}
					}
				}
			}
		case *ast.CallExpr:
			if sel, ok := x.Fun.(*ast.SelectorExpr); ok {
				if a, ok := opts.Alias[sel.Sel.Name]; ok && len(x.Args) == 1 {
					for _, o := range identsIn(x.Args[0]) {
						set(o, a)
					}
				}
			}
		case *ast.RangeStmt:
			m := f.fieldMentions(x.X, fields, T, opts, none)
			if len(m) == 1 && x.Value != nil {
				set(objOf(x.Value), m[0])
			}
		}
		return true
	})
	// second pass: v, ok := local.(T) where v is linked links local too
	ast.Inspect(f.Body, func(n ast.Node) bool {
		if as, ok := n.(*ast.AssignStmt); ok && len(as.Rhs) == 1 && len(as.Lhs) >= 1 {
			if ta, ok := ast.Unparen(as.Rhs[0]).(*ast.TypeAssertExpr); ok {
				if name, ok := links[objOf(as.Lhs[0])]; ok {
					set(objOf(ta.X), name)
				}
			}
		}
		return true
	})
	for o := range ambiguous {
		delete(links, o)
	}
	return links
}

func normType(t types.Type) string {
	if t == nil {
		return ""
	}
	return types.TypeString(deAlias(t), func(p *types.Package) string { return Short(p.Path()) })
}

// deAlias replaces alias types by their targets (one structural level deep
// for pointers, slices, arrays and maps), so that channeldb.X = chanstate.X
// compare equal.
func deAlias(t types.Type) types.Type {
	switch x := t.(type) {
	case *types.Alias:
		return deAlias(types.Unalias(x))
	case *types.Pointer:
		return types.NewPointer(deAlias(x.Elem()))
	case *types.Slice:
		return types.NewSlice(deAlias(x.Elem()))
	case *types.Array:
		return types.NewArray(deAlias(x.Elem()), x.Len())
	case *types.Map:
		return types.NewMap(deAlias(x.Key()), deAlias(x.Elem()))
	}
	return t
}

// streamName returns the root identifier of a stream expression.
func streamName(info *types.Info, e ast.Expr) string {
	e = Strip(info, e)
	for {
		switch x := e.(type) {
		case *ast.Ident:
			return x.Name
		case *ast.SelectorExpr:
			return types.ExprString(x)
		default:
			return types.ExprString(e)
		}
	}
}

// Trace returns the ordered stream events of codec function f for value type
// T, and the set of all fields of T mentioned anywhere in f.
func (f *Func) Trace(T *types.Named, opts CodecOpts) ([]Event, map[string]bool) {
	return f.TraceNode(f.Body, T, opts)
}

// TraceNode is Trace restricted to the sub-tree root of f's body. T may be
// nil (then only element types are traced).
func (f *Func) TraceNode(root ast.Node, T *types.Named, opts CodecOpts) ([]Event, map[string]bool) {
	info := f.Info()
	fields := map[*types.Var]string{}
	if T != nil {
		fields = structFields(T)
	}
	if T == nil {
		T = types.NewNamed(types.NewTypeName(token.NoPos, nil, "_none_", nil), types.NewStruct(nil, nil), nil)
	}
	links := f.localLinks(fields, T, opts)
	mentioned := map[string]bool{}
	for _, m := range f.fieldMentions(root, fields, T, opts, nil) {
		mentioned[m] = true
	}
	// setter aliases count as mentions
	var events []Event
	// assignments whose RHS is a stream call: remember LHS
	lhsOf := map[*ast.CallExpr][]ast.Expr{}
	ast.Inspect(f.Body, func(n ast.Node) bool {
		if as, ok := n.(*ast.AssignStmt); ok && len(as.Rhs) == 1 {
			if c, ok := ast.Unparen(as.Rhs[0]).(*ast.CallExpr); ok {
				lhsOf[c] = as.Lhs
			}
		}
		return true
	})
	argType := func(a ast.Expr) types.Type {
		a = ast.Unparen(a)
		if u, ok := a.(*ast.UnaryExpr); ok && u.Op == token.AND {
			return info.TypeOf(u.X)
		}
		return info.TypeOf(a)
	}
	var walk func(n ast.Node)
	walk = func(n ast.Node) {
		ast.Inspect(n, func(n ast.Node) bool {
			c, ok := n.(*ast.CallExpr)
			if !ok {
				return true
			}
			if tv, ok := info.Types[c.Fun]; ok && tv.IsType() {
				return true
			}
			id := CalleeID(info, c)
			if opts.SkipCallees[id] {
				return false
			}
			// stream argument or receiver?
			streamArg := -1
			for i, a := range c.Args {
				if IsStreamType(info.TypeOf(a)) {
					streamArg = i
					break
				}
			}
			var recvX ast.Expr
			if sel, ok := ast.Unparen(c.Fun).(*ast.SelectorExpr); ok {
				if s := info.Selections[sel]; s != nil && s.Kind() == types.MethodVal {
					recvX = sel.X
				}
			}
			recvIsStream := recvX != nil && IsStreamType(info.TypeOf(recvX))
			if streamArg < 0 && !recvIsStream {
				return true
			}
			if strings.HasPrefix(id, "builtin.") {
				return true
			}
			where := f.Where(c.Pos())
			emitted := false
			stream := ""
			if streamArg >= 0 {
				stream = streamName(info, c.Args[streamArg])
			} else if recvIsStream {
				stream = streamName(info, recvX)
			}
			emit := func(field string, t types.Type) {
				isIface := false
				if t != nil {
					_, isIface = t.Underlying().(*types.Interface)
				}
				events = append(events, Event{Field: field, Type: normType(t), Prim: id, Where: where, Stream: stream, ifaceOK: isIface})
				emitted = true
			}
			// receiver that is not the stream: the element is the receiver
			if recvX != nil && !recvIsStream {
				ms := f.fieldMentions(recvX, fields, T, opts, links)
				if len(ms) > 0 {
					for _, m := range ms {
						emit(m, nil)
					}
				} else if NamedOf(info.TypeOf(recvX)) != nil && NamedOf(info.TypeOf(recvX)).Obj() == T.Obj() {
					// method of the value itself taking the stream: nested
					// codec of the same type; not an element
				} else {
					emit("", info.TypeOf(recvX))
				}
			}
			for i, a := range c.Args {
				if i == streamArg || IsStreamType(info.TypeOf(a)) {
					continue
				}
				ms := f.fieldMentions(a, fields, T, opts, links)
				if len(ms) > 0 {
					for _, m := range ms {
						emit(m, argType(a))
					}
					continue
				}
				// an argument that is the whole value (nested helper over T)
				if nt := NamedOf(argType(a)); nt != nil && nt.Obj() == T.Obj() {
					continue
				}
				emit("", argType(a))
			}
			for _, l := range lhsOf[c] {
				if lid, ok := ast.Unparen(l).(*ast.Ident); ok {
					lo := info.Defs[lid]
					if lo == nil {
						lo = info.Uses[lid]
					}
					if name, ok := links[lo]; ok && info.Defs[lid] != nil {
						emit(name, info.TypeOf(l))
						continue
					}
				}
				ms := f.fieldMentions(l, fields, T, opts, links)
				for _, m := range ms {
					emit(m, info.TypeOf(l))
				}
			}
			_ = emitted
			return false
		})
	}
	walk(root)
	return events, mentioned
}

// FirstFieldOrder reduces a trace to the order of first occurrence of each
// field.
func FirstFieldOrder(ev []Event) []string {
	seen := map[string]bool{}
	var out []string
	for _, e := range ev {
		if e.Field == "" || seen[e.Field] {
			continue
		}
		seen[e.Field] = true
		out = append(out, e.Field)
	}
	return out
}

// SetDiff returns a\b sorted.
func SetDiff(a, b map[string]bool) []string {
	var out []string
	for k := range a {
		if !b[k] {
			out = append(out, k)
		}
	}
	sort.Strings(out)
	return out
}

// TlvTypeNumbers returns, for struct type T, the TLV type number of every
// field whose type is tlv.RecordT[...] or tlv.OptionalRecordT[...], decided
// on the type arguments.
func TlvTypeNumbers(T *types.Named) map[string]string {
	out := map[string]string{}
	st, ok := T.Underlying().(*types.Struct)
	if !ok {
		return out
	}
	for i := 0; i < st.NumFields(); i++ {
		if n := tlvNumberOf(st.Field(i).Type()); n != "" {
			out[st.Field(i).Name()] = n
		}
	}
	return out
}

func tlvNumberOf(t types.Type) string {
	n, ok := types.Unalias(t).(*types.Named)
	if !ok || n.Obj().Pkg() == nil || !strings.HasSuffix(n.Obj().Pkg().Path(), "/tlv") {
		return ""
	}
	switch n.Obj().Name() {
	case "RecordT", "OptionalRecordT":
		if n.TypeArgs() == nil || n.TypeArgs().Len() == 0 {
			return ""
		}
		return types.TypeString(n.TypeArgs().At(0), func(p *types.Package) string { return "" })
	}
	return ""
}

// CodecPair describes an encoder/decoder pair over one value type.
type CodecPair struct {
	Name     string
	TypePkg  string
	TypeName string
	Enc, Dec []string // function IDs; the first of each is traced, all contribute to the mention sets
	Opts     CodecOpts
	// EncOnly / DecOnly: fields legitimately mentioned on one side only,
	// with the reason.
	EncOnly, DecOnly map[string]string
	CompareTypes     bool
	// AllFields requires every field of the type to be mentioned by both
	// sides (minus Unserialised).
	AllFields    bool
	Unserialised map[string]string
	MinEvents    int
	// MentionsOnly skips the stream-order comparison (converter pairs that
	// do no stream I/O).
	MentionsOnly bool
	// NamedOnly compares, with types, only the elements that carry a field
	// of the value (presence flags written in both branches of an if/else
	// would otherwise be counted twice by the syntactic trace).
	NamedOnly bool
}

// CheckPair evaluates the pair and records sites / failures on o.
func (p *Prog) CheckPair(o *Obl, cp CodecPair) {
	T := p.LookupType(cp.TypePkg, cp.TypeName)
	encMent, decMent := map[string]bool{}, map[string]bool{}
	var encEv, decEv []Event
	for i, id := range cp.Enc {
		f := p.Func(id)
		ev, m := f.Trace(T, cp.Opts)
		if i == 0 {
			encEv = ev
		}
		for k := range m {
			encMent[k] = true
		}
	}
	for i, id := range cp.Dec {
		f := p.Func(id)
		ev, m := f.Trace(T, cp.Opts)
		if i == 0 {
			decEv = ev
		}
		for k := range m {
			decMent[k] = true
		}
	}
	main := func(ev []Event) []Event {
		if len(ev) == 0 {
			return ev
		}
		var out []Event
		for _, e := range ev {
			if e.Stream == ev[0].Stream {
				out = append(out, e)
			}
		}
		return out
	}
	encEv, decEv = main(encEv), main(decEv)
	render := func(ev []Event) string {
		var parts []string
		for _, e := range ev {
			if cp.CompareTypes {
				parts = append(parts, e.String())
			} else if e.Field != "" {
				parts = append(parts, e.Field)
			}
		}
		return strings.Join(parts, " ")
	}
	key := func(e Event) string {
		if cp.CompareTypes {
			return e.String()
		}
		return e.Field
	}
	filter := func(ev []Event) []Event {
		if cp.NamedOnly {
			var out []Event
			for _, e := range ev {
				if e.Field != "" {
					out = append(out, e)
				}
			}
			return out
		}
		if cp.CompareTypes {
			return ev
		}
		// field order only: first occurrences
		seen := map[string]bool{}
		var out []Event
		for _, e := range ev {
			if e.Field == "" || seen[e.Field] {
				continue
			}
			seen[e.Field] = true
			out = append(out, e)
		}
		return out
	}
	a, b := filter(encEv), filter(decEv)
	if cp.MentionsOnly {
		a, b = nil, nil
		var em, dm []string
		for k := range encMent {
			em = append(em, k)
		}
		for k := range decMent {
			dm = append(dm, k)
		}
		sort.Strings(em)
		sort.Strings(dm)
		o.Site("%s: %v use fields %v", cp.Name, cp.Enc, em)
		o.Site("%s: %v use fields %v", cp.Name, cp.Dec, dm)
		if len(em) == 0 || len(dm) == 0 {
			o.FailAt(cp.Name+"#no-fields", "", "%s: one side mentions no field of %s", cp.Name, cp.TypeName)
		}
	} else {
		o.Site("%s: %s writes [%s]", cp.Name, cp.Enc[0], render(a))
		o.Site("%s: %s reads  [%s]", cp.Name, cp.Dec[0], render(b))
	}
	if false {
		o.Site("%s: %s writes [%s]", cp.Name, cp.Enc[0], render(a))
	}
	if len(a) < cp.MinEvents || len(b) < cp.MinEvents {
		o.FailAt(cp.Name+"#trace-too-short", "", "%s: traced %d written and %d read elements, expected at least %d: the codec moved or uses a construct the tracer does not know", cp.Name, len(a), len(b), cp.MinEvents)
	}
	n := len(a)
	if len(b) < n {
		n = len(b)
	}
	for i := 0; i < n; i++ {
		if cp.CompareTypes && a[i].Field == b[i].Field && (a[i].ifaceOK || b[i].ifaceOK) {
			continue
		}
		if key(a[i]) != key(b[i]) {
			o.FailAt(cp.Name+"#order", b[i].Where, "%s: element %d differs: encoder writes %s (%s) but decoder reads %s (%s)\n  enc: %s\n  dec: %s", cp.Name, i, key(a[i]), a[i].Where, key(b[i]), b[i].Where, render(a), render(b))
			break
		}
	}
	if len(a) != len(b) {
		longer, side := a, "encoder writes"
		if len(b) > len(a) {
			longer, side = b, "decoder reads"
		}
		o.FailAt(cp.Name+"#length", longer[n].Where, "%s: %s %d more element(s) than the other side, first extra: %s\n  enc: %s\n  dec: %s", cp.Name, side, len(longer)-n, key(longer[n]), render(a), render(b))
	}
	for _, fld := range SetDiff(encMent, decMent) {
		if _, ok := cp.EncOnly[fld]; ok {
			continue
		}
		o.FailAt(cp.Name+"#enc-only-"+fld, "", "%s: field %s.%s is used by the encoder side %v but not by the decoder side %v", cp.Name, cp.TypeName, fld, cp.Enc, cp.Dec)
	}
	for _, fld := range SetDiff(decMent, encMent) {
		if _, ok := cp.DecOnly[fld]; ok {
			continue
		}
		o.FailAt(cp.Name+"#dec-only-"+fld, "", "%s: field %s.%s is used by the decoder side %v but not by the encoder side %v", cp.Name, cp.TypeName, fld, cp.Dec, cp.Enc)
	}
	if cp.AllFields {
		for _, name := range structFields(T) {
			if _, ok := cp.Unserialised[name]; ok {
				continue
			}
			if !encMent[name] || !decMent[name] {
				o.FailAt(cp.Name+"#uncovered-"+name, "", "%s: field %s.%s is not handled by both sides (enc=%v dec=%v)", cp.Name, cp.TypeName, name, encMent[name], decMent[name])
			}
		}
	}
}

// CheckTlvStruct checks a struct made of tlv records: distinct type numbers,
// the encoder and the decoder hand records of exactly the declared numbers
// to the stream, and a decoded optional record is re-attached to the field
// of the same number as the parsed-types key that guards it.
func (p *Prog) CheckTlvStruct(o *Obl, pkg, typ, encID, decID string) {
	T := p.LookupType(pkg, typ)
	nums := TlvTypeNumbers(T)
	byNum := map[string]string{}
	for fld, n := range nums {
		o.Site("%s.%s.%s has TLV type %s", pkg, typ, fld, n)
		if other, dup := byNum[n]; dup {
			o.FailAt(typ+"#dup-"+n, "", "%s.%s: fields %s and %s share TLV type %s", pkg, typ, other, fld, n)
		}
		byNum[n] = fld
	}
	recNums := func(f *Func) map[string]bool {
		out := map[string]bool{}
		info := f.Info()
		ast.Inspect(f.Body, func(n ast.Node) bool {
			c, ok := n.(*ast.CallExpr)
			if !ok {
				return true
			}
			sel, ok := c.Fun.(*ast.SelectorExpr)
			if !ok || sel.Sel.Name != "Record" || len(c.Args) != 0 {
				return true
			}
			if num := tlvNumberOf(info.TypeOf(sel.X)); num != "" {
				out[num] = true
			} else if pt, ok := info.TypeOf(sel.X).(*types.Pointer); ok {
				if num := tlvNumberOf(pt.Elem()); num != "" {
					out[num] = true
				}
			}
			return true
		})
		return out
	}
	want := map[string]bool{}
	for n := range byNum {
		want[n] = true
	}
	for _, id := range []string{encID, decID} {
		f := p.Func(id)
		got := recNums(f)
		for _, n := range SetDiff(want, got) {
			o.FailAt(typ+"#"+id+"-missing-"+n, f.Where(f.Body.Pos()), "%s never hands the record of field %s (TLV type %s) to the stream", id, byNum[n], n)
		}
		for _, n := range SetDiff(got, want) {
			o.FailAt(typ+"#"+id+"-extra-"+n, f.Where(f.Body.Pos()), "%s hands a record of TLV type %s to the stream but %s.%s has no field of that type", id, n, pkg, typ)
		}
	}
	// re-attachment guards in the decoder
	dec := p.Func(decID)
	info := dec.Info()
	fields := structFields(T)
	ast.Inspect(dec.Body, func(n ast.Node) bool {
		ifs, ok := n.(*ast.IfStmt)
		if !ok {
			return true
		}
		keyNum := ""
		scan := func(x ast.Node) {
			if x == nil {
				return
			}
			ast.Inspect(x, func(m ast.Node) bool {
				c, ok := m.(*ast.CallExpr)
				if !ok {
					return true
				}
				if sel, ok := c.Fun.(*ast.SelectorExpr); ok && sel.Sel.Name == "TlvType" {
					t := info.TypeOf(sel.X)
					if pt, ok := t.(*types.Pointer); ok {
						t = pt.Elem()
					}
					if num := tlvNumberOf(t); num != "" {
						keyNum = num
					}
				}
				return true
			})
		}
		scan(ifs.Init)
		scan(ifs.Cond)
		if keyNum == "" {
			return true
		}
		for _, st := range ifs.Body.List {
			as, ok := st.(*ast.AssignStmt)
			if !ok {
				continue
			}
			for _, l := range as.Lhs {
				sel, ok := ast.Unparen(l).(*ast.SelectorExpr)
				if !ok {
					continue
				}
				s := info.Selections[sel]
				if s == nil {
					continue
				}
				v, _ := s.Obj().(*types.Var)
				if v == nil {
					continue
				}
				if name, ok := fields[v.Origin()]; ok {
					o.Site("%s: field %s (TLV %s) re-attached under parsed-types key %s", decID, name, nums[name], keyNum)
					if nums[name] != keyNum {
						o.FailAt(typ+"#reattach-"+name, dec.Where(as.Pos()), "%s re-attaches field %s (TLV type %s) when type %s was parsed", decID, name, nums[name], keyNum)
					}
				}
			}
		}
		return true
	})
}

// TypeSwitchCases returns, per case clause of the first type switch in f,
// the case types and the clause.
func (f *Func) TypeSwitchCases() (types_ [][]types.Type, clauses []*ast.CaseClause) {
	var ts *ast.TypeSwitchStmt
	ast.Inspect(f.Body, func(n ast.Node) bool {
		if x, ok := n.(*ast.TypeSwitchStmt); ok && ts == nil {
			ts = x
			return false
		}
		return ts == nil
	})
	if ts == nil {
		return nil, nil
	}
	for _, cl := range ts.Body.List {
		cc := cl.(*ast.CaseClause)
		if cc.List == nil {
			continue
		}
		var tl []types.Type
		for _, e := range cc.List {
			tl = append(tl, f.Info().TypeOf(e))
		}
		types_ = append(types_, tl)
		clauses = append(clauses, cc)
	}
	return
}

// CheckElementSwitches checks a WriteElement/ReadElement style pair of type
// switches: the reader has a case *T exactly for every writer case T, and
// per type the set of primitive element types moved through the stream
// agrees.
func (p *Prog) CheckElementSwitches(o *Obl, writerID, readerID string, writerOnly, readerOnly map[string]string, elemDiffOK map[string]string) {
	w, r := p.Func(writerID), p.Func(readerID)
	wt, wc := w.TypeSwitchCases()
	rt, rc := r.TypeSwitchCases()
	type cas struct {
		f  *Func
		cc *ast.CaseClause
	}
	wm, rm := map[string]cas{}, map[string]cas{}
	for i, tl := range wt {
		for _, t := range tl {
			wm[normType(t)] = cas{w, wc[i]}
		}
	}
	for i, tl := range rt {
		for _, t := range tl {
			pt, ok := deAlias(t).(*types.Pointer)
			if !ok {
				rm["(non-pointer)"+normType(t)] = cas{r, rc[i]}
				continue
			}
			rm[normType(pt.Elem())] = cas{r, rc[i]}
		}
	}
	// widths of the fixed-size operands handed to binary.Write / binary.Read
	// in a case body
	elemSet := func(c cas) map[string]bool {
		out := map[string]bool{}
		info := c.f.Info()
		ast.Inspect(c.cc, func(n ast.Node) bool {
			call, ok := n.(*ast.CallExpr)
			if !ok {
				return true
			}
			id := CalleeID(info, call)
			if (id != "encoding/binary.Write" && id != "encoding/binary.Read") || len(call.Args) != 3 {
				return true
			}
			t := info.TypeOf(call.Args[2])
			if pt, ok := t.Underlying().(*types.Pointer); ok {
				t = pt.Elem()
			}
			if b, ok := t.Underlying().(*types.Basic); ok {
				if sz := c.f.Pkg.TypesSizes.Sizeof(b); sz > 0 && b.Info()&(types.IsNumeric|types.IsBoolean) != 0 {
					out[fmt.Sprintf("%d bytes", sz)] = true
				}
			}
			return true
		})
		return out
	}
	for t, c := range wm {
		o.Site("%s case %s", writerID, t)
		rcas, ok := rm[t]
		if !ok {
			if _, exc := writerOnly[t]; !exc {
				o.FailAt(writerID+"#no-reader-"+t, c.f.Where(c.cc.Pos()), "%s has a case for %s but %s has no case *%s: the element cannot be read back", writerID, t, readerID, t)
			}
			continue
		}
		a, b := elemSet(c), elemSet(rcas)
		if d1, d2 := SetDiff(a, b), SetDiff(b, a); len(d1)+len(d2) > 0 {
			if _, exc := elemDiffOK[t]; !exc {
				o.FailAt(writerID+"#elems-"+t, rcas.f.Where(rcas.cc.Pos()), "fixed-size widths moved through encoding/binary for %s differ: writer-only %v, reader-only %v", t, d1, d2)
			}
		}
	}
	for t, c := range rm {
		if _, ok := wm[t]; !ok {
			if _, exc := readerOnly[t]; !exc {
				o.FailAt(readerID+"#no-writer-"+t, c.f.Where(c.cc.Pos()), "%s has a case for *%s but %s has no case %s", readerID, t, writerID, t)
			}
		}
	}
}

// TlvNumberOf exposes tlvNumberOf.
func TlvNumberOf(t types.Type) string { return tlvNumberOf(t) }

// StructFieldTypes returns field name -> type for the struct behind T with
// embedded structs expanded.
func StructFieldTypes(T *types.Named) map[string]types.Type {
	out := map[string]types.Type{}
	for v, name := range structFields(T) {
		out[name] = v.Type()
	}
	return out
}
