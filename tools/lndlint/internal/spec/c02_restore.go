package spec

import (
	"go/ast"

	"lndlint/internal/an"
)

// c02SoleDef returns the canonical form of the only value ever assigned to
// the local variable that e (an identifier, possibly behind & or parentheses)
// refers to, or "" when the variable is assigned more than once, through
// op=/++, or never.  Unlike Canon it accepts variables whose address is taken.
func c02SoleDef(f *an.Func, e ast.Expr) string {
	obj := c02ObjOf(f, an.Strip(f.Info(), e))
	if obj == nil {
		return ""
	}
	var defs []string
	bad := false
	ast.Inspect(f.Root().Body, func(n ast.Node) bool {
		switch x := n.(type) {
		case *ast.AssignStmt:
			for i, l := range x.Lhs {
				if c02ObjOf(f, l) != obj {
					continue
				}
				if len(x.Lhs) == len(x.Rhs) && (x.Tok.String() == ":=" || x.Tok.String() == "=") {
					defs = append(defs, f.Canon(x.Rhs[i]))
				} else {
					bad = true
				}
			}
		case *ast.IncDecStmt:
			if c02ObjOf(f, x.X) == obj {
				bad = true
			}
		case *ast.ValueSpec:
			for i, nm := range x.Names {
				if f.Info().Defs[nm] == obj && len(x.Values) == len(x.Names) {
					defs = append(defs, f.Canon(x.Values[i]))
				}
			}
		}
		return true
	})
	if bad || len(defs) != 1 {
		return ""
	}
	return defs[0]
}

// c02RestoreRoles: every step of the restore path receives the value its role
// names: which disk commitment is converted for which chain and with which
// commit points, which converted commitment is inserted into which chain,
// which persisted update list and which commitment height go to which log
// restorer.  A step that runs with another step's argument rebuilds a state
// that was never signed.
func c02RestoreRoles(o *an.Obl, p *an.Prog) {
	const (
		localPoint  = `^input\.ComputeCommitmentPoint\(\$recv\.channelState\.RevocationProducer\.AtIndex\(\$recv\.currentHeight\)\[:\]\)$`
		remotePoint = `^\$recv\.channelState\.RemoteCurrentRevocation$`
		nextPoint   = `^\$recv\.channelState\.RemoteNextRevocation$`
		tipDiff     = `\$recv\.channelState\.RemoteCommitChainTip\(\)`
		convLocal   = `^\$recv\.diskCommitToMemCommit\(lntypes\.Local, \$p0, `
		convRemote  = `^\$recv\.diskCommitToMemCommit\(lntypes\.Remote, \$p1, `
		convPending = `^\$recv\.diskCommitToMemCommit\(lntypes\.Remote, &` + tipDiff + `\.Commitment, nil, `
	)
	n := p.Func("lnwallet.NewLightningChannel")
	if rc := n.Calls(an.CalleeIs(lw+"LightningChannel.restoreCommitState"), false); needExactly(o, n, "restoreCommitState", rc, 1) {
		c := rc[0].Node.(*ast.CallExpr)
		got := []string{c02SoleDef(n, c.Args[0]), c02SoleDef(n, c.Args[1])}
		o.Site("restoreCommitState(%s, %s)", got[0], got[1])
		if got[0] != "$p1.LocalCommitment" || got[1] != "$p1.RemoteCommitment" {
			o.FailAt(n.ID+"#restored-commitments", rc[0].Where(), "restoreCommitState is given copies of %v, expected the channel state's LocalCommitment and RemoteCommitment in that order", got)
		}
		c02ParamsStable(o, n)
	}

	g := p.Func(lw + "LightningChannel.restoreCommitState")
	c02ParamsStable(o, g)
	conv := g.Calls(an.CalleeIs(lw+"LightningChannel.diskCommitToMemCommit"), false)
	add := g.Calls(an.CalleeIs(lw+"commitmentChain.addCommitment"), false)
	if needExactly(o, g, "diskCommitToMemCommit", conv, 3) && needExactly(o, g, "addCommitment", add, 3) {
		c02ArgsAre(o, g, conv[0], "diskCommitToMemCommit(local)", map[int]string{0: `^lntypes\.Local$`, 1: `^\$p0$`, 2: localPoint, 3: remotePoint})
		c02ArgsAre(o, g, conv[1], "diskCommitToMemCommit(remote)", map[int]string{0: `^lntypes\.Remote$`, 1: `^\$p1$`, 2: localPoint, 3: remotePoint})
		c02ArgsAre(o, g, conv[2], "diskCommitToMemCommit(pending remote)", map[int]string{0: `^lntypes\.Remote$`, 1: `^&` + tipDiff + `\.Commitment$`, 2: `^nil$`, 3: nextPoint})
		for i, w := range []struct{ chain, arg string }{
			{"$recv.commitChains.Local.addCommitment", convLocal},
			{"$recv.commitChains.Remote.addCommitment", convRemote},
			{"$recv.commitChains.Remote.addCommitment", convPending},
		} {
			if fun := g.Canon(add[i].Node.(*ast.CallExpr).Fun); fun != w.chain {
				o.FailAt(g.ID+"#chain-of-commitment-"+itoa(i), add[i].Where(), "restored commitment %d is inserted through %s, expected %s", i, fun, w.chain)
			}
			c02ArgsAre(o, g, add[i], "addCommitment", map[int]string{0: w.arg})
			mustPass(o, g, "diskCommitToMemCommit", conv[i:i+1], an.OkErrNil, add[i:i+1])
		}
		// the acked remote commitment becomes the tail, the pending one the tip
		before(o, g, "addCommitment(remote)", add[1:2], "addCommitment(pending remote)", add[2:3])
		// with a pending diff on disk the pending commitment is inserted
		pending := canonTerm(`^` + tipDiff + `$`)
		mustDoUnless(o, g, "commitChains.Remote.addCommitment(pending remote commitment)", add[2:3], g.SuccessReturns(),
			an.IsNil(pending, true, "no pending commit diff"))
		guarded(o, g, conv[2], an.IsNil(pending, false, "pending commit diff != nil"))
	}
	// a failed read of the pending diff is handed out unless it says "none"
	tip := g.Calls(an.CalleeIs("chanstate.OpenChannel.RemoteCommitChainTip"), false)
	mustPassUnless(o, g, "RemoteCommitChainTip", tip, an.OkErrNil, g.SuccessReturns(),
		an.Cmp(c02ErrValue(), an.EQ, an.PkgVar("channeldb", "ErrNoPendingCommit"), "err == ErrNoPendingCommit"))
	if rs := g.Calls(an.CalleeIs(lw+"LightningChannel.restoreStateLogs"), false); needExactly(o, g, "restoreStateLogs", rs, 1) {
		c02ArgsAre(o, g, rs[0], "restoreStateLogs", map[int]string{
			0: convLocal, 1: convRemote, 2: convPending,
			3: `^` + tipDiff + `$`,
			4: `^lnwallet\.DeriveCommitmentKeys\(\$recv\.channelState\.RemoteNextRevocation, lntypes\.Remote, `,
			5: `^\$recv\.channelState\.UnsignedAckedUpdates\(\)$`,
			6: `^\$recv\.channelState\.RemoteUnsignedLocalUpdates\(\)$`,
		})
	}

	h := p.Func(lw + "LightningChannel.restoreStateLogs")
	c02ParamsStable(o, h)
	for _, st := range []struct {
		callee string
		args   map[int]string
	}{
		{"restorePeerLocalUpdates", map[int]string{0: `^\$p6$`, 1: `^\$p1\.height$`}},
		{"restorePendingLocalUpdates", map[int]string{0: `^\$p3$`, 1: `^\$p4$`}},
		{"restorePendingRemoteUpdates", map[int]string{0: `^\$p5$`, 1: `^\$p0\.height$`, 2: `^\$p2$`}},
	} {
		if cs := h.Calls(an.CalleeIs(lw+"LightningChannel."+st.callee), false); needExactly(o, h, st.callee, cs, 1) {
			c02ArgsAre(o, h, cs[0], st.callee, st.args)
		}
	}
	// HTLCs of the local commitment we received go to the remote log, HTLCs of
	// the remote commitment we offered to the local log
	rh := h.Calls(an.CalleeIs(lw+"updateLog.restoreHtlc"), false)
	if needExactly(o, h, "restoreHtlc", rh, 2) {
		want := map[string]string{
			"$recv.updateLogs.Remote.restoreHtlc": "$p0.incomingHTLCs",
			"$recv.updateLogs.Local.restoreHtlc":  "$p1.outgoingHTLCs",
		}
		seen := map[string]bool{}
		for _, s := range rh {
			fun := h.Canon(s.Node.(*ast.CallExpr).Fun)
			hdr := enclosingLoopHeader(h, s.Node)
			o.Site("%s inside the loop over %s", fun, hdr)
			seen[fun] = true
			if w, ok := want[fun]; !ok || w != hdr {
				o.FailAt(h.ID+"#restoreHtlc-"+fun, s.Where(), "%s restores the HTLCs of %s, expected %v", fun, hdr, want)
			}
		}
		if len(seen) != 2 {
			o.FailAt(h.ID+"#restoreHtlc-logs", rh[0].Where(), "both update logs must receive their HTLCs, found %v", keys(seen))
		}
	}
}
