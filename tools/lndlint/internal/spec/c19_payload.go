package spec

import (
	"go/ast"
	"go/types"
	"sort"
	"strings"

	"lndlint/internal/an"
)

// onionPayloadEstimate: "the onion payload fits" rests on three agreements
// that are visible in the code: Hop.PayloadSize counts exactly the records
// PackHopPayload writes; the final hop that pathfinding sizes carries every
// field newRoute will put on the real final hop; and the restrictions built
// for a payment hand lastHopPayloadSize every field it reads.
func onionPayloadEstimate(r *an.Run) {
	p := r.Prog
	rt := "routing/route."
	r.Obl("onion-payload-size-estimate", "MIRROR",
		"Hop.PayloadSize starts from zero, adds one record (type, length prefix, length) for every field under exactly the presence test PackHopPayload uses to append that field's record (no further condition), with that field's record type and a length computed from that same field (next hop id: 8 bytes, blinding point: a compressed key), adds the length prefix of the whole payload and the HMAC and returns the accumulated sum; lastHopPayloadSize returns, in both of its branches, PayloadSize(0) of a hop literal that carries the HTLC amount, the final expiry and every final-hop-only field newRoute sets (MPP built from the larger of the amount and r.TotalAmt, custom records and metadata of the restrictions; for blinded paths the total amount record) and is not rewritten after the literal; every RestrictParams literal built from a payment sets every field lastHopPayloadSize reads from the payment's own field of that role",
		"pathfinding admits a route when the estimated payloads fit 1300 bytes; an estimate that misses a record or sizes it from another field returns a route whose onion cannot be built", 24,
		func(o *an.Obl) {
			pack := p.Func(rt + "Hop.PackHopPayload")
			size := p.Func(rt + "Hop.PayloadSize")

			// --- PayloadSize <-> PackHopPayload --------------------------
			// field -> presence guard, for the record appends of Pack
			presence := func(f *an.Func, s an.Site) []string {
				var out []string
				for _, g := range f.GuardsAt(s) {
					if strings.HasPrefix(g, "h.") || strings.HasPrefix(g, "nextChanID") || strings.HasPrefix(g, "amt ") {
						out = append(out, g)
					}
				}
				sort.Strings(out)
				return out
			}
			norm := func(g string) string {
				g = strings.ReplaceAll(g, "amt != 0", "h.AmtToForward != 0")
				return g
			}
			packed := map[string]string{} // guard -> site
			for _, v := range pack.Graph().V {
				as, ok := v.Node.(*ast.AssignStmt)
				if !ok || len(as.Lhs) != 1 || an.Text(as.Lhs[0]) != "records" {
					continue
				}
				c, ok := as.Rhs[0].(*ast.CallExpr)
				if !ok || an.Text(c.Fun) != "append" {
					continue
				}
				s := an.Site{Fn: pack, V: v, Node: as}
				gs := presence(pack, s)
				var keep []string
				for _, g := range gs {
					g = norm(g)
					// nested validity tests (finalHop, h.MPP != nil for AMP) are not presence tests
					keep = append(keep, g)
				}
				key := strings.Join(keep, " && ")
				if c.Ellipsis.IsValid() {
					key = "custom records"
				}
				packed[key] = s.Where()
				o.Site("PackHopPayload appends under [%s]", key)
			}
			sized := map[string]string{}
			// presence test -> (record type, length) in canonical form: the
			// record PackHopPayload appends under that test, sized from the
			// field it encodes
			recordOf := map[string][2]string{
				"h.AmtToForward != 0":     {"record.AmtOnionType", "tlv.SizeTUint64(uint64($recv.AmtToForward))"},
				"h.OutgoingTimeLock != 0": {"record.LockTimeOnionType", "tlv.SizeTUint64(uint64($recv.OutgoingTimeLock))"},
				"nextChanID != 0":         {"record.NextHopOnionType", "8"},
				"h.MPP != nil":            {"record.MPPOnionType", "$recv.MPP.PayloadSize()"},
				"h.AMP != nil":            {"record.AMPOnionType", "$recv.AMP.PayloadSize()"},
				"h.EncryptedData != nil":  {"record.EncryptedDataOnionType", "uint64(len($recv.EncryptedData))"},
				"h.BlindingPoint != nil":  {"record.BlindingPointOnionType", "github.com/btcsuite/btcd/btcec/v2.PubKeyBytesLenCompressed"},
				"h.Metadata != nil":       {"record.MetadataOnionType", "uint64(len($recv.Metadata))"},
				"h.TotalAmtMsat != 0":     {"record.TotalAmtMsatBlindedType", "tlv.SizeTUint64(uint64($recv.TotalAmtMsat))"},
				"custom records":          {"tlv.Type($key($recv.CustomRecords))", "uint64(len($elem($recv.CustomRecords)))"},
			}
			notReassigned(o, size, "nextChanID", "h")
			for _, s := range size.AllCalls(false) {
				c := s.Node.(*ast.CallExpr)
				if an.Text(c.Fun) != "addRecord" {
					continue
				}
				// every condition above the record, not only those on h: a
				// record that is counted under a narrower test than the one
				// PackHopPayload writes it under is missing from the estimate
				var gs []string
				for _, g := range size.GuardsAt(s) {
					if g != "!(h.LegacyPayload)" {
						gs = append(gs, g)
					}
				}
				sort.Strings(gs)
				key := strings.Join(gs, " && ")
				if hdr := enclosingLoopHeader(size, c); hdr != "" {
					if len(gs) == 0 {
						key = "custom records"
					} else {
						key = "custom records && " + key
					}
					if hdr != "$recv.CustomRecords" {
						o.FailAt(size.ID+"#custom-records-loop", s.Where(), "custom records are sized over %s", hdr)
					}
				}
				if prev, dup := sized[key]; dup {
					o.FailAt(size.ID+"#sized-twice:"+key, s.Where(), "PayloadSize counts two records under [%s] (the other at %s)", key, prev)
				}
				sized[key] = s.Where()
				a := size.ArgCanon(s)
				o.Site("PayloadSize adds (%s, %s) under [%s]", a[0], a[1], key)
				// the record type and its length are those of the field whose presence is tested
				if want, ok := recordOf[key]; ok && len(a) == 2 {
					if a[0] != want[0] {
						o.FailAt(size.ID+"#type-of:"+key, s.Where(), "the record counted under [%s] has type %s, expected %s (the varint of the type is part of the size)", key, a[0], want[0])
					}
					if a[1] != want[1] {
						fld := strings.Fields(strings.TrimPrefix(key, "h."))[0]
						o.FailAt(size.ID+"#size-of-"+fld, s.Where(), "the record counted under [%s] is sized %s, expected %s", key, a[1], want[1])
					}
				}
			}
			// the AMP record is appended below `h.AMP != nil && h.MPP != nil`; PayloadSize tests h.AMP only
			alias := map[string]string{"h.AMP != nil && h.MPP != nil": "h.AMP != nil", "finalHop && h.MPP != nil": "h.MPP != nil", "h.MPP != nil && finalHop": "h.MPP != nil"}
			packedN := map[string]string{}
			for k, v := range packed {
				if a, ok := alias[k]; ok {
					k = a
				}
				packedN[k] = v
			}
			for k, w := range packedN {
				if _, ok := sized[k]; !ok {
					o.FailAt(size.ID+"#unsized:"+k, w, "PackHopPayload writes a record under [%s] that PayloadSize does not count", k)
				}
			}
			for k, w := range sized {
				if _, ok := packedN[k]; !ok {
					o.FailAt(size.ID+"#unpacked:"+k, w, "PayloadSize counts a record under [%s] that PackHopPayload does not write", k)
				}
			}
			if len(sized) < 10 {
				o.FailAt(size.ID+"#records", size.Where(size.Body.Pos()), "expected 10 sized records, found %d", len(sized))
			}
			// accumulator: zero start, record formula, length prefix, HMAC
			var accs []string
			ast.Inspect(size.Body, func(n ast.Node) bool {
				switch x := n.(type) {
				case *ast.ValueSpec:
					for i, nm := range x.Names {
						if nm.Name == "payloadSize" && len(x.Values) > i {
							o.FailAt(size.ID+"#initial", size.Where(x.Pos()), "payloadSize starts at %s, expected zero", an.Text(x.Values[i]))
						}
					}
				case *ast.AssignStmt:
					for i, l := range x.Lhs {
						if an.Text(l) == "payloadSize" {
							rhs := "<tuple>"
							if len(x.Lhs) == len(x.Rhs) {
								rhs = an.Text(x.Rhs[i])
							}
							accs = append(accs, x.Tok.String()+" "+rhs)
						}
					}
				case *ast.IncDecStmt:
					if an.Text(x.X) == "payloadSize" {
						accs = append(accs, x.Tok.String())
					}
				}
				return true
			})
			o.Site("payloadSize updates: %v", accs)
			wantAcc := []string{
				"+= tlv.VarIntSize(uint64(tlvType)) + tlv.VarIntSize(length) + length",
				"+= tlv.VarIntSize(payloadSize)",
				"+= sphinx.HMACSize",
			}
			if strings.Join(accs, " | ") != strings.Join(wantAcc, " | ") {
				o.FailAt(size.ID+"#accumulation", size.Where(size.Body.Pos()), "payloadSize is accumulated as %v, expected %v", accs, wantAcc)
			}
			// what is returned is the accumulator (the legacy size for legacy payloads)
			if objs, _ := c19LocalDefs(size, "payloadSize"); len(objs) != 1 {
				o.FailAt(size.ID+"#shadowed-payloadSize", size.Where(size.Body.Pos()), "PayloadSize declares %d variables called payloadSize", len(objs))
			}
			for _, s := range size.Returns() {
				c := size.Canon(s.Node.(*ast.ReturnStmt).Results[0])
				legacy, _ := size.Guarded(s, an.Truth(an.FieldPath(an.Recv(), "LegacyPayload"), true, ""))
				o.Site("PayloadSize returns %s (legacy=%v)", an.Text(s.Node.(*ast.ReturnStmt).Results[0]), legacy)
				switch {
				case legacy && strings.HasSuffix(c, ".LegacyHopDataSize"):
				case !legacy && an.Text(s.Node.(*ast.ReturnStmt).Results[0]) == "payloadSize":
				default:
					o.FailAt(size.ID+"#returns", s.Where(), "PayloadSize returns %s, expected the accumulated payloadSize", an.Text(s.Node.(*ast.ReturnStmt).Results[0]))
				}
			}

			// --- lastHopPayloadSize <-> newRoute --------------------------
			nr := p.Func("routing.newRoute")
			// locals assigned inside the `i == len(pathEdges)-1` branch that
			// feed the hop literal: the final-hop-only fields
			finalOnly := map[string]bool{}
			var hopLit *ast.CompositeLit
			for _, cl := range p.CompositeLitsOf(p.LookupType("routing/route", "Hop")) {
				if cl.Fn != nil && cl.Fn.Root().ID == nr.ID {
					hopLit = cl.Node.(*ast.CompositeLit)
				}
			}
			if hopLit == nil {
				o.FailAt(nr.ID+"#hop-literal", "", "newRoute's hop literal not found")
				return
			}
			lastFact := an.CmpX(an.Any(), an.EQ, canonTerm(`^\(len\(\$p\d\) - 1\)$`), "i == len(pathEdges)-1")
			for _, el := range hopLit.Elts {
				kv := el.(*ast.KeyValueExpr)
				id, ok := kv.Value.(*ast.Ident)
				if !ok {
					continue
				}
				n, guardedN := 0, 0
				for _, fn := range append([]*an.Func{nr}, nr.Lits...) {
					for _, s := range fn.Assigns(an.LocalNamed(id.Name), false) {
						n++
						f := fn
						if fn.Lit != nil {
							// the WhenSome closure sits inside the branch: test its call site
							f = nr
							for _, cs := range nr.AllCalls(false) {
								if cs.Node.Pos() <= fn.Lit.Pos() && fn.Lit.End() <= cs.Node.End() {
									s = cs
								}
							}
						}
						if ok, _ := f.Guarded(s, lastFact); ok {
							guardedN++
						}
					}
				}
				if n > 0 && n == guardedN {
					finalOnly[an.Text(kv.Key)] = true
				}
			}
			var fo []string
			for k := range finalOnly {
				fo = append(fo, k)
			}
			sort.Strings(fo)
			o.Site("final-hop-only fields of newRoute: %v", fo)
			for _, need := range []string{"CustomRecords", "MPP", "Metadata", "TotalAmtMsat"} {
				if !finalOnly[need] {
					o.FailAt(nr.ID+"#final-only-"+need, nr.Where(hopLit.Pos()), "expected newRoute to set %s on the final hop only; the mirror below is derived from that", need)
				}
			}
			lh := p.Func("routing.lastHopPayloadSize")
			notReassigned(o, lh, "r", "finalHtlcExpiry", "amount")
			sizedHops := map[types.Object]*ast.CompositeLit{}
			blindedFact := an.IsNil(an.FieldPath(an.Param(0), "BlindedPaymentPathSet"), false, "r.BlindedPaymentPathSet != nil")
			nLits := 0
			for _, cl := range p.CompositeLitsOf(p.LookupType("routing/route", "Hop")) {
				if cl.Fn == nil || cl.Fn.Root().ID != lh.ID {
					continue
				}
				nLits++
				lit := cl.Node.(*ast.CompositeLit)
				has := map[string]string{}
				for _, el := range lit.Elts {
					kv := el.(*ast.KeyValueExpr)
					has[an.Text(kv.Key)] = lh.Canon(kv.Value)
				}
				// the vertex holding the literal
				var site an.Site
				for _, v := range lh.Graph().V {
					if v.Node != nil && v.Node.Pos() <= lit.Pos() && lit.End() <= v.Node.End() {
						site = an.Site{Fn: lh, V: v, Node: v.Node}
					}
				}
				blinded, _ := lh.Guarded(site, blindedFact)
				branch := "plain"
				skip := "TotalAmtMsat" // only blinded final hops carry it
				if blinded {
					branch = "blinded"
					skip = "MPP" // blinded payments have no payment address
				}
				// the variable holding the sized hop: a field written after the
				// literal replaces (or adds to) what the literal says
				var hopVar types.Object
				ast.Inspect(lh.Body, func(n ast.Node) bool {
					if as, ok := n.(*ast.AssignStmt); ok && len(as.Lhs) == len(as.Rhs) {
						for i, rh := range as.Rhs {
							rh = ast.Unparen(rh)
							if u, ok := rh.(*ast.UnaryExpr); ok {
								rh = ast.Unparen(u.X)
							}
							if rh == ast.Expr(lit) {
								hopVar = c19VarObj(lh, as.Lhs[i])
							}
						}
					}
					return true
				})
				if hopVar == nil {
					o.FailAt(lh.ID+"#"+branch+"-final-hop-unnamed", cl.Where, "the %s final hop literal is not bound to a variable", branch)
				} else {
					sizedHops[hopVar] = lit
					for fld, ws := range c19FieldWrites(lh, hopVar) {
						for _, w := range ws {
							if _, inLit := has[fld]; inLit {
								o.FailAt(lh.ID+"#"+branch+"-final-hop-overwrites-"+fld, lh.Where(w.Pos()), "%s replaces the %s the sized %s final hop was built with", an.Text(w), fld, branch)
								continue
							}
							if as, ok := w.(*ast.AssignStmt); ok && len(as.Rhs) == 1 {
								has[fld] = lh.Canon(as.Rhs[0])
							}
						}
					}
				}
				// the sized hop carries the amount and expiry of the HTLC that is sent
				wantVal := map[string]string{"AmtToForward": "$p2", "OutgoingTimeLock": "uint32($p1)"}
				if !blinded {
					wantVal["CustomRecords"] = "$p0.DestCustomRecords"
					wantVal["Metadata"] = "$p0.Metadata"
				}
				for _, k := range []string{"AmtToForward", "OutgoingTimeLock", "CustomRecords", "Metadata"} {
					want, ok := wantVal[k]
					if got, set := has[k]; ok && set && got != want {
						o.FailAt(lh.ID+"#"+branch+"-final-hop-value-of-"+k, cl.Where, "the %s final hop that is sized has %s = %s, expected %s (the record's length depends on the value)", branch, k, got, want)
					}
				}
				for _, k := range []string{"AmtToForward", "OutgoingTimeLock"} {
					if _, set := has[k]; !set {
						o.FailAt(lh.ID+"#"+branch+"-final-hop-without-"+k, cl.Where, "the %s final hop that is sized has no %s", branch, k)
					}
				}
				if got, set := has["MPP"]; set && !strings.HasPrefix(got, "record.NewMPP(") {
					o.FailAt(lh.ID+"#"+branch+"-final-hop-value-of-MPP", cl.Where, "the %s final hop that is sized has MPP = %s, expected the record built by record.NewMPP", branch, got)
				}
				var keys []string
				for k := range has {
					keys = append(keys, k)
				}
				sort.Strings(keys)
				o.Site("lastHopPayloadSize %s final hop: %v", branch, keys)
				for _, fld := range fo {
					if fld == skip {
						continue
					}
					if _, ok := has[fld]; !ok {
						o.FailAt(lh.ID+"#"+branch+"-final-hop-without-"+fld, cl.Where, "the %s final hop that is sized has no %s although newRoute sets it on the real final hop", branch, fld)
					}
				}
				if blinded {
					if _, ok := has["EncryptedData"]; !ok {
						o.FailAt(lh.ID+"#blinded-final-hop-without-EncryptedData", cl.Where, "the blinded final hop that is sized has no encrypted data")
					}
				}
			}
			if nLits != 2 {
				o.FailAt(lh.ID+"#hop-literals", lh.Where(lh.Body.Pos()), "expected two sized final hops (blinded, plain), found %d", nLits)
			}
			// what is returned is the size of one of those hops, as a final hop (no next channel)
			nSized := 0
			for _, s := range lh.Returns() {
				rs := s.Node.(*ast.ReturnStmt)
				if len(rs.Results) != 2 || !an.IsNilIdent(lh.Info(), rs.Results[1]) {
					continue
				}
				nSized++
				o.Site("lastHopPayloadSize returns %s", an.Text(rs.Results[0]))
				c, _ := ast.Unparen(rs.Results[0]).(*ast.CallExpr)
				var sel *ast.SelectorExpr
				if c != nil {
					sel, _ = c.Fun.(*ast.SelectorExpr)
				}
				if sel == nil || an.CalleeID(lh.Info(), c) != "routing/route.Hop.PayloadSize" || len(c.Args) != 1 {
					o.FailAt(lh.ID+"#returns", s.Where(), "lastHopPayloadSize returns %s, expected the PayloadSize of the final hop it built", an.Text(rs.Results[0]))
					continue
				}
				if lit := sizedHops[c19VarObj(lh, sel.X)]; lit == nil || c19LitOf(lh, sel.X) != lit {
					o.FailAt(lh.ID+"#returns-other-hop", s.Where(), "lastHopPayloadSize returns the size of %s, which is not (only) the final hop literal examined above", an.Text(sel.X))
				}
				if a := lh.Canon(c.Args[0]); a != "0" {
					o.FailAt(lh.ID+"#next-channel", s.Where(), "the final hop is sized with next channel %s, expected 0 (a final hop has no next hop record)", a)
				}
			}
			if nSized != nLits {
				o.FailAt(lh.ID+"#sized-returns", lh.Where(lh.Body.Pos()), "expected one returned size per final hop literal (%d), found %d", nLits, nSized)
			}
			// the MPP record is built from the payment total
			for _, fn := range append([]*an.Func{lh}, lh.Lits...) {
				for _, s := range fn.Calls(an.CalleeNamed("NewMPP"), false) {
					c := s.Node.(*ast.CallExpr)
					o.Site("lastHopPayloadSize MPP total = %s", an.Text(c.Args[0]))
					id, ok := c.Args[0].(*ast.Ident)
					fromTotal := false
					if ok {
						// max(amount, r.TotalAmt): either the builtin or `t := amount;
						// if r.TotalAmt > t { t = r.TotalAmt }`
						objs, defs := c19LocalDefs(lh, id.Name)
						var forms []string
						for _, d := range defs {
							fm := d.form()
							if d.Rhs != nil {
								fm = strings.SplitN(fm, " ", 2)[0] + " " + lh.Canon(d.Rhs)
							}
							forms = append(forms, fm)
						}
						o.Site("lastHopPayloadSize %s: %v", id.Name, forms)
						switch {
						case len(objs) != 1:
						case len(forms) == 1 && (forms[0] == "= max($p2, $p0.TotalAmt)" || forms[0] == "= max($p0.TotalAmt, $p2)"):
							fromTotal = true
						case len(forms) == 2 && forms[0] == "= $p2" && forms[1] == "= $p0.TotalAmt" && defs[1].Tok == "=":
							ds := defs[1].site()
							larger := an.CmpX(an.FieldPath(an.Param(0), "TotalAmt"), an.GT, an.LocalNamed(id.Name), "r.TotalAmt > "+id.Name)
							if ok, _ := lh.Guarded(ds, larger); ok {
								fromTotal = true
							}
							onlyGuards(o, lh, ds, []string{`^r\.TotalAmt > ` + id.Name + `$`, `^!\(r\.BlindedPaymentPathSet != nil\)$`}, "MPP total")
						}
					}
					if !fromTotal {
						o.FailAt(lh.ID+"#mpp-total", s.Where(), "the sized MPP record carries %s, expected the larger of the shard amount and r.TotalAmt: `t := amount; if r.TotalAmt > t { t = r.TotalAmt }` (newRoute puts the payment total into the record)", an.Text(c.Args[0]))
					}
				}
			}
			// --- restrictions built from a payment -----------------------
			reads := map[string]bool{}
			ast.Inspect(lh.Body, func(n ast.Node) bool {
				if sel, ok := n.(*ast.SelectorExpr); ok {
					if ps := lh.Params(false); len(ps) > 0 && c19VarObj(lh, sel.X) == types.Object(ps[0]) {
						reads[sel.Sel.Name] = true
					}
				}
				return true
			})
			var rd []string
			for k := range reads {
				rd = append(rd, k)
			}
			sort.Strings(rd)
			o.Site("lastHopPayloadSize reads RestrictParams.%v", rd)
			nR := 0
			for _, cl := range p.CompositeLitsOf(p.LookupType("routing", "RestrictParams")) {
				if cl.Fn == nil || cl.Fn.Root().ID != "routing.paymentSession.RequestRoute" {
					continue
				}
				nR++
				has := map[string]string{}
				for _, el := range cl.Node.(*ast.CompositeLit).Elts {
					kv := el.(*ast.KeyValueExpr)
					has[an.Text(kv.Key)] = cl.Fn.Canon(kv.Value)
				}
				// the payment field each restriction is taken from (same name unless listed)
				source := map[string]string{"TotalAmt": "Amount", "Amp": "amp"}
				for _, fld := range rd {
					got, set := has[fld]
					if !set {
						o.FailAt("routing.paymentSession.RequestRoute#restrictions-without-"+fld, cl.Where, "the restrictions built for a payment attempt do not set %s, which lastHopPayloadSize reads to size the final hop", fld)
						continue
					}
					from := fld
					if s, ok := source[fld]; ok {
						from = s
					}
					o.Site("RequestRoute restrictions %s = %s", fld, got)
					if want := "$recv.payment." + from; got != want {
						o.FailAt("routing.paymentSession.RequestRoute#restrictions-value-of-"+fld, cl.Where, "the restrictions built for a payment attempt set %s = %s, expected the payment's own %s (%s): the final hop is sized from it", fld, got, from, want)
					}
				}
				// no field the size depends on is rewritten after the literal
				rq := p.Func("routing.paymentSession.RequestRoute")
				ast.Inspect(rq.Body, func(n ast.Node) bool {
					as, ok := n.(*ast.AssignStmt)
					if !ok || len(as.Lhs) != len(as.Rhs) {
						return true
					}
					for i, rh := range as.Rhs {
						rh = ast.Unparen(rh)
						if u, ok := rh.(*ast.UnaryExpr); ok {
							rh = ast.Unparen(u.X)
						}
						if rh != ast.Expr(cl.Node.(*ast.CompositeLit)) {
							continue
						}
						v := c19VarObj(rq, as.Lhs[i])
						if v == nil {
							continue
						}
						for fld, ws := range c19FieldWrites(rq, v) {
							if reads[fld] {
								o.FailAt("routing.paymentSession.RequestRoute#restrictions-rewrites-"+fld, rq.Where(ws[0].Pos()), "%s rewrites the restriction %s after it was taken from the payment", an.Text(ws[0]), fld)
							}
						}
					}
					return true
				})
			}
			if nR != 1 {
				o.FailAt("routing.paymentSession.RequestRoute#restrictions", "", "expected one RestrictParams literal in RequestRoute, found %d", nR)
			}
		})

	r.Obl("hint-policies-flag-their-max-htlc", "TABLE",
		"amtInRange enforces a policy's MaxHTLC only when HasMaxHTLC is set; therefore every CachedEdgePolicy built in routing (route hints, blinded paths) that sets MaxHTLC (in the literal or by a later write to the field) also sets HasMaxHTLC to true",
		"a maximum that is stored but not flagged is never compared: pathfinding forwards more than the hop accepts", 2,
		func(o *an.Obl) {
			n := 0
			for _, cl := range p.CompositeLitsOf(p.LookupType("graph/db/models", "CachedEdgePolicy")) {
				if cl.Fn == nil || !strings.HasPrefix(cl.Fn.Root().ID, "routing.") {
					continue
				}
				n++
				lit := cl.Node.(*ast.CompositeLit)
				root := cl.Fn.Root()
				isTrue := func(e ast.Expr) bool { return an.BoolConst(true)(cl.Fn, ast.Unparen(e)) }
				sets, flagged := false, false
				for _, el := range lit.Elts {
					if kv, ok := el.(*ast.KeyValueExpr); ok {
						switch an.Text(kv.Key) {
						case "MaxHTLC":
							sets = true
						case "HasMaxHTLC":
							// the flag must be set, not merely mentioned
							flagged = isTrue(kv.Value)
						}
					}
				}
				// fields written after the literal count as well
				ast.Inspect(root.Body, func(n ast.Node) bool {
					as, ok := n.(*ast.AssignStmt)
					if !ok || len(as.Lhs) != len(as.Rhs) {
						return true
					}
					for i, rh := range as.Rhs {
						rh = ast.Unparen(rh)
						if u, ok := rh.(*ast.UnaryExpr); ok {
							rh = ast.Unparen(u.X)
						}
						if rh != ast.Expr(lit) {
							continue
						}
						v := c19VarObj(root, as.Lhs[i])
						if v == nil {
							continue
						}
						for fld, ws := range c19FieldWrites(root, v) {
							for _, w := range ws {
								switch fld {
								case "MaxHTLC":
									sets = true
								case "HasMaxHTLC":
									if was, ok := w.(*ast.AssignStmt); ok && len(was.Rhs) == 1 {
										flagged = isTrue(was.Rhs[0])
									}
								}
							}
						}
					}
					return true
				})
				o.Site("%s: policy literal MaxHTLC=%v HasMaxHTLC=%v", root.ID, sets, flagged)
				if sets && !flagged {
					o.FailAt(root.ID+"#MaxHTLC-without-HasMaxHTLC", cl.Where, "%s builds an edge policy with a MaxHTLC but without HasMaxHTLC = true: amtInRange never compares the maximum", root.ID)
				}
			}
			if n < 2 {
				o.FailAt("CachedEdgePolicy#literals", "", "expected at least 2 hint policies built in routing, found %d", n)
			}
		})
}
