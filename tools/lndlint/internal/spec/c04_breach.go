package spec

import (
	"go/ast"
	"go/token"
	"strings"

	"lndlint/internal/an"
)

func init() {
	specExtras["C04"] = append(specExtras["C04"], c04BreachEntries)
}

// c04BreachEntries: what the wallet hands to the breach arbitrator and how
// the arbitrator reads it (repairs 58c802d, fdfcbcf).
func c04BreachEntries(r *an.Run) {
	p := r.Prog
	r.Obl("every-htlc-retribution-describes-an-output", "PATH",
		"createBreachRetribution and createBreachRetributionLegacy fill the HtlcRetributions slice either by append onto a zero-length slice, or by an index write that every iteration of the loop reaches (no iteration completes without it); newRetributionInfo (and its closures) dereferences LocalOutputSignDesc / RemoteOutputSignDesc only under a non-nil test of that descriptor",
		"a pre-sized slice whose loop skips dust HTLCs keeps zero-valued entries; the arbitrator turns every entry into an input of the justice transaction and dereferences its sign descriptor; a revoked commitment whose two commitment outputs are dust carries no commitment sign descriptor at all", 6,
		func(o *an.Obl) {
			for _, h := range []struct{ fn, loop string }{
				{"lnwallet.createBreachRetribution", `\.HTLCEntries$`},
				{"lnwallet.createBreachRetributionLegacy", `\.Htlcs$`},
			} {
				f := p.Func(h.fn)
				zeroLen, found := false, false
				ast.Inspect(f.Body, func(n ast.Node) bool {
					as, ok := n.(*ast.AssignStmt)
					if !ok || len(as.Lhs) != 1 || len(as.Rhs) != 1 || an.Text(as.Lhs[0]) != "htlcRetributions" {
						return true
					}
					if c, ok := as.Rhs[0].(*ast.CallExpr); ok && an.Text(c.Fun) == "make" && len(c.Args) >= 2 {
						found = true
						zeroLen = an.Match(f, an.IntConst(0), c.Args[1])
						o.Site("%s: htlcRetributions := %s", h.fn, an.Text(c))
					}
					return true
				})
				if !found {
					o.FailAt(h.fn+"#retribution-slice", f.Where(f.Body.Pos()), "cannot find the make() of htlcRetributions in %s", h.fn)
					continue
				}
				ws := f.Assigns(an.Index(an.LocalNamed("htlcRetributions"), an.Any()), false)
				if zeroLen {
					if len(ws) != 0 {
						o.FailAt(h.fn+"#index-write-into-empty-slice", ws[0].Where(), "htlcRetributions starts empty but is written by index")
					}
					continue
				}
				if need(o, f, "htlcRetributions[i] = …", ws, 1) {
					everyIteration(o, f, h.loop, ws, "the write of htlcRetributions[i]")
				}
			}

			f := p.Func("contractcourt.newRetributionInfo")
			n := 0
			for _, fn := range append([]*an.Func{f}, f.Lits...) {
				for _, v := range fn.Graph().V {
					if v.Node == nil {
						continue
					}
					seen := map[token.Pos]bool{}
					ast.Inspect(v.Node, func(x ast.Node) bool {
						if _, isLit := x.(*ast.FuncLit); isLit {
							return false
						}
						sel, ok := x.(*ast.SelectorExpr)
						if !ok {
							return true
						}
						inner, ok := sel.X.(*ast.SelectorExpr)
						if !ok || !strings.HasSuffix(inner.Sel.Name, "OutputSignDesc") || seen[sel.Pos()] {
							return true
						}
						seen[sel.Pos()] = true
						n++
						s := an.Site{Fn: fn, V: v, Node: sel}
						desc := an.FieldPath(an.Param(1), inner.Sel.Name)
						if fn != f {
							desc = an.FieldPath(an.LocalNamed("breachInfo"), inner.Sel.Name)
						}
						guarded(o, fn, s, an.IsNil(desc, false, "breachInfo."+inner.Sel.Name+" != nil"))
						return true
					})
				}
			}
			if n < 3 {
				o.FailAt(f.ID+"#sign-desc-derefs", f.Where(f.Body.Pos()), "expected at least 3 dereferences of the commitment sign descriptors in newRetributionInfo, found %d", n)
			}
		})
}
