package spec

import (
	"go/ast"
	"go/token"
	"go/types"
	"regexp"
	"strings"

	"lndlint/internal/an"
	"lndlint/internal/flow"
)

// retrySafeClosures: the function handed to kvdb.Update / kvdb.View /
// kvdb.Batch (and to the SQL ExecTx) may be run more than once for one
// logical transaction (serialisation failures on the SQL and etcd backends;
// kvdb documents the reset function for exactly this).  A variable of the
// enclosing function that the closure both reads and assigns carries the
// value of the aborted run into the retried one unless the closure always
// assigns it before reading it, or the reset function re-initialises it.
// retryExempt: function#variable -> why the read-modify-write is harmless.
var retryExempt = map[string]string{
	"channeldb.ChannelStateDB.putChanStatus#status":                 "status = disk | status: OR-ing the same disk value again is idempotent",
	"htlcswitch.circuitMap.cleanClosedChannels#numCircuitsDeleted":  "counter that is only logged",
	"htlcswitch.circuitMap.cleanClosedChannels#numKeystonesDeleted": "counter that is only logged",
	"payments/db.KVStore.FetchInFlightPayments#processedCount":      "progress counter that is only logged",
	"payments/db.KVStore.FetchInFlightPayments#lastLogTime":         "progress timestamp that is only logged",
}

func retrySafeClosures(r *an.Run, pkgs []string, only string, floor int, why string) {
	p := r.Prog
	r.Obl("transaction-closures-are-retry-safe", "PATH",
		"in "+strings.Join(pkgs, ", ")+": every variable of the enclosing function that a transaction closure (kvdb.Update, kvdb.View, kvdb.Batch, ExecTx) assigns is either assigned on every path of the closure before the closure reads it, or re-initialised by the call's reset function",
		why, floor,
		func(o *an.Obl) {
			isTx := func(id string) bool {
				return id == "kvdb.Update" || id == "kvdb.View" || id == "kvdb.Batch" || strings.HasSuffix(id, ".ExecTx") || strings.HasSuffix(id, ".Update") && strings.Contains(id, "kvdb") || strings.HasSuffix(id, ".View") && strings.Contains(id, "kvdb")
			}
			onlyRe := regexp.MustCompile(only)
			for _, f := range p.Funcs(false, pkgs...) {
				if f.Lit != nil || !onlyRe.MatchString(f.ID) {
					continue
				}
				info := f.Info()
				for _, fn := range append([]*an.Func{f}, f.Lits...) {
					for _, s := range fn.AllCalls(false) {
						call := s.Node.(*ast.CallExpr)
						if !isTx(an.CalleeID(info, call)) {
							continue
						}
						var body, reset *ast.FuncLit
						for _, a := range call.Args {
							if fl, ok := ast.Unparen(a).(*ast.FuncLit); ok {
								if body == nil {
									body = fl
								} else {
									reset = fl
								}
							}
						}
						if body == nil {
							continue
						}
						var lf *an.Func
						for _, c := range f.Lits {
							if c.Lit == body {
								lf = c
							}
						}
						if lf == nil {
							continue
						}
						o.Site("%s: transaction closure at %s", f.ID, f.Where(body.Pos()))
						// captured variables assigned inside the closure
						captured := map[types.Object]bool{}
						ast.Inspect(body.Body, func(n ast.Node) bool {
							var lhs []ast.Expr
							switch x := n.(type) {
							case *ast.AssignStmt:
								if x.Tok != token.DEFINE {
									lhs = x.Lhs
								} else {
									// `a, err := ...` re-uses an outer err only when declared in this scope: := never assigns a captured variable of an outer function scope
								}
							case *ast.IncDecStmt:
								lhs = []ast.Expr{x.X}
							}
							for _, l := range lhs {
								id, ok := ast.Unparen(l).(*ast.Ident)
								if !ok {
									continue
								}
								obj, ok := info.Uses[id].(*types.Var)
								if !ok || obj.IsField() || obj.Pkg() == nil || obj.Parent() == obj.Pkg().Scope() {
									continue
								}
								if obj.Pos() >= body.Pos() && obj.Pos() <= body.End() {
									continue // declared inside the closure
								}
								captured[obj] = true
							}
							return true
						})
						for obj := range captured {
							// does the reset function assign it?
							resets := false
							if reset != nil {
								ast.Inspect(reset.Body, func(n ast.Node) bool {
									if as, ok := n.(*ast.AssignStmt); ok {
										for _, l := range as.Lhs {
											if id, ok := ast.Unparen(l).(*ast.Ident); ok && info.Uses[id] == obj {
												resets = true
											}
										}
									}
									return true
								})
							}
							if resets {
								continue
							}
							if why, ok := retryExempt[f.ID+"#"+obj.Name()]; ok {
								o.Site("%s: %s exempt (%s)", f.ID, obj.Name(), why)
								continue
							}
							// read before (re)assignment inside the closure?
							g := lf.Graph()
							stop := map[*flow.Vertex]bool{}
							reads := map[*flow.Vertex]token.Pos{}
							for _, v := range g.V {
								pureWrite := false
								if as, ok := v.Node.(*ast.AssignStmt); ok && as.Tok == token.ASSIGN {
									for _, l := range as.Lhs {
										if id, ok := ast.Unparen(l).(*ast.Ident); ok && info.Uses[id] == obj {
											pureWrite = true
										}
									}
								}
								readsHere := token.NoPos
								v.Inspect(true, func(n ast.Node) bool {
									id, ok := n.(*ast.Ident)
									if !ok || info.Uses[id] != obj {
										return true
									}
									// skip the identifier on the left of a plain assignment
									if as, ok := v.Node.(*ast.AssignStmt); ok && as.Tok == token.ASSIGN {
										for _, l := range as.Lhs {
											if ast.Unparen(l) == ast.Expr(id) {
												return true
											}
										}
									}
									readsHere = id.Pos()
									return true
								})
								if readsHere != token.NoPos {
									reads[v] = readsHere
								} else if pureWrite {
									stop[v] = true
								}
							}
							reach := g.Reach(g.Entry, nil, stop)
							for v, pos := range reads {
								if reach[v] {
									o.FailAt(f.ID+"#stale-"+obj.Name(), f.Where(pos), "the transaction closure of %s reads %s, which it also assigns and which neither the closure re-assigns first nor the reset function re-initialises: a retried transaction starts from the value of the aborted run", f.ID, obj.Name())
									break
								}
							}
						}
					}
				}
			}
		})
}
