package lnwire

// Probe for suspicion 5 (property C10): three encodings of a node_announcement
// that lnd accepts but does not reproduce when it re-serialises the decoded
// struct. NodeAnnouncement1.DataToSign() re-serialises from the struct, so the
// digest lnd verifies the signature against is not the digest of the bytes the
// origin node signed: a correctly signed announcement fails
// netann.ValidateNodeAnnSignature (which does exactly what probe5Verify does).
//
//   a) a type-2 (ipv6) address holding an IPv4-mapped address is re-typed as
//      type 1 (ipv4) by WriteTCPAddr (19 -> 7 bytes),
//   b) a feature vector with leading zero bytes is re-emitted minimal,
//   c) a type-0 (padding) address descriptor is dropped.
//
// All three fail on the unmodified tree. No repair was applied for them (see
// the report): they stay failing.
//
// Run: go test -count=1 -run TestProbe5 ./lnwire/

import (
	"bytes"
	"net"
	"testing"

	"github.com/btcsuite/btcd/btcec/v2"
	"github.com/btcsuite/btcd/btcec/v2/ecdsa"
	"github.com/btcsuite/btcd/chainhash/v2"
	"github.com/stretchr/testify/require"
)

// probe5Signed builds the wire bytes of a node_announcement with the given raw
// feature vector and address list (both including their 2 byte length), signed
// by a fresh key over exactly these bytes, as BOLT 7 prescribes.
func probe5Signed(t *testing.T, features, addrs []byte) []byte {
	t.Helper()

	priv, err := btcec.NewPrivateKey()
	require.NoError(t, err)

	var signed bytes.Buffer
	signed.Write(features)
	signed.Write([]byte{0, 0, 0, 1})                           // timestamp
	signed.Write(priv.PubKey().SerializeCompressed())          // node_id
	signed.Write([]byte{1, 2, 3})                              // rgb
	signed.Write(append([]byte("probe"), make([]byte, 27)...)) // alias
	signed.Write(addrs)

	sig, err := NewSigFromSignature(ecdsa.Sign(
		priv, chainhash.DoubleHashB(signed.Bytes()),
	))
	require.NoError(t, err)

	raw := []byte{
		byte(uint16(MsgNodeAnnouncement) >> 8),
		byte(uint16(MsgNodeAnnouncement) & 0xff),
	}
	raw = append(raw, sig.RawBytes()...)

	return append(raw, signed.Bytes()...)
}

// probe5Verify does what netann.ValidateNodeAnnSignature does.
func probe5Verify(t *testing.T, a *NodeAnnouncement1) bool {
	t.Helper()

	data, err := a.DataToSign()
	require.NoError(t, err)
	sig, err := a.Signature.ToSignature()
	require.NoError(t, err)
	key, err := btcec.ParsePubKey(a.NodeID[:])
	require.NoError(t, err)

	return sig.Verify(chainhash.DoubleHashB(data), key)
}

func probe5Check(t *testing.T, name string, raw []byte) {
	t.Helper()

	m1, err := ReadMessage(bytes.NewReader(raw), 0)
	if err != nil {
		// Rejecting the message outright satisfies the property.
		t.Logf("%s: rejected: %v", name, err)
		return
	}

	if !probe5Verify(t, m1.(*NodeAnnouncement1)) {
		t.Errorf("%s: the signature of a correctly signed "+
			"announcement doesn't verify after decoding", name)
	}

	var b bytes.Buffer
	_, err = WriteMessage(&b, m1, 0)
	require.NoError(t, err)
	if !bytes.Equal(raw, b.Bytes()) {
		t.Errorf("%s: re-encoded differently:\n in: %x\nout: %x", name,
			raw[66:], b.Bytes()[66:])
	}

	m2, err := ReadMessage(bytes.NewReader(b.Bytes()), 0)
	require.NoError(t, err)
	require.Equal(t, m1, m2, "%s: second decode differs", name)
}

func TestProbe5NodeAnnReencode(t *testing.T) {
	noFeatures := []byte{0x00, 0x00}
	noAddrs := []byte{0x00, 0x00}

	// Control: a plain announcement verifies and round trips.
	v4 := append([]byte{0x00, 0x07, byte(tcp4Addr)}, 10, 1, 2, 3, 0x26, 0x07)
	probe5Check(t, "control", probe5Signed(t, noFeatures, v4))
	require.False(t, t.Failed(), "control case must pass")

	// a) IPv4-mapped address in a type-2 descriptor.
	mapped := []byte{0x00, 0x13, byte(tcp6Addr)}
	mapped = append(mapped, net.ParseIP("::ffff:10.1.2.3").To16()...)
	mapped = append(mapped, 0x26, 0x07)
	t.Run("ipv4-mapped type-2 address", func(t *testing.T) {
		probe5Check(t, t.Name(), probe5Signed(t, noFeatures, mapped))
	})

	// b) non-minimal feature vector.
	t.Run("non-minimal feature vector", func(t *testing.T) {
		probe5Check(t, t.Name(), probe5Signed(
			t, []byte{0x00, 0x02, 0x00, 0x02}, noAddrs,
		))
	})

	// c) type-0 padding descriptor after an address.
	padded := append([]byte{}, v4...)
	padded[1]++
	padded = append(padded, byte(noAddr))
	t.Run("type-0 padding address", func(t *testing.T) {
		probe5Check(t, t.Name(), probe5Signed(t, noFeatures, padded))
	})
}
