// Package load type-checks packages of the analysed repository from its
// current working tree.
package load

import (
	"fmt"
	"go/token"
	"os"
	"sort"
	"strings"
	"time"

	"golang.org/x/tools/go/packages"
)

// Config describes one load.
type Config struct {
	Dir      string   // module root, e.g. /repo or /repo/tlv
	Patterns []string // e.g. ./lnwallet
	Tags     []string
	Env      []string          // extra environment (e.g. GOARCH=386)
	Overlay  map[string][]byte // file path -> replacement contents
	AllDeps  bool              // type-check dependencies from source as well
}

// Result of a load.
type Result struct {
	Fset     *token.FileSet
	Roots    []*packages.Package
	ByPath   map[string]*packages.Package // every package reachable (roots + deps when AllDeps)
	Files    int
	WallS    float64
	Patterns []string
	Dir      string
	Tags     []string
}

// Load loads and type-checks. Any load or type error is returned as an error:
// a check must never pass on a tree it could not analyse.
func Load(c Config) (*Result, error) {
	start := time.Now()
	mode := packages.NeedName | packages.NeedFiles | packages.NeedCompiledGoFiles |
		packages.NeedImports | packages.NeedTypes | packages.NeedSyntax |
		packages.NeedTypesInfo | packages.NeedTypesSizes | packages.NeedModule
	if c.AllDeps {
		mode |= packages.NeedDeps
	}
	env := os.Environ()
	// never let a stray workspace or vendor mode change what is analysed
	env = append(env, "GOWORK=off", "GOFLAGS=-mod=mod", "GOPROXY=off", "GOTOOLCHAIN=local")
	env = append(env, c.Env...)
	fset := token.NewFileSet()
	cfg := &packages.Config{
		Mode:    mode,
		Dir:     c.Dir,
		Env:     env,
		Fset:    fset,
		Overlay: c.Overlay,
		Tests:   false,
	}
	if len(c.Tags) > 0 {
		cfg.BuildFlags = []string{"-tags=" + strings.Join(c.Tags, ",")}
	}
	pkgs, err := packages.Load(cfg, c.Patterns...)
	if err != nil {
		return nil, fmt.Errorf("load %v in %s: %w", c.Patterns, c.Dir, err)
	}
	if len(pkgs) == 0 {
		return nil, fmt.Errorf("load %v in %s: no packages", c.Patterns, c.Dir)
	}
	res := &Result{Fset: fset, ByPath: map[string]*packages.Package{}, Patterns: c.Patterns, Dir: c.Dir, Tags: c.Tags}
	var errs []string
	packages.Visit(pkgs, nil, func(p *packages.Package) {
		for _, e := range p.Errors {
			errs = append(errs, e.Error())
		}
		if p.Types != nil && len(p.Syntax) > 0 {
			res.ByPath[p.PkgPath] = p
		}
	})
	if len(errs) > 0 {
		sort.Strings(errs)
		if len(errs) > 10 {
			errs = errs[:10]
		}
		return nil, fmt.Errorf("load %v: %d package errors, first: %s", c.Patterns, len(errs), strings.Join(errs, "; "))
	}
	for _, p := range pkgs {
		if len(p.GoFiles) == 0 && len(p.CompiledGoFiles) == 0 {
			continue // test-only package under the default configuration
		}
		if p.Types == nil || len(p.Syntax) == 0 {
			return nil, fmt.Errorf("load: package %s has no syntax/types", p.PkgPath)
		}
		res.Roots = append(res.Roots, p)
		res.ByPath[p.PkgPath] = p
		res.Files += len(p.Syntax)
	}
	sort.Slice(res.Roots, func(i, j int) bool { return res.Roots[i].PkgPath < res.Roots[j].PkgPath })
	res.WallS = time.Since(start).Seconds()
	return res, nil
}
