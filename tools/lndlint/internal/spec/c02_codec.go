package spec

import "lndlint/internal/an"

func codecC02(r *an.Run) {}
