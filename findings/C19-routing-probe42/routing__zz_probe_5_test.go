package routing

import (
	"fmt"
	"math/rand"
	"testing"

	"github.com/btcsuite/btcd/btcutil/v2"
	"github.com/lightningnetwork/lnd/lnwire"
	"github.com/lightningnetwork/lnd/routing/route"
	"github.com/stretchr/testify/require"
)

// TestProbeEqualDistReplacementKeepsRouteWithinLimits looks for the suspected
// replacement of an already expanded node in the distance map by a candidate
// of equal distance and higher probability. Zero fees and a small amount make
// every edge weight zero; with an attempt cost of zero all distances are zero
// and only the probability (powers of two, so products tie exactly) orders the
// search. Whatever path comes back must, as a route, stay within the cltv
// limit, the fee limit and the htlc ranges of its channels.
func TestProbeEqualDistReplacementKeepsRouteWithinLimits(t *testing.T) {
	const (
		iterations = 300
		height     = 100
		finalDelta = 1
	)

	nodes := []string{"roasbeef", "a", "b", "c", "d", "e", "target"}
	rng := rand.New(rand.NewSource(42))

	found := 0
	for it := 0; it < iterations; it++ {
		var (
			testChannels []*testChannel
			seen         = make(map[string]bool)
			chanID       = uint64(1)
		)
		for len(testChannels) < 12 {
			i, j := rng.Intn(len(nodes)), rng.Intn(len(nodes))
			if i == j {
				continue
			}
			if i > j {
				i, j = j, i
			}
			key := fmt.Sprintf("%d-%d", i, j)
			if seen[key] && rng.Intn(3) != 0 {
				continue
			}
			seen[key] = true

			mk := func() *testChannelPolicy {
				return &testChannelPolicy{
					Expiry: []uint16{10, 20, 40, 80}[rng.Intn(4)],
					FeeBaseMsat: lnwire.MilliSatoshi(
						[]int{0, 0, 0, 1}[rng.Intn(4)],
					),
					MinHTLC: 1,
					MaxHTLC: lnwire.MilliSatoshi(
						[]int{1000, 1001, 5000}[rng.Intn(3)],
					),
				}
			}
			testChannels = append(testChannels, asymmetricTestChannel(
				nodes[i], nodes[j], btcutil.Amount(100000),
				mk(), mk(), chanID,
			))
			chanID++
		}

		ctx := newPathFindingTestContext(
			t, it%2 == 0, testChannels, "roasbeef",
		)

		probs := make(map[[2]route.Vertex]float64)
		ctx.restrictParams.ProbabilitySource = func(from,
			to route.Vertex, _ lnwire.MilliSatoshi,
			_ btcutil.Amount) float64 {

			k := [2]route.Vertex{from, to}
			p, ok := probs[k]
			if !ok {
				p = []float64{1, 1, 0.5, 0.25}[rng.Intn(4)]
				probs[k] = p
			}

			return p
		}
		ctx.restrictParams.CltvLimit = []uint32{20, 30, 50, 90}[rng.Intn(3)]
		ctx.restrictParams.FeeLimit = lnwire.MilliSatoshi(rng.Intn(3))
		ctx.pathFindingConfig = PathFindingConfig{
			AttemptCost:    lnwire.MilliSatoshi([]int{0, 0, 1}[rng.Intn(3)]),
			MinProbability: 0.001,
		}

		amt := lnwire.MilliSatoshi(1000)
		path, err := ctx.findPath(ctx.keyFromAlias("target"), amt)
		if err != nil {
			if err != errInsufficientBalance {
				require.ErrorIs(t, err, errNoPathFound)
			}

			continue
		}
		found++

		rt, err := newRoute(
			ctx.source, path, height, finalHopParams{
				amt:       amt,
				cltvDelta: finalDelta,
			}, nil,
		)
		require.NoError(t, err)

		require.LessOrEqualf(t, rt.TotalTimeLock,
			height+finalDelta+ctx.restrictParams.CltvLimit,
			"iteration %v: cltv limit %v", it,
			ctx.restrictParams.CltvLimit)
		require.LessOrEqualf(t, rt.TotalFees(),
			ctx.restrictParams.FeeLimit, "iteration %v", it)

		hopAmt := rt.TotalAmount
		for i, edge := range path {
			require.Truef(t, edge.amtInRange(hopAmt), "iteration "+
				"%v: hop %v carries %v, max htlc %v", it, i,
				hopAmt, edge.policy.MaxHTLC)

			hopAmt = rt.Hops[i].AmtToForward
		}
	}

	t.Logf("%d of %d searches returned a path", found, iterations)
	require.NotZero(t, found)
}
