package spec

import (
	"go/ast"
	"go/token"
	"go/types"
	"strings"

	"lndlint/internal/an"
	"lndlint/internal/flow"
)

func init() {
	specExtras["C20"] = append(specExtras["C20"], c20f5Repairs)
}

// c20f5Repairs: what the repairs 9b45064 (a funding output that pays to other
// keys does not make the channel id a zombie) and c9247b7 (pruning tolerates an
// index entry without its edge) established, and the rules the round-4 seeds
// C20/g (the assembled proof is validated whoever completes it) and C20/h (the
// max_htlc bound is compared in msat) were missed by.
func c20f5Repairs(r *an.Run) {
	p := r.Prog
	gs := "discovery.AuthenticatedGossiper."

	// repair 9b45064
	r.Obl("an-output-paying-other-keys-does-not-make-the-channel-id-a-zombie", "GUARD",
		"validateFundingTransaction: a MarkZombieEdge call between chanvalidate.Validate and the GetUtxo lookup lies below a false edge of errors.Is(err, chanvalidate.ErrWrongPkScript), err being the error Validate returned (no other definition of err reaches the test or the call); a MarkZombieEdge call before Validate lies below the failure of FetchFundingTxWrapper; every MarkZombieEdge call marks the announcement's own ShortChannelID; every return reached after Validate failed either hands out the error of the zombie marking or mentions ErrInvalidFundingOutput (so that the reject cache entry and the ban score of handleChanAnnouncement stay); nothing else in discovery marks a zombie edge",
		"an announcement with four valid signatures over foreign keys can be crafted by anyone for the short channel id of a real, unspent channel: only the funding script differs; marking that id a zombie (with blank keys, which no update can resurrect) makes the node drop the authentic announcement of the channel as known from then on", 8,
		func(o *an.Obl) {
			f := p.Func(gs + "validateFundingTransaction")
			g := f.Graph()
			one := func(name string) (an.Site, bool) {
				cs := f.Calls(an.CalleeNamed(name), false)
				if !needExactly(o, f, name, cs, 1) {
					return an.Site{}, false
				}
				return cs[0], true
			}
			fetch, ok1 := one("FetchFundingTxWrapper")
			val, ok2 := one("Validate")
			utxo, ok3 := one("GetUtxo")
			if !ok1 || !ok2 || !ok3 {
				return
			}
			if id := an.CalleeID(f.Info(), val.Node.(*ast.CallExpr)); id != "lnwallet/chanvalidate.Validate" {
				o.FailAt(f.ID+"#validator", val.Where(), "the funding output is validated by %s", id)
			}
			valErr := c20f4ResultVar(f, val, 1)
			fetchErr := c20f4ResultVar(f, fetch, 1)
			if valErr == nil || fetchErr == nil {
				o.FailAt(f.ID+"#errors-unbound", val.Where(), "the errors of FetchFundingTxWrapper and chanvalidate.Validate must be bound to variables")
				return
			}
			wrongKeys := an.Truth(an.CallTo("errors.Is", nil, c19f5Var(valErr), an.PkgVar("lnwallet/chanvalidate", "ErrWrongPkScript")), false, "!errors.Is(err, chanvalidate.ErrWrongPkScript)")
			afterVal := g.Reach(val.V, nil, nil)
			afterUtxo := g.Reach(utxo.V, nil, nil)
			afterFetch := g.Reach(fetch.V, nil, nil)
			stale := c20f4OtherDefsReach(f, valErr, val.V)
			// the test judges Validate's error
			nTests := 0
			for e := range f.EdgesOf(wrongKeys) {
				nTests++
				if stale[e.From] || !afterVal[e.From] || afterUtxo[e.From] {
					o.FailAt(f.ID+"#wrong-script-test-judges-another-error", f.Where(e.From.Pos()), "the ErrWrongPkScript test at %s does not (only) see the error chanvalidate.Validate returned", f.Where(e.From.Pos()))
				}
			}
			marks := f.Calls(an.CalleeNamed("MarkZombieEdge"), false)
			nMid := 0
			var markErrs []types.Object
			for _, s := range marks {
				if a := f.ArgCanon(s); len(a) != 1 || a[0] != "$p1.ShortChannelID.ToUint64()" {
					o.FailAt(f.ID+"#zombie-id", s.Where(), "%s: expected the zombie mark on the announcement's own short channel id", an.Text(s.Node))
				}
				if e := c20f4ResultVar(f, s, 0); e != nil {
					markErrs = append(markErrs, e)
				}
				switch {
				case afterUtxo[s.V]:
					// judged by only-a-spent-funding-output-closes-a-channel-id
				case afterVal[s.V]:
					nMid++
					guarded(o, f, s, wrongKeys)
					if stale[s.V] {
						o.FailAt(f.ID+"#zombie-mark-judges-another-error", s.Where(), "%s can be reached with an err that is not the one chanvalidate.Validate returned", s.String())
					}
				case afterFetch[s.V]:
					guarded(o, f, s, an.Cmp(c19f5Var(fetchErr), an.NE, an.Nil(), "the funding transaction could not be fetched"))
				default:
					o.FailAt(f.ID+"#zombie-mark-before-any-lookup", s.Where(), "%s marks a zombie before anything was looked up on chain", s.String())
				}
			}
			o.Site("validateFundingTransaction: %d zombie marks, %d between Validate and GetUtxo, %d ErrWrongPkScript test edges", len(marks), nMid, nTests)
			if nMid > 0 && nTests == 0 {
				o.FailAt(f.ID+"#no-wrong-script-test", val.Where(), "a failed chanvalidate.Validate marks the channel id a zombie without asking whether the output merely pays to other keys")
			}
			// what a failed Validate hands out
			failV := g.Reach(val.V, nil, map[*flow.Vertex]bool{utxo.V: true})
			okV, _ := f.OkEdges(val, an.OkErrNil)
			okSide := map[*flow.Vertex]bool{}
			for e := range okV {
				for v := range g.Reach(e.To, nil, nil) {
					okSide[v] = true
				}
			}
			nRet := 0
			for _, s := range f.Returns() {
				rs, ok := s.Node.(*ast.ReturnStmt)
				if !ok || !failV[s.V] || okSide[s.V] || len(rs.Results) != 4 {
					continue
				}
				nRet++
				mentions := false
				ast.Inspect(rs.Results[3], func(n ast.Node) bool {
					if id, ok := n.(*ast.Ident); ok {
						if v, ok := f.Info().Uses[id].(*types.Var); ok && v.Name() == "ErrInvalidFundingOutput" && v.Pkg() != nil && v.Parent() == v.Pkg().Scope() {
							mentions = true
						}
					}
					return true
				})
				isMarkErr := false
				for _, e := range markErrs {
					if c19VarObj(f, rs.Results[3]) == e {
						isMarkErr = true
					}
				}
				o.Site("validateFundingTransaction: after a failed Validate: %s", an.Text(rs))
				if !mentions && !isMarkErr {
					o.FailAt(f.ID+"#invalid-output-not-classified", s.Where(), "%s: a funding output that failed chanvalidate.Validate must be handed out as ErrInvalidFundingOutput (reject cache, ban score), whichever keys it pays to", s.String())
				}
			}
			if nRet == 0 {
				o.FailAt(f.ID+"#no-invalid-output-verdict", val.Where(), "cannot find the return for a failed chanvalidate.Validate")
			}
			for _, fn := range p.Funcs(false, "discovery") {
				if fn.Root().ID == f.ID {
					continue
				}
				for _, s := range fn.Calls(an.CalleeNamed("MarkZombieEdge"), false) {
					o.FailAt(fn.Root().ID+"#marks-zombie", s.Where(), "%s marks a zombie edge outside validateFundingTransaction", s.String())
				}
			}
		})

	// repair c9247b7
	r.Obl("a-deleted-edge-is-used-only-when-the-delete-found-it", "GUARD",
		"KVStore.delChannelEdgeUnsafe returns a nil edge only together with an error; in every caller the edge it returned is bound to a variable and each use of that variable (other than a comparison with nil) lies below `edge != nil` or below `err == nil` for the error of the same call: a caller that tolerates ErrEdgeNotFound skips the entry before it appends or dereferences the edge",
		"PruneGraph and DisconnectBlockAtHeight tolerate a channel-point / height index entry whose edge is gone; appending the nil edge makes the loop over the closed channels dereference it: the block is never pruned or disconnected, so spent funding outputs stay in the graph as live channels", 6,
		func(o *an.Obl) {
			del := p.Func("graph/db.KVStore.delChannelEdgeUnsafe")
			for _, s := range del.Returns() {
				rs, ok := s.Node.(*ast.ReturnStmt)
				if !ok || len(rs.Results) != 2 {
					continue
				}
				if an.IsNilIdent(del.Info(), rs.Results[0]) && an.IsNilIdent(del.Info(), rs.Results[1]) {
					o.FailAt(del.ID+"#nil-edge-without-error", s.Where(), "delChannelEdgeUnsafe returns neither an edge nor an error")
				}
			}
			nCallers := 0
			for _, fn := range p.Funcs(false, "graph/db") {
				for _, s := range fn.Calls(an.CalleeIs(del.ID), false) {
					nCallers++
					edge := c20f4ResultVar(fn, s, 0)
					errObj := c20f4ResultVar(fn, s, 1)
					if edge == nil || errObj == nil {
						o.FailAt(fn.Root().ID+"#deleted-edge-unbound", s.Where(), "%s: the edge and the error must be bound to variables", s.String())
						continue
					}
					notNil := an.Cmp(c19f5Var(edge), an.NE, an.Nil(), "edge != nil")
					found := an.AnyOf("the delete found the edge (edge != nil or err == nil)", notNil,
						an.Cmp(c19f5Var(errObj), an.EQ, an.Nil(), ""))
					stale := c20f4OtherDefsReach(fn, errObj, s.V)
					g := fn.Graph()
					// every path from the call to a use establishes the fact: tests
					// made before the call (on an earlier value of a reused err) do
					// not count
					unproven := func(fact an.Fact, use *flow.Vertex) bool {
						cut := fn.EdgesOf(fact)
						for _, e := range s.V.Out {
							if cut[e] {
								continue
							}
							if e.To == use || g.Reach(e.To, cut, map[*flow.Vertex]bool{s.V: true})[use] {
								return true
							}
						}
						return false
					}
					nUses := 0
					for _, v := range g.V {
						if v.Node == nil || v == s.V {
							continue
						}
						used := false
						v.Inspect(false, func(n ast.Node) bool {
							if be, ok := n.(*ast.BinaryExpr); ok && (be.Op == token.EQL || be.Op == token.NEQ) {
								if (c19VarObj(fn, be.X) == edge && an.IsNilIdent(fn.Info(), be.Y)) || (c19VarObj(fn, be.Y) == edge && an.IsNilIdent(fn.Info(), be.X)) {
									return false
								}
							}
							if id, ok := n.(*ast.Ident); ok && fn.Info().Uses[id] == edge {
								used = true
							}
							return true
						})
						if !used {
							continue
						}
						nUses++
						us := an.Site{Fn: fn, V: v, Node: v.Node}
						fact := found
						if stale[v] {
							// err may have been redefined: only the nil test of the edge counts
							fact = notNil
						}
						o.Site("%s: between the delete and %s: [%s]", fn.ID, us.String(), fact.Desc)
						if unproven(fact, v) {
							o.FailAt(constructOf(fn, us)+"<-"+fact.Desc, us.Where(), "%s can be reached from %s without [%s]: when the index entry has no edge (ErrEdgeNotFound tolerated) a nil edge is used; guards that hold here: %s", us.String(), s.String(), fact.Desc, strings.Join(fn.GuardsAt(us), " ; "))
						}
					}
					o.Site("%s: %d uses of the edge deleted at %s", fn.ID, nUses, s.Where())
				}
			}
			if nCallers < 3 {
				o.FailAt(del.ID+"#callers", "", "found %d callers of delChannelEdgeUnsafe, expected PruneGraph, DisconnectBlockAtHeight and DeleteChannelEdges", nCallers)
			}
		})

	// round-4 seed C20/g
	r.Obl("assembled-channel-proof-is-validated-whoever-completes-it", "PATH",
		"every function of discovery that calls Graph.AddProof (handleAnnSig, processRejectedEdge) reaches that call, and every return that hands messages on for relay, only after the one call netann.ValidateChannelAnn(<assembled announcement>, d.fetchPKScript) was executed and succeeded, under no further condition (local and remote halves alike); the announcement validated is result 0 of netann.CreateChanAnnouncement on the stored channel (result 0 of GetChannelByID for the ShortChannelID of the message handled), whose AuthProof was set, before that call, to the very proof AddProof then stores under the same ShortChannelID; relay also requires AddProof to have succeeded, and the relay list carries that validated announcement; parameters are not reassigned",
		"the waiting-proof store keeps a remote half unverified (a half proof cannot be checked alone): if the assembled announcement is validated only when the remote half arrives last, a forged remote half parked in the store is accepted, stored as the channel's proof and broadcast when our own half completes it", 24,
		func(o *an.Obl) {
			nFuncs := 0
			for _, f := range p.Funcs(false, "discovery") {
				if f.Lit != nil {
					continue
				}
				add := f.Calls(an.CalleeNamed("AddProof"), true)
				if len(add) == 0 {
					continue
				}
				nFuncs++
				var names []string
				for _, pv := range f.Params(false) {
					if pv.Name() != "_" && pv.Name() != "" {
						names = append(names, pv.Name())
					}
				}
				notReassigned(o, f, names...)
				val := f.Calls(an.CalleeIs("netann.ValidateChannelAnn"), false)
				if add[0].Fn != f || !needExactly(o, f, "Graph.AddProof", add, 1) || !needExactly(o, f, "ValidateChannelAnn", val, 1) {
					if add[0].Fn != f {
						o.FailAt(f.ID+"#proof-stored-in-a-closure", add[0].Where(), "AddProof runs inside a function literal, where no validation of the enclosing function is known to have succeeded")
					}
					continue
				}
				mustPass(o, f, "ValidateChannelAnn", val, an.OkErrNil, add)
				// what is validated
				var mk an.Site
				nMk := 0
				for _, s := range f.Calls(an.CalleeIs("netann.CreateChanAnnouncement"), false) {
					mk = s
					nMk++
				}
				if nMk != 1 {
					o.FailAt(f.ID+"#assembly", f.Where(f.Body.Pos()), "expected one CreateChanAnnouncement in %s itself (closures aside), found %d", f.ID, nMk)
					continue
				}
				annObj := c20f4ResultVar(f, mk, 0)
				if a := f.ArgCanon(val[0]); annObj == nil || c19VarObj(f, callArg(val[0], 0)) != annObj || len(a) < 2 || a[1] != "$recv.fetchPKScript" {
					o.FailAt(f.ID+"#validated-announcement", val[0].Where(), "%s: expected the validation of the announcement CreateChanAnnouncement assembled, with the gossiper's funding script lookup", an.Text(val[0].Node))
				}
				before(o, f, "the assembly of the announcement", []an.Site{mk}, "its validation", val)
				if annObj != nil {
					for _, d := range c19f4ValueDefs(f, annObj) {
						if as, ok := d.Node.(*ast.AssignStmt); !ok || len(as.Rhs) != 1 || ast.Unparen(as.Rhs[0]) != mk.Node {
							o.FailAt(f.ID+"#announcement-replaced", f.Where(d.Node.Pos()), "%s %s replaces the assembled announcement", annObj.Name(), d.form())
						}
					}
				}
				// the stored channel and the proof
				get := f.Calls(an.CalleeNamed("GetChannelByID"), false)
				var chanObj types.Object
				idCanon := ""
				if needExactly(o, f, "GetChannelByID", get, 1) {
					chanObj = c20f4ResultVar(f, get[0], 0)
					if a := f.ArgCanon(get[0]); len(a) == 1 {
						idCanon = a[0]
					}
					if !reMatch(`^\$p\d\.ShortChannelID$`, idCanon) {
						o.FailAt(f.ID+"#channel-looked-up", get[0].Where(), "the channel is looked up under %q, expected the ShortChannelID of the message handled", idCanon)
					}
				}
				if chanObj == nil || c19VarObj(f, callArg(mk, 0)) != chanObj {
					o.FailAt(f.ID+"#assembled-from", mk.Where(), "the announcement is assembled from %s, expected the channel stored under the message's id", an.Text(callArg(mk, 0)))
				}
				proofObj := c19VarObj(f, callArg(add[0], 1))
				if a := f.ArgCanon(add[0]); proofObj == nil || a[0] != idCanon {
					o.FailAt(f.ID+"#stored-proof", add[0].Where(), "AddProof(%s, %s): expected the ShortChannelID the channel was looked up under and the assembled proof as a variable", an.Text(callArg(add[0], 0)), an.Text(callArg(add[0], 1)))
				}
				if chanObj != nil && proofObj != nil {
					var sets []an.Site
					for fld, ws := range c19FieldWrites(f, chanObj) {
						for _, w := range ws {
							as, ok := w.(*ast.AssignStmt)
							if fld == "AuthProof" && ok && len(as.Rhs) == 1 && as.Tok == token.ASSIGN && c19VarObj(f, as.Rhs[0]) == proofObj && c19Innermost(f, w) == f {
								sets = append(sets, c19SiteFor(f, as))
								continue
							}
							o.FailAt(f.ID+"#channel-rewritten-"+fld, f.Where(w.Pos()), "%s rewrites the stored channel: the announcement validated must consist of the stored channel and the assembled proof only", an.Text(w))
						}
					}
					before(o, f, "chanInfo.AuthProof = <the proof AddProof stores>", sets, "the assembly of the announcement", []an.Site{mk})
					// the proof is complete when it is attached
					for _, st := range sets {
						after := f.Graph().Reach(st.V, nil, nil)
						for _, d := range c19f4ValueDefs(f, proofObj) {
							if ds := d.site(); ds.V != nil && ds.V != st.V && after[ds.V] {
								o.FailAt(f.ID+"#proof-changed-after-validation", ds.Where(), "%s changes the proof after it was attached to the announcement that is validated", ds.String())
							}
						}
					}
				}
				// relay
				var relays []an.Site
				for _, s := range f.Returns() {
					rs, ok := s.Node.(*ast.ReturnStmt)
					if !ok || len(rs.Results) == 0 || an.IsNilIdent(f.Info(), rs.Results[0]) {
						continue
					}
					relays = append(relays, s)
					listObj := c19VarObj(f, rs.Results[0])
					carries := false
					for _, d := range c19f4ValueDefs(f, listObj) {
						c, _ := d.Rhs.(*ast.CallExpr)
						if c != nil && an.CalleeID(f.Info(), c) == "builtin.make" {
							continue
						}
						if c == nil || !isAppend(f, c) || len(c.Args) != 2 || c19VarObj(f, c.Args[0]) != listObj {
							o.FailAt(f.ID+"#relay-list", f.Where(d.Node.Pos()), "the relay list is changed by %s; expected appends of single messages only", an.Text(d.Node))
							continue
						}
						if lit := c19AsLit(c.Args[1]); lit != nil && annObj != nil && c19VarObj(f, c20KvValue(lit, "msg")) == annObj {
							carries = true
						}
					}
					if !carries {
						o.FailAt(f.ID+"#relay-without-the-announcement", s.Where(), "%s relays a list that does not carry the validated announcement", s.String())
					}
				}
				if need(o, f, "relaying return", relays, 1) {
					mustPass(o, f, "ValidateChannelAnn", val, an.OkErrNil, relays)
					mustPass(o, f, "Graph.AddProof", add, an.OkErrNil, relays)
				}
			}
			if nFuncs < 2 {
				o.FailAt("discovery#proof-writers", "", "found %d functions of discovery that store a channel proof, expected handleAnnSig and processRejectedEdge", nFuncs)
			}
		})

	// round-4 seed C20/h
	r.Obl("update-bounds-are-compared-in-msat", "GUARD",
		"netann.validateChannelUpdate1Fields answers nil only below HasMaxHtlc(), max_htlc != 0, max_htlc >= min_htlc and (capacity in msat == 0 or max_htlc <= capacity in msat), validateChannelUpdate2Fields only below the last three; max_htlc and min_htlc are the message's own msat fields, unconverted, and the capacity in msat is lnwire.NewMSatFromSatoshis(capacity parameter): both sides of every bound are msat values; no condition of these validators applies the truncating ToSatoshis() to an operand; the parameters are not reassigned",
		"'consistent fields': MilliSatoshi.ToSatoshis() truncates, so a comparison in whole satoshis accepts an update whose htlc_maximum_msat exceeds the channel capacity by up to 999 msat, and pathfinding then trusts a max_htlc no HTLC of that channel can carry", 9,
		func(o *an.Obl) {
			for _, row := range []struct {
				fn       string
				max, min []string
				flag     bool
			}{
				{"netann.validateChannelUpdate1Fields", []string{"HtlcMaximumMsat"}, []string{"HtlcMinimumMsat"}, true},
				{"netann.validateChannelUpdate2Fields", []string{"HTLCMaximumMsat", "Val"}, []string{"HTLCMinimumMsat", "Val"}, false},
			} {
				f := p.Func(row.fn)
				var names []string
				for _, pv := range f.Params(false) {
					names = append(names, pv.Name())
				}
				notReassigned(o, f, names...)
				if ps := f.Params(false); len(ps) == 2 {
					for fld, ws := range c19FieldWrites(f, ps[1]) {
						o.FailAt(f.ID+"#update-rewritten-"+fld, f.Where(ws[0].Pos()), "%s rewrites the update being validated", an.Text(ws[0]))
					}
				}
				maxT := an.FieldPath(an.Param(1), row.max...)
				minT := an.FieldPath(an.Param(1), row.min...)
				capT := an.CallTo("lnwire.NewMSatFromSatoshis", nil, an.Param(0))
				succ := f.StrictSuccessReturns()
				if !need(o, f, "successful return", succ, 1) {
					continue
				}
				for _, s := range succ {
					if row.flag {
						guarded(o, f, s, an.Truth(an.CallNamed("HasMaxHtlc", an.FieldPath(an.Param(1), "MessageFlags")), true, "the max_htlc flag is set"))
					}
					guarded(o, f, s, an.Cmp(maxT, an.NE, an.IntConst(0), "max_htlc != 0"))
					guarded(o, f, s, an.CmpX(maxT, an.GE, minT, "max_htlc >= min_htlc"))
					guarded(o, f, s, an.AnyOf("capacity unknown or max_htlc <= capacity, both in msat",
						an.Cmp(capT, an.EQ, an.IntConst(0), ""),
						an.Cmp(an.Param(0), an.EQ, an.IntConst(0), ""),
						an.CmpX(maxT, an.LE, capT, "")))
				}
				// no truncating conversion inside a bound check
				for _, v := range f.Graph().V {
					if v.Kind != flow.KCond && v.Kind != flow.KCase {
						continue
					}
					ast.Inspect(v.Node, func(n ast.Node) bool {
						if c, ok := n.(*ast.CallExpr); ok && strings.HasSuffix(an.CalleeID(f.Info(), c), ".ToSatoshis") {
							o.FailAt(f.ID+"#truncated-operand", f.Where(c.Pos()), "%s: a bound of the update is tested on %s, which drops the sub-satoshi part of an msat amount", an.Text(v.Node), an.Text(c))
						}
						return true
					})
				}
			}
		})
}
