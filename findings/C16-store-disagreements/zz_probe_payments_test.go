package paymentsdb

// Probe for property C16 (payments/db): the key-value and the SQL payment
// stores must answer identical histories identically, must only mutate the
// payment they were asked to mutate, and must admit attempts only while the
// settled plus in-flight amounts stay within the payment amount.
//
// The file carries no build tag and builds both real stores itself (bbolt
// KVStore, sqlite SQLStore), so it runs with and without -tags test_db_sqlite.

import (
	"context"
	"database/sql"
	"errors"
	"fmt"
	"sort"
	"testing"
	"time"

	"github.com/lightningnetwork/lnd/kvdb"
	"github.com/lightningnetwork/lnd/lntypes"
	"github.com/lightningnetwork/lnd/lnwire"
	"github.com/lightningnetwork/lnd/record"
	"github.com/lightningnetwork/lnd/routing/route"
	"github.com/lightningnetwork/lnd/sqldb"
	"github.com/stretchr/testify/assert"
	"github.com/stretchr/testify/require"
)

type probeBackend struct {
	name string
	db   DB
}

// probeBackends creates one real KVStore (bbolt) and one real SQLStore
// (sqlite).
func probeBackends(t *testing.T) []probeBackend {
	t.Helper()

	backend, cleanup, err := kvdb.GetTestBackend(t.TempDir(), "probeKV")
	require.NoError(t, err)
	t.Cleanup(cleanup)

	kvStore, err := NewKVStore(backend)
	require.NoError(t, err)

	baseDB := sqldb.NewTestSqliteDB(t).BaseDB
	executor := sqldb.NewTransactionExecutor(
		baseDB, func(tx *sql.Tx) SQLQueries {
			return baseDB.WithTx(tx)
		},
	)
	sqlStore, err := NewSQLStore(
		&SQLStoreConfig{QueryCfg: sqldb.DefaultSQLiteConfig()},
		executor,
	)
	require.NoError(t, err)

	return []probeBackend{
		{name: "kv", db: kvStore},
		{name: "sql", db: sqlStore},
	}
}

var probeAddr = [32]byte{0x42}

// probeExtraSentinels may be extended by a repair that introduces new error
// values (kept separate so that this file compiles on the unmodified tree).
var probeExtraSentinels []error

// probeHash returns a deterministic payment hash.
func probeHash(b byte) lntypes.Hash {
	var h lntypes.Hash
	h[0] = b
	h[31] = 0xc1

	return h
}

// probeInit initiates a payment of the given value.
func probeInit(t *testing.T, db DB, hash lntypes.Hash,
	value lnwire.MilliSatoshi) {

	t.Helper()

	err := db.InitPayment(t.Context(), hash, &PaymentCreationInfo{
		PaymentIdentifier: hash,
		Value:             value,
		CreationTime:      time.Unix(1700000000, 0),
		PaymentRequest:    []byte("probe"),
	})
	require.NoError(t, err)
}

// probeShard builds an MPP shard of amt out of total with a fresh session key.
func probeShard(t *testing.T, id uint64, hash lntypes.Hash,
	amt, total lnwire.MilliSatoshi) *HTLCAttemptInfo {

	t.Helper()

	rt := route.Route{
		TotalTimeLock: 100,
		TotalAmount:   amt,
		SourcePubKey:  vertex,
		Hops: []*route.Hop{{
			PubKeyBytes:      vertex,
			ChannelID:        1,
			OutgoingTimeLock: 90,
			AmtToForward:     amt,
			MPP:              record.NewMPP(total, probeAddr),
		}},
	}

	a, err := NewHtlcAttempt(
		id, genSessionKey(t), rt, time.Unix(1700000001, 0), &hash,
	)
	require.NoError(t, err)

	return &a.HTLCAttemptInfo
}

// probeErrClass maps an error onto a backend independent class.
func probeErrClass(err error) string {
	sentinels := []error{
		ErrPaymentNotInitiated, ErrAttemptAlreadySettled,
		ErrAttemptAlreadyFailed, ErrPaymentAlreadySucceeded,
		ErrPaymentAlreadyFailed, ErrValueExceedsAmt,
		ErrPaymentInFlight, ErrPaymentExists, ErrAlreadyPaid,
	}
	sentinels = append(sentinels, probeExtraSentinels...)

	switch {
	case err == nil:
		return "ok"
	}

	for _, s := range sentinels {
		if errors.Is(err, s) {
			return s.Error()
		}
	}

	return "other-error"
}

// probeSnapshot renders the observable state of a payment.
func probeSnapshot(ctx context.Context, db DB, hash lntypes.Hash) string {
	p, err := db.FetchPayment(ctx, hash)
	if err != nil {
		return "fetch:" + probeErrClass(err)
	}

	s := fmt.Sprintf("status=%v remaining=%v inflight=%d [",
		p.Status, p.State.RemainingAmt, p.State.NumAttemptsInFlight)
	htlcs := append([]HTLCAttempt(nil), p.HTLCs...)
	sort.Slice(htlcs, func(i, j int) bool {
		return htlcs[i].AttemptID < htlcs[j].AttemptID
	})
	for _, h := range htlcs {
		res := "inflight"
		switch {
		case h.Settle != nil:
			res = "settled"
		case h.Failure != nil:
			res = "failed"
		}
		s += fmt.Sprintf(" #%d:%v:%s", h.AttemptID,
			h.Route.ReceiverAmt(), res)
	}

	return s + " ]"
}

// TestProbeC16CrossPaymentResolve (suspect S1): resolving an attempt through
// the hash of a payment that does not own it must be refused and must not
// touch the owning payment.
//
// Violated clauses on the unmodified tree: wrong payment mutated (SQL settles
// or fails B's attempt although it was asked to update A, and reports success)
// and backends disagree (KV refuses).
func TestProbeC16CrossPaymentResolve(t *testing.T) {
	for _, op := range []string{"settle", "fail"} {
		results := make(map[string]string)

		for _, be := range probeBackends(t) {
			ctx := t.Context()
			hashA, hashB := probeHash(0xa), probeHash(0xb)

			probeInit(t, be.db, hashA, 100)
			probeInit(t, be.db, hashB, 100)

			_, err := be.db.RegisterAttempt(
				ctx, hashA, probeShard(t, 1, hashA, 100, 100),
			)
			require.NoError(t, err)
			_, err = be.db.RegisterAttempt(
				ctx, hashB, probeShard(t, 2, hashB, 100, 100),
			)
			require.NoError(t, err)

			beforeB := probeSnapshot(ctx, be.db, hashB)

			// Resolve B's attempt 2 through A's hash.
			if op == "settle" {
				_, err = be.db.SettleAttempt(
					ctx, hashA, 2, &HTLCSettleInfo{
						Preimage:   lntypes.Preimage{9},
						SettleTime: time.Unix(1700000002, 0),
					},
				)
			} else {
				_, err = be.db.FailAttempt(
					ctx, hashA, 2, &HTLCFailInfo{
						Reason:   HTLCFailUnknown,
						FailTime: time.Unix(1700000002, 0),
					},
				)
			}
			afterB := probeSnapshot(ctx, be.db, hashB)

			results[be.name] = fmt.Sprintf("call=%s | B: %s",
				probeErrClass(err), afterB)

			if err == nil {
				t.Errorf("%s/%s: %sAttempt(hashA, attempt of B) "+
					"reported success", be.name, op, op)
			}
			if afterB != beforeB {
				t.Errorf("%s/%s: WRONG PAYMENT MUTATED: payment B "+
					"changed although the call named payment "+
					"A\n before: %s\n after:  %s", be.name, op,
					beforeB, afterB)
			}
		}

		if results["kv"] != results["sql"] {
			t.Errorf("%s: BACKENDS DISAGREE\n kv:  %s\n sql: %s", op,
				results["kv"], results["sql"])
		}
	}
}

// TestProbeC16RegisterUnknown (suspect S2): RegisterAttempt on an unknown or a
// deleted payment must be answered identically by both backends; the documented
// answer is ErrPaymentNotInitiated.
//
// Violated clause on the unmodified tree: backends disagree (SQL leaks
// sql.ErrNoRows).
func TestProbeC16RegisterUnknown(t *testing.T) {
	results := make(map[string]string)

	for _, be := range probeBackends(t) {
		ctx := t.Context()
		unknown, deleted := probeHash(0x1), probeHash(0x2)

		_, errUnknown := be.db.RegisterAttempt(
			ctx, unknown, probeShard(t, 1, unknown, 100, 100),
		)

		probeInit(t, be.db, deleted, 100)
		require.NoError(t, be.db.DeletePayment(ctx, deleted, false))
		_, errDeleted := be.db.RegisterAttempt(
			ctx, deleted, probeShard(t, 2, deleted, 100, 100),
		)

		results[be.name] = fmt.Sprintf("unknown=%s deleted=%s",
			probeErrClass(errUnknown), probeErrClass(errDeleted))

		for name, err := range map[string]error{
			"unknown": errUnknown, "deleted": errDeleted,
		} {
			if !errors.Is(err, ErrPaymentNotInitiated) {
				t.Errorf("%s: RegisterAttempt on %s payment: "+
					"want ErrPaymentNotInitiated, got: %v "+
					"(is sql.ErrNoRows: %v)", be.name, name,
					err, errors.Is(err, sql.ErrNoRows))
			}
		}
	}

	if results["kv"] != results["sql"] {
		t.Errorf("BACKENDS DISAGREE\n kv:  %s\n sql: %s", results["kv"],
			results["sql"])
	}
}

// TestProbeC16DuplicateAttemptID (suspect S3): registering an attempt ID a
// second time on the same payment.
//
// Violated clauses on the unmodified tree: amount exceeded (KV overwrites the
// stored attempt, forgets the first amount and so admits never-failed attempts
// of 60+40+60 = 160 on a payment of 100) and backends disagree (SQL refuses
// the duplicate).
func TestProbeC16DuplicateAttemptID(t *testing.T) {
	t.Run("overwrite in-flight attempt", func(t *testing.T) {
		results := make(map[string]string)

		for _, be := range probeBackends(t) {
			ctx := t.Context()
			hash := probeHash(0x3)
			probeInit(t, be.db, hash, 100)

			var admitted lnwire.MilliSatoshi
			trace := ""
			for _, s := range []struct {
				id  uint64
				amt lnwire.MilliSatoshi
			}{{1, 60}, {1, 40}, {2, 60}} {
				_, err := be.db.RegisterAttempt(
					ctx, hash,
					probeShard(t, s.id, hash, s.amt, 100),
				)
				if err == nil {
					admitted += s.amt
				}
				trace += fmt.Sprintf("reg(#%d,%v)=%s ", s.id,
					s.amt, probeErrClass(err))
			}

			results[be.name] = trace + "| " +
				probeSnapshot(ctx, be.db, hash)

			// No attempt was ever failed, so everything admitted is
			// settled or in flight.
			if admitted > 100 {
				t.Errorf("%s: AMOUNT EXCEEDED: admitted %v of "+
					"never-failed attempts on a payment of "+
					"100: %s", be.name, admitted,
					results[be.name])
			}
		}

		if results["kv"] != results["sql"] {
			t.Errorf("BACKENDS DISAGREE\n kv:  %s\n sql: %s",
				results["kv"], results["sql"])
		}
	})

	t.Run("reuse id of failed attempt", func(t *testing.T) {
		results := make(map[string]string)

		for _, be := range probeBackends(t) {
			ctx := t.Context()
			hash := probeHash(0x4)
			probeInit(t, be.db, hash, 100)

			_, err := be.db.RegisterAttempt(
				ctx, hash, probeShard(t, 1, hash, 60, 100),
			)
			require.NoError(t, err)
			_, err = be.db.FailAttempt(ctx, hash, 1, &HTLCFailInfo{
				Reason:   HTLCFailUnknown,
				FailTime: time.Unix(1700000002, 0),
			})
			require.NoError(t, err)

			// The same ID again: if admitted, the new attempt must
			// be accounted as in flight.
			_, err = be.db.RegisterAttempt(
				ctx, hash, probeShard(t, 1, hash, 60, 100),
			)
			snap := probeSnapshot(ctx, be.db, hash)
			results[be.name] = fmt.Sprintf("rereg=%s | %s",
				probeErrClass(err), snap)

			p, ferr := be.db.FetchPayment(ctx, hash)
			require.NoError(t, ferr)
			if err == nil && p.State.NumAttemptsInFlight != 1 {
				t.Errorf("%s: AMOUNT MIS-ACCOUNTED: attempt "+
					"admitted but not in flight: %s", be.name,
					snap)
			}
		}

		if results["kv"] != results["sql"] {
			t.Errorf("BACKENDS DISAGREE\n kv:  %s\n sql: %s",
				results["kv"], results["sql"])
		}
	})
}

// TestProbeC16CrossPaymentDuplicateID: the same attempt ID on two different
// payments. KV keeps attempts per payment bucket and admits it, SQL has a
// global UNIQUE(attempt_index) and refuses. This divergence is structural (the
// SQL schema assumes globally unique attempt IDs, which the router guarantees)
// and is NOT repaired; the test only records it and skips.
func TestProbeC16CrossPaymentDuplicateID(t *testing.T) {
	results := make(map[string]string)

	for _, be := range probeBackends(t) {
		ctx := t.Context()
		hashA, hashB := probeHash(0x5), probeHash(0x6)
		probeInit(t, be.db, hashA, 100)
		probeInit(t, be.db, hashB, 100)

		_, err := be.db.RegisterAttempt(
			ctx, hashA, probeShard(t, 7, hashA, 100, 100),
		)
		require.NoError(t, err)
		_, err = be.db.RegisterAttempt(
			ctx, hashB, probeShard(t, 7, hashB, 100, 100),
		)
		results[be.name] = fmt.Sprintf("reg(B,#7)=%s | B: %s",
			probeErrClass(err), probeSnapshot(ctx, be.db, hashB))
	}

	if results["kv"] != results["sql"] {
		t.Skipf("KNOWN, UNREPAIRED: BACKENDS DISAGREE\n kv:  %s\n "+
			"sql: %s", results["kv"], results["sql"])
	}
}

// TestProbeC16ResolveResolved: resolving an attempt that is already resolved
// while the payment is still updatable.
func TestProbeC16ResolveResolved(t *testing.T) {
	settle := &HTLCSettleInfo{
		Preimage:   lntypes.Preimage{9},
		SettleTime: time.Unix(1700000002, 0),
	}
	fail := &HTLCFailInfo{
		Reason:   HTLCFailUnknown,
		FailTime: time.Unix(1700000002, 0),
	}

	results := make(map[string]string)
	for _, be := range probeBackends(t) {
		ctx := t.Context()
		hash := probeHash(0x7)
		probeInit(t, be.db, hash, 100)

		for i, amt := range []lnwire.MilliSatoshi{30, 30, 40} {
			_, err := be.db.RegisterAttempt(
				ctx, hash,
				probeShard(t, uint64(i+1), hash, amt, 100),
			)
			require.NoError(t, err)
		}

		// #1 failed, #2 settled, #3 stays in flight so that the
		// payment remains updatable.
		_, err := be.db.FailAttempt(ctx, hash, 1, fail)
		require.NoError(t, err)
		_, err = be.db.SettleAttempt(ctx, hash, 2, settle)
		require.NoError(t, err)

		_, e1 := be.db.FailAttempt(ctx, hash, 1, fail)
		_, e2 := be.db.SettleAttempt(ctx, hash, 1, settle)
		_, e3 := be.db.SettleAttempt(ctx, hash, 2, settle)
		_, e4 := be.db.FailAttempt(ctx, hash, 2, fail)
		_, e5 := be.db.SettleAttempt(ctx, hash, 99, settle)

		results[be.name] = fmt.Sprintf("fail(failed)=%s "+
			"settle(failed)=%s settle(settled)=%s fail(settled)=%s "+
			"settle(unregistered)=%s | %s", probeErrClass(e1),
			probeErrClass(e2), probeErrClass(e3), probeErrClass(e4),
			probeErrClass(e5), probeSnapshot(ctx, be.db, hash))

		assert.ErrorIs(t, e1, ErrAttemptAlreadyFailed, be.name)
		assert.ErrorIs(t, e2, ErrAttemptAlreadyFailed, be.name)
		assert.ErrorIs(t, e3, ErrAttemptAlreadySettled, be.name)
		assert.ErrorIs(t, e4, ErrAttemptAlreadySettled, be.name)
		assert.Error(t, e5, be.name)
	}

	if results["kv"] != results["sql"] {
		t.Errorf("BACKENDS DISAGREE\n kv:  %s\n sql: %s", results["kv"],
			results["sql"])
	}
}

// TestProbeC16UnknownPaymentOps: every other operation on an unknown payment
// hash.
func TestProbeC16UnknownPaymentOps(t *testing.T) {
	results := make(map[string]string)

	for _, be := range probeBackends(t) {
		ctx := t.Context()
		hash := probeHash(0x8)

		// Make sure the store is not empty.
		probeInit(t, be.db, probeHash(0x9), 100)

		_, e1 := be.db.SettleAttempt(ctx, hash, 1, &HTLCSettleInfo{
			SettleTime: time.Unix(1700000002, 0),
		})
		_, e2 := be.db.FailAttempt(ctx, hash, 1, &HTLCFailInfo{
			FailTime: time.Unix(1700000002, 0),
		})
		_, e3 := be.db.Fail(ctx, hash, FailureReasonNoRoute)
		e4 := be.db.DeletePayment(ctx, hash, false)
		e5 := be.db.DeletePayment(ctx, hash, true)
		e6 := be.db.DeleteFailedAttempts(ctx, hash)
		_, e7 := be.db.FetchPayment(ctx, hash)

		results[be.name] = fmt.Sprintf("settle=%s failAttempt=%s "+
			"fail=%s delete=%s deleteFailedHtlcs=%s "+
			"deleteFailedAttempts=%s fetch=%s", probeErrClass(e1),
			probeErrClass(e2), probeErrClass(e3), probeErrClass(e4),
			probeErrClass(e5), probeErrClass(e6), probeErrClass(e7))
	}

	if results["kv"] != results["sql"] {
		t.Errorf("BACKENDS DISAGREE\n kv:  %s\n sql: %s", results["kv"],
			results["sql"])
	}
}
