#!/bin/bash
# dev helper: run lndlint with the right toolchain
. /verif/env.sh
exec /verif/bin/lndlint "$@"
