package htlcswitch

import (
	"errors"
	"testing"

	"github.com/lightningnetwork/lnd/lnwire"
	"github.com/stretchr/testify/require"
)

// probeFailingDeleteMap is a circuit map whose DeleteCircuits fails.
type probeFailingDeleteMap struct {
	mockCircuitMap
	err error
}

func (m *probeFailingDeleteMap) DeleteCircuits(...CircuitKey) error {
	return m.err
}

// TestProbeTeardownNilCircuitDeleteError: teardownCircuit explicitly tolerates
// a packet without a circuit, so a failing DeleteCircuits must surface as the
// returned error, not as a nil dereference in the warning.
func TestProbeTeardownNilCircuitDeleteError(t *testing.T) {
	t.Parallel()

	errDel := errors.New("db down")
	s := &Switch{circuits: &probeFailingDeleteMap{err: errDel}}

	pkt := &htlcPacket{
		incomingChanID: lnwire.NewShortChanIDFromInt(1),
		incomingHTLCID: 1,
		htlc:           &lnwire.UpdateFailHTLC{},
	}

	var err error
	require.NotPanics(t, func() {
		err = s.teardownCircuit(pkt)
	})
	require.ErrorIs(t, err, errDel)
}
