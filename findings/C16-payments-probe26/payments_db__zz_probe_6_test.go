package paymentsdb

import (
	"testing"

	"github.com/lightningnetwork/lnd/kvdb"
	"github.com/lightningnetwork/lnd/lntypes"
	"github.com/stretchr/testify/require"
)

// Suspicion 6: deleting a payment that does not exist answers
// ErrPaymentNotInitiated, also when not even the payments root bucket exists
// (store opened without creating the top level buckets).
func TestZZProbe6DeleteUnknownPaymentNoRootBucket(t *testing.T) {
	ctx := t.Context()

	// Reference: both regular stores.
	for name, db := range zzSeedStores(t) {
		err := db.DeletePayment(ctx, lntypes.Hash{1}, false)
		require.ErrorIs(t, err, ErrPaymentNotInitiated, name)
	}

	backend, cleanup, err := kvdb.GetTestBackend(t.TempDir(), "zzp6")
	require.NoError(t, err)
	t.Cleanup(cleanup)

	db, err := NewKVStore(backend, WithNoMigration(true))
	require.NoError(t, err)

	_, err = db.FetchPayment(ctx, lntypes.Hash{1})
	require.ErrorIs(t, err, ErrPaymentNotInitiated)

	err = db.DeletePayment(ctx, lntypes.Hash{1}, false)
	require.ErrorIs(t, err, ErrPaymentNotInitiated)

	err = db.DeletePayment(ctx, lntypes.Hash{1}, true)
	require.ErrorIs(t, err, ErrPaymentNotInitiated)
}
