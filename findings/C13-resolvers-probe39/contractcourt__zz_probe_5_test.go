package contractcourt

import (
	"io"
	"testing"
	"time"

	"github.com/btcsuite/btcd/chainhash/v2"
	"github.com/btcsuite/btcd/wire/v2"
	"github.com/lightningnetwork/lnd/channeldb"
	"github.com/lightningnetwork/lnd/chanstate"
	"github.com/lightningnetwork/lnd/fn/v2"
	"github.com/lightningnetwork/lnd/lnwallet"
	"github.com/stretchr/testify/require"
)

// probeResolver stands in for a non-HTLC resolver of the channel (commitment
// sweep, breach, ...).
type probeResolver struct {
	launched chan struct{}
	quit     chan struct{}
}

func (p *probeResolver) ResolverKey() []byte { return []byte("probe") }
func (p *probeResolver) Launch() error {
	close(p.launched)
	return nil
}
func (p *probeResolver) Resolve() (ContractResolver, error) {
	<-p.quit
	return nil, errResolverShuttingDown
}
func (p *probeResolver) SupplementState(*chanstate.OpenChannel) {}
func (p *probeResolver) IsResolved() bool                       { return false }
func (p *probeResolver) Encode(io.Writer) error                 { return nil }
func (p *probeResolver) Stop()                                  { close(p.quit) }

// TestProbeRelaunchOneHtlcMissing restarts a channel arbitrator in
// StateWaitingFullResolution whose log holds the commitment's resolver and one
// HTLC resolver for which the confirmed commit set has no HTLC. The error of
// relaunchResolvers is only logged by the channel attendant, so the arbitrator
// lives on without a single resolver running. The other contracts of the
// channel must still be relaunched, as it is when the resolvers are first
// created: there, an HTLC without resolution is logged and skipped.
func TestProbeRelaunchOneHtlcMissing(t *testing.T) {
	commitHash := chainhash.Hash{1}

	other := &probeResolver{
		launched: make(chan struct{}),
		quit:     make(chan struct{}),
	}

	log := &mockArbitratorLog{
		state:     StateWaitingFullResolution,
		newStates: make(chan ArbitratorState, 5),
		resolutions: &ContractResolutions{
			CommitHash: commitHash,
		},
		resolvers: make(map[ContractResolver]struct{}),
		commitSet: &CommitSet{
			ConfCommitKey: fn.Some(LocalHtlcSet),
			HtlcSets:      make(map[HtlcSetKey][]channeldb.HTLC),
		},
	}

	chanArbCtx, err := createTestChannelArbitrator(t, log)
	require.NoError(t, err)

	// The HTLC resolver's outpoint isn't part of the (empty) commit set.
	htlcRes := newTimeoutResolver(
		lnwallet.OutgoingHtlcResolution{
			ClaimOutpoint: wire.OutPoint{Hash: commitHash, Index: 7},
			SweepSignDesc: testSignDesc,
		}, 100, channeldb.HTLC{}, 0,
		ResolverConfig{ChannelArbitratorConfig: chanArbCtx.chanArb.cfg},
	)

	log.resolvers[other] = struct{}{}
	log.resolvers[htlcRes] = struct{}{}

	err = chanArbCtx.chanArb.Start(nil, newBeatFromHeight(0))
	require.NoError(t, err)
	t.Cleanup(func() {
		require.NoError(t, chanArbCtx.chanArb.Stop())
	})

	select {
	case <-other.launched:
	case <-time.After(defaultTimeout):
		t.Fatal("the channel's other resolver wasn't relaunched")
	}
}
