package spec

import (
	"go/ast"
	"go/constant"
	"go/token"
	"go/types"
	"strings"

	"lndlint/internal/an"
)

func init() {
	specExtras["C06"] = append(specExtras["C06"], c06StoreIntake)
}

// c06StoreIntake: three conditions on what reaches the revocation store and
// how it is indexed (repairs e0a347c, b337b37, 82950e8 in /repo).
func c06StoreIntake(r *an.Run) {
	p := r.Prog
	r.Obl("secret-reaches-the-store-only-after-it-revoked-the-current-commitment", "GUARD",
		"a revealed secret reaches RevocationStore.AddNextEntry only on a route that compared it first: every non-test AddNextEntry call on a channel's store is either in LightningChannel.ReceiveRevocation, or in OpenChannel.AdvanceCommitChainTailWithRevocation where it receives the method's secret parameter; every call of that method, and every AddNextEntry call of ReceiveRevocation itself, lies in ReceiveRevocation where the commitment point computed from the revealed secret (input.ComputeCommitmentPoint of the message's Revocation) was compared equal to channelState.RemoteCurrentRevocation, and passes the hash of that same Revocation field; the store's bucket array has one bucket for every value countTrailingZeros can return (maxHeight+1, the counting loop stops at maxHeight); NewRevocationStoreFromBytes indexes the array only after the serialised bucket count was compared against the array length",
		"the store checks a new secret only against the buckets below its own, which for every other height is none: a secret that does not revoke the current commitment would be stored, the index advanced, and the genuine secret refused afterwards; the secret of index 0 has maxHeight trailing zeros and needs the last bucket; an unchecked count indexes outside the array", 5,
		func(o *an.Obl) {
			f := p.Func("lnwallet.LightningChannel.ReceiveRevocation")
			derived := canonTerm(`input\.ComputeCommitmentPoint\(\$p0\.Revocation(\[:\])?\)$`)
			current := an.FieldPath(an.FieldPath(an.Recv(), "channelState"), "RemoteCurrentRevocation")
			fact := an.Truth(an.CallNamed("IsEqual", derived, current), true,
				"ComputeCommitmentPoint(revMsg.Revocation).IsEqual(channelState.RemoteCurrentRevocation)")
			const secretRe = `(^|/)chainhash(/v2)?\.NewHash\(\$p0\.Revocation(\[:\])?\)`
			const method = "chanstate.OpenChannel.AdvanceCommitChainTailWithRevocation"
			// the routes into the store
			routes := 0
			w := r.Wide()
			for _, fn := range w.Funcs(false) {
				if pk := an.Short(fn.Pkg.PkgPath); pk == "shachain" || strings.HasPrefix(pk, "migration") {
					continue // the store's own package; frozen migration copies
				}
				for _, s := range fn.Calls(an.CalleeNamed("AddNextEntry"), false) {
					routes++
					a := fn.ArgCanon(s)
					o.Site("AddNextEntry(%v) in %s", a, fn.ID)
					switch fn.Root().ID {
					case f.ID:
						// checked below with the prog's own copy of the function
					case method:
						if len(a) != 1 || a[0] != "$p0" || fn.Lit != nil {
							o.FailAt(method+"#stored-secret", s.Where(), "AdvanceCommitChainTailWithRevocation stores %v, expected its secret parameter ($p0), outside any closure", a)
						}
						c04OperandsNotOverwritten(o, fn, s.Node.(*ast.CallExpr).Args[0], "stored secret")
					default:
						o.FailAt("AddNextEntry<-"+fn.Root().ID, s.Where(), "%s puts a secret into a revocation store; only ReceiveRevocation (directly or through AdvanceCommitChainTailWithRevocation) compares it with the current commitment point first", fn.Root().ID)
					}
				}
				for _, s := range fn.Calls(an.CalleeIs(method), false) {
					if fn.Root().ID != f.ID {
						o.FailAt(method+"<-"+fn.Root().ID, s.Where(), "%s calls AdvanceCommitChainTailWithRevocation, which stores the secret it is given unchecked; only ReceiveRevocation compares it with the current commitment point first", fn.Root().ID)
					}
				}
			}
			if routes == 0 {
				o.FailAt("AddNextEntry#routes", "", "no non-test AddNextEntry call found: the anchor moved")
			}
			adds := append(f.Calls(an.CalleeNamed("AddNextEntry"), true), f.Calls(an.CalleeIs(method), true)...)
			if need(o, f, "AddNextEntry / AdvanceCommitChainTailWithRevocation call", adds, 1) {
				for _, s := range adds {
					guarded(o, f, s, fact)
					if a := f.ArgCanon(s); len(a) < 1 || !reMatch(secretRe+`$`, a[0]) {
						o.FailAt(f.ID+"#stored-secret", s.Where(), "the value handed to the store is %v, expected the hash of the message's Revocation field (the one the commitment point was computed from)", a)
					}
					c04OperandsNotOverwritten(o, f, s.Node.(*ast.CallExpr).Args[0], "stored secret")
				}
			}

			// bucket array length against the counting bound
			mh, _ := p.LookupObj("shachain", "maxHeight").(*types.Const)
			st := p.LookupType("shachain", "RevocationStore").Underlying().(*types.Struct)
			var arr *types.Array
			for i := 0; i < st.NumFields(); i++ {
				if st.Field(i).Name() == "buckets" {
					arr, _ = st.Field(i).Type().Underlying().(*types.Array)
				}
			}
			if mh == nil || arr == nil {
				o.FailAt("shachain.RevocationStore.buckets#anchor", "", "cannot resolve shachain.maxHeight or the bucket array")
			} else {
				h, _ := constant.Int64Val(mh.Val())
				o.Site("shachain: maxHeight=%d, len(buckets)=%d", h, arr.Len())
				if arr.Len() < h+1 {
					o.FailAt("shachain.RevocationStore.buckets#one-per-trailing-zero-count", "", "the bucket array has %d elements, countTrailingZeros returns values up to maxHeight=%d: the secret of index 0 has no bucket", arr.Len(), h)
				}
			}
			ctz := p.Func("shachain.countTrailingZeros")
			nLoops := 0
			ast.Inspect(ctz.Body, func(n ast.Node) bool {
				if fs, ok := n.(*ast.ForStmt); ok {
					nLoops++
					c := ""
					if fs.Cond != nil {
						c = ctz.Canon(fs.Cond)
					}
					o.Site("countTrailingZeros loop condition %s", c)
					// the bound is one of the conjuncts of the loop condition
					// (a further conjunct — the bit test moved from a
					// `break` into the condition — only stops earlier)
					bounded := an.Text(fs.Cond) == "zeros < maxHeight"
					var conj func(e ast.Expr)
					conj = func(e ast.Expr) {
						e = ast.Unparen(e)
						if b, ok := e.(*ast.BinaryExpr); ok && b.Op == token.LAND {
							conj(b.X)
							conj(b.Y)
							return
						}
						if reMatch(`^\$v:uint8 < shachain\.maxHeight$|^shachain\.maxHeight > \$v:uint8$|^zeros < maxHeight$|^maxHeight > zeros$`, ctz.Canon(e)) || an.Text(e) == "zeros < maxHeight" {
							bounded = true
						}
					}
					if fs.Cond != nil {
						conj(fs.Cond)
					}
					if !bounded {
						o.FailAt(ctz.ID+"#bound", ctz.Where(fs.Pos()), "countTrailingZeros counts while %s, expected zeros < maxHeight (the bound the bucket array is sized for)", an.Text(fs.Cond))
					}
				}
				return true
			})
			if nLoops != 1 {
				o.FailAt(ctz.ID+"#loops", ctz.Where(ctz.Body.Pos()), "expected one counting loop in countTrailingZeros, found %d", nLoops)
			}

			// decode: the serialised count is bounded before it indexes
			d := p.Func("shachain.NewRevocationStoreFromBytes")
			store := an.LocalNamed("store")
			ws := d.Assigns(an.Index(an.FieldPath(store, "buckets"), an.Any()), false)
			if need(o, d, "store.buckets[i] = …", ws, 1) {
				guardedAll(o, d, ws, an.Cmp(an.FieldPath(store, "lenBuckets"), an.LE, an.Len(an.FieldPath(store, "buckets")), "store.lenBuckets <= len(store.buckets)"))
			}
		})
}
