package sweep

import (
	"testing"

	"github.com/btcsuite/btcd/btcutil/v2"
	"github.com/lightningnetwork/lnd/fn/v2"
	"github.com/lightningnetwork/lnd/input"
	"github.com/lightningnetwork/lnd/lnwallet"
	"github.com/lightningnetwork/lnd/lnwallet/chainfee"
	"github.com/stretchr/testify/require"
)

// Probe 6: updating the params of a Published input (lncli wallet bumpfee)
// resets it to Init, so the next block a second BumpRequest is broadcast for
// the same outpoint, while the monitor record of the first request stays in
// TxPublisher.records and keeps RBF-ing the outpoint with the old budget and
// deadline.
func TestProbeBumpFeeLeavesOldRecordRunning(t *testing.T) {
	t.Parallel()

	const deadline = int32(1000)

	tp, _ := createTestPublisher(t)
	tp.currentHeight.Store(900)

	s := New(&UtxoSweeperConfig{
		Publisher: tp,
		GenSweepScript: func() fn.Result[lnwallet.AddrWithKey] {
			return fn.Ok(changePkScript)
		},
		MaxFeeRate: chainfee.SatPerVByte(1000),
	})
	s.currentHeight = 900
	t.Cleanup(func() {
		close(s.quit)
		s.wg.Wait()
	})

	inp := createTestInput(1_000_000, input.WitnessKeyHash)
	op := inp.OutPoint()
	pi := &SweeperInput{
		Input:          &inp,
		state:          Init,
		DeadlineHeight: deadline,
		params: Params{
			Budget:         btcutil.Amount(500_000),
			DeadlineHeight: fn.Some(deadline),
		},
	}
	s.inputs[op] = pi

	sweepOnce := func() {
		set, err := NewBudgetInputSet(
			[]SweeperInput{*pi}, deadline, fn.None[AuxSweeper](),
		)
		require.NoError(t, err)
		require.NoError(t, s.sweep(set))
	}

	// First sweep, the tx gets published.
	sweepOnce()
	pi.state = Published

	// The user lowers the budget.
	_, err := s.handleUpdateReq(&updateReq{
		input: op,
		params: Params{
			Budget:         btcutil.Amount(1_000),
			DeadlineHeight: fn.Some(deadline),
		},
	})
	require.NoError(t, err)

	// The input is offered again in the next block.
	require.Contains(t, s.updateSweeperInputs(), op)
	sweepOnce()

	// Only one record may be working on this outpoint, with the budget
	// the user asked for.
	var budgets []btcutil.Amount
	tp.records.Range(func(_ uint64, r *monitorRecord) bool {
		for _, in := range r.req.Inputs {
			if in.OutPoint() == op {
				budgets = append(budgets, r.req.Budget)
			}
		}

		return true
	})
	require.Equal(t, []btcutil.Amount{1_000}, budgets, "records working "+
		"on the outpoint")
}
