package lnwallet

import (
	"testing"

	"github.com/btcsuite/btcd/txscript/v2"
	"github.com/lightningnetwork/lnd/channeldb"
	"github.com/lightningnetwork/lnd/fn/v2"
	"github.com/lightningnetwork/lnd/input"
	"github.com/lightningnetwork/lnd/lntypes"
	"github.com/lightningnetwork/lnd/lnwire"
	"github.com/lightningnetwork/lnd/tlv"
	"github.com/stretchr/testify/mock"
	"github.com/stretchr/testify/require"
)

// probeLeafStore is an aux leaf store that attaches the same second-level aux
// leaf to HTLC 0, whoever asks.
type probeLeafStore struct {
	leaf txscript.TapLeaf
}

func (p *probeLeafStore) result() fn.Result[CommitDiffAuxResult] {
	htlcLeaves := func() input.HtlcAuxLeaves {
		return input.HtlcAuxLeaves{
			0: input.HtlcAuxLeaf{
				AuxTapLeaf:      input.NoneTapLeaf(),
				SecondLevelLeaf: fn.Some(p.leaf),
			},
		}
	}

	return fn.Ok(CommitDiffAuxResult{
		AuxLeaves: fn.Some(CommitAuxLeaves{
			OutgoingHtlcLeaves: htlcLeaves(),
			IncomingHtlcLeaves: htlcLeaves(),
		}),
	})
}

func (p *probeLeafStore) FetchLeavesFromView(
	_ CommitDiffAuxInput) fn.Result[CommitDiffAuxResult] {

	return p.result()
}

func (p *probeLeafStore) FetchLeavesFromCommit(_ AuxChanState,
	_ channeldb.ChannelCommitment, _ CommitmentKeyRing,
	_ lntypes.ChannelParty) fn.Result[CommitDiffAuxResult] {

	return p.result()
}

func (p *probeLeafStore) FetchLeavesFromRevocation(
	_ *channeldb.RevocationLog) fn.Result[CommitDiffAuxResult] {

	return p.result()
}

func (p *probeLeafStore) ApplyHtlcView(
	_ CommitDiffAuxInput) fn.Result[fn.Option[tlv.Blob]] {

	return fn.Ok(fn.Some(tlv.Blob{1, 2, 3}))
}

// TestProbeAuxVerifyJobLeaf: for a custom channel the aux signer of the
// signing side is handed the second-level aux leaf of every HTLC
// (NewAuxSigJob(..., auxLeaf, ...)). The verifying side builds the very same
// second-level transaction and must hand the same leaf to the aux verifier
// (NewAuxVerifyJob(..., auxLeaf)).
func TestProbeAuxVerifyJobLeaf(t *testing.T) {
	chanType := channeldb.SingleFunderTweaklessBit |
		channeldb.AnchorOutputsBit | channeldb.SimpleTaprootFeatureBit |
		channeldb.TapscriptRootBit

	aliceChannel, bobChannel, err := CreateTestChannels(t, chanType)
	require.NoError(t, err)

	store := &probeLeafStore{
		leaf: txscript.NewBaseTapLeaf([]byte{txscript.OP_TRUE}),
	}
	for _, c := range []*LightningChannel{aliceChannel, bobChannel} {
		c.leafStore = fn.Some[AuxLeafStore](store)

		// A custom channel always has a blob on its commitments.
		blob := fn.Some(tlv.Blob{1, 2, 3})
		c.commitChains.Local.tip().customBlob = blob
		c.commitChains.Remote.tip().customBlob = blob
	}

	// Alice's aux signer records the leaf of every sign job.
	var signLeaves []input.AuxTapLeaf
	aliceAux := NewAuxSignerMock(func(jobs []AuxSigJob) {
		for _, job := range jobs {
			signLeaves = append(signLeaves, job.HtlcLeaf)
			job.Resp <- AuxSigJobResp{HtlcIndex: job.HTLC.HtlcIndex}
		}
	})
	aliceAux.On(
		"SubmitSecondLevelSigBatch", mock.Anything, mock.Anything,
		mock.Anything,
	).Return(nil)
	sigBlob, err := lnwire.CustomRecords{
		lnwire.MinCustomRecordsTlvType: []byte{9},
	}.Serialize()
	require.NoError(t, err)
	aliceAux.On("PackSigs", mock.Anything).Return(
		fn.Ok(fn.Some[tlv.Blob](sigBlob)),
	)
	aliceChannel.auxSigner = fn.Some[AuxSigner](aliceAux)

	// Bob's aux signer records the leaf of every verify job.
	var verifyLeaves []input.AuxTapLeaf
	bobAux := NewAuxSignerMock(EmptyMockJobHandler)
	bobAux.On("UnpackSigs", mock.Anything).Return(
		fn.Ok([]fn.Option[tlv.Blob]{fn.Some(tlv.Blob{9})}),
	)
	bobAux.On(
		"VerifySecondLevelSigs", mock.Anything, mock.Anything,
		mock.Anything,
	).Run(func(args mock.Arguments) {
		jobs, ok := args.Get(2).([]AuxVerifyJob)
		require.True(t, ok)
		for _, job := range jobs {
			verifyLeaves = append(verifyLeaves, job.HtlcLeaf)
		}
	}).Return(nil)
	bobChannel.auxSigner = fn.Some[AuxSigner](bobAux)

	htlc, _ := createHTLC(0, lnwire.NewMSatFromSatoshis(50_000))
	addAndReceiveHTLC(t, aliceChannel, bobChannel, htlc, nil)

	sigs, err := aliceChannel.SignNextCommitment(ctxb)
	require.NoError(t, err)
	require.Len(t, sigs.HtlcSigs, 1)

	err = bobChannel.ReceiveNewCommitment(sigs.CommitSigs)
	require.NoError(t, err)

	require.Equal(
		t, []input.AuxTapLeaf{fn.Some(store.leaf)}, signLeaves,
		"leaf handed to the aux signer",
	)
	require.Equal(
		t, []input.AuxTapLeaf{fn.Some(store.leaf)}, verifyLeaves,
		"leaf handed to the aux verifier",
	)
}
