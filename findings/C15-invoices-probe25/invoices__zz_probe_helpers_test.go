package invoices_test

// Shared helpers of the C15 probes (zz_probe_*_test.go): every probe runs on
// the KV store and on the SQLite store.

import (
	"database/sql"
	"testing"

	"github.com/lightningnetwork/lnd/channeldb"
	"github.com/lightningnetwork/lnd/clock"
	invpkg "github.com/lightningnetwork/lnd/invoices"
	"github.com/lightningnetwork/lnd/sqldb"
	"github.com/stretchr/testify/require"
)

func probeKV(t *testing.T) (invpkg.InvoiceDB, *clock.TestClock) {
	testClock := clock.NewTestClock(testTime)
	db, err := channeldb.MakeTestInvoiceDB(
		t, channeldb.OptionClock(testClock),
	)
	require.NoError(t, err)

	return db, testClock
}

func probeSQLite(t *testing.T) (invpkg.InvoiceDB, *clock.TestClock) {
	db := sqldb.NewTestSqliteDB(t).BaseDB
	executor := sqldb.NewTransactionExecutor(
		db, func(tx *sql.Tx) invpkg.SQLInvoiceQueries {
			return db.WithTx(tx)
		},
	)
	testClock := clock.NewTestClock(testTime)

	return invpkg.NewSQLStore(executor, testClock), testClock
}

type probeMakeDB = func(t *testing.T) (invpkg.InvoiceDB, *clock.TestClock)

func runProbe(t *testing.T, f func(t *testing.T, makeDB probeMakeDB)) {
	t.Run("KV", func(t *testing.T) { f(t, probeKV) })
	t.Run("SQLite", func(t *testing.T) { f(t, probeSQLite) })
}
