#!/bin/bash
# Rebuilds the checker, runs all twenty quick checks against /repo (writes evidence/), regenerates MANIFEST.json, OBLIGATIONS.md and
# the generated blocks of DESIGN.md, and validates MANIFEST.json and the evidence files against their schemas.
cd /verif || exit 2
. ./env.sh
./setup.sh >/dev/null || { echo "build failed"; exit 2; }
rc=0
for p in $(seq -w 1 20); do ./check C$p quick 2>&1 | grep -E "^(OK|FAIL|VIOLATION)" | cut -c1-200 || rc=1; done
./bin/lndlint manifest >/dev/null
python3 tools/scripts/gen_obligations.py >/dev/null
python3 tools/scripts/gen_design_tables.py
python3 tools/scripts/gen_round3_table.py
python3-vt - <<'PY'
import json,jsonschema,glob
m=json.load(open('/verif/MANIFEST.json')); jsonschema.validate(m,json.load(open('/root/.vp/MANIFEST.schema.json'))); print('MANIFEST valid,',len(m['checks']),'checks')
s=json.load(open('/root/.vp/EVIDENCE.schema.json'))
for f in sorted(glob.glob('/verif/evidence/C??.json')): jsonschema.validate(json.load(open(f)),s)
print('evidence valid')
PY
