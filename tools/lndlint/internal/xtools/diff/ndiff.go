// Copyright 2022 The Go Authors. All rights reserved.
// Use of this source code is governed by a BSD-style
// license that can be found in the LICENSE file.

package diff

import (
	"bytes"
	"unicode/utf8"

	"lndlint/internal/xtools/diff/lcs"
)

// Strings computes the differences between two strings.
// The resulting edits respect rune boundaries.
func Strings(before, after string) []Edit {
	if before == after {
		return nil // common case
	}

	if isASCII(before) && isASCII(after) {
		// TODO(adonovan): opt: specialize diffASCII for strings.
		return diffASCII([]byte(before), []byte(after))
	}
	return diffRunes([]rune(before), []rune(after))
}

// Bytes computes the differences between two byte slices.
// The resulting edits respect rune boundaries.
func Bytes(before, after []byte) []Edit {
	if bytes.Equal(before, after) {
		return nil // common case
	}

	if isASCII(before) && isASCII(after) {
		return diffASCII(before, after)
	}
	return diffRunes(runes(before), runes(after))
}

func diffASCII(before, after []byte) []Edit {
	diffs := lcs.DiffBytes(before, after)

	// Convert from LCS diffs.
	res := make([]Edit, len(diffs))
	for i, d := range diffs {
		res[i] = Edit{d.Start, d.End, string(after[d.ReplStart:d.ReplEnd])}
	}
	return res
}

func diffRunes(before, after []rune) []Edit {
	diffs := lcs.DiffRunes(before, after)

	// The diffs returned by the lcs package use indexes
	// into whatever slice was passed in.
	// Convert rune offsets to byte offsets.
	res := make([]Edit, len(diffs))
	lastEnd := 0
	utf8Len := 0
	for i, d := range diffs {
		utf8Len += runesLen(before[lastEnd:d.Start]) // text between edits
		start := utf8Len
		utf8Len += runesLen(before[d.Start:d.End]) // text deleted by this edit
		res[i] = Edit{start, utf8Len, string(after[d.ReplStart:d.ReplEnd])}
		lastEnd = d.End
	}
	return res
}

// runes is like []rune(string(bytes)) without the duplicate allocation.
func runes(bytes []byte) []rune {
	n := utf8.RuneCount(bytes)
	runes := make([]rune, n)
	for i := 0; i < n; i++ {
		r, sz := utf8.DecodeRune(bytes)
		bytes = bytes[sz:]
		runes[i] = r
	}
	return runes
}

// runesLen returns the length in bytes of the UTF-8 encoding of runes.
func runesLen(runes []rune) (len int) {
	for _, r := range runes {
		len += utf8.RuneLen(r)
	}
	return len
}

// isASCII reports whether s contains only ASCII.
func isASCII[S string | []byte](s S) bool {
	for i := 0; i < len(s); i++ {
		if s[i] >= utf8.RuneSelf {
			return false
		}
	}
	return true
}
