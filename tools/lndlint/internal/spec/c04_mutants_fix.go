package spec

// Witnesses restoring the shape a repair in /repo removed.
func init() {
	registry["C04"].Mutants = append(registry["C04"].Mutants, []Mutant{
		{Name: "fixrev-legacy-retributions-presized", File: "lnwallet/channel.go",
			Old:    "\thtlcRetributions := make([]HtlcRetribution, 0, len(revokedLog.Htlcs))",
			New:    "\thtlcRetributions := make([]HtlcRetribution, len(revokedLog.Htlcs))",
			Expect: "every-htlc-retribution-describes-an-output"},
		{Name: "revlog-retributions-skip-an-entry", File: "lnwallet/channel.go",
			Old:    "\tfor i, htlc := range revokedLog.HTLCEntries {\n",
			New:    "\tfor i, htlc := range revokedLog.HTLCEntries {\n\t\tif htlc.Amt.Val.Int() == 0 {\n\t\t\tcontinue\n\t\t}\n",
			Expect: "every-htlc-retribution-describes-an-output"},
		{Name: "fixrev-remote-sign-desc-dereferenced-unchecked", File: "contractcourt/breach_arbitrator.go",
			Old:    "\t\tif breachInfo.RemoteOutputSignDesc != nil {\n\t\t\treturn txscript.IsPayToTaproot(\n\t\t\t\tbreachInfo.RemoteOutputSignDesc.Output.PkScript,\n\t\t\t)\n\t\t}\n\n",
			New:    "\t\tif breachInfo.ChanType.IsTaproot() {\n\t\t\treturn txscript.IsPayToTaproot(\n\t\t\t\tbreachInfo.RemoteOutputSignDesc.Output.PkScript,\n\t\t\t)\n\t\t}\n\n",
			Expect: "every-htlc-retribution-describes-an-output"},
	}...)
}
