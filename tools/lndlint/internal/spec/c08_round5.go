package spec

import (
	"go/ast"
	"go/types"
	"strings"

	"lndlint/internal/an"
)

func init() { specExtras["C08"] = append(specExtras["C08"], c08r5Rules) }

// c08r5ObjOf resolves an identifier expression to its object (nil for `_`
// and for anything that is not a plain identifier).
func c08r5ObjOf(info *types.Info, e ast.Expr) types.Object {
	id, ok := ast.Unparen(e).(*ast.Ident)
	if !ok || id.Name == "_" {
		return nil
	}
	if d := info.Defs[id]; d != nil {
		return d
	}
	return info.Uses[id]
}

// c08r5ValuesOf lists the canonical forms of everything assigned to obj in
// f (closures included); a declaration without value contributes nothing, a
// multi-value assignment contributes "<call>#i".
func c08r5ValuesOf(f *an.Func, obj types.Object) []string {
	info := f.Info()
	var out []string
	ast.Inspect(f.Root().Body, func(n ast.Node) bool {
		switch x := n.(type) {
		case *ast.AssignStmt:
			for i, l := range x.Lhs {
				if c08r5ObjOf(info, l) != obj {
					continue
				}
				switch {
				case len(x.Lhs) == len(x.Rhs):
					out = append(out, f.Canon(x.Rhs[i]))
				default:
					out = append(out, f.Canon(x.Rhs[0])+"#"+itoa(i))
				}
			}
		case *ast.ValueSpec:
			for i, nm := range x.Names {
				if info.Defs[nm] == obj && i < len(x.Values) {
					out = append(out, f.Canon(x.Values[i]))
				}
			}
		}
		return true
	})
	return out
}

func c08r5Rules(r *an.Run) {
	p := r.Prog

	r.Obl("resync-circuit-sets-keep-their-roles", "ROLE",
		"the opened and closed circuit keys of a retransmitted commitment keep their roles from the stored CommitDiff to the link: in LightningChannel.ProcessChanSyncMsg every return that does not fail hands out, as result 1, nil or a variable that is only ever assigned <diff>.OpenedCircuitKeys and, as result 2, nil or a variable only ever assigned <diff>.ClosedCircuitKeys of the same diff; channelLink.syncChanStates stores result 1 of that call in $recv.openedCircuits and result 2 in $recv.closedCircuits and nowhere else; channelLink.ackDownStreamPackets deletes exactly the circuits of $recv.closedCircuits",
		"ackDownStreamPackets deletes the circuits of closedCircuits and only acks the mailbox packets of openedCircuits: with the roles exchanged the circuits of the Adds that were just re-sent are deleted, the later settle of such an HTLC finds no circuit and is dropped as a duplicate — the forwarder has paid downstream and never claims the incoming HTLC", 6,
		func(o *an.Obl) {
			want := map[int]string{1: "OpenedCircuitKeys", 2: "ClosedCircuitKeys"}
			// producer
			f := p.Func(lw + "LightningChannel.ProcessChanSyncMsg")
			bases := map[string]bool{}
			nRet := 0
			for _, ret := range f.Returns() {
				rs, isRet := ret.Node.(*ast.ReturnStmt)
				if !isRet || f.ClassifyReturn(ret) == an.RetFailure {
					continue
				}
				if len(rs.Results) != 4 {
					o.FailAt(f.ID+"#return-shape", ret.Where(), "ProcessChanSyncMsg returns through %s; the circuit sets it hands out cannot be traced", ret.String())
					continue
				}
				nRet++
				for idx, field := range want {
					res := rs.Results[idx]
					if an.IsNilIdent(f.Info(), res) {
						continue
					}
					var vals []string
					if obj := c08r5ObjOf(f.Info(), res); obj != nil {
						vals = c08r5ValuesOf(f, obj)
					} else {
						vals = []string{f.Canon(res)}
					}
					o.Site("%s: result %d takes its value from %v", ret.String(), idx, vals)
					for _, v := range vals {
						if v == "nil" {
							continue
						}
						if !strings.HasSuffix(v, "."+field) {
							o.FailAt(f.ID+"#result-"+itoa(idx)+"-role", ret.Where(), "ProcessChanSyncMsg hands out %s as result %d (%s); that result is the set of %s of the retransmitted commitment and must come from the commit diff's %s", v, idx, an.Text(res), map[int]string{1: "circuits opened", 2: "circuits closed"}[idx], field)
							continue
						}
						bases[strings.TrimSuffix(v, "."+field)] = true
					}
				}
			}
			if nRet < 1 {
				o.FailAt(f.ID+"#no-success-return", f.Where(f.Body.Pos()), "no successful return found in ProcessChanSyncMsg")
			}
			if len(bases) > 1 {
				o.FailAt(f.ID+"#two-diffs", f.Where(f.Body.Pos()), "the circuit sets handed out by ProcessChanSyncMsg come from different commit diffs: %v", c07Keys(bases))
			}
			// consumer
			sy := p.Func(hs + "channelLink.syncChanStates")
			pc := sy.Calls(an.CalleeNamed("ProcessChanSyncMsg"), true)
			if needExactly(o, sy, "ProcessChanSyncMsg", pc, 1) {
				fn := pc[0].Fn
				var as *ast.AssignStmt
				ast.Inspect(fn.Body, func(n ast.Node) bool {
					if a, ok := n.(*ast.AssignStmt); ok && len(a.Rhs) == 1 && ast.Unparen(a.Rhs[0]) == pc[0].Node {
						as = a
					}
					return as == nil
				})
				if as == nil || len(as.Lhs) != 4 {
					o.FailAt(sy.ID+"#results-unbound", pc[0].Where(), "syncChanStates does not bind the four results of ProcessChanSyncMsg")
				} else {
					for idx, fld := range map[int]string{1: "$recv.openedCircuits", 2: "$recv.closedCircuits"} {
						l := as.Lhs[idx]
						if c := fn.Canon(l); c == fld {
							o.Site("result %d of ProcessChanSyncMsg is stored in %s", idx, fld)
							continue
						}
						obj := c08r5ObjOf(fn.Info(), l)
						if obj == nil {
							o.FailAt(sy.ID+"#result-"+itoa(idx)+"-dropped", pc[0].Where(), "syncChanStates drops result %d of ProcessChanSyncMsg (%s); it belongs in %s", idx, an.Text(l), fld)
							continue
						}
						for _, v := range c08r5ValuesOf(fn, obj) {
							if !strings.HasPrefix(v, fn.Canon(pc[0].Node.(ast.Expr))) {
								o.FailAt(sy.ID+"#result-"+itoa(idx)+"-overwritten", pc[0].Where(), "the variable that receives result %d of ProcessChanSyncMsg is also assigned %s", idx, v)
							}
						}
						stored := 0
						ast.Inspect(fn.Root().Body, func(n ast.Node) bool {
							a, ok := n.(*ast.AssignStmt)
							if !ok || len(a.Lhs) != len(a.Rhs) {
								return true
							}
							for i, rhs := range a.Rhs {
								if c08r5ObjOf(fn.Info(), rhs) != obj {
									continue
								}
								dst := fn.Canon(a.Lhs[i])
								o.Site("result %d of ProcessChanSyncMsg is stored in %s", idx, dst)
								if dst == fld {
									stored++
								} else if strings.HasPrefix(dst, "$recv.") {
									o.FailAt(sy.ID+"#result-"+itoa(idx)+"-role", sy.Where(a.Pos()), "syncChanStates stores result %d of ProcessChanSyncMsg in %s, expected %s", idx, dst, fld)
								}
							}
							return true
						})
						if stored == 0 {
							o.FailAt(sy.ID+"#result-"+itoa(idx)+"-not-stored", pc[0].Where(), "syncChanStates never stores result %d of ProcessChanSyncMsg in %s", idx, fld)
						}
					}
				}
			}
			// the deletion takes the closed set
			ack := p.Func(hs + "channelLink.ackDownStreamPackets")
			dc := ack.Calls(an.CalleeNamed("DeleteCircuits"), true)
			if need(o, ack, "DeleteCircuits", dc, 1) {
				for _, s := range dc {
					a := s.Fn.ArgCanon(s)
					o.Site("%s deletes the circuits %v", s.String(), a)
					if len(a) != 1 || a[0] != "$recv.closedCircuits" {
						o.FailAt(ack.ID+"#deletes-other-set", s.Where(), "ackDownStreamPackets deletes the circuits %v, expected exactly $recv.closedCircuits", a)
					}
				}
			}
		})
}
