package spec

import (
	"go/ast"
	"go/token"
	"regexp"
	"strings"

	"lndlint/internal/an"
)

func init() {
	register(&Spec{
		ID:          "C14",
		Loads:       []LoadSpec{{Patterns: []string{"./chainntnfs/...", "./channeldb"}}},
		Explanation: "Decides the code-shape conditions of once-per-chain-position delivery and of safe hints: all height and request indexes are touched only under the notifier's mutex; a confirmation or spend is sent only by three functions, only while the registration's dispatched flag is clear, and sets the flag in the same select arm; the flag is cleared only by the two reorg dispatchers and never without the reorg notice; confirmations are sent immediately exactly when first-height + N - 1 <= current height and queued at that same height otherwise (one formula at all sites); the tip moves by exactly one block with the continuity guards; details recorded for a disconnected block are cleared before anything is re-dispatched; every height-hint commit passes either the found height below `found <= current height`, or the current height for requests known to be unconfirmed/unspent with a completed rescan (or confirmed/spent at the height being connected/disconnected); a rescan is skipped only when its start is above the tip; hint cache writers and readers use the same bucket and key.",
		NotDecided: []string{
			"per-history correctness of confirmation counts", "behaviour of the chain backends that feed ConnectTip/DisconnectTip and the historical rescans",
			"the reorg safety limit itself (requests older than it are forgotten by design)",
		},
		Assumptions: commonAssumptions,
		Engines:     "LOCK, GUARD, PATH, WHO, MIRROR, CODEC",
		TagMatrix:   [][]string{{"dev"}},
		Run:         runC14,
	})
}

const cn = "chainntnfs."

// sendsOn lists the send statements of f whose channel expression ends in
// .Event.<name>.
func sendsOn(f *an.Func, name string) []an.Site {
	var out []an.Site
	for _, v := range f.Graph().V {
		ss, ok := v.Node.(*ast.SendStmt)
		if !ok {
			continue
		}
		if strings.HasSuffix(an.Text(ss.Chan), ".Event."+name) {
			out = append(out, an.Site{Fn: f, V: v, Node: ss})
		}
	}
	return out
}

func runC14(r *an.Run) {
	p := r.Prog
	tn := cn + "TxNotifier."

	r.Obl("notifier-index-lock-discipline", "LOCK",
		"every access to the TxNotifier's height and request indexes happens with the notifier's mutex held on every path; helpers documented as lock-held are only reached from holders (including the callbacks handed to filterTx)",
		"a historical-rescan completion racing with ConnectTip/DisconnectTip would otherwise read a height or request set that is being changed", 60,
		func(o *an.Obl) {
			p.CheckLocks(o, an.LockSpec{
				Pkg: "chainntnfs", Type: "TxNotifier", Mutex: "Mutex",
				Fields:      []string{"currentHeight", "reorgDepth", "confNotifications", "confsByInitialHeight", "ntfnsByConfirmHeight", "spendNotifications", "spendsByHeight"},
				Constructor: cn + "NewTxNotifier",
			})
		})

	r.Obl("dispatch-once-per-chain-position", "GUARD",
		"sends on Event.Confirmed / Event.Spend occur only in dispatchConfDetails, NotifyHeight and dispatchSpendDetails, only below `!ntfn.dispatched`, and every such send is followed in its select arm by `dispatched = true`; `dispatched = false` occurs only in dispatchConfReorg / dispatchSpendReorg and each reset is accompanied (before or after, on every successful path) by the NegativeConf / Reorg send",
		"a second confirmation without an intervening reorg notice, or a flag cleared silently, makes the client act twice on one event or miss that its transaction left the chain", 8,
		func(o *an.Obl) {
			allowed := map[string]string{
				tn + "dispatchConfDetails":  "Confirmed",
				tn + "NotifyHeight":         "Confirmed",
				tn + "dispatchSpendDetails": "Spend",
			}
			nSend := 0
			for _, f := range p.Funcs(false, "chainntnfs") {
				for _, ch := range []string{"Confirmed", "Spend"} {
					for _, s := range sendsOn(f, ch) {
						nSend++
						if allowed[f.Root().ID] != ch || f.Lit != nil {
							o.FailAt(f.ID+"#send-"+ch, s.Where(), "%s sends on Event.%s; only dispatchConfDetails, NotifyHeight and dispatchSpendDetails may", f.ID, ch)
							continue
						}
						ntfn := strings.TrimSuffix(an.Text(s.Node.(*ast.SendStmt).Chan), ".Event."+ch)
						guarded(o, f, s, an.Truth(an.TextIs(ntfn+".dispatched"), false, "!"+ntfn+".dispatched"))
						var sets []an.Site
						for _, a := range f.Assigns(an.TextIs(ntfn+".dispatched"), false) {
							if an.Text(a.Node.(*ast.AssignStmt).Rhs[0]) == "true" {
								sets = append(sets, a)
							}
						}
						ok := false
						for _, a := range sets {
							if len(s.V.Out) == 1 && s.V.Out[0].To == a.V {
								ok = true
							}
						}
						if !ok {
							o.FailAt(f.ID+"#send-without-flag-"+ch, s.Where(), "the send on %s.Event.%s is not immediately followed by %s.dispatched = true", ntfn, ch, ntfn)
						}
					}
				}
			}
			if nSend != 3 {
				o.FailAt("Event#send-sites", "", "expected the three dispatch sites, found %d", nSend)
			}
			// writers of dispatched
			for _, f := range p.Funcs(false, "chainntnfs") {
				for _, a := range f.Assigns(an.FieldPath(nil, "dispatched"), false) {
					rhs := an.Text(a.Node.(*ast.AssignStmt).Rhs[0])
					o.Site("%s", a.String())
					switch rhs {
					case "true":
						if _, ok := allowed[f.ID]; !ok {
							o.FailAt(f.ID+"#sets-dispatched", a.Where(), "%s sets dispatched outside the dispatch sites", f.ID)
						}
					case "false":
						var notice string
						switch f.ID {
						case tn + "dispatchConfReorg":
							notice = "NegativeConf"
						case tn + "dispatchSpendReorg":
							notice = "Reorg"
						default:
							o.FailAt(f.ID+"#clears-dispatched", a.Where(), "%s clears dispatched; only the reorg dispatchers may", f.ID)
							continue
						}
						sends := sendsOn(f, notice)
						after := false
						for _, s := range sends {
							if f.PostDominatedOrFails(a, s) {
								after = true
							}
						}
						stop := map[*an.FlowVertex]bool{}
						for _, s := range sends {
							stop[s.V] = true
						}
						before := len(sends) > 0 && !f.Graph().Reach(f.Graph().Entry, nil, stop)[a.V]
						o.Site("%s: reorg notice after=%v before=%v", a.String(), after, before)
						if !after && !before {
							o.FailAt(f.ID+"#silent-reset", a.Where(), "%s clears dispatched on a path that succeeds without sending Event.%s", f.ID, notice)
						}
					default:
						o.FailAt(f.ID+"#dispatched-value", a.Where(), "dispatched is assigned %s", rhs)
					}
				}
			}
		})

	r.Obl("n-confirmations-height", "MIRROR",
		"the confirmation height is first-block height + NumConfirmations - 1 at every site that computes it (dispatchConfDetails, handleConfDetailsAtTip, NotifyHeight, dispatchConfReorg); dispatchConfDetails sends immediately exactly when that height <= currentHeight and otherwise queues the request in ntfnsByConfirmHeight under that same height; NotifyHeight dispatches the set stored under the height it is called with",
		"an off-by-one at one of the sites tells the client N confirmations one block early or late, or leaves a stale queue entry behind after a reorg", 6,
		func(o *an.Obl) {
			form := regexp.MustCompile(`^\(\((.+) \+ (.+)\.NumConfirmations\) - 1\)$`)
			n := 0
			for _, name := range []string{"dispatchConfDetails", "handleConfDetailsAtTip", "dispatchConfReorg", "NotifyHeight"} {
				f := p.Func(tn + name)
				for _, v := range f.Graph().V {
					v.Inspect(false, func(nd ast.Node) bool {
						ix, ok := nd.(*ast.IndexExpr)
						if !ok || !strings.HasSuffix(an.Text(ix.X), ".ntfnsByConfirmHeight") {
							return true
						}
						c := f.Canon(ix.Index)
						n++
						o.Site("%s: ntfnsByConfirmHeight[%s]", f.Where(ix.Pos()), c)
						if name == "NotifyHeight" {
							if c != "$p0" {
								o.FailAt(f.ID+"#index", f.Where(ix.Pos()), "NotifyHeight reads ntfnsByConfirmHeight[%s], expected the height it was called with", c)
							}
							return true
						}
						m := form.FindStringSubmatch(c)
						if m == nil {
							o.FailAt(f.ID+"#conf-height-form", f.Where(ix.Pos()), "ntfnsByConfirmHeight is indexed with %s, expected <first height> + NumConfirmations - 1", c)
							return true
						}
						base := m[1]
						okBase := strings.HasSuffix(base, ".BlockHeight") || (name == "dispatchConfReorg" && base == "$p1")
						if !okBase {
							o.FailAt(f.ID+"#conf-height-base", f.Where(ix.Pos()), "the confirmation height is based on %s, expected the block height of the first confirmation", base)
						}
						return true
					})
				}
			}
			if n < 5 {
				o.FailAt("ntfnsByConfirmHeight#sites", "", "expected at least 5 index sites, found %d", n)
			}
			f := p.Func(tn + "dispatchConfDetails")
			confH := canonTerm(`^\(\(\$p1\.BlockHeight \+ \$p0\.NumConfirmations\) - 1\)$`)
			cur := an.FieldPath(an.Recv(), "currentHeight")
			for _, s := range sendsOn(f, "Confirmed") {
				guarded(o, f, s, an.CmpX(confH, an.LE, cur, "confHeight <= n.currentHeight"))
			}
			for _, a := range f.Graph().V {
				as, ok := a.Node.(*ast.AssignStmt)
				if !ok || len(as.Lhs) != 1 {
					continue
				}
				if ix, ok := as.Lhs[0].(*ast.IndexExpr); ok && (an.Text(ix.X) == "ntfnSet" || strings.HasSuffix(an.Text(ix.X), ".ntfnsByConfirmHeight")) {
					guarded(o, f, an.Site{Fn: f, V: a, Node: as}, an.CmpX(confH, an.GT, cur, "confHeight > n.currentHeight"))
				}
			}
			// NotifyHeight: the numConfsLeft computation uses the same form
			g := p.Func(tn + "NotifyHeight")
			found := false
			for _, s := range g.Assigns(an.LocalNamed("txConfHeight"), false) {
				c := g.Canon(s.Node.(*ast.AssignStmt).Rhs[0])
				o.Site("NotifyHeight txConfHeight = %s", c)
				found = true
				if m := form.FindStringSubmatch(c); m == nil || !strings.HasSuffix(m[1], ".details.BlockHeight") {
					o.FailAt(g.ID+"#txConfHeight", s.Where(), "NotifyHeight computes the confirmation height as %s", c)
				}
			}
			if !found {
				o.FailAt(g.ID+"#txConfHeight-missing", g.Where(g.Body.Pos()), "cannot find NotifyHeight's confirmation height")
			}
		})

	r.Obl("tip-continuity-and-cleared-details", "GUARD",
		"ConnectTip advances currentHeight by one only below blockHeight == currentHeight+1 and resets reorgDepth; DisconnectTip decreases it by one only below blockHeight == currentHeight and increments reorgDepth; nothing else writes the height; DisconnectTip clears the cached details of requests first confirmed/spent at the disconnected height before dispatching their reorg, and nothing else clears details",
		"a skipped or repeated height desynchronises every height-indexed table; details left behind after a disconnect are re-sent as a confirmation that no longer exists on the active chain", 10,
		func(o *an.Obl) {
			cur := an.FieldPath(an.Recv(), "currentHeight")
			ct := p.Func(tn + "ConnectTip")
			dt := p.Func(tn + "DisconnectTip")
			var incs, decs []an.Site
			for _, f := range p.Funcs(false, "chainntnfs") {
				for _, v := range f.Graph().V {
					switch x := v.Node.(type) {
					case *ast.IncDecStmt:
						if strings.HasSuffix(an.Text(x.X), ".currentHeight") {
							s := an.Site{Fn: f, V: v, Node: x}
							o.Site("%s", s.String())
							switch {
							case f.ID == ct.ID && x.Tok == token.INC:
								incs = append(incs, s)
							case f.ID == dt.ID && x.Tok == token.DEC:
								decs = append(decs, s)
							default:
								o.FailAt(f.ID+"#height-write", s.Where(), "%s changes currentHeight", f.ID)
							}
						}
					case *ast.AssignStmt:
						for _, l := range x.Lhs {
							if strings.HasSuffix(an.Text(l), ".currentHeight") {
								o.FailAt(f.ID+"#height-assign", f.Where(x.Pos()), "%s assigns currentHeight", f.ID)
							}
						}
					}
				}
			}
			if need(o, ct, "currentHeight++", incs, 1) {
				guarded(o, ct, incs[0], an.CmpX(an.Param(1), an.EQ, canonTerm(`^\(\$recv\.currentHeight \+ 1\)$`), "blockHeight == n.currentHeight+1"))
				rz := ct.Assigns(an.FieldPath(an.Recv(), "reorgDepth"), false)
				if need(o, ct, "reorgDepth = 0", rz, 1) && an.Text(rz[0].Node.(*ast.AssignStmt).Rhs[0]) != "0" {
					o.FailAt(ct.ID+"#reorgDepth", rz[0].Where(), "ConnectTip sets reorgDepth to %s", an.Text(rz[0].Node.(*ast.AssignStmt).Rhs[0]))
				}
			}
			if need(o, dt, "currentHeight--", decs, 1) {
				guarded(o, dt, decs[0], an.CmpX(an.Param(0), an.EQ, cur, "blockHeight == n.currentHeight"))
				nInc := 0
				for _, v := range dt.Graph().V {
					if x, ok := v.Node.(*ast.IncDecStmt); ok && strings.HasSuffix(an.Text(x.X), ".reorgDepth") && x.Tok == token.INC {
						nInc++
					}
				}
				if nInc != 1 {
					o.FailAt(dt.ID+"#reorgDepth", dt.Where(dt.Body.Pos()), "DisconnectTip increments reorgDepth %d times", nInc)
				}
			}
			// details cleared before the reorg dispatch
			for _, c := range []struct{ set, reorg string }{{"confSet", "dispatchConfReorg"}, {"spendSet", "dispatchSpendReorg"}} {
				var clears []an.Site
				for _, a := range dt.Assigns(an.TextIs(c.set+".details"), false) {
					if an.Text(a.Node.(*ast.AssignStmt).Rhs[0]) == "nil" {
						clears = append(clears, a)
					}
				}
				calls := dt.Calls(an.CalleeIs(tn+c.reorg), false)
				if need(o, dt, c.set+".details = nil", clears, 1) && need(o, dt, c.reorg, calls, 1) {
					if c.set == "confSet" {
						// both sit below the same re-tested condition: with it
						// true the call is unreachable once the clear is removed
						val := map[string]bool{}
						for _, v := range dt.Graph().V {
							if e, ok := v.Node.(ast.Expr); ok && an.Text(e) == "initialHeight == blockHeight" {
								val[dt.AtomCanon(v)] = true
							}
						}
						if len(val) != 1 {
							o.FailAt(dt.ID+"#disconnected-height-test", dt.Where(dt.Body.Pos()), "cannot find the single `initialHeight == blockHeight` test (%d forms)", len(val))
						} else if dt.ReachUnderStop(dt.Graph().Entry, an.ByCanon(val), map[*an.FlowVertex]bool{clears[0].V: true})[calls[0].V] {
							o.FailAt(dt.ID+"#reorg-before-clear", calls[0].Where(), "dispatchConfReorg can run for a request of the disconnected height before its cached details are cleared")
						} else {
							o.Site("%s unreachable without %s when initialHeight == blockHeight", calls[0].String(), clears[0].String())
						}
					} else {
						before(o, dt, c.set+".details = nil", clears, c.reorg, calls)
					}
					if c.set == "confSet" {
						guarded(o, dt, clears[0], an.CmpX(an.LocalNamed("initialHeight"), an.EQ, an.Param(0), "initialHeight == blockHeight"))
						guarded(o, dt, calls[0], an.CmpX(an.LocalNamed("initialHeight"), an.EQ, an.Param(0), "initialHeight == blockHeight"))
					} else {
						hdr := enclosingLoopHeader(dt, clears[0].Node)
						o.Site("spend details cleared in loop over %s", hdr)
						if hdr != "$recv.spendsByHeight[$p0]" {
							o.FailAt(dt.ID+"#spend-loop", clears[0].Where(), "spend details are cleared for requests of %s, expected spendsByHeight[blockHeight]", hdr)
						}
					}
				}
			}
			// who writes details
			allowedW := map[string]bool{tn + "UpdateConfDetails": true, tn + "handleConfDetailsAtTip": true, tn + "updateSpendDetails": true, tn + "handleSpendDetailsAtTip": true, tn + "DisconnectTip": true}
			for _, f := range p.Funcs(false, "chainntnfs") {
				for _, set := range []string{"confSet", "spendSet"} {
					for _, a := range f.Assigns(an.TextIs(set+".details"), false) {
						o.Site("details writer %s", a.String())
						if !allowedW[f.ID] {
							o.FailAt(f.ID+"#writes-details", a.Where(), "%s writes %s.details", f.ID, set)
						}
						if an.Text(a.Node.(*ast.AssignStmt).Rhs[0]) == "nil" && f.ID != dt.ID {
							o.FailAt(f.ID+"#clears-details", a.Where(), "%s clears %s.details; only DisconnectTip may", f.ID, set)
						}
					}
				}
			}
		})

	r.Obl("hints-never-above-the-event", "GUARD",
		"every CommitConfirmHint / CommitSpendHint site: a found height (details.BlockHeight, details.SpendingHeight) is committed only below `found <= n.currentHeight`; n.currentHeight is committed only (a) in Update*Details below `details == nil` and a request set without cached details, or (b) in updateHints for unconfirmedRequests()/unspentRequests() (which admit only sets with rescanComplete and no details) plus the requests confirmed/spent at the height passed in; the neutrino rescan-progress site is tabled; a rescan is declared complete without being run only when its start height is above the tip",
		"a hint above the real confirmation/spend height makes the rescan after a restart start too late and miss the event for good", 8,
		func(o *an.Obl) {
			cur := "$recv.currentHeight"
			curT := an.FieldPath(an.Recv(), "currentHeight")
			tabled := map[string]string{
				"chainntnfs/neutrinonotify.NeutrinoNotifier.RegisterSpendNtfn": "rescan progress callback: processedHeight is a height GetUtxo has already scanned without finding the spend",
			}
			n := 0
			for _, f := range p.Funcs(false) {
				for _, s := range f.Calls(an.CalleeNamed("CommitConfirmHint", "CommitSpendHint"), false) {
					if strings.HasPrefix(f.ID, "channeldb.") {
						continue
					}
					n++
					a := f.ArgCanon(s)
					o.Site("%s height=%s", s.String(), a[0])
					root := f.Root().ID
					if why, ok := tabled[root]; ok {
						o.Site("tabled: %s (%s)", root, why)
						continue
					}
					switch {
					case a[0] == cur && root == tn+"updateHints":
						// request list: the unconfirmed/unspent helper plus the per-height index
						reqs := a[1]
						o.Site("updateHints request list %s", reqs)
					case a[0] == cur:
						guarded(o, f, s, an.IsNil(an.Param(1), true, "details == nil"))
						set := "confSet"
						if strings.Contains(an.Text(s.Node), "Spend") {
							set = "spendSet"
						}
						guarded(o, f, s, an.IsNil(an.TextIs(set+".details"), true, set+".details == nil"))
					case a[0] == "$p1.BlockHeight":
						guarded(o, f, s, an.CmpX(an.FieldPath(an.Param(1), "BlockHeight"), an.LE, curT, "details.BlockHeight <= n.currentHeight"))
					case a[0] == "uint32($p1.SpendingHeight)":
						guarded(o, f, s, an.CmpX(an.FieldPath(an.Param(1), "SpendingHeight"), an.LE, curT, "details.SpendingHeight <= n.currentHeight"))
					default:
						o.FailAt(f.ID+"#hint-height", s.Where(), "a height hint of %s is committed in %s; expected the found height or the current height", a[0], f.ID)
					}
				}
			}
			if n < 7 {
				o.FailAt("CommitHint#sites", "", "expected at least 7 hint commit sites, found %d", n)
			}
			// updateHints' request lists
			uh := p.Func(tn + "updateHints")
			for _, c := range []struct{ list, helper, index string }{
				{"confRequests", "unconfirmedRequests", "confsByInitialHeight"},
				{"spendRequests", "unspentRequests", "spendsByHeight"},
			} {
				for _, s := range uh.Assigns(an.LocalNamed(c.list), false) {
					as := s.Node.(*ast.AssignStmt)
					rhs := uh.Canon(as.Rhs[0])
					if isAppend(uh, as.Rhs[0]) {
						hdr := enclosingLoopHeader(uh, as)
						o.Site("updateHints: %s extended from %s", c.list, hdr)
						if hdr != "$recv."+c.index+"[$p0]" {
							o.FailAt(uh.ID+"#"+c.list+"-source", s.Where(), "%s is extended with requests of %s, expected %s[height]", c.list, hdr, c.index)
						}
						continue
					}
					o.Site("updateHints: %s := %s", c.list, rhs)
					if rhs != tn+c.helper+"($recv)" && rhs != "$recv."+c.helper+"()" {
						o.FailAt(uh.ID+"#"+c.list+"-init", s.Where(), "%s starts from %s, expected %s()", c.list, rhs, c.helper)
					}
				}
				h := p.Func(tn + c.helper)
				for _, s := range h.Graph().V {
					as, ok := s.Node.(*ast.AssignStmt)
					if !ok || !isAppend(h, as.Rhs[0]) {
						continue
					}
					site := an.Site{Fn: h, V: s, Node: as}
					guarded(o, h, site, an.IsNil(an.FieldPath(nil, "details"), true, "set.details == nil"))
					guarded(o, h, site, an.Cmp(an.FieldPath(nil, "rescanStatus"), an.EQ, an.PkgVar("chainntnfs", "rescanComplete"), "set.rescanStatus == rescanComplete"))
				}
			}
			// rescanComplete without a rescan
			for _, name := range []string{"RegisterConf", "RegisterSpend"} {
				f := p.Func(tn + name)
				k := 0
				for _, s := range f.Assigns(an.FieldPath(nil, "rescanStatus"), false) {
					if an.Text(s.Node.(*ast.AssignStmt).Rhs[0]) != "rescanComplete" {
						continue
					}
					k++
					guarded(o, f, s, an.CmpX(an.LocalNamed("startHeight"), an.GT, curT, "startHeight > n.currentHeight"))
				}
				if k != 1 {
					o.FailAt(f.ID+"#rescan-skip", f.Where(f.Body.Pos()), "%s marks the rescan complete at %d sites, expected one", name, k)
				}
				// the cached hint only ever raises the start height
				for _, s := range f.Assigns(an.LocalNamed("startHeight"), false) {
					as := s.Node.(*ast.AssignStmt)
					if as.Tok == token.DEFINE {
						continue
					}
					if an.Text(as.Rhs[0]) == "hint" {
						mustPass(o, f, "Query*Hint", f.Calls(an.CalleeNamed("QueryConfirmHint", "QuerySpendHint"), false), an.OkErrNil, []an.Site{s})
					}
				}
			}
		})

	r.Obl("hint-cache-keys", "CODEC",
		"HeightHintCache: commit, query and purge of a spend (resp. confirm) hint use the same bucket and the same key function over the request, and the height is written with WriteElement and read back with ReadElement into a value of the same type",
		"a hint stored under another key or bucket is never found (full rescan) or, worse, found for a different request", 6,
		func(o *an.Obl) {
			for _, k := range []struct{ kind, bucket, keyFn string }{
				{"Spend", "channeldb.spendHintBucket", "spendHintKey"},
				{"Confirm", "channeldb.confirmHintBucket", "confHintKey"},
			} {
				for _, op := range []string{"Commit", "Query", "Purge"} {
					f := p.Func("channeldb.HeightHintCache." + op + k.kind + "Hint")
					nb, nk := 0, 0
					for _, lf := range f.Lits {
						for _, s := range lf.Calls(an.CalleeNamed("ReadWriteBucket", "ReadBucket"), false) {
							nb++
							if a := lf.ArgCanon(s); a[0] != k.bucket {
								o.FailAt(f.ID+"#bucket", s.Where(), "%s uses bucket %s, expected %s", f.ID, a[0], k.bucket)
							}
						}
						for _, s := range lf.AllCalls(false) {
							id := an.CalleeID(lf.Info(), s.Node.(*ast.CallExpr))
							if strings.HasSuffix(id, "HintKey") {
								nk++
								if id != "channeldb."+k.keyFn {
									o.FailAt(f.ID+"#key", s.Where(), "%s derives the key with %s, expected %s", f.ID, id, k.keyFn)
								}
							}
						}
					}
					o.Site("%s: bucket sites %d, key sites %d", f.ID, nb, nk)
					if nb != 1 || nk != 1 {
						o.FailAt(f.ID+"#shape", f.Where(f.Body.Pos()), "%s has %d bucket and %d key derivations, expected one each", f.ID, nb, nk)
					}
				}
				// value type agreement
				cf := p.Func("channeldb.HeightHintCache.Commit" + k.kind + "Hint")
				qf := p.Func("channeldb.HeightHintCache.Query" + k.kind + "Hint")
				wt, rt := "", ""
				for _, lf := range cf.Lits {
					for _, s := range lf.Calls(an.CalleeIs("channeldb.WriteElement"), false) {
						wt = an.TypeID(lf.Info().TypeOf(callArg(s, 1)))
					}
				}
				for _, lf := range qf.Lits {
					for _, s := range lf.Calls(an.CalleeIs("channeldb.ReadElement"), false) {
						rt = strings.TrimPrefix(an.TypeID(lf.Info().TypeOf(callArg(s, 1))), "*")
					}
				}
				o.Site("%s hint value written as %s, read as %s", k.kind, wt, rt)
				if wt == "" || wt != rt {
					o.FailAt(cf.ID+"#value-type", cf.Where(cf.Body.Pos()), "%s hint is written as %q but read as %q", k.kind, wt, rt)
				}
			}
		})

	r.Obl("reorg-tracking-and-hint-writes-unconditional", "PATH",
		"dispatchConfDetails records the request under confsByInitialHeight[first height] on every successful path unless the confirmation is already beyond the reorg safety limit (or there are no details / the client was already served); dispatchSpendDetails does the same with spendsByHeight; the at-tip handlers always record; HeightHintCache.CommitSpendHint / CommitConfirmHint store the hint for every request they are given",
		"a confirmation that is not tracked gets no reorg notice when its block is disconnected and its stale details are handed to later clients; a hint write that is skipped leaves a hint above the event after a reorg", 6,
		func(o *an.Obl) {
			cur := an.FieldPath(an.Recv(), "currentHeight")
			idxAssign := func(f *an.Func, mapSuffix string) []an.Site {
				var out []an.Site
				for _, v := range f.Graph().V {
					as, ok := v.Node.(*ast.AssignStmt)
					if !ok || len(as.Lhs) != 1 {
						continue
					}
					ix, ok := as.Lhs[0].(*ast.IndexExpr)
					if !ok {
						continue
					}
					// txSet[request] = struct{}{} where txSet was taken from the map
					if id, isID := ix.X.(*ast.Ident); isID {
						if d := f.UniqueDef(id); d != nil && strings.Contains(f.Canon(d), mapSuffix+"[") {
							out = append(out, an.Site{Fn: f, V: v, Node: as})
							continue
						}
						// defined by `x, ok := m[k]` (two-value form) or assigned later
						for _, s := range f.Assigns(an.LocalNamed(id.Name), false) {
							if strings.Contains(an.Text(s.Node), mapSuffix+"[") {
								out = append(out, an.Site{Fn: f, V: v, Node: as})
								break
							}
						}
					}
				}
				return out
			}
			// after the early exits (no details / already served) the only
			// exemption is the safety limit
			f := p.Func(tn + "dispatchConfDetails")
			if ch := f.Assigns(an.LocalNamed("confHeight"), false); need(o, f, "confHeight", ch, 1) {
				mustDoUnlessFrom(o, f, ch[0].V, "confsByInitialHeight insert", idxAssign(f, ".confsByInitialHeight"), f.StrictSuccessReturns(),
					an.CmpX(an.LocalNamed("reorgSafeHeight"), an.LE, cur, "reorgSafeHeight <= currentHeight"))
			}
			g := p.Func(tn + "dispatchSpendDetails")
			if sp := sendsOn(g, "Spend"); need(o, g, "send on Event.Spend", sp, 1) {
				mustDoUnlessFrom(o, g, sp[0].V, "spendsByHeight insert", idxAssign(g, ".spendsByHeight"), g.StrictSuccessReturns(),
					an.CmpX(an.LocalNamed("reorgSafeHeight"), an.LE, cur, "reorgSafeHeight <= currentHeight"))
			}
			h := p.Func(tn + "handleConfDetailsAtTip")
			var hret []an.Site
			for _, s := range h.Returns() {
				hret = append(hret, s)
			}
			exit := an.Site{Fn: h, V: h.Graph().Exit, Node: h.Body}
			mustDoUnless(o, h, "confsByInitialHeight insert", idxAssign(h, ".confsByInitialHeight"), []an.Site{exit},
				an.IsNil(an.FieldPath(an.LocalNamed("confSet"), "details"), false, "confSet.details != nil (address reuse)"))
			k := p.Func(tn + "handleSpendDetailsAtTip")
			mustDoUnless(o, k, "spendsByHeight insert", idxAssign(k, ".spendsByHeight"), []an.Site{{Fn: k, V: k.Graph().Exit, Node: k.Body}},
				an.IsNil(an.FieldPath(an.LocalNamed("spendSet"), "details"), false, "spendSet.details != nil (script reuse)"))
			for _, name := range []string{"CommitSpendHint", "CommitConfirmHint"} {
				c := p.Func("channeldb.HeightHintCache." + name)
				for _, lf := range c.Lits {
					puts := lf.Calls(an.CalleeNamed("Put"), false)
					if len(puts) == 0 {
						continue
					}
					everyIteration(o, lf, `^\$p1$|Requests$`, puts, "Put(hint)")
				}
			}
		})

	c14Siblings(r)
}
