package spec

import (
	"go/ast"
	"go/token"
	"strings"

	"lndlint/internal/an"
)

func init() {
	register(&Spec{
		ID:          "C18",
		Loads:       []LoadSpec{{Patterns: []string{"./sweep"}}},
		Explanation: "Decides that a sweep transaction is handed to the wallet only by TxPublisher.broadcast, whose record was produced by createAndCheckTx below `fee <= Budget` with the fee that prepareSweepTx computed; that the fee ceiling is min(budget rate, MaxFeeRate) and the schedule clamps at its ending rate; that the schedule position only moves forward and the current rate is only ever derived from the position; that every requested input gets exactly one transaction input; that the amount left after required outputs and fee either becomes a change output not below the dust floor or is added to the reported fee; and that the RBF creation loop leaves only with a checked transaction or an error and raises the fee only through the fee function; further (c18_fix4.go) that a caller-supplied starting rate is lifted to the fee floor and, at the ceiling, yields a function instead of a zero-delta failure, that a budget rate below the fee floor is refused with an error the publisher answers with TxFailed, that a re-offered input keeps the rate already offered, that an estimate below the relay fee is clamped, that no input is filtered out for its starting rate, and that an input is re-queued only when no monitor record works on it; further (c18_fix5.go) that every writer of an input's recorded starting rate only raises it, that an estimator failure while the fee function is created is answered with TxFailed, that wallet inputs are added until a non-dust change fits, that a fee rate changes its unit only through the unit's conversion method, and that the weight behind the ceiling counts the extra output whenever the transaction built gets one.",
		NotDecided: []string{
			"monotonicity and ceiling-reaching of the numeric rate sequence (float arithmetic in the delta)", "fee estimator answers", "weight estimation accuracy (the fee is rate x estimated weight)",
			"the wallet-funded 'sweep all' transaction built by the free function createSweepTx in txgenerator.go (not a sweeper publication)",
		},
		Assumptions: commonAssumptions,
		Engines:     "GUARD, WHO, STATE, PATH",
		TagMatrix:   [][]string{{"GOARCH=386"}},
		Run:         runC18,
	})
}

const sw = "sweep."

func runC18(r *an.Run) {
	p := r.Prog
	tp := sw + "TxPublisher."

	r.Obl("published-only-within-budget", "GUARD",
		"createAndCheckTx returns a transaction without error only below `sweepCtx.fee <= req.Budget`; sweepTxCtx.fee is result 0 of prepareSweepTx; TxPublisher.createSweepTx is called only by createAndCheckTx; Wallet.PublishTransaction is called in package sweep only by TxPublisher.broadcast, on record.tx; broadcast's callers take the record from updateRecord/createRBFCompliantTx after createAndCheckTx succeeded; r.tx and r.fee are written only by updateRecord from the checked context",
		"a transaction published without the budget comparison can burn more than the caller allowed for these inputs", 10,
		func(o *an.Obl) {
			f := p.Func(tp + "createAndCheckTx")
			fee := an.FieldPath(an.LocalNamed("sweepCtx"), "fee")
			bud := an.FieldPath(an.LocalNamed("req"), "Budget")
			n := 0
			// every exit that is not certainly a failure (a nil literal, but
			// also an error variable that may be nil)
			for _, s := range f.SuccessReturns() {
				n++
				within := an.CmpX(fee, an.LE, bud, "sweepCtx.fee <= req.Budget")
				guarded(o, f, s, within)
				// the context and the request compared are the ones in effect at the exit
				c17HoldsSinceLastWrite(o, f, s, within, c17LocalObj(f, "sweepCtx"), c17LocalObj(f, "req"))
				mustPass(o, f, "createSweepTx", f.Calls(an.CalleeIs(tp+"createSweepTx"), false), an.OkErrNil, []an.Site{s})
			}
			if n < 1 {
				o.FailAt(f.ID+"#success", f.Where(f.Body.Pos()), "createAndCheckTx has no success return")
			}
			for _, s := range f.Assigns(an.LocalNamed("req"), false) {
				if c := f.Canon(s.Node.(*ast.AssignStmt).Rhs[0]); c != "$p0.req" {
					o.FailAt(f.ID+"#req", s.Where(), "the budget is read from %s", c)
				}
			}
			// the fee in the context
			cs := p.Func(tp + "createSweepTx")
			for _, cl := range p.CompositeLitsOf(p.LookupType("sweep", "sweepTxCtx")) {
				if cl.Fn == nil {
					continue
				}
				if cl.Fn.ID != cs.ID {
					o.FailAt(cl.Fn.ID+"#builds-ctx", cl.Where, "%s builds a sweepTxCtx", cl.Fn.ID)
					continue
				}
				for _, el := range cl.Node.(*ast.CompositeLit).Elts {
					kv := el.(*ast.KeyValueExpr)
					if an.Text(kv.Key) != "fee" {
						continue
					}
					id, _ := kv.Value.(*ast.Ident)
					var call *ast.CallExpr
					ri := -1
					if id != nil {
						call, ri = cs.UniqueCallDef(id)
					}
					o.Site("sweepTxCtx.fee = %s", an.Text(kv.Value))
					if call == nil || an.CalleeID(cs.Info(), call) != sw+"prepareSweepTx" || ri != 0 {
						o.FailAt(cs.ID+"#ctx-fee", cs.Where(kv.Pos()), "the fee recorded for the budget check (%s) is not the fee computed by prepareSweepTx", an.Text(kv.Value))
					}
				}
			}
			// who calls what
			for _, g := range p.Funcs(false, "sweep") {
				for _, s := range g.Calls(an.CalleeIs(tp+"createSweepTx"), true) {
					o.Site("%s", s.String())
					if g.Root().ID != f.ID {
						o.FailAt(g.ID+"#calls-createSweepTx", s.Where(), "%s builds a sweep transaction without the budget check", g.ID)
					}
				}
				for _, s := range g.Calls(an.CalleeNamed("PublishTransaction"), true) {
					o.Site("%s", s.String())
					if g.Root().ID != tp+"broadcast" {
						o.FailAt(g.ID+"#publishes", s.Where(), "%s publishes a transaction; only TxPublisher.broadcast may", g.ID)
						continue
					}
					if a := g.ArgCanon(s); a[0] != "$p0.tx" {
						o.FailAt(g.ID+"#published-tx", s.Where(), "broadcast publishes %s, expected the record's transaction", a[0])
					}
				}
				for _, s := range g.Calls(an.CalleeIs(tp+"broadcast"), true) {
					o.Site("%s", s.String())
					a := g.ArgCanon(s)
					switch g.Root().ID {
					case tp + "createAndPublishTx":
						mustPass(o, g, "createAndCheckTx", g.Calls(an.CalleeIs(tp+"createAndCheckTx"), false), an.OkErrNil, []an.Site{s})
						if !strings.HasPrefix(a[0], tp+"updateRecord(") && !strings.Contains(a[0], ".updateRecord(") {
							o.FailAt(g.ID+"#record", s.Where(), "the record broadcast is %s", a[0])
						}
					case tp + "handleInitialBroadcast":
						mustPass(o, g, "initializeTx", g.Calls(an.CalleeIs(tp+"initializeTx"), false), an.OkErrNil, []an.Site{s})
					default:
						o.FailAt(g.ID+"#broadcasts", s.Where(), "%s calls broadcast", g.ID)
					}
				}
				for _, fld := range []string{"tx", "fee"} {
					for _, s := range g.Assigns(an.Field(sw+"monitorRecord", fld, nil), false) {
						o.Site("record writer %s", s.String())
						if g.ID != tp+"updateRecord" {
							o.FailAt(g.ID+"#writes-record-"+fld, s.Where(), "%s writes monitorRecord.%s", g.ID, fld)
						} else if c := g.Canon(s.Node.(*ast.AssignStmt).Rhs[0]); c != "$p1."+fld {
							o.FailAt(g.ID+"#record-"+fld, s.Where(), "monitorRecord.%s is set from %s", fld, c)
						}
					}
				}
			}
			// updateRecord callers: after createAndCheckTx
			for _, g := range p.Funcs(false, "sweep") {
				for _, s := range g.Calls(an.CalleeIs(tp+"updateRecord"), false) {
					a := g.ArgCanon(s)
					o.Site("%s ctx=%s", s.String(), a[1])
					if g.ID == f.ID && strings.Contains(a[1], ".createSweepTx(") {
						// the missing-inputs exit records the attempted
						// transaction and returns ErrInputMissing
						continue
					}
					if !strings.HasPrefix(a[1], tp+"createAndCheckTx(") && !strings.Contains(a[1], "createAndCheckTx(") {
						o.FailAt(g.ID+"#record-source", s.Where(), "updateRecord is fed %s, expected the context returned by createAndCheckTx", a[1])
					}
				}
			}
			it := p.Func(tp + "initializeTx")
			mustPass(o, it, "createRBFCompliantTx", it.Calls(an.CalleeIs(tp+"createRBFCompliantTx"), false), an.OkErrNil, it.StrictSuccessReturnsOrNilPtr())
		})

	r.Obl("rate-ceiling-clamps", "GUARD",
		"MaxFeeRateAllowed returns r.MaxFeeRate when Budget/size exceeds it and Budget/size otherwise, size being the weight of the request's inputs; the fee function is constructed (only by initializeFeeFunction) with exactly that value as its ending rate, which is never written afterwards and is (as the parameter, or read back from the function under construction) the only rate a constructor literal may carry directly; a literal that carries it as starting or current rate (a function constant at the ceiling) is built only below `confTarget <= 1` or below `start >= end` tested after the last write of the starting rate; after its definition the starting rate is written only by the lift `start = chainfee.FeePerKwFloor` (below `start < chainfee.FeePerKwFloor`, for a caller-supplied rate, and followed by the cap or a fresh `start <= end` before the rate is consumed) and by the cap `start = end`, and a starting rate above the ceiling is replaced by it before the per-block delta and the current rate are derived; feeRateAtPosition returns the ending rate for p >= width or when the computed rate exceeds it, and the computed rate only below `rate <= endingFeeRate`",
		"a ceiling above the budget rate or the configured maximum lets later bumps exceed what the property allows", 8,
		func(o *an.Obl) {
			c18RateCeilingClamps(o, p)
		})

	r.Obl("schedule-position-monotone", "STATE",
		"LinearFeeFunction.position is written only by increaseFeeRate (with its argument) below `position < width`; increaseFeeRate is reached only from Increment with position+1 and from IncreaseFeeRate below `newPosition > l.position`; currentFeeRate is written only as feeRateAtPosition(position) there and from the starting rate in the constructor",
		"a position that can move backwards lowers the offered fee rate on a later block", 8,
		func(o *an.Obl) {
			inc := p.Func(sw + "LinearFeeFunction.increaseFeeRate")
			for _, f := range p.Funcs(false, "sweep") {
				for _, s := range f.Assigns(an.Field(sw+"LinearFeeFunction", "position", nil), false) {
					o.Site("position writer %s", s.String())
					if f.ID != inc.ID {
						o.FailAt(f.ID+"#writes-position", s.Where(), "%s writes the schedule position", f.ID)
						continue
					}
					if c := f.Canon(s.Node.(*ast.AssignStmt).Rhs[0]); c != "$p0" {
						o.FailAt(f.ID+"#position-value", s.Where(), "position is set to %s", c)
					}
					guarded(o, f, s, an.CmpX(an.FieldPath(an.Recv(), "position"), an.LT, an.FieldPath(an.Recv(), "width"), "l.position < l.width"))
				}
				for _, s := range f.Assigns(an.Field(sw+"LinearFeeFunction", "currentFeeRate", nil), false) {
					c := f.Canon(s.Node.(*ast.AssignStmt).Rhs[0])
					o.Site("rate writer %s (%s)", s.String(), c)
					switch f.ID {
					case inc.ID:
						if c != "$recv.feeRateAtPosition($p0)" {
							o.FailAt(f.ID+"#rate-value", s.Where(), "currentFeeRate is set to %s", c)
						}
					case sw + "NewLinearFeeFunction":
						if t := an.Text(s.Node.(*ast.AssignStmt).Rhs[0]); t != "start" {
							o.FailAt(f.ID+"#initial-rate", s.Where(), "the constructor sets currentFeeRate to %s, expected the (capped) starting rate", t)
						}
					default:
						o.FailAt(f.ID+"#writes-rate", s.Where(), "%s writes the current fee rate", f.ID)
					}
				}
				for _, s := range f.Calls(an.CalleeIs(inc.ID), false) {
					a := f.ArgCanon(s)
					o.Site("%s position=%s", s.String(), a[0])
					switch f.ID {
					case sw + "LinearFeeFunction.Increment":
						if a[0] != "($recv.position + 1)" {
							o.FailAt(f.ID+"#step", s.Where(), "Increment moves to %s", a[0])
						}
					case sw + "LinearFeeFunction.IncreaseFeeRate":
						guarded(o, f, s, an.CmpX(an.LocalNamed("newPosition"), an.GT, an.FieldPath(an.Recv(), "position"), "newPosition > l.position"))
					default:
						o.FailAt(f.ID+"#moves-position", s.Where(), "%s moves the schedule position", f.ID)
					}
				}
			}
			// IncreaseFeeRate: newPosition = width + 1 - confTarget below confTarget < width+1
			f := p.Func(sw + "LinearFeeFunction.IncreaseFeeRate")
			for _, s := range f.Assigns(an.LocalNamed("newPosition"), false) {
				as := s.Node.(*ast.AssignStmt)
				if as.Tok == token.DEFINE {
					continue
				}
				c := f.Canon(as.Rhs[0])
				o.Site("newPosition = %s", c)
				if c != "(($recv.width + 1) - $p0)" {
					o.FailAt(f.ID+"#new-position", s.Where(), "the position for a deadline in confTarget blocks is %s, expected width + 1 - confTarget", c)
				}
				guarded(o, f, s, an.CmpX(an.Param(0), an.LT, canonTerm(`^\(\$recv\.width \+ 1\)$`), "confTarget < width + 1"))
			}
		})

	r.Obl("ramp-follows-the-block-height", "PATH",
		"TxPublisher.monitor stores the height of the new block before it processes the records of that block, and Start stores it before the monitor runs; the conf target of the initial fee function and of every bump is calcCurrentConfTarget(stored height, req.DeadlineHeight), which is deadline - current height floored at zero; calcCurrentConfTarget returns that value unchanged; a bump hands exactly that conf target to IncreaseFeeRate of the record's fee function and publishes only when that call reported an increase",
		"a height that lags by one block shifts the whole ramp: the ceiling is offered at the deadline block instead of one block before it", 7,
		func(o *an.Obl) {
			c18RampFollowsHeight(o, p)
		})

	r.Obl("every-input-spent-once", "PATH",
		"TxPublisher.createSweepTx: the two loops over the requested inputs skip on complementary predicates (RequiredTxOut() == nil / != nil) and each adds exactly one transaction input per non-skipped element, spending that element's outpoint; a required output is added together with its input; every element that gets a transaction input is put on the list the signing loop ranges over, whose closure crafts and stores the witness of the listed input for its own index",
		"an input left out of the transaction stays unswept although the caller was told it was handled; one added twice makes the transaction invalid", 3,
		func(o *an.Obl) {
			c18EveryInputSpentOnce(o, p)
		})

	r.Obl("leftover-is-change-or-fee", "PATH",
		"prepareSweepTx: changeAmt = totalInput - requiredOutput - txFee below `requiredOutput + txFee <= totalInput`; on every successful path it is either appended as the change output (only below `changeAmt >= dust floor of the change script`) or added to the returned fee; the returned fee is that txFee; every input of the loop adds its value to totalInput; the collected change outputs are the ones returned whenever there are any; the lock time tested and adopted is the one required by the input of that iteration; locktime conflicts and immature locktimes fail",
		"a dust change output is unrelayable; a leftover neither paid out nor counted in the reported fee makes the real fee exceed what the budget check saw", 6,
		func(o *an.Obl) {
			c18LeftoverIsChangeOrFee(o, p)
		})

	r.Obl("rbf-loop-exits", "PATH",
		"createRBFCompliantTx returns a record only below a nil error of createAndCheckTx in that iteration; every other exit is an error; within the loop the fee changes only through Increment of the record's fee function (installed only by initializeTx), whose error leaves the loop and whose success is followed by a new createAndCheckTx before any record is returned",
		"a record returned after a failed check publishes a transaction the mempool test or the budget rejected", 3,
		func(o *an.Obl) {
			c18RbfLoopExits(o, p)
		})
}

// kvText returns the source text of the value of the first key: value pair
// named key inside n.
func kvText(n ast.Node, key string) string {
	out := ""
	ast.Inspect(n, func(m ast.Node) bool {
		if kv, ok := m.(*ast.KeyValueExpr); ok && out == "" && an.Text(kv.Key) == key {
			out = an.Text(kv.Value)
		}
		return out == ""
	})
	return out
}
