package spec

import (
	"fmt"
	"go/ast"
	"go/constant"
	"go/parser"
	"go/token"
	"go/types"
	"os"
	"path/filepath"
	"regexp"
	"sort"
	"strconv"
	"strings"

	"lndlint/internal/an"
	"lndlint/internal/flow"
)

func init() {
	specExtras["C15"] = append(specExtras["C15"], c15f5Rules)
}

// c15f5Rules: the conditions the repairs 7f6a44f, b449cfe, b1587fa and 1fd7084
// of /repo established (probes: findings/C15-invoices-probe43) and the rule the
// fourth seeding round's C15/h showed missing (the SQL statement that resolves
// one HTLC).
func c15f5Rules(r *an.Run) {
	c15f5SettledSet(r)
	c15f5StartupGC(r)
	c15f5CanceledHtlcSignalled(r)
	c15f5AcceptedInvoiceWatched(r)
	c15f5CircuitKeyStatements(r)
}

// ---------------------------------------------------------------- 7f6a44f

// c15f5SettledSet: an AMP set that was settled takes no further HTLC.
func c15f5SettledSet(r *an.Run) {
	p := r.Prog
	r.Obl("settled-amp-set-admits-no-further-htlc", "GUARD",
		"in updateMpp every exit that hands the store something to record (a non-nil update descriptor) and every accept or settle resolution is reachable only where the HTLC names no set (setID == nil / ctx.amp == nil, setID being ctx.setID()) or `len(inv.HTLCSet(setID, HtlcStateSettled)) == 0` for that very set id; the set's Settled HTLCs answer with ctx.failRes(ResultInvoiceAlreadySettled), a site that lies below both `setID != nil` and the non-empty settled set and below the checks that do not depend on the set (invoice Open, payment address, declared total non-zero and not below the invoice value)",
		"a set id stands for one payment: an HTLC that joins a set whose HTLCs are already Settled is met by addHTLCs as 'already settled' (an error the link turns into a link failure on every reconnect), and a full-value re-use settles the set, and releases preimages, a second time; the verdict must not depend on the set's state before the payment address authorised the sender", 13,
		func(o *an.Obl) {
			f := p.Func(iv + "updateMpp")
			info := f.Info()
			inv, ctxT := an.Param(1), an.Param(0)
			setID := canonTerm(`^\$p0\.setID\(\)$`)
			settledSet := an.Len(an.CallNamed("HTLCSet", inv, setID, an.PkgVar("invoices", "HtlcStateSettled")))
			noSet := an.AnyOf("the HTLC names no set",
				an.IsNil(setID, true, ""), an.IsNil(an.FieldPath(ctxT, "amp"), true, ""))
			free := an.AnyOf("the HTLC names no set, or no HTLC of its set is Settled",
				noSet, an.Cmp(settledSet, an.LE, an.IntConst(0), ""))

			var sites []an.Site
			for _, s := range f.Returns() {
				rs := s.Node.(*ast.ReturnStmt)
				if len(rs.Results) == 3 && !an.IsNilIdent(info, rs.Results[0]) {
					sites = append(sites, s)
				}
			}
			if !need(o, f, "return of an update descriptor", sites, 3) {
				return
			}
			for _, callee := range []string{"acceptRes", "settleRes"} {
				sites = append(sites, f.Calls(an.CalleeIs(iv+"invoiceUpdateCtx."+callee), false)...)
			}
			for _, s := range sites {
				guarded(o, f, s, free)
			}

			// the verdict the settled set gives
			var rejects []an.Site
			for _, s := range f.Calls(an.CalleeIs(iv+"invoiceUpdateCtx.failRes"), false) {
				if a := f.ArgCanon(s); len(a) == 1 && a[0] == iv+"ResultInvoiceAlreadySettled" {
					rejects = append(rejects, s)
				}
			}
			if !need(o, f, "ctx.failRes(ResultInvoiceAlreadySettled)", rejects, 1) {
				return
			}
			terms := func(n string) an.Term { return an.FieldPath(an.FieldPath(inv, "Terms"), n) }
			total := an.LocalNamed("totalAmt")
			for _, s := range rejects {
				guarded(o, f, s, an.IsNil(setID, false, "setID != nil"))
				guarded(o, f, s, an.Cmp(settledSet, an.NE, an.IntConst(0), "len(inv.HTLCSet(setID, HtlcStateSettled)) != 0"))
				guarded(o, f, s, an.Cmp(an.FieldPath(inv, "State"), an.EQ, an.PkgVar("invoices", "ContractOpen"), "inv.State == ContractOpen"))
				guarded(o, f, s, an.Truth(an.CallTo("bytes.Equal", nil, an.LocalNamed("paymentAddr"), nil), true, "bytes.Equal(paymentAddr, inv.Terms.PaymentAddr[:])"))
				guarded(o, f, s, an.Cmp(total, an.NE, an.IntConst(0), "totalAmt != 0"))
				guarded(o, f, s, an.CmpX(total, an.GE, terms("Value"), "totalAmt >= inv.Terms.Value"))
				// and it is the answer, not a computed value that is dropped
				if rs, ok := s.V.Node.(*ast.ReturnStmt); !ok || len(rs.Results) != 3 || !an.IsNilIdent(info, rs.Results[0]) || !an.IsNilIdent(info, rs.Results[2]) {
					o.FailAt(f.ID+"#settled-set-verdict-not-returned", s.Where(), "the fail resolution for a settled set is built by `%s`, expected `return nil, ctx.failRes(ResultInvoiceAlreadySettled), nil`", an.Text(s.V.Node))
				}
			}
		})
}

// ---------------------------------------------------------------- b449cfe

// c15f5ScanCallback finds the callback of invoiceIndex.ForEach in the KV
// store's DeleteCanceledInvoices.
func c15f5ScanCallback(dc *an.Func) *an.Func {
	var cb *an.Func
	var walk func(fn *an.Func)
	walk = func(fn *an.Func) {
		for _, s := range fn.Calls(an.CalleeNamed("ForEach"), false) {
			c := s.Node.(*ast.CallExpr)
			sel, ok := ast.Unparen(c.Fun).(*ast.SelectorExpr)
			if !ok || len(c.Args) != 1 || c15f4Role(fn, sel.X) != "invoiceIndexBucket" {
				continue
			}
			if fl, ok := ast.Unparen(c.Args[0]).(*ast.FuncLit); ok {
				cb = fn.LitFunc(fl)
			}
		}
		for _, l := range fn.Lits {
			walk(l)
		}
	}
	walk(dc)
	return cb
}

// c15f5SQLTokens lower-cases a statement and splits it into words,
// parentheses, commas and comparison operators; comments are dropped.
func c15f5SQLTokens(stmt string) []string {
	s := regexp.MustCompile(`--[^\n]*`).ReplaceAllString(stmt, " ")
	s = strings.ToLower(s)
	s = regexp.MustCompile(`(<>|!=|<=|>=|=|<|>|\(|\)|,|;)`).ReplaceAllString(s, " $1 ")
	return strings.Fields(s)
}

// c15f5Level is one WHERE condition of a statement (the top-level one or that
// of a sub-select): its AND-ed conjuncts, each a token list. ors is set when an
// OR occurs at the level of the conjunction: the parts are then no conjuncts.
type c15f5Level struct {
	conjuncts [][]string
	ors       bool
	depth     int
}

// c15f5WhereLevels returns every WHERE condition of the statement, outermost
// first.
func c15f5WhereLevels(toks []string) []c15f5Level {
	var out []c15f5Level
	depth := 0
	for i, t := range toks {
		switch t {
		case "(":
			depth++
		case ")":
			depth--
		}
		if t != "where" {
			continue
		}
		lv := c15f5Level{depth: depth}
		var cur []string
		d := 0
		j := i + 1
	scan:
		for ; j < len(toks); j++ {
			u := toks[j]
			switch {
			case u == "(":
				d++
			case u == ")":
				if d == 0 {
					break scan
				}
				d--
			case d == 0 && (u == "order" || u == "limit" || u == "group" || u == "returning" || u == ";"):
				break scan
			case d == 0 && u == "and":
				lv.conjuncts = append(lv.conjuncts, cur)
				cur = nil
				continue
			case d == 0 && u == "or":
				lv.ors = true
			}
			cur = append(cur, u)
		}
		if len(cur) > 0 {
			lv.conjuncts = append(lv.conjuncts, cur)
		}
		out = append(out, lv)
	}
	return out
}

// c15f5Column strips a table or alias qualifier.
func c15f5Column(tok string) string {
	if i := strings.LastIndex(tok, "."); i >= 0 {
		return tok[i+1:]
	}
	return tok
}

// c15f5Statements reads the statements named name: the string constant the
// generated query method Queries.<name> executes (found in the *.sql.go files of
// sqldb/sqlc under root, through the overlay) together with the placeholders its
// arguments are bound to (`arg.Field` -> n for $n), and the statement of that
// name in the hand-written sources sqldb/sqlc/queries/*.sql.
type c15f5Stmt struct {
	where string // file
	text  string
}

func c15f5Statements(p *an.Prog, root, name string) (stmts []c15f5Stmt, bind map[string]int, err error) {
	dir := filepath.Join(root, "sqldb", "sqlc")
	ents, rerr := os.ReadDir(dir)
	if rerr != nil {
		return nil, nil, rerr
	}
	for _, e := range ents {
		if e.IsDir() || !strings.HasSuffix(e.Name(), ".sql.go") {
			continue
		}
		file := filepath.Join(dir, e.Name())
		src, rerr := p.ReadFile(file)
		if rerr != nil || !strings.Contains(string(src), ") "+name+"(") {
			continue
		}
		af, perr := parser.ParseFile(token.NewFileSet(), file, src, 0)
		if perr != nil {
			return nil, nil, perr
		}
		consts := map[string]string{}
		for _, d := range af.Decls {
			gd, ok := d.(*ast.GenDecl)
			if !ok || gd.Tok != token.CONST {
				continue
			}
			for _, sp := range gd.Specs {
				vs, ok := sp.(*ast.ValueSpec)
				if !ok || len(vs.Names) != 1 || len(vs.Values) != 1 {
					continue
				}
				if bl, ok := vs.Values[0].(*ast.BasicLit); ok && bl.Kind == token.STRING {
					if s, uerr := strconv.Unquote(bl.Value); uerr == nil {
						consts[vs.Names[0].Name] = s
					}
				}
			}
		}
		for _, d := range af.Decls {
			fd, ok := d.(*ast.FuncDecl)
			if !ok || fd.Recv == nil || fd.Name.Name != name || fd.Body == nil {
				continue
			}
			ast.Inspect(fd.Body, func(n ast.Node) bool {
				c, ok := n.(*ast.CallExpr)
				if !ok || len(c.Args) < 2 {
					return true
				}
				sel, ok := c.Fun.(*ast.SelectorExpr)
				if !ok || !strings.HasSuffix(sel.Sel.Name, "Context") {
					return true
				}
				id, ok := c.Args[1].(*ast.Ident)
				if !ok {
					return true
				}
				txt, ok := consts[id.Name]
				if !ok {
					return true
				}
				stmts = append(stmts, c15f5Stmt{where: file, text: txt})
				bind = map[string]int{}
				for i, a := range c.Args[2:] {
					if s, ok := a.(*ast.SelectorExpr); ok {
						bind[s.Sel.Name] = i + 1
					}
				}
				return true
			})
		}
	}
	if len(stmts) == 0 {
		return nil, nil, fmt.Errorf("no generated query method %s executing a string constant found under %s", name, dir)
	}
	qdir := filepath.Join(dir, "queries")
	if qents, qerr := os.ReadDir(qdir); qerr == nil {
		for _, e := range qents {
			if !strings.HasSuffix(e.Name(), ".sql") {
				continue
			}
			file := filepath.Join(qdir, e.Name())
			src, rerr := p.ReadFile(file)
			if rerr != nil {
				continue
			}
			m := regexp.MustCompile(`(?m)^-- name: ` + regexp.QuoteMeta(name) + ` :\w+[ \t]*$`).FindIndex(src)
			if m == nil {
				continue
			}
			rest := string(src[m[1]:])
			if j := strings.Index(rest, "-- name:"); j >= 0 {
				rest = rest[:j]
			}
			stmts = append(stmts, c15f5Stmt{where: file, text: rest})
		}
	}
	return stmts, bind, nil
}

// c15f5StartupGC: the start-up garbage collection of canceled invoices keeps,
// in both stores, what the on-the-fly collection keeps.
func c15f5StartupGC(r *an.Run) {
	p := r.Prog
	r.Obl("startup-gc-keeps-canceled-invoices-that-recorded-htlcs", "MIRROR",
		"KV (DB.DeleteCanceledInvoices, the callback of invoiceIndex.ForEach): the invoice is loaded by one fetchInvoice call without a set-id filter (nil: the HTLCs of every set), the local holding it is not written again once read, and every removal of the callback (Delete on a bucket, delAMPInvoices, delAMPSettleIndex) lies below `len(invoice.Htlcs) == 0` for that invoice. SQL: SQLStore.DeleteCanceledInvoices runs the one statement DeleteCanceledInvoices and no other; its WHERE clause (the string constant the generated method executes, and its source in queries/*.sql) is a conjunction without OR of `state = <ContractCanceled>` and `NOT EXISTS (SELECT … FROM invoice_htlcs WHERE invoice_htlcs.invoice_id = invoices.id)`, the sub-select being restricted by nothing but that correlation; conjuncts the rule does not know are reported",
		"links replay their HTLCs exactly at start-up, which is when this collection runs: the HTLC records of a canceled invoice are the only memory of the verdict its HTLCs got, so a store that drops them answers the replay of a canceled HTLC as a fresh payment (a keysend or spontaneous AMP invoice is created anew and the HTLC is held or settled); the on-the-fly collection keeps such invoices (canceled-invoice-that-recorded-htlcs-is-not-deleted-on-the-fly) and both stores must agree with it", 13,
		func(o *an.Obl) {
			// ---- KV
			dc := p.Func("channeldb.DB.DeleteCanceledInvoices")
			cb := c15f5ScanCallback(dc)
			if cb == nil {
				o.FailAt(dc.ID+"#index-scan", dc.Where(dc.Body.Pos()), "no invoiceIndex.ForEach(func(k, v []byte) error {…}) found in %s", dc.ID)
			} else {
				fetches := cb.Calls(an.CalleeIs("channeldb.fetchInvoice"), false)
				if needExactly(o, cb, "fetchInvoice", fetches, 1) {
					if a := callArg(fetches[0], 2); a == nil || !an.Match(cb, an.Nil(), a) {
						o.FailAt(dc.ID+"#set-filter", fetches[0].Where(), "the scan loads the invoice with the set-id filter %s, expected nil (the HTLCs of every set): an AMP invoice would otherwise look as if it had recorded none", an.Text(a))
					}
					if obj := c15LhsObj(cb, fetches[0], 0); obj != nil {
						c15StableOnceRead(o, cb, obj.Name())
					} else {
						o.FailAt(dc.ID+"#invoice-unbound", fetches[0].Where(), "the invoice fetchInvoice returns is not bound to a local")
					}
					noRecords := an.Cmp(an.Len(an.FieldPath(an.ResultOf(an.CallTo("channeldb.fetchInvoice", nil), 0), "Htlcs")), an.LE, an.IntConst(0), "len(invoice.Htlcs) == 0 for the invoice the scan loaded")
					var removals []an.Site
					for _, s := range cb.AllCalls(false) {
						c := s.Node.(*ast.CallExpr)
						switch id := an.CalleeID(cb.Info(), c); {
						case id == "channeldb.delAMPInvoices", id == "channeldb.delAMPSettleIndex":
							removals = append(removals, s)
						case strings.HasSuffix(id, ".Delete") || strings.HasSuffix(id, ".DeleteNestedBucket"):
							if sel, ok := ast.Unparen(c.Fun).(*ast.SelectorExpr); ok && c15f4Role(cb, sel.X) != "" {
								removals = append(removals, s)
							}
						}
					}
					if need(o, cb, "removal", removals, 4) {
						for _, s := range removals {
							guarded(o, cb, s, noRecords)
						}
					}
				}
			}

			// ---- SQL
			sf := p.Func(iv + "SQLStore.DeleteCanceledInvoices")
			nStmt := 0
			for _, l := range append([]*an.Func{sf}, sf.Lits...) {
				for _, s := range l.AllCalls(false) {
					id := an.CalleeID(l.Info(), s.Node.(*ast.CallExpr))
					if !strings.HasPrefix(id, iv+"SQLInvoiceQueries.") {
						continue
					}
					o.Site("%s runs %s", sf.ID, id)
					if id == iv+"SQLInvoiceQueries.DeleteCanceledInvoices" {
						nStmt++
					} else {
						o.FailAt(sf.ID+"#other-statement", s.Where(), "%s also runs %s; the rule decides the one statement DeleteCanceledInvoices", sf.ID, id)
					}
				}
			}
			if nStmt != 1 {
				o.FailAt(sf.ID+"#statement", sf.Where(sf.Body.Pos()), "%s runs the statement DeleteCanceledInvoices %d times, expected once", sf.ID, nStmt)
			}
			root := filepath.Dir(filepath.Dir(sf.Filename()))
			stmts, _, err := c15f5Statements(p, root, "DeleteCanceledInvoices")
			if err != nil {
				o.FailAt("sqldb/sqlc.deleteCanceledInvoices#anchor", root, "cannot read the statement DeleteCanceledInvoices: %v", err)
				return
			}
			canceled := ""
			if c, ok := p.LookupObj("invoices", "ContractCanceled").(*types.Const); ok {
				if v, exact := constant.Int64Val(constant.ToInt(c.Val())); exact {
					canceled = strconv.FormatInt(v, 10)
				}
			}
			if canceled == "" {
				o.FailAt("invoices.ContractCanceled#value", "", "cannot evaluate invoices.ContractCanceled")
				return
			}
			for _, st := range stmts {
				key := "sqldb/sqlc.deleteCanceledInvoices#" + filepath.Base(st.where)
				toks := c15f5SQLTokens(st.text)
				lvs := c15f5WhereLevels(toks)
				if len(toks) < 3 || toks[0] != "delete" || toks[1] != "from" || toks[2] != "invoices" || len(lvs) == 0 || lvs[0].depth != 0 {
					o.FailAt(key+"#shape", st.where, "the statement DeleteCanceledInvoices is not `DELETE FROM invoices WHERE …`: %s", strings.Join(toks, " "))
					continue
				}
				top := lvs[0]
				if top.ors {
					o.FailAt(key+"#or", st.where, "the WHERE clause of DeleteCanceledInvoices contains an OR at its top level (%v): its parts are no longer conditions every deleted invoice meets", top.conjuncts)
					continue
				}
				isCanceled, noHtlcs := false, false
				for _, c := range top.conjuncts {
					txt := strings.Join(c, " ")
					o.Site("%s: DeleteCanceledInvoices requires %s", filepath.Base(st.where), txt)
					switch {
					case len(c) == 3 && c[1] == "=" && ((c15f5Column(c[0]) == "state" && c[2] == canceled) || (c15f5Column(c[2]) == "state" && c[0] == canceled)):
						isCanceled = true
					case len(c) > 4 && c[0] == "not" && c[1] == "exists" && c[2] == "(" && c[len(c)-1] == ")":
						sub := c[3 : len(c)-1]
						subTxt := strings.Join(sub, " ")
						if m := regexp.MustCompile(`^select \S+ from invoice_htlcs( as \w+| \w+)? where (\S+) = (\S+)$`).FindStringSubmatch(subTxt); m != nil {
							alias := "invoice_htlcs"
							if a := strings.TrimSpace(strings.TrimPrefix(strings.TrimSpace(m[1]), "as ")); a != "" {
								alias = a
							}
							l, r := m[2], m[3]
							if (l == alias+".invoice_id" && r == "invoices.id") || (r == alias+".invoice_id" && l == "invoices.id") {
								noHtlcs = true
								break
							}
						}
						o.FailAt(key+"#sub-select", st.where, "the sub-select `%s` is not `SELECT … FROM invoice_htlcs WHERE invoice_htlcs.invoice_id = invoices.id`: an invoice counts as having recorded HTLCs when any row of invoice_htlcs points to it, whatever the row's state", subTxt)
					default:
						o.FailAt(key+"#unknown-condition", st.where, "the condition `%s` of DeleteCanceledInvoices is not one the rule knows (state = %s, NOT EXISTS (SELECT … FROM invoice_htlcs WHERE invoice_htlcs.invoice_id = invoices.id))", txt, canceled)
					}
				}
				if !isCanceled {
					o.FailAt(key+"#state", st.where, "DeleteCanceledInvoices does not require state = %s (ContractCanceled)", canceled)
				}
				if !noHtlcs {
					o.FailAt(key+"#keeps-htlc-records", st.where, "DeleteCanceledInvoices does not require that no row of invoice_htlcs points to the invoice: canceled invoices that recorded HTLCs are deleted at start-up, the KV store and the on-the-fly collection keep them")
				}
			}
		})
}

// ---------------------------------------------------------------- b1587fa

// c15f5CommaOkLookup finds `v, ok := <inv>.Htlcs[<key>]` in f for the invoice
// local invObj and returns the two bound objects.
func c15f5CommaOkLookup(f *an.Func, invObj types.Object, key an.Term) (val, ok types.Object, at ast.Node) {
	info := f.Info()
	ast.Inspect(f.Body, func(n ast.Node) bool {
		if _, isLit := n.(*ast.FuncLit); isLit {
			return false
		}
		as, isAs := n.(*ast.AssignStmt)
		if !isAs || len(as.Lhs) != 2 || len(as.Rhs) != 1 {
			return true
		}
		ix, isIx := ast.Unparen(as.Rhs[0]).(*ast.IndexExpr)
		if !isIx || !an.Match(f, key, ix.Index) {
			return true
		}
		sel, isSel := ast.Unparen(ix.X).(*ast.SelectorExpr)
		if !isSel || sel.Sel.Name != "Htlcs" || !c15IdentIs(info, sel.X, invObj) {
			return true
		}
		objOf := func(e ast.Expr) types.Object {
			id, isID := e.(*ast.Ident)
			if !isID || id.Name == "_" {
				return nil
			}
			if d := info.Defs[id]; d != nil {
				return d
			}
			return info.Uses[id]
		}
		val, ok, at = objOf(as.Lhs[0]), objOf(as.Lhs[1]), as
		return true
	})
	return
}

// c15f5CanceledHtlcSignalled: cancelSingleHtlc signals the cancellation whenever
// it finds the HTLC Canceled, whoever canceled it.
func c15f5CanceledHtlcSignalled(r *an.Run) {
	p := r.Prog
	r.Obl("htlc-found-canceled-is-failed-back-whoever-canceled-it", "PATH",
		"InvoiceRegistry.cancelSingleHtlc: after its one UpdateInvoice call succeeded the HTLC is looked up on the returned invoice under the key parameter (`htlc, ok := invoice.Htlcs[key]`); every `return nil` after that call is preceded by notifyHodlSubscribers unless the HTLC is not on the invoice (!ok) or its state is not HtlcStateCanceled — in particular not merely because this call changed nothing (the `updated` flag); the signal is sent only after the update succeeded and only below htlc.State == HtlcStateCanceled, and what is sent is NewFailResolution(key, int32(htlc.AcceptHeight), result) for the method's own key and result parameters",
		"the method runs without the registry lock: a timer of the same HTLC can cancel it after a replay of the HTLC read it as Accepted and before that replay subscribed; the replay's own timer then finds the HTLC canceled, changes nothing, and if it returns silently the HTLC stays canceled in the database with nobody failing it back (it is held until it expires on chain); signalling twice is harmless, a replayed HTLC must get the verdict recorded for it", 13,
		func(o *an.Obl) {
			f := p.Func(iv + "InvoiceRegistry.cancelSingleHtlc")
			info := f.Info()
			ups := f.Calls(an.CalleeIs(iv+"InvoiceDB.UpdateInvoice"), false)
			if !needExactly(o, f, "idb.UpdateInvoice", ups, 1) {
				return
			}
			invObj := c15LhsObj(f, ups[0], 0)
			if invObj == nil {
				o.FailAt(f.ID+"#updated-invoice-unbound", ups[0].Where(), "the invoice returned by the update is not bound to a local (%s)", an.Text(ups[0].Node))
				return
			}
			htlcObj, okObj, at := c15f5CommaOkLookup(f, invObj, an.Param(1))
			if htlcObj == nil || okObj == nil {
				o.FailAt(f.ID+"#htlc-lookup", ups[0].Where(), "no `htlc, ok := invoice.Htlcs[key]` on the invoice the update returned, for the key parameter, found in %s", f.ID)
				return
			}
			o.Site("%s: lookup %s", f.ID, an.Text(at))
			c15StableOnceRead(o, f, invObj.Name(), htlcObj.Name(), okObj.Name())
			notReassigned(o, f, f.Params(false)[1].Name(), f.Params(false)[2].Name())
			notifies := f.Calls(an.CalleeIs(iv+"InvoiceRegistry.notifyHodlSubscribers"), false)
			if !need(o, f, "notifyHodlSubscribers", notifies, 1) {
				return
			}
			state := an.FieldPath(c15LocalTerm(htlcObj), "State")
			canceled := an.PkgVar("invoices", "HtlcStateCanceled")
			var okRets []an.Site
			after := f.Graph().Reach(ups[0].V, nil, nil)
			for _, s := range f.Returns() {
				rs := s.Node.(*ast.ReturnStmt)
				if len(rs.Results) == 1 && an.IsNilIdent(info, rs.Results[0]) && after[s.V] {
					okRets = append(okRets, s)
				}
			}
			if !need(o, f, "`return nil` after the update", okRets, 1) {
				return
			}
			mustDoUnless(o, f, "signalling the cancellation (notifyHodlSubscribers)", notifies, okRets,
				an.Truth(c15LocalTerm(okObj), false, "the HTLC is not on the invoice"),
				an.Cmp(state, an.NE, canceled, "htlc.State != HtlcStateCanceled"))
			mustPass(o, f, "idb.UpdateInvoice", ups, an.OkErrNil, notifies)
			for _, s := range notifies {
				guarded(o, f, s, an.Cmp(state, an.EQ, canceled, "htlc.State == HtlcStateCanceled"))
				guarded(o, f, s, an.Truth(c15LocalTerm(okObj), true, "the HTLC is on the invoice"))
				// what is signalled
				arg := callArg(s, 0)
				var res *ast.CallExpr
				if arg != nil {
					e := ast.Unparen(arg)
					if id, isID := e.(*ast.Ident); isID {
						if d := f.UniqueDef(id); d != nil {
							e = ast.Unparen(d)
						}
					}
					res, _ = e.(*ast.CallExpr)
				}
				if res == nil || an.CalleeID(info, res) != iv+"NewFailResolution" || len(res.Args) != 3 {
					o.FailAt(f.ID+"#signal", s.Where(), "cancelSingleHtlc signals %s, expected a NewFailResolution for its key and result", an.Text(arg))
					continue
				}
				o.Site("%s signals %s", f.ID, an.Text(res))
				if !an.Match(f, an.Param(1), res.Args[0]) {
					o.FailAt(f.ID+"#signal-key", s.Where(), "the fail resolution names the circuit key %s, expected the key parameter", an.Text(res.Args[0]))
				}
				if !an.Match(f, an.FieldPath(c15LocalTerm(htlcObj), "AcceptHeight"), res.Args[1]) {
					o.FailAt(f.ID+"#signal-height", s.Where(), "the fail resolution carries the accept height %s, expected the one recorded for the HTLC", an.Text(res.Args[1]))
				}
				if !an.Match(f, an.Param(2), res.Args[2]) {
					o.FailAt(f.ID+"#signal-result", s.Where(), "the fail resolution carries the result %s, expected the result parameter", an.Text(res.Args[2]))
				}
			}
		})
}

// ---------------------------------------------------------------- 1fd7084

// c15f5AcceptedOutcomes lists the accept outcomes updateMpp / updateLegacy hand
// out together with a recorded HTLC on an invoice that is, or by this update
// becomes, Accepted.
func c15f5AcceptedOutcomes(o *an.Obl, p *an.Prog) map[string]string {
	out := map[string]string{}
	for _, id := range []string{iv + "updateMpp", iv + "updateLegacy"} {
		f := p.Func(id)
		info := f.Info()
		// update.State = &InvoiceStateUpdateDesc{NewState: ContractAccepted}
		var toAccepted []an.Site
		for _, s := range f.Assigns(an.Field(iv+"InvoiceUpdateDesc", "State", nil), false) {
			as, ok := s.Node.(*ast.AssignStmt)
			if !ok || len(as.Rhs) != 1 {
				continue
			}
			lit := c15f4LitOf(f, as.Rhs[0])
			if lit == nil {
				continue
			}
			if v, ok := c15LitKeys(lit)["NewState"]; ok && f.Canon(v) == iv+"ContractAccepted" {
				toAccepted = append(toAccepted, s)
			}
		}
		isAccepted := an.Cmp(an.FieldPath(an.Param(1), "State"), an.EQ, an.PkgVar("invoices", "ContractAccepted"), "inv.State == ContractAccepted")
		for _, s := range f.Calls(an.CalleeIs(iv+"invoiceUpdateCtx.acceptRes"), false) {
			rs, ok := s.V.Node.(*ast.ReturnStmt)
			if !ok || len(rs.Results) != 3 || an.IsNilIdent(info, rs.Results[0]) {
				continue // nothing is recorded with this verdict
			}
			already, _ := f.Guarded(s, isAccepted)
			becomes := len(toAccepted) > 0 && f.Before(toAccepted, s)
			k := f.ArgCanon(s)[0]
			o.Site("%s: accept outcome %s with a recorded HTLC (invoice already Accepted: %v, becomes Accepted: %v)", f.ID, k, already, becomes)
			if already || becomes {
				out[k] = s.Where()
			}
		}
	}
	return out
}

// c15f5AcceptedInvoiceWatched: whenever an HTLC is recorded on an invoice that
// is Accepted afterwards, the invoice is (re-)registered with the expiry
// watcher.
func c15f5AcceptedInvoiceWatched(r *an.Run) {
	p := r.Prog
	r.Obl("htlc-held-on-an-accepted-invoice-is-watched-for-expiry", "PATH",
		"for every accept outcome K that updateMpp / updateLegacy hand out together with a recorded HTLC while the invoice is Accepted (the site lies below inv.State == ContractAccepted) or becomes Accepted by that update (update.State = {NewState: ContractAccepted} precedes it): in the *htlcAcceptResolution case of notifyExitHopHtlcLocked every path to the final return on which res.outcome can be K passes `invoiceToExpire = makeInvoiceExpiry(ctx.hash, invoice)` (invoice: the one the update returned); invoiceToExpire is the method's second result, written by nothing else; NotifyExitHopHtlc hands it to expiryWatcher.AddInvoices restricted by nothing but `invoiceToExpire != nil` and the error exit",
		"a hold invoice in state Accepted is canceled by the watcher before its earliest held HTLC expires; an HTLC recorded on an already accepted invoice (a duplicate) can expire earlier than the HTLCs the invoice was registered with: if the invoice is not registered again with its new lowest expiry the HTLC is still held when it times out on chain and the channel is force-closed, while the property requires held HTLCs to be resolved (canceled) in time", 20,
		func(o *an.Obl) {
			outcomes := c15f5AcceptedOutcomes(o, p)
			var ks []string
			for k := range outcomes {
				ks = append(ks, k)
			}
			sort.Strings(ks)
			if len(ks) < 2 {
				o.FailAt(iv+"updateLegacy#accepted-outcomes", "", "expected at least two accept outcomes that record an HTLC on an accepted invoice (a complete set on a hold invoice, a duplicate), found %v", ks)
			}
			g := p.Func(iv + "InvoiceRegistry.notifyExitHopHtlcLocked")
			info := g.Info()
			ups := g.Calls(an.CalleeIs(iv+"InvoiceDB.UpdateInvoice"), false)
			if !needExactly(o, g, "idb.UpdateInvoice", ups, 1) {
				return
			}
			invObj := c15LhsObj(g, ups[0], 0)
			// the local handed out as second result
			var expObj types.Object
			var finals []an.Site
			for _, s := range g.Returns() {
				rs := s.Node.(*ast.ReturnStmt)
				if len(rs.Results) != 3 {
					continue
				}
				if id, ok := ast.Unparen(rs.Results[1]).(*ast.Ident); ok && !an.IsNilIdent(info, id) {
					if v, isVar := info.Uses[id].(*types.Var); isVar {
						if expObj != nil && expObj != v {
							o.FailAt(g.ID+"#expiry-result", s.Where(), "notifyExitHopHtlcLocked hands out two different locals as invoice expiry")
						}
						expObj = v
						finals = append(finals, s)
					}
				}
			}
			if expObj == nil {
				o.FailAt(g.ID+"#expiry-result", g.Where(g.Body.Pos()), "no return of notifyExitHopHtlcLocked hands out a local as its invoice expiry result")
				return
			}
			var regs []an.Site
			for _, w := range c15WritesOfLocal(g, expObj) {
				if w.tok == token.VAR && w.rhs == nil {
					continue
				}
				c, _ := w.rhs.(*ast.CallExpr)
				if w.tok != token.ASSIGN || c == nil || an.CalleeID(info, c) != iv+"makeInvoiceExpiry" || len(c.Args) != 2 {
					o.FailAt(g.ID+"#expiry-written", w.site.Where(), "the invoice expiry result is written by `%s`, expected only `= makeInvoiceExpiry(ctx.hash, invoice)`", an.Text(w.site.Node))
					continue
				}
				o.Site("%s: %s", g.ID, an.Text(w.site.Node))
				if g.Canon(c.Args[0]) != "$p0.hash" || invObj == nil || !c15IdentIs(info, c.Args[1], invObj) {
					o.FailAt(g.ID+"#expiry-of", w.site.Where(), "the expiry is made for (%s, %s), expected the HTLC's hash and the invoice the update returned", an.Text(c.Args[0]), an.Text(c.Args[1]))
				}
				regs = append(regs, w.site)
			}
			if !need(o, g, "invoiceToExpire = makeInvoiceExpiry(…)", regs, 1) {
				return
			}
			// the accept case
			var from *flow.Vertex
			for _, v := range g.Graph().V {
				if v.Kind != flow.KTypeCase {
					continue
				}
				for _, te := range v.Node.(*ast.CaseClause).List {
					if an.TypeID(info.TypeOf(te)) == iv+"htlcAcceptResolution" {
						for _, e := range v.Out {
							if e.Kind == flow.ETrue {
								from = e.To
							}
						}
					}
				}
			}
			if from == nil {
				o.FailAt(g.ID+"#accept-case", g.Where(g.Body.Pos()), "no `case *htlcAcceptResolution` found in notifyExitHopHtlcLocked")
				return
			}
			outcome := an.Field(iv+"htlcAcceptResolution", "outcome", nil)
			for _, k := range ks {
				name := strings.TrimPrefix(k, iv)
				mustDoUnlessFrom(o, g, from, "the expiry registration for outcome "+name, regs, finals,
					an.Cmp(outcome, an.NE, an.PkgVar("invoices", name), "res.outcome != "+name))
			}
			// the caller hands it to the watcher
			n := p.Func(iv + "InvoiceRegistry.NotifyExitHopHtlc")
			lcs := n.Calls(an.CalleeIs(g.ID), false)
			if !needExactly(o, n, "notifyExitHopHtlcLocked", lcs, 1) {
				return
			}
			resObj := c15LhsObj(n, lcs[0], 1)
			adds := n.Calls(an.CalleeNamed("AddInvoices"), false)
			if resObj == nil || !needExactly(o, n, "expiryWatcher.AddInvoices", adds, 1) {
				if resObj == nil {
					o.FailAt(n.ID+"#expiry-dropped", lcs[0].Where(), "NotifyExitHopHtlc drops the invoice expiry notifyExitHopHtlcLocked returns (%s)", an.Text(lcs[0].Node))
				}
				return
			}
			if a := callArg(adds[0], 0); a == nil || !c15IdentIs(n.Info(), a, resObj) || len(adds[0].Node.(*ast.CallExpr).Args) != 1 {
				o.FailAt(n.ID+"#watched-invoice", adds[0].Where(), "the expiry watcher is given %s, expected the expiry notifyExitHopHtlcLocked returned", an.Text(adds[0].Node))
			}
			c15StableOnceRead(o, n, resObj.Name())
			mustPass(o, n, "notifyExitHopHtlcLocked", lcs, an.OkErrNil, adds)
			q := regexp.QuoteMeta(resObj.Name())
			onlyGuards(o, n, adds[0], []string{`^` + q + ` != nil$`, `^!\(err != nil\)$`}, "registration with the expiry watcher")
			var okRets []an.Site
			after := n.Graph().Reach(lcs[0].V, nil, nil)
			for _, s := range n.Returns() {
				if after[s.V] {
					okRets = append(okRets, s)
				}
			}
			mustDoUnlessFrom(o, n, lcs[0].V, "expiryWatcher.AddInvoices", adds, okRets,
				an.IsNil(c15LocalTerm(resObj), true, "invoiceToExpire == nil"),
				an.IsNil(an.LocalNamed("err"), false, "err != nil"))
		})
}

// ---------------------------------------------------------------- seed C15/h

// c15f5CircuitKeyStatements: a statement of the SQL store that is run for one
// HTLC identifies it by its whole circuit key.
func c15f5CircuitKeyStatements(r *an.Run) {
	p := r.Prog
	r.Obl("sql-statement-for-one-htlc-names-its-whole-circuit-key", "ROLE",
		"every function of the SQL invoice store that is given one HTLC's circuit key (a named parameter of type models.CircuitKey) and runs a statement of SQLInvoiceQueries with a parameter literal naming an HtlcID hands that statement both parts of the key: HtlcID built from <key>.HtlcID and ChanID built from <key>.ChanID; and the statement the generated method executes (the string constant in sqldb/sqlc/*.sql.go, read through the overlay, and its source in queries/*.sql), unless it is an INSERT, has a WHERE condition (its own or that of the sub-select that finds the row) in which `htlc_id = $i` and `chan_id = $j` are both conjuncts of one AND-list without OR, $i and $j being the placeholders the method binds arg.HtlcID and arg.ChanID to",
		"htlc_id is the HTLC's index on its channel: two HTLCs of one invoice that arrive over different channels can carry the same index; a statement that selects by index and invoice alone rewrites both rows, so settling one shard marks a canceled one Settled (an HTLC both canceled and settled, AmtPaid no longer the sum of the settled HTLCs, a replay of the canceled HTLC answered with the preimage) on the SQL store only", 9,
		func(o *an.Obl) {
			root := ""
			n := 0
			for _, f := range p.Funcs(false, "invoices") {
				if f.Lit != nil || f.Body == nil || !strings.HasSuffix(f.Filename(), "sql_store.go") {
					continue
				}
				root = filepath.Dir(filepath.Dir(f.Filename()))
				var keys []*types.Var
				for _, pv := range f.Params(false) {
					if pv != nil && pv.Name() != "" && pv.Name() != "_" && an.TypeID(pv.Type()) == "graph/db/models.CircuitKey" {
						keys = append(keys, pv)
					}
				}
				if len(keys) == 0 {
					continue
				}
				info := f.Info()
				mentions := func(e ast.Expr, field string) bool {
					found := false
					ast.Inspect(e, func(x ast.Node) bool {
						sel, ok := x.(*ast.SelectorExpr)
						if !ok || sel.Sel.Name != field {
							return true
						}
						id, ok := ast.Unparen(sel.X).(*ast.Ident)
						if !ok {
							return true
						}
						for _, k := range keys {
							if info.Uses[id] == k {
								found = true
							}
						}
						return true
					})
					return found
				}
				for _, fn := range append([]*an.Func{f}, f.Lits...) {
					for _, s := range fn.AllCalls(false) {
						c := s.Node.(*ast.CallExpr)
						id := an.CalleeID(info, c)
						if !strings.HasPrefix(id, iv+"SQLInvoiceQueries.") || len(c.Args) != 2 {
							continue
						}
						lit := c15f4LitOf(fn, c.Args[1])
						if lit == nil {
							continue
						}
						kv := c15LitKeys(lit)
						htlcID, hasIdx := kv["HtlcID"]
						if !hasIdx || !mentions(htlcID, "HtlcID") {
							continue // not a statement about this HTLC's row (e.g. a custom record keyed by the row id)
						}
						n++
						q := strings.TrimPrefix(id, iv+"SQLInvoiceQueries.")
						o.Site("%s runs %s for the HTLC %s", f.ID, q, an.Text(lit))
						chanID, hasChan := kv["ChanID"]
						if !hasChan || !mentions(chanID, "ChanID") {
							o.FailAt(f.ID+"#"+q+"-without-channel", s.Where(), "%s runs %s with the HTLC's index but not its channel (ChanID: %s): the index is unique per channel only, the statement cannot tell two HTLCs of the invoice with the same index apart", f.ID, q, an.Text(chanID))
						}
						c15f5CheckKeyStatement(o, p, root, q)
					}
				}
			}
			if n < 3 {
				o.FailAt(iv+"sqlInvoiceUpdater#htlc-statements", "", "expected at least three statements run for one HTLC (insert, resolve, AMP preimage), found %d", n)
			}
		})
}

var c15f5Placeholder = regexp.MustCompile(`^\$(\d+)$`)

// c15f5CheckKeyStatement checks the text of the statement q (every copy of it).
func c15f5CheckKeyStatement(o *an.Obl, p *an.Prog, root, q string) {
	stmts, bind, err := c15f5Statements(p, root, q)
	if err != nil {
		o.FailAt("sqldb/sqlc."+q+"#anchor", root, "cannot read the statement %s: %v", q, err)
		return
	}
	wantIdx, okIdx := bind["HtlcID"]
	wantChan, okChan := bind["ChanID"]
	if !okIdx || !okChan {
		o.FailAt("sqldb/sqlc."+q+"#binding", stmts[0].where, "the generated method %s binds no placeholder to arg.HtlcID / arg.ChanID (bound: %v): the statement cannot name the HTLC's channel", q, bind)
		return
	}
	for _, st := range stmts {
		toks := c15f5SQLTokens(st.text)
		key := "sqldb/sqlc." + q + "#" + filepath.Base(st.where)
		if len(toks) == 0 {
			o.FailAt(key+"#empty", st.where, "the statement %s is empty", q)
			continue
		}
		if toks[0] == "insert" {
			o.Site("%s: %s inserts the row (both key parts are bound: $%d, $%d)", filepath.Base(st.where), q, wantIdx, wantChan)
			continue
		}
		found := false
		var seen []string
		for _, lv := range c15f5WhereLevels(toks) {
			if lv.ors {
				seen = append(seen, fmt.Sprintf("%v (OR at this level)", lv.conjuncts))
				continue
			}
			cols := map[string]int{}
			for _, c := range lv.conjuncts {
				if len(c) != 3 || c[1] != "=" {
					continue
				}
				for i := 0; i < 3; i += 2 {
					if m := c15f5Placeholder.FindStringSubmatch(c[2-i]); m != nil {
						k, _ := strconv.Atoi(m[1])
						cols[c15f5Column(c[i])] = k
					}
				}
			}
			seen = append(seen, fmt.Sprintf("%v", lv.conjuncts))
			if cols["htlc_id"] == wantIdx && cols["chan_id"] == wantChan {
				found = true
			}
		}
		o.Site("%s: %s selects its row by %v", filepath.Base(st.where), q, seen)
		if !found {
			o.FailAt(key+"#circuit-key", st.where, "no WHERE condition of %s requires both htlc_id = $%d and chan_id = $%d (conditions: %v): the HTLC's index is unique per channel only, the statement also hits an HTLC of the invoice with the same index on another channel", q, wantIdx, wantChan, seen)
		}
	}
}
