// Package flow builds a statement-level control-flow graph of one function
// body. Unlike golang.org/x/tools/go/cfg it
//   - has one vertex per simple statement / condition atom (so that ordering
//     inside a basic block is ordinary graph reachability),
//   - splits the short-circuit operators &&, || and ! so that every
//     conditional edge carries one atom and a polarity,
//   - labels the edges of switch, type switch, select and range statements,
//   - treats panic-like calls as function exits of their own kind.
//
// It contains nothing specific to the analysed repository.
package flow

import (
	"fmt"
	"go/ast"
	"go/token"
)

// Kind classifies a vertex.
type Kind int

const (
	KStmt      Kind = iota // simple statement (assign, expr, incdec, send, decl, go)
	KCond                  // a condition atom with a true and a false edge
	KCase                  // switch case test: Tag == Node (true/false edges)
	KTypeCase              // type switch clause test (true/false edges)
	KSelect                // select head; one edge per comm clause
	KRange                 // range head: edge "next" into the body and "done"
	KReturn                // return statement (explicit or implicit)
	KDefer                 // defer statement
	KPanic                 // call that does not return
	KEntry                 // synthetic entry
	KExit                  // synthetic exit reached from every return
	KPanicExit             // synthetic exit reached from every panic-like call
	KJoin                  // synthetic join/no-op
)

func (k Kind) String() string {
	return [...]string{"stmt", "cond", "case", "typecase", "select", "range",
		"return", "defer", "panic", "entry", "exit", "panicexit", "join"}[k]
}

// Vertex is one node of the graph.
type Vertex struct {
	ID   int
	Kind Kind
	// Node is the statement or expression evaluated at this vertex. For
	// KRange it is the *ast.RangeStmt (only Key/Value/X are evaluated here),
	// for KSelect the *ast.SelectStmt (nothing evaluated), for KTypeCase the
	// *ast.CaseClause (only its type list), for KCase the case expression.
	Node ast.Node
	// Tag is the switch tag for KCase vertices (nil for tag-less switches,
	// whose case expressions are lowered to KCond vertices instead).
	Tag ast.Expr
	// TypeSwitchX is the x of `switch y := x.(type)` for KTypeCase vertices.
	TypeSwitchX ast.Expr
	Out         []*Edge
	In          []*Edge
}

// EdgeKind labels an edge.
type EdgeKind int

const (
	EPlain   EdgeKind = iota
	ETrue             // condition / case test is true
	EFalse            // condition / case test is false
	ESelect           // select head to the comm clause Comm
	ERangeIn          // range head into the body (another element)
	ERangeDone
)

// Edge is a directed edge.
type Edge struct {
	From, To *Vertex
	Kind     EdgeKind
	Comm     *ast.CommClause // for ESelect
}

// Graph is the CFG of one function body.
type Graph struct {
	Fset      *token.FileSet
	Body      *ast.BlockStmt
	V         []*Vertex
	Entry     *Vertex
	Exit      *Vertex
	PanicExit *Vertex
	// vertexOf maps every statement / atom placed in the graph to its vertex.
	vertexOf map[ast.Node]*Vertex
}

// NoReturn reports whether a call never returns (panic, os.Exit, ...). It is
// supplied by the caller because it needs type information.
type NoReturn func(*ast.CallExpr) bool

type targets struct {
	tail         *targets
	brk, cont    *Vertex
	fallthroughV *Vertex
}

type lblock struct {
	gotoV, brk, cont *Vertex
}

type builder struct {
	g         *Graph
	noReturn  NoReturn
	cur       *Vertex // nil means unreachable
	targets   *targets
	labels    map[string]*lblock
	ret       *retCtx                 // non-nil inside the spliced body of an immediately invoked literal
	synth     []*Vertex               // assignments made from the return statements of spliced literals
	litDefers []*ast.DeferStmt        // top-level defers of the spliced literal being built, in source order
	litTop    map[*ast.DeferStmt]bool // the top-level defers of spliced literals
	temps     map[string]ast.Expr     // hoisted boolean temporaries (see boolTemps)
}

// retCtx says what a return statement means inside the body of an
// immediately invoked function literal `func() T { ... }()` that is spliced
// into the graph of the enclosing function (see splice).
type retCtx struct {
	t, f   *Vertex         // the literal is a branch condition: return X continues at t or f
	cont   *Vertex         // the literal is a statement: return continues here
	assign *ast.AssignStmt // ... after assigning the results to these operands (nil: results dropped)
}

// New builds the graph of body.
func New(fset *token.FileSet, body *ast.BlockStmt, noReturn NoReturn) *Graph {
	g := &Graph{Fset: fset, Body: body, vertexOf: map[ast.Node]*Vertex{}}
	b := &builder{g: g, noReturn: noReturn, labels: map[string]*lblock{}, temps: boolTemps(body)}
	g.Entry = b.newV(KEntry, nil)
	g.Exit = b.newV(KExit, nil)
	g.PanicExit = b.newV(KPanicExit, nil)
	b.cur = g.Entry
	b.stmtList(body.List)
	if b.cur != nil {
		// implicit return at the closing brace
		r := b.newV(KReturn, nil)
		b.edge(b.cur, r, EPlain)
		b.edge(r, g.Exit, EPlain)
	}
	b.thread()
	return g
}

// thread removes the infeasible paths a spliced literal would otherwise add:
// when a return of the literal hands a value of known truth / nil-ness to a
// variable (`err = nil`, `err = fmt.Errorf(...)`, `err = e` right below
// `if e != nil`, `ok = true`) and the very next thing the enclosing function
// does is to test that variable, the assignment continues at the branch the
// test is known to take.
func (b *builder) thread() {
	for _, v := range b.synth {
		as, _ := v.Node.(*ast.AssignStmt)
		if as == nil || len(v.Out) != 1 || len(as.Lhs) != len(as.Rhs) {
			continue
		}
		c := v.Out[0].To
		for hops := 0; c.Kind == KJoin && len(c.Out) == 1 && hops < 64; hops++ {
			c = c.Out[0].To
		}
		if c.Kind != KCond {
			continue
		}
		atom, _ := c.Node.(ast.Expr)
		for i, l := range as.Lhs {
			id, ok := l.(*ast.Ident)
			if !ok || id.Name == "_" {
				continue
			}
			val := knownValue(as.Rhs[i], v)
			pol := atomPolarity(atom, id.Name)
			if val == 0 || pol == 0 {
				continue
			}
			want := ETrue
			if val*pol < 0 {
				want = EFalse
			}
			for _, e := range c.Out {
				if e.Kind != want {
					continue
				}
				old := v.Out[0]
				for k, in := range old.To.In {
					if in == old {
						old.To.In = append(old.To.In[:k], old.To.In[k+1:]...)
						break
					}
				}
				// the path continues through a copy of the test that has only
				// the branch known to be taken: the fact the test establishes
				// stays visible to the guard engines on this path
				nc := b.newV(KCond, c.Node)
				old.To = nc
				nc.In = append(nc.In, old)
				b.edge(nc, e.To, want)
				break
			}
			break
		}
	}
}

// knownValue: +1 for a value that is non-nil / true, -1 for nil / false, 0
// when unknown. v is the vertex of the assignment (for `x = e` right below
// the true edge of `e != nil`).
func knownValue(e ast.Expr, v *Vertex) int {
	for {
		p, ok := e.(*ast.ParenExpr)
		if !ok {
			break
		}
		e = p.X
	}
	switch x := e.(type) {
	case *ast.Ident:
		switch x.Name {
		case "nil", "false":
			return -1
		case "true":
			return 1
		}
		// right below a test of this very identifier
		p := v
		for hops := 0; len(p.In) == 1 && hops < 64; hops++ {
			in := p.In[0]
			if in.From.Kind == KJoin {
				p = in.From
				continue
			}
			if in.From.Kind == KCond {
				if a, ok := in.From.Node.(ast.Expr); ok {
					pol := atomPolarity(a, x.Name)
					if pol != 0 {
						if in.Kind == ETrue {
							return pol
						}
						if in.Kind == EFalse {
							return -pol
						}
					}
				}
			}
			break
		}
	case *ast.CallExpr:
		if sel, ok := x.Fun.(*ast.SelectorExpr); ok {
			if pkg, ok := sel.X.(*ast.Ident); ok {
				switch pkg.Name + "." + sel.Sel.Name {
				case "fmt.Errorf", "errors.New":
					return 1
				}
			}
		}
	case *ast.UnaryExpr:
		if x.Op == token.AND {
			if _, ok := x.X.(*ast.CompositeLit); ok {
				return 1
			}
		}
	}
	return 0
}

// atomPolarity: +1 when the atom is true exactly if name is non-nil / true
// (`name`, `name != nil`), -1 for `name == nil`, 0 otherwise.
func atomPolarity(atom ast.Expr, name string) int {
	for {
		p, ok := atom.(*ast.ParenExpr)
		if !ok {
			break
		}
		atom = p.X
	}
	isName := func(e ast.Expr) bool { id, ok := e.(*ast.Ident); return ok && id.Name == name }
	isNil := func(e ast.Expr) bool { id, ok := e.(*ast.Ident); return ok && id.Name == "nil" }
	switch x := atom.(type) {
	case *ast.Ident:
		if x.Name == name {
			return 1
		}
	case *ast.BinaryExpr:
		if (isName(x.X) && isNil(x.Y)) || (isNil(x.X) && isName(x.Y)) {
			switch x.Op {
			case token.NEQ:
				return 1
			case token.EQL:
				return -1
			}
		}
	}
	return 0
}

func (b *builder) newV(k Kind, n ast.Node) *Vertex {
	v := &Vertex{ID: len(b.g.V), Kind: k, Node: n}
	b.g.V = append(b.g.V, v)
	if n != nil {
		if _, dup := b.g.vertexOf[n]; !dup {
			b.g.vertexOf[n] = v
		}
	}
	return v
}

func (b *builder) edge(from, to *Vertex, k EdgeKind) *Edge {
	if from == nil || to == nil {
		return nil
	}
	e := &Edge{From: from, To: to, Kind: k}
	from.Out = append(from.Out, e)
	to.In = append(to.In, e)
	return e
}

// add appends a vertex after the current one and makes it current.
func (b *builder) add(k Kind, n ast.Node) *Vertex {
	v := b.newV(k, n)
	b.edge(b.cur, v, EPlain)
	if b.cur == nil {
		// unreachable code still gets vertices (so that sites resolve) but
		// no incoming edge.
	}
	b.cur = v
	return v
}

func (b *builder) join() *Vertex { return b.newV(KJoin, nil) }

func (b *builder) jump(to *Vertex) {
	b.edge(b.cur, to, EPlain)
	b.cur = nil
}

func (b *builder) stmtList(l []ast.Stmt) {
	for _, s := range l {
		b.stmt(s, nil)
	}
}

func (b *builder) label(name string) *lblock {
	lb := b.labels[name]
	if lb == nil {
		lb = &lblock{gotoV: b.join()}
		b.labels[name] = lb
	}
	return lb
}

func (b *builder) stmt(s ast.Stmt, lb *lblock) {
	switch s := s.(type) {
	case *ast.BadStmt, *ast.EmptyStmt:
	case *ast.AssignStmt:
		if len(s.Rhs) == 1 {
			if lit := iife(s.Rhs[0]); lit != nil && spliceable(lit) {
				cont := b.join()
				b.splice(lit, &retCtx{cont: cont, assign: s})
				b.cur = cont
				return
			}
		}
		b.add(KStmt, s)
	case *ast.SendStmt, *ast.IncDecStmt, *ast.GoStmt, *ast.DeclStmt:
		b.add(KStmt, s)
	case *ast.DeferStmt:
		if b.ret != nil && b.litTop[s] {
			// a top-level defer of a spliced literal runs at every exit of
			// the literal that is reached after this point (see runLitDefers)
			b.litDefers = append(b.litDefers, s)
			return
		}
		b.add(KDefer, s)
	case *ast.ExprStmt:
		if call, ok := s.X.(*ast.CallExpr); ok && b.noReturn != nil && b.noReturn(call) {
			v := b.add(KPanic, s)
			b.edge(v, b.g.PanicExit, EPlain)
			b.cur = nil
			return
		}
		if lit := iife(s.X); lit != nil && spliceable(lit) {
			cont := b.join()
			b.splice(lit, &retCtx{cont: cont})
			b.cur = cont
			return
		}
		b.add(KStmt, s)
	case *ast.LabeledStmt:
		l := b.label(s.Label.Name)
		b.edge(b.cur, l.gotoV, EPlain)
		b.cur = l.gotoV
		b.stmt(s.Stmt, l)
	case *ast.ReturnStmt:
		if len(s.Results) == 1 {
			// return func() (T, error) { ... }(): the literal's returns are
			// returns of the enclosing context
			if lit := iife(s.Results[0]); lit != nil && spliceable(lit) {
				b.splice(lit, b.ret)
				return
			}
		}
		if rc := b.ret; rc != nil {
			b.spliced(s, rc)
			return
		}
		v := b.add(KReturn, s)
		b.edge(v, b.g.Exit, EPlain)
		b.cur = nil
	case *ast.BranchStmt:
		b.branch(s)
	case *ast.BlockStmt:
		b.stmtList(s.List)
	case *ast.IfStmt:
		if s.Init != nil {
			b.stmt(s.Init, nil)
		}
		then, done := b.join(), b.join()
		els := done
		if s.Else != nil {
			els = b.join()
		}
		b.cond(s.Cond, then, els)
		b.cur = then
		b.stmt(s.Body, nil)
		b.jump(done)
		if s.Else != nil {
			b.cur = els
			b.stmt(s.Else, nil)
			b.jump(done)
		}
		b.cur = done
	case *ast.SwitchStmt:
		b.switchStmt(s, lb)
	case *ast.TypeSwitchStmt:
		b.typeSwitchStmt(s, lb)
	case *ast.SelectStmt:
		b.selectStmt(s, lb)
	case *ast.ForStmt:
		b.forStmt(s, lb)
	case *ast.RangeStmt:
		b.rangeStmt(s, lb)
	default:
		panic(fmt.Sprintf("flow: unexpected statement %T", s))
	}
}

func (b *builder) branch(s *ast.BranchStmt) {
	var to *Vertex
	switch s.Tok {
	case token.BREAK:
		if s.Label != nil {
			to = b.label(s.Label.Name).brk
		} else {
			for t := b.targets; t != nil && to == nil; t = t.tail {
				to = t.brk
			}
		}
	case token.CONTINUE:
		if s.Label != nil {
			to = b.label(s.Label.Name).cont
		} else {
			for t := b.targets; t != nil && to == nil; t = t.tail {
				to = t.cont
			}
		}
	case token.FALLTHROUGH:
		for t := b.targets; t != nil && to == nil; t = t.tail {
			to = t.fallthroughV
		}
	case token.GOTO:
		to = b.label(s.Label.Name).gotoV
	}
	v := b.add(KStmt, s)
	if to != nil {
		b.edge(v, to, EPlain)
	}
	b.cur = nil
}

// cond lowers a boolean expression to atoms with true/false edges.
func (b *builder) cond(e ast.Expr, t, f *Vertex) {
	switch x := e.(type) {
	case *ast.ParenExpr:
		b.cond(x.X, t, f)
		return
	case *ast.BinaryExpr:
		switch x.Op {
		case token.LAND:
			mid := b.join()
			b.cond(x.X, mid, f)
			b.cur = mid
			b.cond(x.Y, t, f)
			return
		case token.LOR:
			mid := b.join()
			b.cond(x.X, t, mid)
			b.cur = mid
			b.cond(x.Y, t, f)
			return
		}
	case *ast.UnaryExpr:
		if x.Op == token.NOT {
			b.cond(x.X, f, t)
			return
		}
	case *ast.CallExpr:
		if lit := iife(x); lit != nil && spliceable(lit) && boolResult(lit) && !hasDefer(lit) {
			b.splice(lit, &retCtx{t: t, f: f})
			return
		}
	case *ast.Ident:
		// a hoisted comparison (`same := a == b; ... if same`) is tested
		// as the comparison it names
		// (in addition to the test of the name itself: after `same` was
		// found true the comparison is evaluated with its false side
		// leading nowhere, and vice versa, so that both the name and the
		// atoms of its definition are facts of the branches)
		if def, ok := b.temps[x.Name]; ok {
			v := b.add(KCond, e)
			tm, fm := b.join(), b.join()
			b.edge(v, tm, ETrue)
			b.edge(v, fm, EFalse)
			b.cur = tm
			b.cond(def, t, b.join())
			b.cur = fm
			b.cond(def, b.join(), f)
			b.cur = nil
			return
		}
		// the constant conditions a spliced `return true` / `return false` yields
		if b.ret != nil && x.Obj == nil {
			switch x.Name {
			case "true":
				b.jump(t)
				return
			case "false":
				b.jump(f)
				return
			}
		}
	}
	v := b.add(KCond, e)
	b.edge(v, t, ETrue)
	b.edge(v, f, EFalse)
	b.cur = nil
}

func (b *builder) switchStmt(s *ast.SwitchStmt, lb *lblock) {
	if s.Init != nil {
		b.stmt(s.Init, nil)
	}
	if s.Tag != nil {
		b.add(KStmt, &ast.ExprStmt{X: s.Tag})
	}
	done := b.join()
	if lb != nil {
		lb.brk = done
	}
	n := len(s.Body.List)
	bodies := make([]*Vertex, n+1)
	for i := range bodies {
		bodies[i] = b.join()
	}
	var defaultIdx = -1
	for i, cl := range s.Body.List {
		cc := cl.(*ast.CaseClause)
		if cc.List == nil {
			defaultIdx = i
			continue
		}
		for _, ce := range cc.List {
			next := b.join()
			if s.Tag != nil {
				v := b.add(KCase, ce)
				v.Tag = s.Tag
				b.edge(v, bodies[i], ETrue)
				b.edge(v, next, EFalse)
			} else {
				b.cond(ce, bodies[i], next)
			}
			b.cur = next
		}
	}
	// all tests failed
	if defaultIdx >= 0 {
		b.jump(bodies[defaultIdx])
	} else {
		b.jump(done)
	}
	for i, cl := range s.Body.List {
		cc := cl.(*ast.CaseClause)
		b.cur = bodies[i]
		ft := done
		if i+1 < n {
			ft = bodies[i+1]
		}
		b.targets = &targets{tail: b.targets, brk: done, fallthroughV: ft}
		b.stmtList(cc.Body)
		b.targets = b.targets.tail
		b.jump(done)
	}
	b.cur = done
}

func (b *builder) typeSwitchStmt(s *ast.TypeSwitchStmt, lb *lblock) {
	if s.Init != nil {
		b.stmt(s.Init, nil)
	}
	var x ast.Expr
	switch a := s.Assign.(type) {
	case *ast.ExprStmt:
		x = a.X
	case *ast.AssignStmt:
		x = a.Rhs[0]
	}
	if ta, ok := x.(*ast.TypeAssertExpr); ok {
		x = ta.X
	}
	b.add(KStmt, s.Assign)
	done := b.join()
	if lb != nil {
		lb.brk = done
	}
	var def *ast.CaseClause
	for _, cl := range s.Body.List {
		cc := cl.(*ast.CaseClause)
		if cc.List == nil {
			def = cc
			continue
		}
		body, next := b.join(), b.join()
		v := b.add(KTypeCase, cc)
		v.TypeSwitchX = x
		b.edge(v, body, ETrue)
		b.edge(v, next, EFalse)
		b.cur = body
		b.targets = &targets{tail: b.targets, brk: done}
		b.stmtList(cc.Body)
		b.targets = b.targets.tail
		b.jump(done)
		b.cur = next
	}
	if def != nil {
		b.targets = &targets{tail: b.targets, brk: done}
		b.stmtList(def.Body)
		b.targets = b.targets.tail
	}
	b.jump(done)
	b.cur = done
}

func (b *builder) selectStmt(s *ast.SelectStmt, lb *lblock) {
	head := b.add(KSelect, s)
	done := b.join()
	if lb != nil {
		lb.brk = done
	}
	for _, cl := range s.Body.List {
		cc := cl.(*ast.CommClause)
		start := b.join()
		e := b.edge(head, start, ESelect)
		if e != nil {
			e.Comm = cc
		}
		b.cur = start
		if cc.Comm != nil {
			b.stmt(cc.Comm, nil)
		}
		b.targets = &targets{tail: b.targets, brk: done}
		b.stmtList(cc.Body)
		b.targets = b.targets.tail
		b.jump(done)
	}
	b.cur = done
	if len(s.Body.List) == 0 {
		b.cur = nil // select{} blocks forever
	}
}

func (b *builder) forStmt(s *ast.ForStmt, lb *lblock) {
	if s.Init != nil {
		b.stmt(s.Init, nil)
	}
	loop, body, done := b.join(), b.join(), b.join()
	cont := loop
	if s.Post != nil {
		cont = b.join()
	}
	if lb != nil {
		lb.brk, lb.cont = done, cont
	}
	b.jump(loop)
	b.cur = loop
	if s.Cond != nil {
		b.cond(s.Cond, body, done)
	} else {
		b.jump(body)
	}
	b.cur = body
	b.targets = &targets{tail: b.targets, brk: done, cont: cont}
	b.stmt(s.Body, nil)
	b.targets = b.targets.tail
	b.jump(cont)
	if s.Post != nil {
		b.cur = cont
		b.stmt(s.Post, nil)
		b.jump(loop)
	}
	b.cur = done
}

func (b *builder) rangeStmt(s *ast.RangeStmt, lb *lblock) {
	head := b.newV(KRange, s)
	body, done := b.join(), b.join()
	if lb != nil {
		lb.brk, lb.cont = done, head
	}
	b.jump(head)
	b.edge(head, body, ERangeIn)
	b.edge(head, done, ERangeDone)
	b.cur = body
	b.targets = &targets{tail: b.targets, brk: done, cont: head}
	b.stmt(s.Body, nil)
	b.targets = b.targets.tail
	b.jump(head)
	b.cur = done
}

// ---------------------------------------------------------------- literals

// iife returns the literal of an immediately invoked function literal
// without arguments, `func() T { ... }()`, or nil.
func iife(e ast.Expr) *ast.FuncLit {
	for {
		p, ok := e.(*ast.ParenExpr)
		if !ok {
			break
		}
		e = p.X
	}
	call, ok := e.(*ast.CallExpr)
	if !ok || len(call.Args) != 0 {
		return nil
	}
	fun := call.Fun
	for {
		p, ok := fun.(*ast.ParenExpr)
		if !ok {
			break
		}
		fun = p.X
	}
	lit, _ := fun.(*ast.FuncLit)
	if lit == nil || (lit.Type.Params != nil && len(lit.Type.Params.List) != 0) {
		return nil
	}
	return lit
}

// IIFE is iife for other packages.
func IIFE(e ast.Expr) *ast.FuncLit { return iife(e) }

// Spliceable reports whether the body of an immediately invoked literal is
// part of the graph of the enclosing function.
func Spliceable(lit *ast.FuncLit) bool { return spliceable(lit) }

// spliceable: the body of the literal means the same when it is executed as
// part of the enclosing function: no defer / recover (they are tied to the
// literal's own frame), no named results, no labels or goto.
func spliceable(lit *ast.FuncLit) bool {
	if lit.Type.Results != nil {
		for _, f := range lit.Type.Results.List {
			if len(f.Names) > 0 {
				return false
			}
		}
	}
	ok := true
	ast.Inspect(lit.Body, func(n ast.Node) bool {
		switch x := n.(type) {
		case *ast.FuncLit:
			return false
		case *ast.LabeledStmt:
			ok = false
		case *ast.DeferStmt:
			// a defer is tied to the literal's own frame; the splice can
			// honour it only when it is registered unconditionally, as a
			// direct statement of the body, and defers a plain call
			top := false
			for _, st := range lit.Body.List {
				if st == ast.Stmt(x) {
					top = true
				}
			}
			if _, isLit := x.Call.Fun.(*ast.FuncLit); !top || isLit {
				ok = false
			}
		case *ast.BranchStmt:
			if x.Tok == token.GOTO {
				ok = false
			}
		case *ast.CallExpr:
			if id, isId := x.Fun.(*ast.Ident); isId && id.Name == "recover" {
				ok = false
			}
		}
		return ok
	})
	return ok
}

// boolTemps finds the hoisted boolean temporaries of a function body: a name
// that is defined exactly once in the whole body (nested literals included),
// by `x := e` or `var x = e`, where e is built from comparisons and logical
// operators over identifiers and literals only, none of which is ever
// assigned, incremented or has its address taken anywhere in the body, and x
// itself is never written again. Testing x then means testing e: nothing e
// reads can have changed between the definition and the test. The analysis
// is by name and therefore conservative (a second declaration of the name in
// any scope disqualifies it).
func boolTemps(body *ast.BlockStmt) map[string]ast.Expr {
	defs := map[string]int{}      // declarations per name
	written := map[string]bool{}  // assigned / incremented / address taken
	cand := map[string]ast.Expr{} // name -> defining expression
	declare := func(e ast.Expr) {
		if id, ok := e.(*ast.Ident); ok && id.Name != "_" {
			defs[id.Name]++
		}
	}
	root := func(e ast.Expr) *ast.Ident {
		for {
			switch x := e.(type) {
			case *ast.Ident:
				return x
			case *ast.ParenExpr:
				e = x.X
			case *ast.SelectorExpr:
				e = x.X
			case *ast.IndexExpr:
				e = x.X
			case *ast.StarExpr:
				e = x.X
			default:
				return nil
			}
		}
	}
	ast.Inspect(body, func(n ast.Node) bool {
		switch x := n.(type) {
		case *ast.AssignStmt:
			if x.Tok == token.DEFINE {
				for i, l := range x.Lhs {
					declare(l)
					if id, ok := l.(*ast.Ident); ok && len(x.Lhs) == len(x.Rhs) {
						cand[id.Name] = x.Rhs[i]
					}
				}
			} else {
				for _, l := range x.Lhs {
					if id := root(l); id != nil {
						written[id.Name] = true
					}
				}
			}
		case *ast.IncDecStmt:
			if id := root(x.X); id != nil {
				written[id.Name] = true
			}
		case *ast.UnaryExpr:
			if x.Op == token.AND {
				if id := root(x.X); id != nil {
					written[id.Name] = true
				}
			}
		case *ast.RangeStmt:
			if x.Tok == token.DEFINE {
				if x.Key != nil {
					declare(x.Key)
				}
				if x.Value != nil {
					declare(x.Value)
				}
			} else {
				for _, l := range []ast.Expr{x.Key, x.Value} {
					if l != nil {
						if id := root(l); id != nil {
							written[id.Name] = true
						}
					}
				}
			}
		case *ast.ValueSpec:
			for i, id := range x.Names {
				declare(id)
				if len(x.Values) == len(x.Names) {
					cand[id.Name] = x.Values[i]
				}
			}
		case *ast.FuncLit:
			for _, fl := range [](*ast.FieldList){x.Type.Params, x.Type.Results} {
				if fl == nil {
					continue
				}
				for _, f := range fl.List {
					for _, id := range f.Names {
						declare(id)
					}
				}
			}
		case *ast.TypeSwitchStmt:
			if as, ok := x.Assign.(*ast.AssignStmt); ok {
				for _, l := range as.Lhs {
					declare(l)
					declare(l) // one object per clause: never a temporary
				}
			}
		}
		return true
	})
	var pure func(e ast.Expr, top bool) bool
	pure = func(e ast.Expr, top bool) bool {
		switch x := e.(type) {
		case *ast.ParenExpr:
			return pure(x.X, top)
		case *ast.BinaryExpr:
			switch x.Op {
			case token.EQL, token.NEQ, token.LSS, token.LEQ, token.GTR, token.GEQ, token.LAND, token.LOR:
				return pure(x.X, false) && pure(x.Y, false)
			}
			return false
		case *ast.UnaryExpr:
			return x.Op == token.NOT && pure(x.X, false)
		case *ast.BasicLit:
			return !top
		case *ast.Ident:
			if top {
				return false
			}
			return x.Name == "nil" || x.Name == "true" || x.Name == "false" || (!written[x.Name] && defs[x.Name] <= 1)
		}
		return false
	}
	out := map[string]ast.Expr{}
	for name, e := range cand {
		if defs[name] == 1 && !written[name] && pure(e, true) {
			out[name] = e
		}
	}
	return out
}

// runLitDefers emits, at an exit of a spliced literal, the calls its
// top-level defers registered so far, last one first.
func (b *builder) runLitDefers() {
	for i := len(b.litDefers) - 1; i >= 0 && b.cur != nil; i-- {
		d := b.litDefers[i]
		b.add(KStmt, &ast.ExprStmt{X: d.Call})
	}
}

func hasDefer(lit *ast.FuncLit) bool {
	for _, st := range lit.Body.List {
		if _, ok := st.(*ast.DeferStmt); ok {
			return true
		}
	}
	return false
}

func boolResult(lit *ast.FuncLit) bool {
	r := lit.Type.Results
	if r == nil || len(r.List) != 1 || len(r.List[0].Names) > 1 {
		return false
	}
	id, ok := r.List[0].Type.(*ast.Ident)
	return ok && id.Name == "bool"
}

// splice builds the body of an immediately invoked literal in place; rc says
// where its return statements lead (nil: they are returns of the function).
func (b *builder) splice(lit *ast.FuncLit, rc *retCtx) {
	savedRet, savedTargets, savedLabels := b.ret, b.targets, b.labels
	savedDefers := b.litDefers
	b.litDefers = nil
	if rc != nil {
		// (rc == nil: the literal's exits are exits of the function, its
		// defers are defers of the function registered last, run first)
		if b.litTop == nil {
			b.litTop = map[*ast.DeferStmt]bool{}
		}
		for _, st := range lit.Body.List {
			if d, ok := st.(*ast.DeferStmt); ok {
				b.litTop[d] = true
			}
		}
	}
	defer func() { b.litDefers = savedDefers }()
	b.ret, b.targets, b.labels = rc, nil, map[string]*lblock{}
	b.stmtList(lit.Body.List)
	if b.cur != nil {
		// falling off the end of a literal without results
		if rc != nil {
			b.runLitDefers()
		}
		switch {
		case rc == nil:
			r := b.newV(KReturn, nil)
			b.edge(b.cur, r, EPlain)
			b.edge(r, b.g.Exit, EPlain)
			b.cur = nil
		case rc.cont != nil:
			b.jump(rc.cont)
		default:
			b.cur = nil
		}
	}
	b.ret, b.targets, b.labels = savedRet, savedTargets, savedLabels
}

// spliced lowers a return statement of a spliced literal.
func (b *builder) spliced(s *ast.ReturnStmt, rc *retCtx) {
	switch {
	case rc.t != nil:
		if len(s.Results) != 1 {
			b.cur = nil
			return
		}
		b.cond(s.Results[0], rc.t, rc.f)
	case rc.assign != nil && len(s.Results) > 0:
		// the results become the operands of the assignment the literal's
		// value was used in
		v := b.add(KStmt, &ast.AssignStmt{Lhs: rc.assign.Lhs, TokPos: s.Return, Tok: rc.assign.Tok, Rhs: s.Results})
		b.synth = append(b.synth, v)
		b.runLitDefers()
		b.jump(rc.cont)
	default:
		for _, r := range s.Results {
			b.add(KStmt, &ast.ExprStmt{X: r})
		}
		b.runLitDefers()
		b.jump(rc.cont)
	}
}

// ---------------------------------------------------------------- queries

// VertexOf returns the vertex at which node n (a statement or a condition
// atom) is evaluated, or nil.
func (g *Graph) VertexOf(n ast.Node) *Vertex { return g.vertexOf[n] }

// OwnNodes returns the AST nodes evaluated at v itself (for compound
// statements only the header parts).
func (v *Vertex) OwnNodes() []ast.Node {
	switch n := v.Node.(type) {
	case nil:
		return nil
	case *ast.RangeStmt:
		var out []ast.Node
		if n.Key != nil {
			out = append(out, n.Key)
		}
		if n.Value != nil {
			out = append(out, n.Value)
		}
		out = append(out, n.X)
		return out
	case *ast.SelectStmt:
		return nil
	case *ast.CaseClause:
		var out []ast.Node
		for _, e := range n.List {
			out = append(out, e)
		}
		return out
	default:
		return []ast.Node{n}
	}
}

// Inspect walks the nodes evaluated at v. Function literals are entered only
// if intoLits is set.
func (v *Vertex) Inspect(intoLits bool, f func(ast.Node) bool) {
	for _, n := range v.OwnNodes() {
		ast.Inspect(n, func(n ast.Node) bool {
			if n == nil {
				return false
			}
			if _, ok := n.(*ast.FuncLit); ok && !intoLits {
				return false
			}
			return f(n)
		})
	}
}

// Containing returns the vertex whose own nodes contain the position range of
// n (n need not be a top-level statement), not descending into function
// literals unless intoLits.
func (g *Graph) Containing(n ast.Node, intoLits bool) *Vertex {
	if v := g.vertexOf[n]; v != nil {
		return v
	}
	var found *Vertex
	for _, v := range g.V {
		v.Inspect(intoLits, func(m ast.Node) bool {
			if m == n {
				found = v
			}
			return found == nil
		})
		if found != nil {
			return found
		}
	}
	return nil
}

// EdgeSet is a set of edges.
type EdgeSet map[*Edge]bool

// Reach returns the vertices reachable from `from` without traversing an
// edge of cut and without leaving a vertex of stop (stop vertices are
// included in the result but not expanded).
func (g *Graph) Reach(from *Vertex, cut EdgeSet, stop map[*Vertex]bool) map[*Vertex]bool {
	seen := map[*Vertex]bool{from: true}
	work := []*Vertex{from}
	for len(work) > 0 {
		v := work[len(work)-1]
		work = work[:len(work)-1]
		if stop[v] && v != from {
			continue
		}
		for _, e := range v.Out {
			if cut[e] || seen[e.To] {
				continue
			}
			seen[e.To] = true
			work = append(work, e.To)
		}
	}
	return seen
}

// PathTo returns one path (as vertices) from `from` to `to` avoiding cut, or
// nil.
func (g *Graph) PathTo(from, to *Vertex, cut EdgeSet) []*Vertex {
	prev := map[*Vertex]*Vertex{from: nil}
	work := []*Vertex{from}
	for len(work) > 0 {
		v := work[0]
		work = work[1:]
		if v == to {
			var p []*Vertex
			for x := to; x != nil; x = prev[x] {
				p = append([]*Vertex{x}, p...)
			}
			return p
		}
		for _, e := range v.Out {
			if cut[e] {
				continue
			}
			if _, ok := prev[e.To]; ok {
				continue
			}
			prev[e.To] = v
			work = append(work, e.To)
		}
	}
	return nil
}

// BackReach returns the vertices from which `to` is reachable without
// traversing an edge of cut.
func (g *Graph) BackReach(to *Vertex, cut EdgeSet) map[*Vertex]bool {
	seen := map[*Vertex]bool{to: true}
	work := []*Vertex{to}
	for len(work) > 0 {
		v := work[len(work)-1]
		work = work[:len(work)-1]
		for _, e := range v.In {
			if cut[e] || seen[e.From] {
				continue
			}
			seen[e.From] = true
			work = append(work, e.From)
		}
	}
	return seen
}

// Live reports whether v is reachable from the entry.
func (g *Graph) Live() map[*Vertex]bool { return g.Reach(g.Entry, nil, nil) }

// Returns lists the return vertices (explicit and implicit) that are live.
func (g *Graph) Returns() []*Vertex {
	live := g.Live()
	var out []*Vertex
	for _, v := range g.V {
		if v.Kind == KReturn && live[v] {
			out = append(out, v)
		}
	}
	return out
}

// Pos returns a position for v (NoPos for synthetic vertices).
func (v *Vertex) Pos() token.Pos {
	if v.Node == nil {
		return token.NoPos
	}
	if r, ok := v.Node.(*ast.RangeStmt); ok {
		return r.For
	}
	return v.Node.Pos()
}
