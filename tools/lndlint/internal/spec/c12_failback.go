package spec

import (
	"go/ast"
	"strings"

	"lndlint/internal/an"
)

// failBackSites: the state machine fails HTLCs back upstream by handing the
// index set of a chain action to abandonForwards.  Whether it does so must
// depend only on that set being non-empty (and on the stage the step is in),
// not on which commitment confirmed or who triggered the close.
func failBackSites(r *an.Run) {
	p := r.Prog
	r.Obl("fail-back-sites-depend-only-on-their-action-set", "GUARD",
		"in ChannelArbitrator.stateStep every abandonForwards call is given the index set of chain actions, and the calls made once a commitment confirmed (StateContractClosed: the dangling and dust sets, or every offered HTLC of the remote commitments on a breach) are dominated by no other condition than the emptiness test of that set, the stage of the step, the breach test and earlier error tests; the early pass of StateDefault may be narrower, what it leaves out is failed back after confirmation",
		"an extra condition (which commitment confirmed, the trigger) leaves offered dust or dangling HTLCs of exactly those closes without their upstream fail: the incoming HTLC stays locked until it times out on chain", 2,
		func(o *an.Obl) {
			f := p.Func("contractcourt.ChannelArbitrator.stateStep")
			sites := f.Calls(an.CalleeIs("contractcourt.ChannelArbitrator.abandonForwards"), false)
			if !need(o, f, "abandonForwards", sites, 2) {
				return
			}
			allowed := []string{
				`^len\([A-Za-z]+\) > 0$`,                                 // the action set is not empty
				`^!\(len\([A-Za-z]+\) == 0`,                              // idem, other spelling
				`^!\(err != nil\)$`,                                      // earlier steps succeeded
				`^c\.state == State[A-Za-z]+$`,                           // the stage (switch case)
				`^!\(c\.state == State[A-Za-z]+\)$`,                      // an earlier stage case not taken
				`^!?\(?contractResolutions\.BreachResolution != nil\)?$`, // breach close: every outgoing HTLC / otherwise the dangling set
				`^!\(len\(chainActions\) == 0\)$`,                        // not the no-actions early exit
				`^!\(trigger == chainTrigger\)$`,                         // second atom of that early exit
				`^!\(len\(chainActions\) == 0 && trigger == chainTrigger\)$`,
			}
			for _, s := range sites {
				a := f.ArgCanon(s)
				o.Site("%s set=%s guards=%v", s.String(), a[0], f.GuardsAt(s))
				if !strings.Contains(a[0], "HtlcIndex") && !strings.Contains(a[0], "NewSet") && !strings.Contains(a[0], "Set[") {
					o.FailAt(f.ID+"#fail-back-set", s.Where(), "abandonForwards is given %s, expected the index set of a chain action", a[0])
				}
				// Since b3aa835 the StateDefault pass is an early fail-back
				// only: whatever it leaves out is failed back once a
				// commitment confirmed (confirmed-commitment-dust-is-failed-
				// back-once), so an extra condition there loses nothing.
				early := false
				for _, g := range f.GuardsAt(s) {
					if g == "c.state == StateDefault" {
						early = true
					}
				}
				if early {
					continue
				}
				for _, g := range f.GuardsAt(s) {
					ok := false
					for _, re := range allowed {
						if reMatch(re, g) {
							ok = true
						}
					}
					if !ok {
						o.FailAt(f.ID+"#fail-back-extra-condition", s.Where(), "the upstream fail-back at %s additionally depends on %q", s.Where(), g)
					}
				}
			}
			_ = ast.Inspect
		})
}
