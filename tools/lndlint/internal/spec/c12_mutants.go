package spec

func init() {
	const arb = "contractcourt/channel_arbitrator.go"
	registry["C12"].Mutants = []Mutant{
		// go-to-chain-predicate
		{Name: "cutoff-boundary-inclusive", File: arb,
			Old: "	if currentHeight < broadcastCutOff {", New: "	if currentHeight <= broadcastCutOff {",
			Expect: "go-to-chain-predicate"},
		{Name: "cutoff-adds-delta", File: arb,
			Old: "	broadcastCutOff := htlc.RefundTimeout - broadcastDelta", New: "	broadcastCutOff := htlc.RefundTimeout + broadcastDelta",
			Expect: "go-to-chain-predicate"},
		{Name: "incoming-verdict-inverted", File: arb,
			Old: "	if htlc.Incoming {\n		return true", New: "	if !htlc.Incoming {\n		return true",
			Expect: "go-to-chain-predicate"},
		{Name: "outgoing-verdict-needs-both", File: arb,
			Old: "	return isForwarded || upTime > c.cfg.PaymentsExpirationGracePeriod", New: "	return isForwarded && upTime > c.cfg.PaymentsExpirationGracePeriod",
			Expect: "go-to-chain-predicate"},

		// deltas-and-preimage-by-direction
		{Name: "incoming-htlc-timed-with-outgoing-delta", File: arb,
			Old: "			htlc, c.cfg.IncomingBroadcastDelta, height,", New: "			htlc, c.cfg.OutgoingBroadcastDelta, height,",
			Expect: "deltas-and-preimage-by-direction"},
		{Name: "outgoing-watch-timed-with-incoming-delta", File: arb,
			Old: "		case !c.shouldGoOnChain(htlc, c.cfg.OutgoingBroadcastDelta,", New: "		case !c.shouldGoOnChain(htlc, c.cfg.IncomingBroadcastDelta,",
			Expect: "deltas-and-preimage-by-direction"},
		{Name: "incoming-counted-without-preimage", File: arb,
			Old: "		if !preimageAvailable {\n			continue\n		}\n\n		toChain := c.shouldGoOnChain(", New: "		if !preimageAvailable && htlc.OutputIndex < 0 {\n			continue\n		}\n\n		toChain := c.shouldGoOnChain(",
			Expect: "deltas-and-preimage-by-direction"},
		{Name: "dangling-timed-with-incoming-delta", File: arb,
			Old: "		goToChain := c.shouldGoOnChain(htlc, c.cfg.OutgoingBroadcastDelta,", New: "		goToChain := c.shouldGoOnChain(htlc, c.cfg.IncomingBroadcastDelta,",
			Expect: "deltas-and-preimage-by-direction"},

		// one-disposition-per-htlc
		{Name: "incoming-dust-also-watched", File: arb,
			Old: "				actionMap[HtlcIncomingDustFinalAction], htlc,\n			)\n\n			continue\n", New: "				actionMap[HtlcIncomingDustFinalAction], htlc,\n			)\n",
			Expect: "one-disposition-per-htlc"},
		{Name: "outgoing-dust-boundary-includes-output-zero", File: arb,
			Old: "		case htlc.OutputIndex < 0:", New: "		case htlc.OutputIndex <= 0:",
			Expect: "one-disposition-per-htlc"},
		{Name: "incoming-dust-gets-no-disposition", File: arb,
			Old: "			actionMap[HtlcIncomingDustFinalAction] = append(\n				actionMap[HtlcIncomingDustFinalAction], htlc,\n			)\n\n			continue\n", New: "			continue\n",
			Expect: "one-disposition-per-htlc"},
		{Name: "due-outgoing-htlc-also-failed-as-dust", File: arb,
			Old: "			actionMap[HtlcTimeoutAction] = append(\n				actionMap[HtlcTimeoutAction], htlc,\n			)\n", New: "			actionMap[HtlcTimeoutAction] = append(\n				actionMap[HtlcTimeoutAction], htlc,\n			)\n			if htlc.Amt == 0 {\n				actionMap[HtlcFailDustAction] = append(\n					actionMap[HtlcFailDustAction], htlc,\n				)\n			}\n",
			Expect: "one-disposition-per-htlc"},

		// dangling-htlcs-failed-back-only-when-safe
		{Name: "diff-fails-back-htlcs-on-confirmed-commitment", File: arb,
			Old: "		if _, ok := remoteHtlcs[htlc.HtlcIndex]; ok {", New: "		if _, ok := remoteHtlcs[htlc.HtlcIndex]; !ok {",
			Expect: "dangling-htlcs-failed-back-only-when-safe"},
		{Name: "diff-fails-back-when-preimage-known", File: arb,
			Old: "		if preimageAvailable {\n			continue\n		}\n\n		// Dust HTLCs on the remote commitment can be failed back.", New: "		if !preimageAvailable {\n			continue\n		}\n\n		// Dust HTLCs on the remote commitment can be failed back.",
			Expect: "dangling-htlcs-failed-back-only-when-safe"},
		{Name: "dangling-dust-failed-back-despite-preimage", File: arb,
			Old: "		if preimageAvailable {\n			continue\n		}\n\n		// Dust htlcs can be canceled back even before", New: "		if preimageAvailable && htlc.OutputIndex >= 0 {\n			continue\n		}\n\n		// Dust htlcs can be canceled back even before",
			Expect: "dangling-htlcs-failed-back-only-when-safe"},
		{Name: "diff-dust-also-reported-dangling", File: arb,
			Old: "				actionMap[HtlcFailDustAction], htlc,\n			)\n\n			continue\n		}\n\n		actionMap[HtlcFailDanglingAction]", New: "				actionMap[HtlcFailDustAction], htlc,\n			)\n		}\n\n		actionMap[HtlcFailDanglingAction]",
			Expect: "dangling-htlcs-failed-back-only-when-safe"},
		{Name: "diff-dangling-set-not-swapped-when-pending", File: arb,
			Old: "		danglingHTLCs = activeHTLCs[RemoteHtlcSet]", New: "		danglingHTLCs = activeHTLCs[RemotePendingHtlcSet]",
			Expect: "dangling-htlcs-failed-back-only-when-safe"},
		{Name: "dangling-fails-back-before-confirmation-or-expiry", File: arb,
			Old: "		if !goToChain && !commitsConfirmed {", New: "		if !goToChain && commitsConfirmed {",
			Expect: "dangling-htlcs-failed-back-only-when-safe"},
		{Name: "dangling-candidates-taken-from-local-commitment", File: arb,
			Old: "		if _, ok := localHTLCs[htlcIndex]; ok {", New: "		if _, ok := localHTLCs[htlcIndex]; !ok {",
			Expect: "dangling-htlcs-failed-back-only-when-safe"},

		// chain-actions-consumed
		{Name: "dangling-action-never-read", File: arb,
			Old: "				htlcActions[HtlcFailDanglingAction], getIdx,", New: "				htlcActions[HtlcFailDustAction], getIdx,",
			Expect: "chain-actions-consumed"},
		{Name: "incoming-dust-final-action-never-read", File: arb,
			Old: "				htlcActions[HtlcIncomingDustFinalAction],", New: "				htlcActions[HtlcIncomingWatchAction],",
			Expect: "chain-actions-consumed"},

		// confirmed-commitment-selects-evaluation
		{Name: "pending-commitment-evaluated-as-current", File: arb,
			Old: "	case RemotePendingHtlcSet:\n		return c.checkRemoteChainActions(\n			height, trigger, htlcSets, true,", New: "	case RemotePendingHtlcSet:\n		return c.checkRemoteChainActions(\n			height, trigger, htlcSets, false,",
			Expect: "confirmed-commitment-selects-evaluation"},
		{Name: "remote-evaluation-picks-wrong-confirmed-set", File: arb,
			Old: "	if pendingConf {\n		confHTLCs = activeHTLCs[RemotePendingHtlcSet]\n	}", New: "	if !pendingConf {\n		confHTLCs = activeHTLCs[RemotePendingHtlcSet]\n	}",
			Expect: "confirmed-commitment-selects-evaluation"},
		{Name: "watcher-records-current-key-for-pending-commit", File: "contractcourt/chain_watcher.go",
			Old: "		chainSet.commitSet.ConfCommitKey = fn.Some(RemotePendingHtlcSet)", New: "		chainSet.commitSet.ConfCommitKey = fn.Some(RemoteHtlcSet)",
			Expect: "confirmed-commitment-selects-evaluation"},
		{Name: "watcher-records-local-key-for-remote-commit", File: "contractcourt/chain_watcher.go",
			Old: "		chainSet.commitSet.ConfCommitKey = fn.Some(RemoteHtlcSet)", New: "		chainSet.commitSet.ConfCommitKey = fn.Some(LocalHtlcSet)",
			Expect: "confirmed-commitment-selects-evaluation"},

		// one-resolver-per-resolved-htlc
		{Name: "timeout-resolver-built-without-resolution", File: arb,
			Old: "						\"outgoing resolution: %v\", c.cfg.ChanPoint, htlcOp)\n					continue\n", New: "						\"outgoing resolution: %v\", c.cfg.ChanPoint, htlcOp)\n",
			Expect: "one-resolver-per-resolved-htlc"},
		{Name: "success-resolver-never-appended", File: arb,
			Old: "				htlcResolvers = append(htlcResolvers, resolver)\n			}\n\n		// If we can timeout the HTLC directly,", New: "			}\n\n		// If we can timeout the HTLC directly,",
			Expect: "one-resolver-per-resolved-htlc"},
		{Name: "incoming-contest-built-for-dust-final-action", File: arb,
			Old: "		case HtlcIncomingWatchAction:\n			for _, htlc := range htlcs {", New: "		case HtlcIncomingDustFinalAction:\n			for _, htlc := range htlcs {",
			Expect: "one-resolver-per-resolved-htlc"},
	}
}
