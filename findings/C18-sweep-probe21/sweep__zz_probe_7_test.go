package sweep

import (
	"testing"

	"github.com/lightningnetwork/lnd/fn/v2"
	"github.com/lightningnetwork/lnd/lnwallet/chainfee"
	"github.com/stretchr/testify/require"
)

// Probe 7: the retry's ceiling is at or below the fee rate already offered
// (the set shrank, or the input left a richer group). The best that can be
// done is to offer the ceiling right away. Instead NewLinearFeeFunction caps
// start to end, finds a zero delta and fails with ErrZeroFeeRateDelta unless
// the deadline is two blocks away: the attempt fails (TxFailed, fee rate 0),
// the inputs' StartingFeeRate is reset to Some(0), which BudgetInputSet treats
// as unset, and the next attempt starts again from the estimator's answer.
func TestProbeRetryCeilingBelowOfferedRate(t *testing.T) {
	t.Parallel()

	estimator := &chainfee.MockEstimator{}
	estimator.On("RelayFeePerKW").Return(chainfee.FeePerKwFloor).Maybe()

	ceiling := chainfee.SatPerKWeight(2000)
	offered := chainfee.SatPerKWeight(5000)

	f, err := NewLinearFeeFunction(ceiling, 10, estimator, fn.Some(offered))
	require.NoError(t, err, "no fee function when the fee rate already "+
		"offered reaches the new ceiling")
	require.Equal(t, ceiling, f.FeeRate())
}
