package htlcswitch

import (
	"testing"
	"time"

	"github.com/btcsuite/btcd/btcutil/v2"
	"github.com/lightningnetwork/lnd/lnwallet"
	"github.com/lightningnetwork/lnd/lnwire"
	"github.com/stretchr/testify/require"
)

// TestProbe4EarlyRemoteFail has the peer send update_fail_htlc for an outgoing
// Add that we have only sent, but that is not yet locked in on both
// commitments. BOLT-2 requires the receiver to fail the channel (as the link
// does for an early update_fulfill_htlc).
func TestProbe4EarlyRemoteFail(t *testing.T) {
	t.Parallel()

	for _, signed := range []bool{false, true} {
		name := "add only sent"
		if signed {
			name = "add signed by us and revoked by peer"
		}
		t.Run(name, func(t *testing.T) {
			probe4EarlyRemoteFail(t, signed)
		})
	}
}

func probe4EarlyRemoteFail(t *testing.T, signed bool) {
	const chanAmt = btcutil.SatoshiPerBitcoin * 5
	const chanReserve = btcutil.SatoshiPerBitcoin * 1
	harness, err := newSingleLinkTestHarness(t, chanAmt, chanReserve)
	require.NoError(t, err)

	var (
		//nolint:forcetypeassert
		coreLink = harness.aliceLink.(*channelLink)
		//nolint:forcetypeassert
		aliceMsgs = coreLink.cfg.Peer.(*mockPeer).sentMsgs
	)

	linkErrs := make(chan LinkFailureError, 10)
	coreLink.cfg.OnChannelFailure = func(_ lnwire.ChannelID,
		_ lnwire.ShortChannelID, linkErr LinkFailureError) {

		linkErrs <- linkErr
	}

	require.NoError(t, harness.start())

	ctx := linkTestContext{
		t:           t,
		aliceSwitch: harness.aliceSwitch,
		aliceLink:   harness.aliceLink,
		bobChannel:  harness.bobChannel,
		aliceMsgs:   aliceMsgs,
	}

	// Alice sends an Add to Bob.
	htlc, _ := generateHtlcAndInvoice(t, 0)
	ctx.sendHtlcAliceToBob(0, htlc)
	ctx.receiveHtlcAliceToBob()
	require.Equal(t, 1, harness.aliceSwitch.circuits.NumPending())

	if signed {
		// Alice signs, Bob revokes: the Add is on Bob's commitment
		// only.
		harness.aliceBatchTicker <- time.Now()
		ctx.receiveCommitSigAliceToBob(1)
		ctx.sendRevAndAckBobToAlice()
		time.Sleep(200 * time.Millisecond)
	}

	// Bob fails the Add right away, before it is locked in.
	reason := make([]byte, lnwire.FailureMessageLength+2+2+32)
	err = harness.bobChannel.FailHTLC(0, reason, nil, nil, nil)
	require.NoError(t, err)
	harness.aliceLink.HandleChannelUpdate(&lnwire.UpdateFailHTLC{
		ChanID: coreLink.ChanID(),
		ID:     0,
		Reason: reason,
	})

	select {
	case linkErr := <-linkErrs:
		require.Equal(t, ErrInvalidUpdate, linkErr.code)
		return

	case <-time.After(2 * time.Second):
	}

	// Diagnostics: the link accepted the early fail. See what follows.
	t.Logf("link accepted the early fail; open circuits=%d",
		harness.aliceSwitch.circuits.NumPending())

	_, err = harness.bobChannel.SignNextCommitment(t.Context())
	t.Logf("honest peer SignNextCommitment: err=%v", err)

	err = coreLink.channel.ReceiveNewCommitment(&lnwallet.CommitSigs{})
	t.Logf("our ReceiveNewCommitment for any sig covering the fail: "+
		"err=%v", err)

	t.Logf("open circuits after=%d (1 means nothing was failed back)",
		harness.aliceSwitch.circuits.NumPending())

	t.Fatalf("link did not fail on update_fail_htlc for an Add that is " +
		"not locked in")
}
