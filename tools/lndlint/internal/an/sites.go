package an

import (
	"fmt"
	"go/ast"
	"go/token"
	"go/types"
	"sort"
	"strings"
	"sync"

	"lndlint/internal/flow"
)

// Site is a construct of interest inside a function: an AST node together
// with the flow-graph vertex at which it is evaluated.
type Site struct {
	Fn   *Func
	V    *flow.Vertex
	Node ast.Node
}

// Where renders the site position.
func (s Site) Where() string {
	if s.Node != nil {
		return s.Fn.Where(s.Node.Pos())
	}
	if s.V != nil && s.V.Pos().IsValid() {
		return s.Fn.Where(s.V.Pos())
	}
	return s.Fn.Where(s.Fn.Body.Rbrace)
}

// String renders "func@file:line: text".
func (s Site) String() string {
	txt := ""
	if s.Node != nil {
		txt = Text(s.Node)
	} else if s.V != nil && s.V.Kind == flow.KReturn {
		txt = "<implicit return>"
	}
	return fmt.Sprintf("%s@%s: %s", s.Fn.ID, s.Where(), txt)
}

// Text renders an AST node compactly on one line.
func Text(n ast.Node) string {
	var s string
	switch x := n.(type) {
	case ast.Expr:
		s = types.ExprString(x)
	case *ast.ReturnStmt:
		parts := []string{}
		for _, r := range x.Results {
			parts = append(parts, types.ExprString(r))
		}
		s = "return " + strings.Join(parts, ", ")
	case *ast.AssignStmt:
		l, r := []string{}, []string{}
		for _, e := range x.Lhs {
			l = append(l, types.ExprString(e))
		}
		for _, e := range x.Rhs {
			r = append(r, types.ExprString(e))
		}
		s = strings.Join(l, ", ") + " " + x.Tok.String() + " " + strings.Join(r, ", ")
	case *ast.ExprStmt:
		s = types.ExprString(x.X)
	case *ast.IncDecStmt:
		s = types.ExprString(x.X) + x.Tok.String()
	case *ast.DeferStmt:
		s = "defer " + types.ExprString(x.Call)
	case *ast.GoStmt:
		s = "go " + types.ExprString(x.Call)
	case *ast.SendStmt:
		s = types.ExprString(x.Chan) + " <- " + types.ExprString(x.Value)
	case *ast.RangeStmt:
		s = "range " + types.ExprString(x.X)
	case *ast.CaseClause:
		parts := []string{}
		for _, r := range x.List {
			parts = append(parts, types.ExprString(r))
		}
		s = "case " + strings.Join(parts, ", ")
	default:
		s = fmt.Sprintf("%T", n)
	}
	s = strings.Join(strings.Fields(s), " ")
	if len(s) > 160 {
		s = s[:157] + "..."
	}
	return s
}

// CallPred selects calls.
type CallPred func(id string, call *ast.CallExpr) bool

var (
	queriedMu      sync.Mutex
	queriedCallees = map[string]bool{}
)

// QueriedCallees returns the callee IDs that rules asked for through CalleeIs
// so far (the functions whose call sites some rule inspects).
func QueriedCallees() map[string]bool {
	queriedMu.Lock()
	defer queriedMu.Unlock()
	out := map[string]bool{}
	for k := range queriedCallees {
		out[k] = true
	}
	return out
}

// CalleeIs matches calls whose resolved callee has one of the IDs.
func CalleeIs(ids ...string) CallPred {
	queriedMu.Lock()
	for _, id := range ids {
		queriedCallees[id] = true
	}
	queriedMu.Unlock()
	return func(id string, _ *ast.CallExpr) bool {
		for _, w := range ids {
			if id == w {
				return true
			}
		}
		return false
	}
}

// CalleeNamed matches calls whose resolved callee's last name component is
// one of names (any receiver / package). Use only for API names that are
// unique in the analysed packages.
func CalleeNamed(names ...string) CallPred {
	return func(id string, _ *ast.CallExpr) bool {
		i := strings.LastIndex(id, ".")
		if i < 0 {
			return false
		}
		for _, w := range names {
			if id[i+1:] == w {
				return true
			}
		}
		return false
	}
}

// Calls returns the call sites in f matching pred in source order. With
// intoLits calls inside nested function literals are included and attributed
// to the vertex of the statement that contains the literal.
func (f *Func) Calls(pred CallPred, intoLits bool) []Site {
	g := f.Graph()
	info := f.Info()
	var out []Site
	for _, v := range g.V {
		v.Inspect(intoLits, func(n ast.Node) bool {
			if c, ok := n.(*ast.CallExpr); ok {
				if pred(CalleeID(info, c), c) {
					out = append(out, Site{Fn: f, V: v, Node: c})
				}
			}
			return true
		})
	}
	sort.SliceStable(out, func(i, j int) bool { return out[i].Node.Pos() < out[j].Node.Pos() })
	return out
}

// AllCalls returns every call site (callee ID, site) of f, not entering
// literals.
func (f *Func) AllCalls(intoLits bool) []Site {
	return f.Calls(func(string, *ast.CallExpr) bool { return true }, intoLits)
}

// LitArgs returns the function literals passed as arguments to calls
// matching pred (as Funcs).
func (f *Func) LitArgs(pred CallPred) []*Func {
	var out []*Func
	for _, s := range f.Calls(pred, false) {
		for _, a := range s.Node.(*ast.CallExpr).Args {
			if fl, ok := ast.Unparen(a).(*ast.FuncLit); ok {
				if lf := f.litFunc(fl); lf != nil {
					out = append(out, lf)
				}
			}
		}
	}
	return out
}

// LitFunc returns the Func of a function literal nested in f.
func (f *Func) LitFunc(fl *ast.FuncLit) *Func { return f.litFunc(fl) }

func (f *Func) litFunc(fl *ast.FuncLit) *Func {
	root := f.Root()
	for _, l := range root.Lits {
		if l.Lit == fl {
			return l
		}
	}
	return nil
}

// Returns lists the live return sites of f.
func (f *Func) Returns() []Site {
	var out []Site
	for _, v := range f.Graph().Returns() {
		out = append(out, Site{Fn: f, V: v, Node: v.Node})
	}
	sort.SliceStable(out, func(i, j int) bool { return out[i].V.ID < out[j].V.ID })
	return out
}

// errResultIndex returns the index of the last result of type error, or -1.
func (f *Func) errResultIndex() int {
	rs := f.Results()
	for i := len(rs) - 1; i >= 0; i-- {
		if IsErrorType(rs[i]) {
			return i
		}
	}
	return -1
}

// IsNilIdent reports whether e is the predeclared nil.
func IsNilIdent(info *types.Info, e ast.Expr) bool {
	id, ok := ast.Unparen(e).(*ast.Ident)
	if !ok {
		return false
	}
	_, isNil := info.Uses[id].(*types.Nil)
	return isNil
}

// ReturnClass classifies a return site with respect to the function's error
// result.
type ReturnClass int

const (
	RetSuccess ReturnClass = iota // error result is the nil constant (or no error result)
	RetFailure                    // error result is a non-nil expression that is not a call
	RetTail                       // return g(...) / return err-variable: may be either
)

// ClassifyReturn decides whether a return is a success return.
func (f *Func) ClassifyReturn(s Site) ReturnClass {
	idx := f.errResultIndex()
	if idx < 0 {
		return RetSuccess
	}
	rs, _ := s.Node.(*ast.ReturnStmt)
	if rs == nil || len(rs.Results) == 0 {
		// implicit/bare return: with named results the value is whatever was
		// assigned; treat as tail (unknown).
		if s.Node == nil && len(f.Results()) == 0 {
			return RetSuccess
		}
		return RetTail
	}
	info := f.Info()
	if len(rs.Results) == 1 && len(f.Results()) > 1 {
		return RetTail // return g(...)
	}
	e := ast.Unparen(rs.Results[idx])
	if IsNilIdent(info, e) {
		return RetSuccess
	}
	switch x := e.(type) {
	case *ast.Ident:
		// a variable: unknown unless all reaching facts say non-nil; the
		// common idiom `if err != nil { return err }` is a failure return.
		if f.guardedNonNil(s, x) {
			return RetFailure
		}
		return RetTail
	case *ast.CallExpr:
		id := CalleeID(info, x)
		// error constructors
		if strings.HasPrefix(id, "fmt.Errorf") || strings.HasPrefix(id, "errors.New") ||
			strings.HasSuffix(id, ".Errorf") || strings.HasSuffix(id, ".New") ||
			strings.HasSuffix(id, ".Wrap") || strings.HasSuffix(id, ".Wrapf") {
			return RetFailure
		}
		if tv, ok := info.Types[x.Fun]; ok && tv.IsType() {
			if len(x.Args) == 1 && IsNilIdent(info, ast.Unparen(x.Args[0])) {
				return RetSuccess // error(nil)
			}
			return RetFailure // conversion to an error type
		}
		return RetTail
	case *ast.UnaryExpr, *ast.CompositeLit:
		return RetFailure // &SomeError{...}
	case *ast.SelectorExpr:
		// package-level sentinel error
		if obj, ok := info.Uses[x.Sel].(*types.Var); ok && obj.Parent() == obj.Pkg().Scope() {
			return RetFailure
		}
		// x.Err below `x.Err != nil`
		if ok, _ := f.Guarded(s, IsNil(TextIs(types.ExprString(x)), false, "")); ok {
			return RetFailure
		}
		return RetTail
	}
	return RetTail
}

// guardedNonNil reports whether the return site is reachable only through
// the `id != nil` edge of a condition on the same variable.
func (f *Func) guardedNonNil(s Site, id *ast.Ident) bool {
	obj := f.Info().Uses[id]
	if obj == nil {
		return false
	}
	if v, ok := obj.(*types.Var); ok && v.Parent() == v.Pkg().Scope() {
		return true // package-level sentinel
	}
	g := f.Graph()
	cut := flow.EdgeSet{}
	for _, v := range g.V {
		if v.Kind != flow.KCond {
			continue
		}
		be, ok := v.Node.(*ast.BinaryExpr)
		if !ok || (be.Op != token.NEQ && be.Op != token.EQL) {
			continue
		}
		var other ast.Expr
		if x, ok := ast.Unparen(be.X).(*ast.Ident); ok && f.Info().Uses[x] == obj {
			other = be.Y
		} else if y, ok := ast.Unparen(be.Y).(*ast.Ident); ok && f.Info().Uses[y] == obj {
			other = be.X
		}
		if other == nil || !IsNilIdent(f.Info(), other) {
			continue
		}
		for _, e := range v.Out {
			if (be.Op == token.NEQ && e.Kind == flow.ETrue) || (be.Op == token.EQL && e.Kind == flow.EFalse) {
				cut[e] = true
			}
		}
	}
	if len(cut) == 0 {
		return false
	}
	return !g.Reach(g.Entry, cut, nil)[s.V]
}

// SuccessReturns lists returns that may report success (RetSuccess and
// RetTail).
func (f *Func) SuccessReturns() []Site {
	var out []Site
	for _, r := range f.Returns() {
		if f.ClassifyReturn(r) != RetFailure {
			out = append(out, r)
		}
	}
	return out
}

// StrictSuccessReturns lists returns whose error result is the nil constant.
func (f *Func) StrictSuccessReturns() []Site {
	var out []Site
	for _, r := range f.Returns() {
		if f.ClassifyReturn(r) == RetSuccess {
			out = append(out, r)
		}
	}
	return out
}

// assignedObjs returns the objects assigned by statement n (define, assign,
// var decl, range key/value, inc/dec).
func assignedObjs(info *types.Info, n ast.Node) []types.Object {
	var out []types.Object
	add := func(e ast.Expr) {
		if id, ok := ast.Unparen(e).(*ast.Ident); ok {
			if o := info.Defs[id]; o != nil {
				out = append(out, o)
			} else if o := info.Uses[id]; o != nil {
				out = append(out, o)
			}
		}
	}
	switch x := n.(type) {
	case *ast.AssignStmt:
		for _, l := range x.Lhs {
			add(l)
		}
	case *ast.IncDecStmt:
		add(x.X)
	case *ast.RangeStmt:
		if x.Key != nil {
			add(x.Key)
		}
		if x.Value != nil {
			add(x.Value)
		}
	case *ast.DeclStmt:
		if gd, ok := x.Decl.(*ast.GenDecl); ok {
			for _, s := range gd.Specs {
				if vs, ok := s.(*ast.ValueSpec); ok {
					for _, nm := range vs.Names {
						add(nm)
					}
				}
			}
		}
	}
	return out
}

// OkMode selects what "the call succeeded" means.
type OkMode int

const (
	OkErrNil   OkMode = iota // the error result is nil
	OkBoolTrue               // the (last) bool result is true
	OkNonNil                 // the first result is non-nil
	OkPassed                 // the call was simply executed
	OkNil                    // the first result (a failure value such as *LinkError) is nil
)

// OkEdges returns the set of edges on which the call at site s is known to
// have succeeded under mode. If the call's outcome is never tested on some
// path the set simply has no edge there, so a "must pass" rule fails.
// direct is true when the call is itself the operand of a return statement.
func (f *Func) OkEdges(s Site, mode OkMode) (edges flow.EdgeSet, direct bool) {
	edges = flow.EdgeSet{}
	info := f.Info()
	call, _ := s.Node.(*ast.CallExpr)
	v := s.V
	if mode == OkPassed {
		for _, e := range v.Out {
			edges[e] = true
		}
		return edges, false
	}
	if v.Kind == flow.KReturn {
		for _, e := range v.Out {
			edges[e] = true
		}
		return edges, true
	}
	// call used directly inside a condition atom
	if v.Kind == flow.KCond || v.Kind == flow.KCase {
		atom := ast.Unparen(v.Node.(ast.Expr))
		switch mode {
		case OkBoolTrue:
			if atom == ast.Expr(call) {
				for _, e := range v.Out {
					if e.Kind == flow.ETrue {
						edges[e] = true
					}
				}
				return
			}
		}
		if be, ok := atom.(*ast.BinaryExpr); ok && (be.Op == token.EQL || be.Op == token.NEQ) {
			x, y := ast.Unparen(be.X), ast.Unparen(be.Y)
			var isNilCmp bool
			if x == ast.Expr(call) && IsNilIdent(info, y) || y == ast.Expr(call) && IsNilIdent(info, x) {
				isNilCmp = true
			}
			if isNilCmp {
				wantNil := mode == OkErrNil
				for _, e := range v.Out {
					eqTrue := (be.Op == token.EQL && e.Kind == flow.ETrue) || (be.Op == token.NEQ && e.Kind == flow.EFalse)
					if eqTrue == wantNil {
						edges[e] = true
					}
				}
				return
			}
		}
		return
	}
	// assignment: find the tested object
	var obj types.Object
	var lhs []ast.Expr
	switch st := v.Node.(type) {
	case *ast.AssignStmt:
		lhs = st.Lhs
		if len(st.Rhs) != 1 || ast.Unparen(st.Rhs[0]) != ast.Expr(call) {
			// call nested deeper (e.g. argument of another call): the result
			// is not tested by name
			return
		}
	case *ast.DeclStmt:
		if gd, ok := st.Decl.(*ast.GenDecl); ok && len(gd.Specs) == 1 {
			if vs, ok := gd.Specs[0].(*ast.ValueSpec); ok && len(vs.Values) == 1 && ast.Unparen(vs.Values[0]) == ast.Expr(call) {
				for _, n := range vs.Names {
					lhs = append(lhs, n)
				}
			}
		}
	}
	if len(lhs) == 0 {
		return
	}
	pick := func(e ast.Expr) types.Object {
		id, ok := ast.Unparen(e).(*ast.Ident)
		if !ok || id.Name == "_" {
			return nil
		}
		if o := info.Defs[id]; o != nil {
			return o
		}
		return info.Uses[id]
	}
	switch mode {
	case OkErrNil:
		for i := len(lhs) - 1; i >= 0; i-- {
			if o := pick(lhs[i]); o != nil && IsErrorType(o.Type()) {
				obj = o
				break
			}
		}
	case OkBoolTrue:
		for i := len(lhs) - 1; i >= 0; i-- {
			if o := pick(lhs[i]); o != nil {
				if b, ok := o.Type().Underlying().(*types.Basic); ok && b.Kind() == types.Bool {
					obj = o
					break
				}
			}
		}
	case OkNonNil, OkNil:
		obj = pick(lhs[0])
	}
	if obj == nil {
		return
	}
	isObj := func(e ast.Expr) bool {
		id, ok := ast.Unparen(e).(*ast.Ident)
		return ok && info.Uses[id] == obj
	}
	// forward traversal to the first tests of obj
	seen := map[*flow.Vertex]bool{v: true}
	work := []*flow.Vertex{}
	for _, e := range v.Out {
		work = append(work, e.To)
	}
	for len(work) > 0 {
		u := work[len(work)-1]
		work = work[:len(work)-1]
		if seen[u] {
			continue
		}
		seen[u] = true
		stop := false
		switch u.Kind {
		case flow.KCond:
			atom := ast.Unparen(u.Node.(ast.Expr))
			if mode == OkBoolTrue && isObj(atom) {
				for _, e := range u.Out {
					if e.Kind == flow.ETrue {
						edges[e] = true
					}
				}
				stop = true
			}
			if be, ok := atom.(*ast.BinaryExpr); ok && (be.Op == token.EQL || be.Op == token.NEQ) && mode != OkBoolTrue {
				if (isObj(be.X) && IsNilIdent(info, be.Y)) || (isObj(be.Y) && IsNilIdent(info, be.X)) {
					wantNil := mode == OkErrNil || mode == OkNil
					for _, e := range u.Out {
						eqTrue := (be.Op == token.EQL && e.Kind == flow.ETrue) || (be.Op == token.NEQ && e.Kind == flow.EFalse)
						if eqTrue == wantNil {
							edges[e] = true
						}
					}
					stop = true
				}
			}
		case flow.KCase:
			if u.Tag != nil && isObj(u.Tag) && IsNilIdent(info, u.Node.(ast.Expr)) && mode != OkBoolTrue {
				wantNil := mode == OkErrNil
				for _, e := range u.Out {
					if (e.Kind == flow.ETrue) == wantNil {
						edges[e] = true
					}
				}
				// the false edge continues to further cases on the same
				// tag, which is fine: they are not ok edges.
				stop = true
			}
		case flow.KReturn:
			// `return x, err` directly after the call: the caller sees the
			// error, equivalent to a tail call.
			if rs, ok := u.Node.(*ast.ReturnStmt); ok && mode == OkErrNil {
				for _, r := range rs.Results {
					if isObj(r) {
						for _, e := range u.Out {
							edges[e] = true
						}
					}
				}
			}
			stop = true
		default:
			for _, o := range assignedObjs(info, u.Node) {
				if o == obj {
					stop = true
				}
			}
		}
		if stop {
			continue
		}
		for _, e := range u.Out {
			work = append(work, e.To)
		}
	}
	return edges, false
}

// MustPass checks that every target is unreachable from the entry of f's
// graph once the edges in through are removed. It returns, per offending
// target, one witness path rendered as text.
func (f *Func) MustPass(targets []Site, through flow.EdgeSet) []string {
	g := f.Graph()
	reach := g.Reach(g.Entry, through, nil)
	var bad []string
	for _, t := range targets {
		if !reach[t.V] {
			continue
		}
		bad = append(bad, fmt.Sprintf("%s reachable on path %s", t.String(), f.RenderPath(g.PathTo(g.Entry, t.V, through))))
	}
	return bad
}

// RenderPath renders the branch decisions along a path.
func (f *Func) RenderPath(p []*flow.Vertex) string {
	var parts []string
	for i, v := range p {
		if i+1 >= len(p) {
			break
		}
		if v.Kind == flow.KCond || v.Kind == flow.KCase || v.Kind == flow.KTypeCase {
			for _, e := range v.Out {
				if e.To == p[i+1] {
					pol := "T"
					if e.Kind == flow.EFalse {
						pol = "F"
					}
					parts = append(parts, fmt.Sprintf("[%s:%d %s=%s]", "L", f.Pkg.Fset.Position(v.Pos()).Line, Text(v.Node), pol))
					break
				}
			}
		}
	}
	if len(parts) > 12 {
		parts = append(parts[:6], append([]string{"..."}, parts[len(parts)-5:]...)...)
	}
	if len(parts) == 0 {
		return "(straight line from entry)"
	}
	return strings.Join(parts, " ")
}

// Before checks that no path from entry reaches b without first passing one
// of the vertices of a (vertex-level dominance of the set a over b).
func (f *Func) Before(a []Site, b Site) bool {
	g := f.Graph()
	stop := map[*flow.Vertex]bool{}
	for _, s := range a {
		if s.V == b.V {
			// same statement: ordered by evaluation position
			if s.Node != nil && b.Node != nil && s.Node.Pos() <= b.Node.Pos() {
				return true
			}
		}
		stop[s.V] = true
	}
	if stop[g.Entry] {
		return true
	}
	reach := g.Reach(g.Entry, nil, stop)
	// reach includes stop vertices themselves; b reached only if b is not
	// behind them.
	if stop[b.V] {
		return true
	}
	return !reach[b.V]
}

// PostDominated checks that every path from site a to a function exit (normal
// return) passes one of the vertices of b, or that one of b is a deferred
// call registered on every path to a.
func (f *Func) PostDominated(a Site, b []Site) bool {
	g := f.Graph()
	stop := map[*flow.Vertex]bool{}
	var defers []Site
	for _, s := range b {
		if s.V.Kind == flow.KDefer {
			defers = append(defers, s)
			continue
		}
		stop[s.V] = true
	}
	for _, d := range defers {
		if f.Before([]Site{d}, a) {
			return true
		}
	}
	if stop[a.V] {
		return true
	}
	reach := g.Reach(a.V, nil, stop)
	return !reach[g.Exit]
}

// CallsMatching returns the call sites whose call expression matches term t.
func (f *Func) CallsMatching(t Term, intoLits bool) []Site {
	g := f.Graph()
	var out []Site
	for _, v := range g.V {
		v.Inspect(intoLits, func(n ast.Node) bool {
			if c, ok := n.(*ast.CallExpr); ok && t(f, c) {
				out = append(out, Site{Fn: f, V: v, Node: c})
			}
			return true
		})
	}
	sort.SliceStable(out, func(i, j int) bool { return out[i].Node.Pos() < out[j].Node.Pos() })
	return out
}

// Assigns returns the statements that assign (=, :=, op=, ++/--) to an
// expression matching lhs. Matching is on the assigned expression itself
// (no definition expansion).
func (f *Func) Assigns(lhs Term, intoLits bool) []Site {
	g := f.Graph()
	info := f.Info()
	var out []Site
	for _, v := range g.V {
		v.Inspect(intoLits, func(n ast.Node) bool {
			switch x := n.(type) {
			case *ast.AssignStmt:
				for _, l := range x.Lhs {
					if lhs(f, Strip(info, l)) {
						out = append(out, Site{Fn: f, V: v, Node: x})
						break
					}
				}
			case *ast.IncDecStmt:
				if lhs(f, Strip(info, x.X)) {
					out = append(out, Site{Fn: f, V: v, Node: x})
				}
			}
			return true
		})
	}
	sort.SliceStable(out, func(i, j int) bool { return out[i].Node.Pos() < out[j].Node.Pos() })
	return out
}

// UnionOk returns the union of the ok edges of the sites, and the set of
// vertices that contain a call directly returned.
func (f *Func) UnionOk(sites []Site, mode OkMode) (flow.EdgeSet, map[*flow.Vertex]bool) {
	all := flow.EdgeSet{}
	direct := map[*flow.Vertex]bool{}
	for _, s := range sites {
		es, d := f.OkEdges(s, mode)
		for e := range es {
			all[e] = true
			// an ok edge leaving a return vertex means the return hands
			// the call's own error to the caller (return f(...) or
			// `x, err := f(); return x, err`): the return is the tail
			if e.From.Kind == flow.KReturn {
				direct[e.From] = true
			}
		}
		if d {
			direct[s.V] = true
		}
	}
	return all, direct
}

// RequirePass is the MUST(A -> targets) rule: each target is reachable only
// through a success edge of one of the calls in through. Targets that are
// themselves a direct `return A(...)` are satisfied. It returns human
// readable failures.
func (f *Func) RequirePass(through []Site, mode OkMode, targets []Site) []string {
	es, direct := f.UnionOk(through, mode)
	var rest []Site
	for _, t := range targets {
		if !direct[t.V] {
			rest = append(rest, t)
		}
	}
	return f.MustPass(rest, es)
}

// StrictSuccessReturnsOrNilPtr lists the returns that report "no failure":
// for functions with an error result those whose error is the nil constant,
// otherwise (a single pointer result used as failure value, e.g. *LinkError)
// those returning the nil constant.
func (f *Func) StrictSuccessReturnsOrNilPtr() []Site {
	if f.errResultIndex() >= 0 {
		return f.StrictSuccessReturns()
	}
	var out []Site
	for _, r := range f.Returns() {
		rs, ok := r.Node.(*ast.ReturnStmt)
		if !ok || len(rs.Results) != 1 {
			continue
		}
		if IsNilIdent(f.Info(), rs.Results[0]) {
			out = append(out, r)
		}
	}
	return out
}

// PostDominatedOrFails reports whether every path from a that returns to a
// loop head or reaches a normal exit passes b, ignoring paths that leave the
// function through a return whose error result is not the nil constant.
func (f *Func) PostDominatedOrFails(a, b Site) bool {
	g := f.Graph()
	stop := map[*flow.Vertex]bool{b.V: true}
	for _, r := range f.Returns() {
		if f.ClassifyReturn(r) == RetFailure {
			stop[r.V] = true
		}
	}
	reach := g.Reach(a.V, nil, stop)
	// a path that comes back to a itself (loop) without b, or reaches the
	// exit through a non-failure return, violates
	for v := range reach {
		if stop[v] {
			continue
		}
		for _, e := range v.Out {
			if e.To == a.V && v != a.V {
				return false
			}
			if e.To == g.Exit {
				return false
			}
		}
	}
	return true
}
