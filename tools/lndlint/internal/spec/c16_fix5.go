package spec

import (
	"go/ast"
	"go/token"
	"go/types"
	"strings"

	"lndlint/internal/an"
)

func init() {
	specExtras["C16"] = append(specExtras["C16"], c16f5Repairs)
}

// c16f5Repairs: obligations for the repairs aa208fa, 0ea2942 and ad141f9 in
// payments/db (probes: findings/C16-payments-probe47). The fourth repair of
// that round, f4d4612, is decided by final-hop-is-dereferenced-only-where-it-
// exists (c16_fix4.go), whose exemption for stored attempts was removed.
func c16f5Repairs(r *an.Run) {
	c16f5StateFromCompleteRoutes(r)
	c16f5HashFallback(r)
	c16f5ZeroShard(r)
}

// c16f5RootObj resolves the left-hand side of a write through selectors,
// indexes, dereferences and slices to the variable it is rooted at; plain is
// true when the left-hand side is that variable itself.
func c16f5RootObj(info *types.Info, e ast.Expr) (obj types.Object, plain bool) {
	plain = true
	for {
		switch x := ast.Unparen(e).(type) {
		case *ast.SelectorExpr:
			if s := info.Selections[x]; s == nil {
				return nil, false // a qualified identifier
			}
			e, plain = x.X, false
		case *ast.IndexExpr:
			e, plain = x.X, false
		case *ast.SliceExpr:
			e, plain = x.X, false
		case *ast.StarExpr:
			e, plain = x.X, false
		case *ast.Ident:
			if o := info.Uses[x]; o != nil {
				return o, plain
			}
			return info.Defs[x], plain
		default:
			return nil, false
		}
	}
}

// c16f5NilErrReturns lists the returns of f whose last result is the nil
// constant.
func c16f5NilErrReturns(f *an.Func) []an.Site {
	var out []an.Site
	for _, s := range f.Returns() {
		rs, ok := s.Node.(*ast.ReturnStmt)
		if ok && len(rs.Results) > 0 && an.IsNilIdent(f.Info(), rs.Results[len(rs.Results)-1]) {
			out = append(out, s)
		}
	}
	return out
}

// ---------------------------------------------------------------- aa208fa

func c16f5StateFromCompleteRoutes(r *an.Run) {
	p := r.Prog
	r.Obl("sql-payment-state-is-derived-from-complete-routes", "PATH",
		"batchLoadPaymentDetailsData: every return with a nil error passes its one batchLoadHopsForAttempts call (made for the attempt indices batchLoadHtlcAttempts returned and the batch that is handed out) successfully unless there are no payment ids or no attempts — in particular whatever includeHops says; buildPaymentFromBatchData converts every attempt with its rows batchData.hopsByAttempt[<attempt index>], and every statement of it that writes into the payment it built or into the attempt list handed to it as HTLCs (an element, a field, a route's Hops), or that assigns a Route / Hops field at all, is reachable only after its one SetState call succeeded; dbAttemptToHTLCAttempt hands its hops parameter to dbDataToRoute unchanged",
		"the amount an attempt delivers and the fees it pays are recorded in its hops only (ReceiverAmt and TotalFees read the final hop): SetState on hop-less routes reports a succeeded payment with RemainingAmt = Value and FeesPaid = 0 and fails with ErrSentExceedsTotal never; the KV store ignores the OmitHops flag, so the same history is answered differently per backend; nothing SetState reads may be dropped before it ran", 10,
		func(o *an.Obl) {
			// ---- the loader
			bl := p.Func(pd + "batchLoadPaymentDetailsData")
			hops := bl.Calls(an.CalleeIs(pd+"batchLoadHopsForAttempts"), false)
			if needExactly(o, bl, "batchLoadHopsForAttempts", hops, 1) {
				attempts := an.ResultOf(an.CallTo(pd+"batchLoadHtlcAttempts", nil), 0)
				okRets := c16f5NilErrReturns(bl)
				if need(o, bl, "return with a nil error", okRets, 1) {
					mustPassUnless(o, bl, "batchLoadHopsForAttempts", hops, an.OkErrNil, okRets,
						an.Cmp(an.Len(an.Param(3)), an.LE, an.IntConst(0), "len(paymentIDs) == 0"),
						an.Cmp(an.Len(attempts), an.LE, an.IntConst(0), "len(allAttemptIndices) == 0"))
				}
				if a := callArg(hops[0], 3); a == nil || !an.Match(bl, attempts, a) {
					o.FailAt(bl.ID+"#hops-of", hops[0].Where(), "the hops are loaded for %s, expected the attempt indices batchLoadHtlcAttempts returned", an.Text(a))
				}
				// the batch the hops are put into is the one handed out
				var batch types.Object
				if id, ok := ast.Unparen(callArg(hops[0], 4)).(*ast.Ident); ok {
					batch = bl.Info().Uses[id]
				}
				for _, s := range okRets {
					rs := s.Node.(*ast.ReturnStmt)
					if batch == nil || len(rs.Results) != 2 || !c15IdentIs(bl.Info(), rs.Results[0], batch) {
						o.FailAt(bl.ID+"#batch-handed-out", s.Where(), "`%s` hands out %s, the hops were loaded into %s", an.Text(rs), an.Text(rs.Results[0]), an.Text(callArg(hops[0], 4)))
					}
				}
			}

			// ---- the builder
			bp := p.Func(pd + "buildPaymentFromBatchData")
			info := bp.Info()
			sets := bp.Calls(an.CalleeIs(pd+"MPPayment.SetState"), false)
			if !needExactly(o, bp, "SetState", sets, 1) {
				return
			}
			// the payment built and the list handed to it
			var payObj, listObj types.Object
			for _, cl := range p.CompositeLitsOf(p.LookupType("payments/db", "MPPayment")) {
				if cl.Fn == nil || cl.Fn.ID != bp.ID {
					continue
				}
				lit := cl.Node.(*ast.CompositeLit)
				if v, ok := c15LitKeys(lit)["HTLCs"]; ok {
					if id, isID := ast.Unparen(v).(*ast.Ident); isID {
						listObj = info.Uses[id]
					}
				}
				ast.Inspect(bp.Body, func(n ast.Node) bool {
					as, ok := n.(*ast.AssignStmt)
					if !ok || len(as.Lhs) != 1 || len(as.Rhs) != 1 {
						return true
					}
					if u, isU := ast.Unparen(as.Rhs[0]).(*ast.UnaryExpr); isU && ast.Unparen(u.X) == ast.Expr(lit) {
						payObj, _ = c16f5RootObj(info, as.Lhs[0])
					}
					return true
				})
			}
			if payObj == nil || listObj == nil {
				o.FailAt(bp.ID+"#payment-literal", bp.Where(bp.Body.Pos()), "cannot find `p := &MPPayment{…, HTLCs: <local list>, …}` in %s", bp.ID)
				return
			}
			if sel, ok := ast.Unparen(sets[0].Node.(*ast.CallExpr).Fun).(*ast.SelectorExpr); !ok || !c15IdentIs(info, sel.X, payObj) {
				o.FailAt(bp.ID+"#state-of", sets[0].Where(), "SetState is called on %s, expected the payment that is built and returned", an.Text(sets[0].Node))
			}
			o.Site("%s builds %s from the list %s", bp.ID, payObj.Name(), listObj.Name())
			routeField := an.Field(pd+"HTLCAttemptInfo", "Route", nil)
			hopsField := an.Field("routing/route.Route", "Hops", nil)
			var late []an.Site
			for _, fn := range append([]*an.Func{bp}, bp.Lits...) {
				for _, v := range fn.Graph().V {
					var lhs []ast.Expr
					switch x := v.Node.(type) {
					case *ast.AssignStmt:
						lhs = x.Lhs
					case *ast.IncDecStmt:
						lhs = []ast.Expr{x.X}
					}
					for _, l := range lhs {
						root, plain := c16f5RootObj(info, l)
						fieldWrite := routeField(fn, ast.Unparen(l)) || hopsField(fn, ast.Unparen(l))
						if !fieldWrite && (plain || (root != payObj && root != listObj)) {
							continue
						}
						s := an.Site{Fn: fn, V: v, Node: v.Node}
						if fn != bp {
							o.FailAt(bp.ID+"#write-in-closure", s.Where(), "`%s` writes into the payment inside a closure of %s: its order relative to SetState is not decided, re-anchor", an.Text(v.Node), bp.ID)
							continue
						}
						late = append(late, s)
					}
				}
			}
			if len(late) > 0 {
				mustPass(o, bp, "SetState", sets, an.OkErrNil, late)
			} else {
				o.Site("%s: nothing is written into the built payment", bp.ID)
			}
			// every attempt is converted with its hop rows
			conv := bp.Calls(an.CalleeIs(pd+"dbAttemptToHTLCAttempt"), false)
			if needExactly(o, bp, "dbAttemptToHTLCAttempt", conv, 1) {
				a := bp.ArgCanon(conv[0])
				o.Site("%s converts an attempt with the hop rows %s", bp.ID, a[1])
				if !reMatch(`^\$p1\.hopsByAttempt\[\$elem\(\$p1\.attempts\[.*\]\)\.AttemptIndex\]$`, a[1]) {
					o.FailAt(bp.ID+"#hop-rows", conv[0].Where(), "the attempt is converted with the hop rows %s, expected batchData.hopsByAttempt[<its attempt index>] unconditionally", a[1])
				}
			}
			ca := p.Func(pd + "dbAttemptToHTLCAttempt")
			dr := ca.Calls(an.CalleeIs(pd+"dbDataToRoute"), false)
			if needExactly(o, ca, "dbDataToRoute", dr, 1) {
				if a := ca.ArgCanon(dr[0]); a[0] != "$p1" {
					o.FailAt(ca.ID+"#route-hops", dr[0].Where(), "the route is built from %s, expected the hop rows parameter", a[0])
				}
				if ps := ca.Params(false); len(ps) > 1 && ps[1] != nil {
					notReassigned(o, ca, ps[1].Name())
				}
			}
		})
}

// ---------------------------------------------------------------- 0ea2942

func c16f5HashFallback(r *an.Run) {
	p := r.Prog
	r.Obl("attempt-without-hash-is-stored-under-the-payment-hash-by-both-stores", "MIRROR",
		"KVStore.RegisterAttempt: its one serializeHTLCAttemptInfo call is given the attempt parameter and is reachable only where attempt.Hash != nil was found or after the one write of an HTLCAttemptInfo.Hash field in the method, which assigns &paymentHash (the payment hash parameter) to a local struct copy defined as `*attempt` (the caller's attempt is not modified), and after `attempt = &<that copy>`, the only other write of the parameter; both lie below attempt.Hash == nil. SQLStore.RegisterAttempt: the PaymentHash it inserts is a local defined as paymentHash[:] and overwritten only by attempt.Hash[:] below attempt.Hash != nil",
		"serializeHTLCAttemptInfo ends the record after the attempt time when the hash is nil: the first-hop amount and the first-hop wire records of the route are then not stored, so the attempt read back (and the HTLC re-sent after a restart) differs from the one verifyAttempt admitted and from what the SQL store, which falls back to the payment hash, hands out for the same history", 12,
		func(o *an.Obl) {
			kv := p.Func(pd + "KVStore.RegisterAttempt")
			info := kv.Info()
			ps := kv.Params(false)
			if len(ps) != 3 || ps[1] == nil || ps[2] == nil {
				o.FailAt(kv.ID+"#signature", kv.Where(kv.Body.Pos()), "expected RegisterAttempt(ctx, paymentHash, attempt)")
				return
			}
			hashParam, attParam := ps[1], ps[2]
			var ser []an.Site
			for _, fn := range append([]*an.Func{kv}, kv.Lits...) {
				ser = append(ser, fn.Calls(an.CalleeIs(pd+"serializeHTLCAttemptInfo"), false)...)
			}
			if !needExactly(o, kv, "serializeHTLCAttemptInfo", ser, 1) {
				return
			}
			if ser[0].Fn != kv || !c15IdentIs(info, callArg(ser[0], 1), attParam) {
				o.FailAt(kv.ID+"#serialized-attempt", ser[0].Where(), "`%s` does not serialize the attempt parameter in the method body", an.Text(ser[0].Node))
				return
			}
			hasHash := an.IsNil(an.FieldPath(an.Param(2), "Hash"), false, "attempt.Hash != nil")
			noHash := an.IsNil(an.FieldPath(an.Param(2), "Hash"), true, "attempt.Hash == nil")
			var ws []an.Site
			for _, fn := range append([]*an.Func{kv}, kv.Lits...) {
				ws = append(ws, fn.Assigns(an.Field(pd+"HTLCAttemptInfo", "Hash", nil), false)...)
			}
			if !needExactly(o, kv, "write of HTLCAttemptInfo.Hash", ws, 1) {
				return
			}
			if ws[0].Fn != kv {
				o.FailAt(kv.ID+"#fallback-in-closure", ws[0].Where(), "the hash fallback sits inside the transaction closure; the attempt is serialized before it")
				return
			}
			as, _ := ws[0].Node.(*ast.AssignStmt)
			var copyObj types.Object
			if as == nil || as.Tok != token.ASSIGN || len(as.Lhs) != 1 || len(as.Rhs) != 1 {
				o.FailAt(kv.ID+"#fallback-shape", ws[0].Where(), "the hash is set by `%s`, expected `<copy>.Hash = &paymentHash`", an.Text(ws[0].Node))
				return
			}
			o.Site("%s: hash fallback %s", kv.ID, an.Text(as))
			if u, ok := ast.Unparen(as.Rhs[0]).(*ast.UnaryExpr); !ok || u.Op != token.AND || !c15IdentIs(info, u.X, hashParam) {
				o.FailAt(kv.ID+"#fallback-value", ws[0].Where(), "an attempt without hash is given %s, expected &%s (the payment identifier, like the SQL store)", an.Text(as.Rhs[0]), hashParam.Name())
			}
			notReassigned(o, kv, hashParam.Name())
			if sel, ok := ast.Unparen(as.Lhs[0]).(*ast.SelectorExpr); ok {
				if id, isID := ast.Unparen(sel.X).(*ast.Ident); isID {
					if v, isVar := info.Uses[id].(*types.Var); isVar && v != attParam {
						if _, isPtr := v.Type().Underlying().(*types.Pointer); !isPtr {
							copyObj = v
						}
					}
				}
			}
			if copyObj == nil {
				o.FailAt(kv.ID+"#fallback-in-place", ws[0].Where(), "`%s` sets the hash through %s, expected a local struct copy of the attempt: the caller's attempt must not be modified (the SQL store leaves it alone)", an.Text(as), an.Text(as.Lhs[0]))
				return
			}
			for _, w := range c15WritesOfLocal(kv, copyObj) {
				switch {
				case w.tok == token.AND:
				case (w.tok == token.DEFINE || w.tok == token.VAR) && w.rhs != nil:
					if st, ok := ast.Unparen(w.rhs).(*ast.StarExpr); !ok || !c15IdentIs(info, st.X, attParam) {
						o.FailAt(kv.ID+"#copy-of", w.site.Where(), "the copy that gets the hash is defined by `%s`, expected `*%s`", an.Text(w.site.Node), attParam.Name())
					}
				default:
					o.FailAt(kv.ID+"#copy-rewritten", w.site.Where(), "the copy that gets the hash is written by `%s`", an.Text(w.site.Node))
				}
			}
			var swaps []an.Site
			for _, w := range c15WritesOfLocal(kv, attParam) {
				u, ok := w.rhs.(*ast.UnaryExpr)
				if w.tok != token.ASSIGN || !ok || u.Op != token.AND || !c15IdentIs(info, u.X, copyObj) {
					o.FailAt(kv.ID+"#attempt-rewritten", w.site.Where(), "the attempt parameter is written by `%s`, expected only `%s = &%s`", an.Text(w.site.Node), attParam.Name(), copyObj.Name())
					continue
				}
				swaps = append(swaps, w.site)
				guarded(o, kv, w.site, noHash)
			}
			guarded(o, kv, ws[0], noHash)
			mustDoUnless(o, kv, "the hash fallback (<copy>.Hash = &paymentHash)", ws, ser, hasHash)
			if need(o, kv, "attempt = &<copy>", swaps, 1) {
				mustDoUnless(o, kv, "the switch to the copy that carries the hash", swaps, ser, hasHash)
			}

			// ---- SQL
			sq := p.Func(pd + "SQLStore.RegisterAttempt")
			n := 0
			for _, cl := range p.CompositeLitsOf(p.LookupTypeAny("sqldb/sqlc", "InsertHtlcAttemptParams")) {
				if cl.Fn == nil || cl.Fn.Root().ID != sq.ID {
					continue
				}
				// the function literal (the transaction closure) the insert sits in
				fn := cl.Fn
				for _, l := range sq.Lits {
					if l.Body.Pos() <= cl.Node.Pos() && cl.Node.End() <= l.Body.End() && (fn == cl.Fn || fn.Body.Pos() <= l.Body.Pos()) {
						fn = l
					}
				}
				v, ok := c15LitKeys(cl.Node.(*ast.CompositeLit))["PaymentHash"]
				if !ok {
					o.FailAt(sq.ID+"#no-payment-hash", cl.Where, "the inserted attempt names no PaymentHash")
					continue
				}
				n++
				id, isID := ast.Unparen(v).(*ast.Ident)
				if !isID || len(c15LocalsIn(fn, v)) != 1 {
					o.FailAt(sq.ID+"#payment-hash", cl.Where, "the attempt is inserted with PaymentHash %s, expected the local that defaults to the payment hash", an.Text(v))
					continue
				}
				for _, w := range c15PinnedWrites(o, fn, id.Name, `^:= \$p1\[:\]$`, `^= \$p2\.Hash\[:\]$`) {
					if w.tok == token.ASSIGN {
						guarded(o, fn, w.site, hasHash)
					}
				}
				c15StableOnceRead(o, fn, id.Name)
			}
			if n != 1 {
				o.FailAt(sq.ID+"#insert", sq.Where(sq.Body.Pos()), "expected one InsertHtlcAttemptParams literal in %s, found %d", sq.ID, n)
			}
		})
}

// ---------------------------------------------------------------- ad141f9

func c16f5ZeroShard(r *an.Run) {
	p := r.Prog
	r.Obl("a-shard-of-a-split-payment-delivers-an-amount", "GUARD",
		"verifyAttempt returns nil only where the attempt's receiver amount (attempt.Route.ReceiverAmt()) is known to be non-zero or the attempt is known to be no shard: both `amt != 0 or not blinded` and `amt != 0 or no MPP record` hold on every path (isBlinded: the final hop carries encrypted data; mpp: the final hop's MPP record); every return of ErrZeroAmountShard lies below amt == 0 and below `blinded or MPP record present`",
		"a shard that delivers nothing passes `sent + amt <= value` whatever is in flight, so any number of them is admitted on a payment that is already fully in flight, each sent out as an HTLC of its own; a non-split attempt is held to amt == value instead", 7,
		func(o *an.Obl) {
			va := p.Func(pd + "verifyAttempt")
			amt := canonTerm(`^\$p1\.Route\.ReceiverAmt\(\)$`)
			blinded := canonTerm(`^\(len\(\$p1\.Route\.FinalHop\(\)\.EncryptedData\) != 0\)$`)
			mpp := canonTerm(`^\$p1\.Route\.FinalHop\(\)\.MPP$`)
			nonZero := an.Cmp(amt, an.NE, an.IntConst(0), "amt != 0")
			n := 0
			for _, s := range va.Returns() {
				rs, ok := s.Node.(*ast.ReturnStmt)
				if !ok || len(rs.Results) != 1 {
					continue
				}
				switch {
				case an.IsNilIdent(va.Info(), rs.Results[0]):
					n++
					guarded(o, va, s, an.AnyOf("amt != 0, or the attempt is not blinded", nonZero, an.Truth(blinded, false, "")))
					guarded(o, va, s, an.AnyOf("amt != 0, or the attempt carries no MPP record", nonZero, an.IsNil(mpp, true, "")))
				case strings.HasSuffix(va.Canon(rs.Results[0]), pd+"ErrZeroAmountShard"):
					n++
					guarded(o, va, s, an.Cmp(amt, an.LE, an.IntConst(0), "amt == 0"))
					guarded(o, va, s, an.AnyOf("the attempt is blinded or carries an MPP record", an.Truth(blinded, true, ""), an.IsNil(mpp, false, "")))
				}
			}
			if n < 2 {
				o.FailAt(va.ID+"#zero-shard", va.Where(va.Body.Pos()), "expected the `return nil` and an ErrZeroAmountShard return in verifyAttempt, found %d such returns", n)
			}
			c15StableOnceRead(o, va, "amt", "isBlinded", "mpp")
		})
}
