package spec

import (
	"go/ast"
	"strings"

	"lndlint/internal/an"
)

// justiceLockTime: for channels with a lease expiration the node's own
// to_remote output on the counterparty's commitment is encumbered by
// `<lease expiry> OP_CHECKLOCKTIMEVERIFY`.  NewBreachRetribution builds that
// script whenever the channel type has a lease, so a justice transaction that
// spends the output must carry a lock time, which requires the breached output
// to report one and the transaction builder to apply it.
func justiceLockTime(r *an.Run) {
	p := r.Prog
	r.Obl("justice-tx-honours-lease-locktime", "PATH",
		"NewBreachRetribution hands the channel's lease expiry to CommitScriptToRemote whenever the channel type has one; therefore breachedOutput.RequiredLockTime is not a constant (it depends on the output) and sweepSpendableOutputsTxn, which builds every justice transaction, assigns the transaction's LockTime",
		"a CHECKLOCKTIMEVERIFY-encumbered input in a transaction with lock time 0 makes the whole justice transaction invalid: neither the revoked to_local output nor the node's own output is swept", 3,
		func(o *an.Obl) {
			nb := p.Func("lnwallet.NewBreachRetribution")
			premise := false
			for _, s := range nb.Calls(an.CalleeIs("lnwallet.CommitScriptToRemote"), false) {
				c := s.Node.(*ast.CallExpr)
				lease := an.Text(c.Args[3])
				o.Site("%s lease argument %s", s.String(), lease)
				if lease != "0" {
					premise = true
				}
				if id, ok := c.Args[3].(*ast.Ident); ok {
					for _, as := range nb.Assigns(an.LocalNamed(id.Name), false) {
						if rhs := an.Text(as.Node.(*ast.AssignStmt).Rhs[0]); rhs == "chanState.ThawHeight" {
							guarded(o, nb, as, an.Truth(an.CallNamed("HasLeaseExpiration", nil), true, "ChanType.HasLeaseExpiration()"))
						}
					}
				}
			}
			if !premise {
				o.Site("no lease-encumbered to_remote script is built for breach retributions: nothing to honour")
				return
			}
			rl := p.Func("contractcourt.breachedOutput.RequiredLockTime")
			dep := false
			ast.Inspect(rl.Body, func(n ast.Node) bool {
				if id, ok := n.(*ast.Ident); ok && rl.Canon(id) == "$recv" {
					dep = true
				}
				return true
			})
			o.Site("breachedOutput.RequiredLockTime depends on the output: %v", dep)
			if !dep {
				o.FailAt(rl.ID+"#constant", rl.Where(rl.Body.Pos()), "breachedOutput.RequiredLockTime returns the same answer for every output although lease channels give the node's own to_remote output a CHECKLOCKTIMEVERIFY")
			}
			sw := p.Func("contractcourt.BreachArbitrator.sweepSpendableOutputsTxn")
			nLT := 0
			for _, v := range sw.Graph().V {
				as, ok := v.Node.(*ast.AssignStmt)
				if !ok {
					continue
				}
				for _, l := range as.Lhs {
					if sel, ok := l.(*ast.SelectorExpr); ok && sel.Sel.Name == "LockTime" && strings.Contains(an.TypeID(sw.Info().TypeOf(sel.X)), "MsgTx") {
						nLT++
						o.Site("justice tx lock time = %s", an.Text(as.Rhs[0]))
					}
				}
			}
			if nLT == 0 {
				o.FailAt(sw.ID+"#locktime-never-set", sw.Where(sw.Body.Pos()), "sweepSpendableOutputsTxn never assigns the justice transaction's LockTime: an input that needs a lock time cannot be spent")
			}
		})
}
