package htlcswitch

import (
	"encoding/binary"
	"fmt"
	"sync"
	"testing"
	"time"

	"github.com/btcsuite/btcd/btcutil/v2"
	sphinx "github.com/lightningnetwork/lightning-onion"
	"github.com/lightningnetwork/lnd/channeldb"
	"github.com/lightningnetwork/lnd/htlcswitch/hodl"
	"github.com/lightningnetwork/lnd/htlcswitch/hop"
	"github.com/lightningnetwork/lnd/lnwire"
	"github.com/stretchr/testify/require"
)

// probeForwardableAdd builds an update_add_htlc whose (mock) onion says "forward
// over nextChan, then exit", i.e. an add that is NOT an exit hop for the link
// that receives it.
func probeForwardableAdd(t *testing.T, id uint64,
	nextChan lnwire.ShortChannelID) *lnwire.UpdateAddHTLC {

	t.Helper()

	var nextAddr [8]byte
	binary.BigEndian.PutUint64(nextAddr[:], nextChan.ToUint64())

	amt := lnwire.NewMSatFromSatoshis(10000 + btcutil.Amount(id))
	expiry := uint32(testStartingHeight + testInvoiceCltvExpiry + 6)

	hops := []*hop.Payload{
		hop.NewLegacyPayload(&sphinx.HopData{
			NextAddress:   nextAddr,
			ForwardAmount: uint64(amt),
			OutgoingCltv:  expiry - 6,
		}),
		hop.NewLegacyPayload(&sphinx.HopData{
			NextAddress:   [8]byte{}, // hop.Exit
			ForwardAmount: uint64(amt),
			OutgoingCltv:  expiry - 6,
		}),
	}
	blob, err := generateRoute(hops...)
	require.NoError(t, err)

	var rhash [32]byte
	rhash[0] = byte(id + 1)
	rhash[31] = 0xaa

	return &lnwire.UpdateAddHTLC{
		ID:          id,
		PaymentHash: rhash,
		Amount:      amt + 1000,
		Expiry:      expiry,
		OnionBlob:   blob,
	}
}

// TestProbeProcessRemoteAddsReplayIndex calls the real processRemoteAdds with
// a forwarding package in FwdStateProcessed (the state every package is in
// when it is replayed by resolveFwdPkgs after a restart) whose AckFilter has
// an EARLIER add acked while a LATER one is still outstanding, and checks
// that the later add is handled with ITS OWN AddRef and ITS OWN FwdFilter
// bit.
func TestProbeProcessRemoteAddsReplayIndex(t *testing.T) {
	const chanAmt = btcutil.SatoshiPerBitcoin * 5
	const chanReserve = btcutil.SatoshiPerBitcoin * 1

	harness, err := newSingleLinkTestHarness(t, chanAmt, chanReserve)
	require.NoError(t, err)

	//nolint:forcetypeassert
	coreLink := harness.aliceLink.(*channelLink)

	// Record everything the link hands to the switch.
	type fwdCall struct {
		replay bool
		pkts   []*htlcPacket
	}
	var (
		mu    sync.Mutex
		calls []fwdCall
	)
	coreLink.cfg.ForwardPackets = func(_ <-chan struct{}, replay bool,
		pkts ...*htlcPacket) error {

		mu.Lock()
		defer mu.Unlock()
		calls = append(calls, fwdCall{replay: replay, pkts: pkts})

		return nil
	}

	require.NoError(t, harness.start())

	nextChan := lnwire.NewShortChanIDFromInt(0x0102030405060708)

	type want struct {
		htlcID uint64
		index  uint16
	}
	cases := []struct {
		name  string
		nAdds int
		fwd   []uint16
		ack   []uint16
		want  []want
	}{
		{
			// Control: nothing acked -> positions coincide.
			name: "control/none-acked", nAdds: 2,
			fwd: []uint16{0, 1}, ack: nil,
			want: []want{{0, 0}, {1, 1}},
		},
		{
			// Control: only the LAST add acked -> positions still
			// coincide for the remaining one.
			name: "control/last-acked", nAdds: 2,
			fwd: []uint16{0, 1}, ack: []uint16{1},
			want: []want{{0, 0}},
		},
		{
			// Both forwarded before the restart, add 0 already
			// acked. The reforwarded packet for add 1 must carry
			// AddRef{Index: 1}.
			name: "sourceRef/first-acked", nAdds: 2,
			fwd: []uint16{0, 1}, ack: []uint16{0},
			want: []want{{1, 1}},
		},
		{
			// Add 0 forwarded+acked, add 1 was NOT forwarded
			// (failed locally) before the restart. It must not be
			// reforwarded now.
			name: "fwdFilter/second-not-forwarded", nAdds: 2,
			fwd: []uint16{0}, ack: []uint16{0},
			want: nil,
		},
		{
			// Add 0 was failed locally (not forwarded) and acked,
			// add 1 was forwarded and is outstanding. It must be
			// reforwarded.
			name: "fwdFilter/second-forwarded", nAdds: 2,
			fwd: []uint16{1}, ack: []uint16{0},
			want: []want{{1, 1}},
		},
		{
			// Three adds, the middle one acked.
			name: "sourceRef/middle-acked", nAdds: 3,
			fwd: []uint16{0, 1, 2}, ack: []uint16{1},
			want: []want{{0, 0}, {2, 2}},
		},
	}

	for ci, tc := range cases {
		adds := make([]channeldb.LogUpdate, 0, tc.nAdds)
		for i := 0; i < tc.nAdds; i++ {
			adds = append(adds, channeldb.LogUpdate{
				LogIndex: uint64(i),
				UpdateMsg: probeForwardableAdd(
					t, uint64(i), nextChan,
				),
			})
		}

		// A distinct height per case: the mock decoder caches its
		// responses per package ID.
		height := uint64(100 + ci)
		pkg := channeldb.NewFwdPkg(
			coreLink.ShortChanID(), height, adds, nil,
		)
		pkg.State = channeldb.FwdStateProcessed
		for _, i := range tc.fwd {
			pkg.FwdFilter.Set(i)
		}
		for _, i := range tc.ack {
			pkg.AckFilter.Set(i)
		}

		mu.Lock()
		calls = nil
		mu.Unlock()

		coreLink.processRemoteAdds(pkg)

		mu.Lock()
		var got []want
		var desc []string
		for _, c := range calls {
			if !c.replay {
				t.Errorf("%s: packets not flagged as replay",
					tc.name)
			}
			for _, p := range c.pkts {
				require.NotNil(t, p.sourceRef)
				if p.sourceRef.Height != height {
					t.Errorf("%s: sourceRef height %d, "+
						"want %d", tc.name,
						p.sourceRef.Height, height)
				}
				got = append(got, want{
					p.incomingHTLCID, p.sourceRef.Index,
				})
				desc = append(desc, fmt.Sprintf(
					"{htlcID=%d sourceRef.Index=%d}",
					p.incomingHTLCID, p.sourceRef.Index,
				))
			}
		}
		mu.Unlock()

		t.Logf("%-32s fwd=%v ack=%v -> switch got %v", tc.name,
			tc.fwd, tc.ack, desc)

		if len(got) != len(tc.want) {
			t.Errorf("%s: %d packets handed to the switch, "+
				"want %d (got %v, want %v)", tc.name,
				len(got), len(tc.want), got, tc.want)

			continue
		}
		for i := range got {
			if got[i] != tc.want[i] {
				t.Errorf("%s: packet %d is "+
					"{htlcID=%d sourceRef.Index=%d}, "+
					"want {htlcID=%d sourceRef.Index=%d}",
					tc.name, i, got[i].htlcID,
					got[i].index, tc.want[i].htlcID,
					tc.want[i].index)
			}
		}
	}
}

// TestProbeRemoteAddsReplayAfterRestartE2E drives the real replay path
// (link start -> resolveFwdPkgs -> resolveFwdPkg -> processRemoteAdds) with a
// forwarding package that was produced and persisted by the real channel
// state machine:
//
//	Bob adds two exit-hop HTLCs in one commitment; Alice holds both
//	(hodl.ExitSettle). Add 0 is failed back with its proper AddRef and
//	the fail is committed, so the package on disk has AckFilter={0}.
//	Alice's link is then restarted without the hodl flag. The replay must
//	settle add 1 and ack AddRef{Index: 1}, after which the package is
//	fully acked.
func TestProbeRemoteAddsReplayAfterRestartE2E(t *testing.T) {
	const chanAmt = btcutil.SatoshiPerBitcoin * 5
	const chanReserve = btcutil.SatoshiPerBitcoin * 1

	harness, err := newSingleLinkTestHarness(t, chanAmt, chanReserve)
	require.NoError(t, err)

	//nolint:forcetypeassert
	coreLink := harness.aliceLink.(*channelLink)
	coreLink.cfg.HodlMask = hodl.ExitSettle.Mask()

	require.NoError(t, harness.start())

	alice := newPersistentLinkHarness(
		t, harness.aliceSwitch, harness.aliceLink,
		harness.aliceBatchTicker, harness.aliceRestore,
	)

	htlc1 := generateHtlc(t, coreLink, 0)
	htlc2 := generateHtlc(t, coreLink, 1)

	ctx := linkTestContext{
		t:           t,
		aliceSwitch: harness.aliceSwitch,
		aliceLink:   harness.aliceLink,
		aliceMsgs:   alice.msgs,
		bobChannel:  harness.bobChannel,
	}

	//  Bob               Alice
	//   |------ add-1 ----->|
	//   |------ add-2 ----->|
	//   |------  sig  ----->|
	//   |<-----  rev  ------|
	//   |<-----  sig  ------|
	//   |------  rev  ----->|  -> fwdpkg{adds: [add-1, add-2]}
	ctx.sendHtlcBobToAlice(htlc1)
	ctx.sendHtlcBobToAlice(htlc2)
	ctx.sendCommitSigBobToAlice(2)
	ctx.receiveRevAndAckAliceToBob()
	ctx.receiveCommitSigAliceToBob(2)
	ctx.sendRevAndAckBobToAlice()

	time.Sleep(time.Second)

	pkgs, err := coreLink.channel.LoadFwdPkgs()
	require.NoError(t, err)
	require.Len(t, pkgs, 1)
	require.EqualValues(t, 2, pkgs[0].AckFilter.Count())
	addHeight := pkgs[0].Height

	// Fail add-1 (index 0) with its proper AddRef and lock that in.
	fail0 := &htlcPacket{
		sourceRef: &channeldb.AddRef{
			Height: addHeight,
			Index:  0,
		},
		incomingChanID: harness.bobChannel.ShortChanID(),
		incomingHTLCID: 0,
		obfuscator:     NewMockObfuscator(),
		htlc:           &lnwire.UpdateFailHTLC{},
	}
	_ = harness.aliceLink.handleSwitchPacket(fail0)

	//  Bob               Alice
	//   |<----- fal-1 ------|
	//   |<-----  sig  ------|
	//   |------  rev  ----->|
	//   |------  sig  ----->|
	//   |<-----  rev  ------|
	ctx.receiveFailAliceToBob()
	ctx.receiveCommitSigAliceToBob(1)
	ctx.sendRevAndAckBobToAlice()
	ctx.sendCommitSigBobToAlice(1)
	ctx.receiveRevAndAckAliceToBob()

	pkgs, err = coreLink.channel.LoadFwdPkgs()
	require.NoError(t, err)
	require.NotEmpty(t, pkgs)
	require.Equal(t, addHeight, pkgs[0].Height)
	require.Equal(t, channeldb.FwdStateProcessed, pkgs[0].State)
	require.True(t, pkgs[0].AckFilter.Contains(0), "add 0 acked")
	require.False(t, pkgs[0].AckFilter.Contains(1), "add 1 outstanding")
	t.Logf("before restart: pkg height=%d state=%v ack={%v} fwd={%v}",
		pkgs[0].Height, pkgs[0].State, pkgs[0].AckFilter,
		pkgs[0].FwdFilter)

	// Restart Alice's link (no hodl flags). The package is replayed in
	// FwdStateProcessed; add-2 (index 1) is now settled by the registry.
	alice.restart(false, false)
	ctx.aliceLink = alice.link
	ctx.aliceMsgs = alice.msgs

	//  Bob               Alice
	//   |<----- stl-2 ------|
	//   |<-----  sig  ------|   <- persists the ack for the AddRef
	//   |------  rev  ----->|
	ctx.receiveSettleAliceToBob()
	ctx.receiveCommitSigAliceToBob(0)
	ctx.sendRevAndAckBobToAlice()

	time.Sleep(500 * time.Millisecond)

	pkgs, err = alice.coreLink.channel.LoadFwdPkgs()
	require.NoError(t, err)

	var found bool
	for _, pkg := range pkgs {
		if pkg.Height != addHeight {
			continue
		}
		found = true
		t.Logf("after replay+settle: pkg height=%d state=%v ack={%v}",
			pkg.Height, pkg.State, pkg.AckFilter)

		if !pkg.AckFilter.Contains(1) {
			t.Errorf("add index 1 was settled and the settle "+
				"committed, but AddRef{%d,1} is still unacked "+
				"(ack filter: %v): the replay used another "+
				"add's source reference", addHeight,
				pkg.AckFilter)
		}
	}
	if !found {
		t.Logf("package at height %d already garbage collected "+
			"(fully acked)", addHeight)
	}
}
