package paymentsdb

import (
	"crypto/sha256"
	"testing"

	"github.com/stretchr/testify/require"
)

// Suspicion 3: an attempt whose route has no hops must be refused with an
// error, not crash the process, and must leave the payment untouched.
func TestZZProbe3EmptyRoute(t *testing.T) {
	for name, db := range zzSeedStores(t) {
		t.Run(name, func(t *testing.T) {
			ctx := t.Context()
			preimg := genPreimage(t)
			rhash := sha256.Sum256(preimg[:])
			info := genPaymentCreationInfo(t, rhash)
			hash := info.PaymentIdentifier
			require.NoError(t, db.InitPayment(ctx, hash, info))

			a := genAttemptWithHash(t, 0, genSessionKey(t), rhash)
			a.Route.Hops = nil

			var err error
			require.NotPanics(t, func() {
				_, err = db.RegisterAttempt(ctx, hash, a)
			})
			require.Error(t, err)

			p, err := db.FetchPayment(ctx, hash)
			require.NoError(t, err)
			require.Empty(t, p.HTLCs)
			require.Equal(t, StatusInitiated, p.Status)
		})
	}
}
