package spec

// Witnesses for the round-5 seeds C14-i and C14-j and close variants.
func init() {
	const tx = "chainntnfs/txnotifier.go"
	registry["C14"].Mutants = append(registry["C14"].Mutants, []Mutant{
		{Name: "seed5-C14-i", File: tx,
			Old:    "\t\tmatureBlockHeight := blockHeight - n.reorgSafetyLimit\n",
			New:    "\t\tmatureBlockHeight := blockHeight - n.reorgSafetyLimit + 1\n",
			Expect: "requests-are-forgotten-only-beyond-the-reorg-safety-limit"},
		{Name: "seed5-C14-j", File: tx,
			Old:    "\t\t\tblockHeight < confSet.reorgedHeight {",
			New:    "\t\t\tblockHeight > confSet.reorgedHeight {",
			Expect: "reorged-height-keeps-the-lowest-height-disconnected"},
		{Name: "seed5-C14-i-spend-side-only", File: tx,
			Old:    "\t\tfor spendRequest := range n.spendsByHeight[matureBlockHeight] {",
			New:    "\t\tfor spendRequest := range n.spendsByHeight[matureBlockHeight+1] {",
			Expect: "requests-are-forgotten-only-beyond-the-reorg-safety-limit"},
		{Name: "seed5-C14-i-writer-files-one-block-less", File: tx,
			Old:    "\tif spendHeight+n.reorgSafetyLimit > n.currentHeight {\n\t\topSet, exists",
			New:    "\tif spendHeight+n.reorgSafetyLimit-1 > n.currentHeight {\n\t\topSet, exists",
			Expect: "requests-are-forgotten-only-beyond-the-reorg-safety-limit"},
		{Name: "seed5-C14-j-spend-side-keeps-the-first-height", File: tx,
			Old:    "\t\tif spendSet.reorgedHeight == 0 ||\n\t\t\tblockHeight < spendSet.reorgedHeight {\n",
			New:    "\t\tif spendSet.reorgedHeight == 0 {\n",
			Expect: "reorged-height-keeps-the-lowest-height-disconnected"},
	}...)
}
