//go:build c14_unrepaired

package chainntnfs_test

// This file documents a TxNotifier behaviour that was reported as a suspected
// defect against property C14 and was deliberately NOT repaired. It is behind
// a build tag because the test FAILS on the current code:
//
//	go test -tags c14_unrepaired -run TestC14Unrepaired ./chainntnfs/
//
// Why it is not repaired: the failing history needs a client that passes a
// height hint ABOVE the height its transaction actually confirmed at. The
// ChainNotifier interface defines the hint as "the earliest height in the
// blockchain in which the target txid _could_ have been included", so that
// client breaks the precondition of the call. With only valid hints, a second
// client's lower hint is merely more conservative than needed and the rescan
// dispatched for the first client covers everything.
//
// A repair would also have to give up documented behaviour: RegisterConf /
// RegisterSpend take max(caller hint, cached hint) on purpose ("This value will
// be overridden by the spend hint cache if it contains an entry for it"),
// because after a restart every caller passes its original, low hint again and
// the cache is what saves the long rescan. A second client with a lower hint
// is indistinguishable from that restart case, so honouring it means no longer
// trusting the cache. The code carries a TODO(conner) "verify that all
// submitted height hints are identical" for exactly this situation.

import (
	"testing"

	"github.com/btcsuite/btcd/wire/v2"
	"github.com/lightningnetwork/lnd/chainntnfs"
	"github.com/stretchr/testify/require"
)

// TestC14UnrepairedSecondClientLowerHint: the transaction sits in block 5 of
// the active chain. Client A hints 8 (wrong: too high), its rescan 8..10 finds
// nothing. Client B hints 3; no rescan is dispatched for it, blocks 3..7 are
// never looked at, and the persisted hint keeps following the tip past 5.
func TestC14UnrepairedSecondClientLowerHint(t *testing.T) {
	const startingHeight = 10

	hintCache := newMockHintCache()
	n := chainntnfs.NewTxNotifier(
		startingHeight, chainntnfs.ReorgSafetyLimit, hintCache,
		hintCache,
	)

	tx := wire.MsgTx{Version: 8}
	tx.AddTxOut(&wire.TxOut{PkScript: testRawScript})
	txHash := tx.TxHash()

	regA, err := n.RegisterConf(&txHash, testRawScript, 1, 8)
	require.NoError(t, err)
	require.EqualValues(t, 8, regA.HistoricalDispatch.StartHeight)
	require.NoError(t, n.UpdateConfDetails(
		regA.HistoricalDispatch.ConfRequest, nil,
	))

	regB, err := n.RegisterConf(&txHash, testRawScript, 1, 3)
	require.NoError(t, err)
	if regB.HistoricalDispatch == nil {
		t.Errorf("client B (hint 3) gets no rescan: blocks 3..7 are " +
			"never looked at")
	}

	require.NoError(t, n.ConnectTip(c14Block(1), startingHeight+1))
	req, err := chainntnfs.NewConfRequest(&txHash, testRawScript)
	require.NoError(t, err)
	hint, err := hintCache.QueryConfirmHint(req)
	require.NoError(t, err)
	require.LessOrEqual(t, hint, uint32(5), "persisted hint is above the "+
		"height (5) the transaction confirmed at")
}
