package spec

import (
	"go/ast"
	"go/token"
	"regexp"
	"strconv"
	"strings"

	"lndlint/internal/an"
)

const (
	tokADD       = token.ADD
	tokASSIGN    = token.ASSIGN
	tokSUBASSIGN = token.SUB_ASSIGN
	tokADDASSIGN = token.ADD_ASSIGN
	tokINC       = token.INC
)

func reMatch(re, s string) bool { return regexp.MustCompile(re).MatchString(s) }
func itoa(i int) string         { return strconv.Itoa(i) }

// canonTerm matches expressions whose canonical form matches re.
func canonTerm(re string) an.Term {
	r := regexp.MustCompile(re)
	return func(f *an.Func, e ast.Expr) bool { return r.MatchString(f.Canon(e)) }
}

// enclosingLoopHeader returns the canonical form of the header (ranged
// expression or init statement) of the innermost loop of f that contains n.
func enclosingLoopHeader(f *an.Func, n ast.Node) string {
	best := ""
	var bestLen token.Pos = 1 << 30
	ast.Inspect(f.Body, func(x ast.Node) bool {
		if x == nil || x.Pos() > n.Pos() || x.End() < n.End() {
			return x != nil && x.Pos() <= n.Pos()
		}
		switch l := x.(type) {
		case *ast.RangeStmt:
			if l.End()-l.Pos() < bestLen {
				bestLen = l.End() - l.Pos()
				best = f.Canon(l.X)
			}
		case *ast.ForStmt:
			if l.End()-l.Pos() < bestLen {
				bestLen = l.End() - l.Pos()
				best = ""
				if as, ok := l.Init.(*ast.AssignStmt); ok && len(as.Rhs) == 1 {
					best = f.Canon(as.Rhs[0])
				}
				if l.Cond != nil {
					best += " ; " + f.Canon(l.Cond)
				}
			}
		}
		return true
	})
	return best
}

var (
	outgoingList = regexp.MustCompile(`Updates\.Local|outgoingHTLCs|updateLogs\.Local`)
	incomingList = regexp.MustCompile(`Updates\.Remote|incomingHTLCs|updateLogs\.Remote`)
)

func dustSites(o *an.Obl, r *an.Run) {
	p := r.Prog
	type sel struct{ local, remote string }
	selectors := map[string]sel{
		lw + "CommitmentBuilder.createUnsignedCommitmentTx": {`LocalChanCfg\.DustLimit$`, `RemoteChanCfg\.DustLimit$`},
		lw + "LightningChannel.computeView":                 {`LocalChanCfg\.DustLimit$`, `RemoteChanCfg\.DustLimit$`},
		lw + "LightningChannel.GetDustSum":                  {`LocalChanCfg\.DustLimit$`, `RemoteChanCfg\.DustLimit$`},
		lw + "extractHtlcResolutions":                       {`^\$p5\.DustLimit$`, `^\$p6\.DustLimit$`},
		"htlcswitch.dustHelper$1":                           {`^\$p1$`, `^\$p2$`},
	}
	passThrough := map[string]string{
		lw + "commitment.populateHtlcIndexes$1": "closure parameter; its two call loops are checked below",
		"htlcswitch.dustHelper$1":               "link-level closure; callers pass the HTLC direction explicitly",
	}
	counts := map[string][2]int{}
	// per function: the (chanType, owner, fee rate, dust limit) fingerprints of
	// its constant-direction sites, and the sense of the test in its loops
	type fprint struct{ fp, where string }
	prints := map[string][]fprint{}
	senses := map[string]string{
		lw + "LightningChannel.computeView":                 "skip",
		lw + "CommitmentBuilder.createUnsignedCommitmentTx": "skip",
		lw + "genRemoteHtlcSigJobs":                         "skip",
		lw + "LightningChannel.GetDustSum":                  "sum",
	}
	// the fee rate of the commitment being classified
	feeRates := map[string]string{
		lw + "CommitmentBuilder.createUnsignedCommitmentTx": `^\$p3$`,
		lw + "genRemoteHtlcSigJobs":                         `^\$p3\.feePerKw$`,
		lw + "commitment.populateHtlcIndexes$1":             `^\$recv\.feePerKw$`,
		lw + "LightningChannel.computeView":                 `^\$v:\S*SatPerKWeight$`,
	}
	n := 0
	for _, f := range p.Funcs(false, "lnwallet", "htlcswitch") {
		for _, s := range f.Calls(an.CalleeIs(lw+"HtlcIsDust"), false) {
			n++
			a := f.ArgCanon(s)
			c := s.Node.(*ast.CallExpr)
			key := f.ID + "#HtlcIsDust" + itoa(n)
			_ = key
			hdr := enclosingLoopHeader(f, c)
			o.Site("%s  [incoming=%s party=%s dust=%s loop=%s]", s.String(), a[1], a[2], a[5], hdr)
			// (0) the amount is the HTLC's amount in satoshis, the fee rate
			// that of the commitment
			if _, ok := passThrough[f.ID]; !ok && !reMatch(`\.(Amount|Amt)\.ToSatoshis\(\)$`, a[4]) {
				o.FailAt(f.ID+"#dust-amount", s.Where(), "HtlcIsDust must be given the HTLC amount in satoshis (<htlc>.Amount.ToSatoshis()); got %s", a[4])
			}
			if re, ok := feeRates[f.ID]; ok && !reMatch(re, a[3]) {
				o.FailAt(f.ID+"#dust-fee-rate", s.Where(), "HtlcIsDust is given the fee rate %s; %s must classify with /%s/ (the fee rate of the commitment being built)", a[3], f.ID, re)
			}
			// (i) direction agrees with the list
			switch {
			case a[1] == "false" || a[1] == "true":
				want := ""
				switch {
				case outgoingList.MatchString(hdr) && !incomingList.MatchString(hdr):
					want = "false"
				case incomingList.MatchString(hdr) && !outgoingList.MatchString(hdr):
					want = "true"
				}
				if want == "" {
					if f.ID == lw+"LightningChannel.logUpdateToPayDesc" {
						// restoring our own pending adds on the remote commitment
						if a[1] != "false" || a[2] != "lntypes.Remote" {
							o.FailAt(f.ID+"#dust-direction", s.Where(), "logUpdateToPayDesc must classify our outgoing add on the remote commitment (false, Remote); got (%s, %s)", a[1], a[2])
						}
						break
					}
					o.FailAt(f.ID+"#dust-direction-undecided", s.Where(), "cannot relate the constant direction %s to an HTLC list: enclosing loop header %q", a[1], hdr)
					break
				}
				if a[1] != want {
					o.FailAt(f.ID+"#dust-direction", s.Where(), "HtlcIsDust is called with incoming=%s inside a loop over %s, which holds %s HTLCs", a[1], hdr, map[string]string{"false": "outgoing", "true": "incoming"}[want])
				}
				if !strings.Contains(hdr, " ; ") && a[4] != "$elem("+hdr+").Amount.ToSatoshis()" {
					o.FailAt(f.ID+"#dust-amount-element", s.Where(), "inside the loop over %s HtlcIsDust classifies %s, not the amount of the loop's element", hdr, a[4])
				}
				prints[f.Root().ID] = append(prints[f.Root().ID], fprint{a[0] + " | " + a[2] + " | " + a[3] + " | " + a[5], s.Where()})
				if sense, ok := senses[f.ID]; ok {
					c01DustPolarity(o, f, s, sense)
				}
				cnt := counts[f.Root().ID]
				if want == "false" {
					cnt[0]++
				} else {
					cnt[1]++
				}
				counts[f.Root().ID] = cnt
			case strings.HasSuffix(a[1], ".Incoming"):
				base := strings.TrimSuffix(a[1], ".Incoming")
				if !strings.HasPrefix(a[4], base+".Amt") && !strings.HasPrefix(a[4], base+".Amount") {
					o.FailAt(f.ID+"#dust-direction", s.Where(), "direction %s and amount %s are taken from different HTLCs", a[1], a[4])
				}
			default:
				if _, ok := passThrough[f.ID]; !ok {
					o.FailAt(f.ID+"#dust-direction-unclassified", s.Where(), "unclassified direction argument %s", a[1])
				}
			}
			// (ii) owner and dust limit selected together
			switch {
			case a[2] == "lntypes.Local":
				if !reMatch(`LocalChanCfg\.DustLimit$`, a[5]) {
					o.FailAt(f.ID+"#dust-limit", s.Where(), "local commitment classified with dust limit %s", a[5])
				}
			case a[2] == "lntypes.Remote":
				if !reMatch(`RemoteChanCfg\.DustLimit$`, a[5]) && !(f.ID == lw+"LightningChannel.logUpdateToPayDesc" && a[5] == "$p5") {
					o.FailAt(f.ID+"#dust-limit", s.Where(), "remote commitment classified with dust limit %s", a[5])
				}
			case f.ID == lw+"commitment.populateHtlcIndexes$1":
				if a[2] != "$recv.whoseCommit" || a[5] != "$recv.dustLimit" {
					o.FailAt(f.ID+"#dust-limit", s.Where(), "populateHtlcIndexes must use the commitment's own (whoseCommit, dustLimit); got (%s, %s)", a[2], a[5])
				}
			default:
				sl, ok := selectors[f.ID]
				if !ok {
					o.FailAt(f.ID+"#dust-limit-unclassified", s.Where(), "unclassified (owner, dust limit) pair (%s, %s)", a[2], a[5])
					break
				}
				party := canonTerm("^" + regexp.QuoteMeta(a[2]) + "$")
				selectorConsistent(o, f, s, c.Args[5], party, canonTerm(sl.local), canonTerm(sl.remote), "dust limit")
			}
		}
	}
	// (iii) the weight loop and the two output loops see the same lists
	for fn, want := range map[string][2]int{
		lw + "LightningChannel.computeView":                 {1, 1},
		lw + "CommitmentBuilder.createUnsignedCommitmentTx": {2, 2},
		lw + "genRemoteHtlcSigJobs":                         {1, 1},
		lw + "LightningChannel.GetDustSum":                  {1, 1},
	} {
		if counts[fn] != want {
			o.FailAt(fn+"#dust-loop-count", "", "%s: expected %d outgoing-list and %d incoming-list dust tests, found %v", fn, want[0], want[1], counts[fn])
		}
	}
	for fn, ps := range prints {
		for _, pr := range ps[1:] {
			if pr.fp != ps[0].fp {
				o.FailAt(fn+"#dust-fingerprint", pr.where, "%s: the dust tests of one commitment disagree on (chanType | owner | fee rate | dust limit): %s at %s vs %s", fn, ps[0].fp, ps[0].where, pr.fp)
			}
		}
	}
	c01DustBody(o, p)
	c01ComputeViewFeeRate(o, p)
	c01AddHtlcDirections(o, p)
	// pass-through callers
	f := p.Func(lw + "commitment.populateHtlcIndexes")
	info := f.Info()
	nPop := 0
	ast.Inspect(f.Body, func(x ast.Node) bool {
		c, ok := x.(*ast.CallExpr)
		if !ok || len(c.Args) != 2 {
			return true
		}
		id, ok := c.Fun.(*ast.Ident)
		if !ok || id.Name == "" {
			return true
		}
		if _, isVar := info.Uses[id].(interface{ IsField() bool }); !isVar {
			return true
		}
		if d := f.UniqueDef(id); d == nil {
			return true
		} else if _, isLit := d.(*ast.FuncLit); !isLit {
			return true
		}
		nPop++
		a0, a1 := f.Canon(c.Args[0]), f.Canon(c.Args[1])
		o.Site("populateIndex(%s, %s)", a0, a1)
		switch {
		case strings.Contains(a0, "outgoingHTLCs") && a1 != "false", strings.Contains(a0, "incomingHTLCs") && a1 != "true":
			o.FailAt(f.ID+"#populateIndex-direction", f.Where(c.Pos()), "populateIndex is called with direction %s for %s", a1, a0)
		}
		return true
	})
	if nPop != 2 {
		o.FailAt(f.ID+"#populateIndex-count", "", "expected two populateIndex loops, found %d", nPop)
	}
	// commitment.dustLimit / whoseCommit are set together
	g := p.Func(lw + "LightningChannel.diskCommitToMemCommit")
	for _, s := range g.Assigns(an.Field(lw+"commitment", "dustLimit", nil), false) {
		as := s.Node.(*ast.AssignStmt)
		rhs := g.Canon(as.Rhs[0])
		switch {
		case strings.HasSuffix(rhs, "LocalChanCfg.DustLimit"):
			guarded(o, g, s, an.Truth(an.CallNamed("IsLocal", an.Param(0)), true, "whoseCommit.IsLocal()"))
		case strings.HasSuffix(rhs, "RemoteChanCfg.DustLimit"):
			guarded(o, g, s, an.Truth(an.CallNamed("IsLocal", an.Param(0)), false, "!whoseCommit.IsLocal()"))
		default:
			o.FailAt(g.ID+"#dustLimit-source", s.Where(), "restored commitment gets dust limit %s", rhs)
		}
	}
	h := p.Func(lw + "LightningChannel.fetchCommitmentView")
	for _, ref := range p.CompositeLitsOf(p.LookupType("lnwallet", "commitment")) {
		if ref.Fn == nil || ref.Fn.ID != h.ID {
			continue
		}
		cl := ref.Node.(*ast.CompositeLit)
		var dust, whose ast.Expr
		for _, el := range cl.Elts {
			if kv, ok := el.(*ast.KeyValueExpr); ok {
				switch kv.Key.(*ast.Ident).Name {
				case "dustLimit":
					dust = kv.Value
				case "whoseCommit":
					whose = kv.Value
				}
			}
		}
		if dust == nil || whose == nil {
			o.FailAt(h.ID+"#commitment-literal", ref.Where, "the commitment literal of fetchCommitmentView no longer sets dustLimit and whoseCommit")
			continue
		}
		site := an.Site{Fn: h, V: h.Graph().Containing(cl, false), Node: cl}
		selectorConsistent(o, h, site, dust, canonTerm("^"+regexp.QuoteMeta(h.Canon(whose))+"$"),
			canonTerm(`LocalChanCfg\.DustLimit$`), canonTerm(`RemoteChanCfg\.DustLimit$`), "commitment.dustLimit")
	}
	// callers of the two parameterised helpers pass local before remote
	for _, fn := range p.Funcs(false, "lnwallet") {
		for _, s := range fn.Calls(an.CalleeIs(lw+"extractHtlcResolutions"), false) {
			a := fn.ArgCanon(s)
			o.Site("extractHtlcResolutions caller %s (%s, %s)", s.String(), a[5], a[6])
			if !strings.Contains(a[5], "LocalChanCfg") && !reMatch(`^\$p\d+$`, a[5]) || strings.Contains(a[5], "RemoteChanCfg") {
				o.FailAt(fn.ID+"#extractHtlcResolutions-cfg-order", s.Where(), "extractHtlcResolutions must receive (localChanCfg, remoteChanCfg); got (%s, %s)", a[5], a[6])
			}
			if a[6] == a[5] || an.Swap(a[5], [][2]string{{"LocalChanCfg", "RemoteChanCfg"}}) != a[6] && !reMatch(`^\$p\d+$`, a[6]) {
				o.FailAt(fn.ID+"#extractHtlcResolutions-remote-cfg", s.Where(), "extractHtlcResolutions must receive the remote config of the same channel as its seventh argument; got (%s, %s)", a[5], a[6])
			}
		}
		for _, s := range fn.Calls(an.CalleeIs(lw+"LightningChannel.logUpdateToPayDesc"), false) {
			a := fn.ArgCanon(s)
			o.Site("logUpdateToPayDesc caller %s dust=%s", s.String(), a[5])
			if !strings.Contains(a[5], "RemoteChanCfg.DustLimit") {
				o.FailAt(fn.ID+"#logUpdateToPayDesc-dust", s.Where(), "logUpdateToPayDesc must receive the remote dust limit; got %s", a[5])
			}
		}
	}
	for _, fn := range p.Funcs(false, "htlcswitch") {
		for _, s := range fn.Calls(an.CalleeIs("htlcswitch.dustHelper"), false) {
			a := fn.ArgCanon(s)
			o.Site("dustHelper caller %s (%s, %s)", s.String(), a[1], a[2])
			if !strings.Contains(strings.ToLower(a[1]), "local") || !strings.Contains(strings.ToLower(a[2]), "remote") {
				o.FailAt(fn.ID+"#dustHelper-order", s.Where(), "dustHelper must receive (local dust limit, remote dust limit); got (%s, %s)", a[1], a[2])
			}
		}
	}
}
