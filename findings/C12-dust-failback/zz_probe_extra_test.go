package contractcourt

import (
	"testing"
	"time"

	"github.com/btcsuite/btcd/chainhash/v2"
	"github.com/btcsuite/btcd/wire/v2"
	"github.com/lightningnetwork/lnd/chainntnfs"
	"github.com/lightningnetwork/lnd/channeldb"
	"github.com/lightningnetwork/lnd/fn/v2"
	"github.com/lightningnetwork/lnd/lnwallet"
	"github.com/stretchr/testify/require"
)

// Additional probes for property C12 written while verifying the three
// reported suspicions (see zz_probe_test.go for those and for the helpers).
// The first one and the last one fail on the unmodified tree, the two in the
// middle are regression guards for the repair (they pass before and after):
// the repair must not make the dust HTLCs that StateDefault already failed
// back fail a second time once a commitment confirms.

// Variant of suspicion 2 through checkRemoteDiffActions: a dust offered HTLC
// only exists on the remote PENDING commitment, we broadcast ours (the HTLC is
// not due, so the dangling pass of StateDefault skips it), and the remote
// non-pending commitment confirms. The HTLC is on no confirmed commitment and
// has to be failed back exactly once.
//
// Fails on the unmodified tree.
func TestProbeDanglingDustOnRemotePendingRemoteConfirmed(t *testing.T) {
	t.Parallel()
	ctx, log := probeNewArb(t)
	chanArb := ctx.chanArb

	dangling := channeldb.HTLC{
		Amt: 100_000, HtlcIndex: 7, RefundTimeout: 500, OutputIndex: -1,
	}
	chanArb.notifyContractUpdate(&ContractUpdate{
		HtlcKey: RemotePendingHtlcSet,
		Htlcs:   []channeldb.HTLC{dangling},
	})

	probeUserForceClose(t, ctx)
	atBroadcast := collectFails(ctx, 200*time.Millisecond)

	//nolint:ll
	chanArb.cfg.ChainEvents.RemoteUnilateralClosure <- &RemoteUnilateralCloseInfo{
		UnilateralCloseSummary: &lnwallet.UnilateralCloseSummary{
			SpendDetail: &chainntnfs.SpendDetail{
				SpenderTxHash:  &chainhash.Hash{},
				SpendingHeight: 101,
			},
			HtlcResolutions: &lnwallet.HtlcResolutions{},
		},
		CommitSet: CommitSet{
			ConfCommitKey: fn.Some(RemoteHtlcSet),
			HtlcSets: map[HtlcSetKey][]channeldb.HTLC{
				RemotePendingHtlcSet: {dangling},
			},
		},
	}
	ctx.AssertStateTransitions(
		StateContractClosed, StateWaitingFullResolution,
	)

	fails := collectFails(ctx, time.Second)
	for idx, n := range atBroadcast {
		fails[idx] += n
	}
	require.Empty(t, log.resolvers)
	require.Equal(t, map[uint64]int{7: 1}, fails,
		"dust HTLC that only exists on the remote pending commitment "+
			"is never failed back after the remote commitment "+
			"confirmed")
}

// Regression guard: an offered HTLC that is dust on our commitment is failed
// back when we broadcast (StateDefault). When our commitment then confirms,
// the chain actions of StateContractClosed contain it again: it must NOT be
// failed a second time.
func TestProbeLocalDustFailedOnceBroadcastThenConfirm(t *testing.T) {
	t.Parallel()
	ctx, log := probeNewArb(t)
	chanArb := ctx.chanArb

	dust := channeldb.HTLC{
		Amt: 100_000, HtlcIndex: 3, RefundTimeout: 500, OutputIndex: -1,
	}
	for _, key := range []HtlcSetKey{LocalHtlcSet, RemoteHtlcSet} {
		chanArb.notifyContractUpdate(&ContractUpdate{
			HtlcKey: key, Htlcs: []channeldb.HTLC{dust},
		})
	}

	probeUserForceClose(t, ctx)
	atBroadcast := collectFails(ctx, 200*time.Millisecond)
	require.Equal(t, map[uint64]int{3: 1}, atBroadcast)

	closeTx := &wire.MsgTx{
		TxIn: []*wire.TxIn{{
			PreviousOutPoint: wire.OutPoint{},
			Witness:          [][]byte{{0x9}},
		}},
	}
	//nolint:ll
	chanArb.cfg.ChainEvents.LocalUnilateralClosure <- &LocalUnilateralCloseInfo{
		SpendDetail: &chainntnfs.SpendDetail{SpendingHeight: 101},
		LocalForceCloseSummary: &lnwallet.LocalForceCloseSummary{
			CloseTx: closeTx,
			ContractResolutions: fn.Some(lnwallet.ContractResolutions{
				HtlcResolutions: &lnwallet.HtlcResolutions{},
			}),
		},
		ChannelCloseSummary: &channeldb.ChannelCloseSummary{},
		CommitSet: CommitSet{
			ConfCommitKey: fn.Some(LocalHtlcSet),
			HtlcSets: map[HtlcSetKey][]channeldb.HTLC{
				LocalHtlcSet:  {dust},
				RemoteHtlcSet: {dust},
			},
		},
	}
	ctx.AssertStateTransitions(
		StateContractClosed, StateWaitingFullResolution,
	)

	require.Empty(t, collectFails(ctx, time.Second),
		"dust HTLC failed back a second time after confirmation")
	require.Empty(t, log.resolvers)
}

// Regression guard: the remote commitment confirms while we're in StateDefault
// (we never broadcasted). StateDefault fails the dust HTLC back and tunnels to
// StateContractClosed within the same advanceState call: exactly one fail.
func TestProbeRemoteCloseFromDefaultDustFailedOnce(t *testing.T) {
	t.Parallel()
	ctx, log := probeNewArb(t)
	chanArb := ctx.chanArb

	dust := channeldb.HTLC{
		Amt: 100_000, HtlcIndex: 4, RefundTimeout: 500, OutputIndex: -1,
	}
	pendingDust := channeldb.HTLC{
		Amt: 100_000, HtlcIndex: 11, RefundTimeout: 500,
		OutputIndex: -1,
	}
	pendingNonDust := channeldb.HTLC{
		Amt: 900_000, HtlcIndex: 12, RefundTimeout: 500,
		OutputIndex: 2,
	}

	// Two batches of resolution messages are delivered (dust in
	// StateDefault, dangling in StateContractClosed) and the test channel
	// only buffers one, so collect them while the state machine advances.
	failsChan := make(chan map[uint64]int, 1)
	go func() {
		failsChan <- collectFails(ctx, 2*time.Second)
	}()

	//nolint:ll
	chanArb.cfg.ChainEvents.RemoteUnilateralClosure <- &RemoteUnilateralCloseInfo{
		UnilateralCloseSummary: &lnwallet.UnilateralCloseSummary{
			SpendDetail: &chainntnfs.SpendDetail{
				SpenderTxHash:  &chainhash.Hash{},
				SpendingHeight: 101,
			},
			HtlcResolutions: &lnwallet.HtlcResolutions{},
		},
		CommitSet: CommitSet{
			ConfCommitKey: fn.Some(RemoteHtlcSet),
			HtlcSets: map[HtlcSetKey][]channeldb.HTLC{
				LocalHtlcSet:  {dust},
				RemoteHtlcSet: {dust},
				RemotePendingHtlcSet: {
					dust, pendingDust, pendingNonDust,
				},
			},
		},
	}
	ctx.AssertStateTransitions(
		StateContractClosed, StateWaitingFullResolution,
	)

	fails := <-failsChan
	require.Equal(t, map[uint64]int{4: 1, 11: 1, 12: 1}, fails)
	require.Empty(t, log.resolvers)
}

// Related observation of suspicion 2: checkRemoteDanglingActions merges the
// remote and the remote pending commitment by HTLC index in (random) map
// iteration order. When an offered HTLC that isn't on our commitment is dust
// on one remote commitment and has an output on the other one (the pending
// commitment carries an update_fee for a non zero-fee-htlc channel), the
// action before any confirmation is random: HtlcFailDustAction (failed back
// right away, although the commitment that still has an output for it may
// confirm and the peer may claim it with the preimage) or
// HtlcFailDanglingAction (failed back only once a commitment confirmed). Only
// the latter is safe, and the decision must be deterministic.
//
// Fails on the unmodified tree (with overwhelming probability).
func TestProbeRemoteMergePrefersNonDustView(t *testing.T) {
	t.Parallel()
	ctx, _ := probeNewArb(t)
	chanArb := ctx.chanArb

	dustView := channeldb.HTLC{
		Amt: 400_000, HtlcIndex: 13, RefundTimeout: 110,
		OutputIndex: -1,
	}
	outputView := dustView
	outputView.OutputIndex = 2

	for i := 0; i < 200; i++ {
		sets := map[HtlcSetKey]htlcSet{
			LocalHtlcSet: newHtlcSet(nil),
		}
		// Alternate which commitment holds the dust view.
		if i%2 == 0 {
			sets[RemoteHtlcSet] = newHtlcSet(
				[]channeldb.HTLC{dustView},
			)
			sets[RemotePendingHtlcSet] = newHtlcSet(
				[]channeldb.HTLC{outputView},
			)
		} else {
			sets[RemoteHtlcSet] = newHtlcSet(
				[]channeldb.HTLC{outputView},
			)
			sets[RemotePendingHtlcSet] = newHtlcSet(
				[]channeldb.HTLC{dustView},
			)
		}

		// Height 105 is within the broadcast delta of the expiry, no
		// commitment is confirmed.
		actions := chanArb.checkRemoteDanglingActions(105, sets, false)
		require.Empty(t, actions[HtlcFailDustAction],
			"iteration %d: HTLC with an output on one of the "+
				"remote commitments is failed back as dust "+
				"before any commitment confirmed", i)
		require.Len(t, actions[HtlcFailDanglingAction], 1)
	}
}
