package htlcswitch

import (
	"testing"

	"github.com/btcsuite/btcd/btcutil/v2"
	"github.com/btcsuite/btcd/wire/v2"
	"github.com/lightningnetwork/lnd/lntypes"
	"github.com/lightningnetwork/lnd/lnwire"
	"github.com/stretchr/testify/require"
)

// probeStartupTrim writes a keystone for an outgoing HTLC that never reached a
// commitment of the (real, persisted) outgoing channel, optionally marks that
// channel waiting-close, "restarts" the switch on the same database and
// reports whether the circuit still has its keystone.
func probeStartupTrim(t *testing.T, waitingClose bool) bool {
	chanID := lnwire.NewShortChanIDFromInt(77)
	inChan := lnwire.NewShortChanIDFromInt(5)

	aliceLc, _, err := createTestChannel(
		t, alicePrivKey, bobPrivKey, btcutil.SatoshiPerBitcoin*3,
		btcutil.SatoshiPerBitcoin*5, 0, 0, chanID,
	)
	require.NoError(t, err)

	state := aliceLc.channel.State()
	db := testChannelStateDB(t, aliceLc.channel).GetParentDB()

	s, err := initSwitchWithDB(testStartingHeight, db)
	require.NoError(t, err)

	// Nothing was ever signed for: the next local htlc index is the
	// first index that did not reach a commitment.
	next, err := state.NextLocalHtlcIndex()
	require.NoError(t, err)

	circuit := &PaymentCircuit{
		Incoming:       CircuitKey{ChanID: inChan, HtlcID: 1},
		ErrorEncrypter: NewMockObfuscator(),
	}
	_, err = s.circuits.CommitCircuits(circuit)
	require.NoError(t, err)

	outKey := CircuitKey{ChanID: state.ShortChanID(), HtlcID: next}
	require.NoError(t, s.circuits.OpenCircuits(Keystone{
		InKey: circuit.Incoming, OutKey: outKey,
	}))

	if waitingClose {
		require.NoError(t, state.MarkCommitmentBroadcasted(
			wire.NewMsgTx(2), lntypes.Local,
		))
	}

	// Node restart: the switch builds its circuit map from disk.
	s2, err := initSwitchWithDB(testStartingHeight, db)
	require.NoError(t, err)

	c := s2.circuits.LookupCircuit(circuit.Incoming)
	require.NotNil(t, c)

	return c.HasKeystone()
}

// TestProbeStartupTrimOpenChannel is the control: the uncommitted keystone of
// an open channel is rolled back on start-up.
func TestProbeStartupTrimOpenChannel(t *testing.T) {
	t.Parallel()

	require.False(t, probeStartupTrim(t, false))
}

// TestProbeStartupTrimWaitingCloseChannel: the same keystone on a channel
// whose commitment was broadcast (waiting close) must be rolled back as well:
// no link will ever be started for that channel, and the contract court does
// not know an HTLC that never reached a commitment, so nothing else will ever
// resolve the circuit.
func TestProbeStartupTrimWaitingCloseChannel(t *testing.T) {
	t.Parallel()

	require.False(t, probeStartupTrim(t, true), "uncommitted keystone "+
		"of a waiting-close channel survives the start-up trim")
}
