package contractcourt

import (
	"bytes"
	"testing"

	"github.com/lightningnetwork/lnd/channeldb"
	graphdb "github.com/lightningnetwork/lnd/graph/db"
	"github.com/lightningnetwork/lnd/kvdb"
	"github.com/stretchr/testify/require"
)

// TestProbe1ForAllWithoutTaprootBucket writes a pending retribution the way a
// version of lnd that predates the taproot retribution bucket did (only the
// "retribution" bucket exists), then lists the store as the breach arbitrator
// does on start up. The retribution must be returned intact.
func TestProbe1ForAllWithoutTaprootBucket(t *testing.T) {
	db := channeldb.OpenForTesting(t, t.TempDir())

	ret := &retributions[0]

	err := kvdb.Update(db, func(tx kvdb.RwTx) error {
		retBucket, err := tx.CreateTopLevelBucket(retributionBucket)
		if err != nil {
			return err
		}

		var outBuf bytes.Buffer
		err = graphdb.WriteOutpoint(&outBuf, &ret.chanPoint)
		if err != nil {
			return err
		}

		var retBuf bytes.Buffer
		if err := ret.Encode(&retBuf); err != nil {
			return err
		}

		return retBucket.Put(outBuf.Bytes(), retBuf.Bytes())
	}, func() {})
	require.NoError(t, err)

	// Sanity: the taproot bucket really doesn't exist.
	err = kvdb.View(db, func(tx kvdb.RTx) error {
		require.Nil(t, tx.ReadBucket(taprootRetributionBucket))
		return nil
	}, func() {})
	require.NoError(t, err)

	rs := NewRetributionStore(db)

	breached, err := rs.IsBreached(&ret.chanPoint)
	require.NoError(t, err)
	require.True(t, breached)

	var got []*retributionInfo
	require.NotPanics(t, func() {
		err = rs.ForAll(func(r *retributionInfo) error {
			got = append(got, r)
			return nil
		}, func() {
			got = nil
		})
	})
	require.NoError(t, err)
	require.Len(t, got, 1)
	require.Equal(t, ret.chanPoint, got[0].chanPoint)
	require.Equal(t, ret.commitHash, got[0].commitHash)
	require.Len(t, got[0].breachedOutputs, len(ret.breachedOutputs))
}
