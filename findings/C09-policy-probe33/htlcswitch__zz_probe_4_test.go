package htlcswitch

import (
	"sync"
	"testing"
	"time"

	"github.com/btcsuite/btcd/btcutil/v2"
	"github.com/lightningnetwork/lnd/lnwire"
	"github.com/stretchr/testify/require"
)

// TestProbePolicyUpdateRacesProcessRemoteAdds must be run with -race. The
// incoming link of a forward (Bob's link to Alice) reads
// l.cfg.FwrdingPolicy.InboundFee in processRemoteAdds without holding the
// link's lock, while UpdateForwardingPolicy (reached from the
// UpdateChannelPolicy rpc through Switch.UpdateForwardingPolicies) writes the
// whole struct under l.Lock(). The race detector fails the test on the
// unmodified tree.
func TestProbePolicyUpdateRacesProcessRemoteAdds(t *testing.T) {
	channels, _, err := createClusterChannels(
		t, btcutil.SatoshiPerBitcoin*5, btcutil.SatoshiPerBitcoin*5,
	)
	require.NoError(t, err)

	n := newThreeHopNetwork(t, channels.aliceToBob, channels.bobToAlice,
		channels.bobToCarol, channels.carolToBob, testStartingHeight)
	require.NoError(t, n.start())
	t.Cleanup(n.stop)

	// The test helper reads the links' policies without a lock, so the route
	// is computed before the concurrent updates start.
	amount := lnwire.NewMSatFromSatoshis(10)
	htlcAmt, htlcExpiry, hops := generateHops(
		amount, testStartingHeight, n.firstBobChannelLink,
		n.carolChannelLink,
	)

	// Keep re-applying the (unchanged) policy to the incoming link, like a
	// policy update rpc would.
	var wg sync.WaitGroup
	quit := make(chan struct{})
	wg.Add(1)
	go func() {
		defer wg.Done()
		for {
			select {
			case <-quit:
				return
			default:
			}
			n.firstBobChannelLink.UpdateForwardingPolicy(
				n.globalPolicy,
			)
			time.Sleep(50 * time.Microsecond)
		}
	}()

	for i := 0; i < 5; i++ {
		_, err = makePayment(
			n.aliceServer, n.carolServer,
			n.firstBobChannelLink.ShortChanID(), hops, amount,
			htlcAmt, htlcExpiry,
		).Wait(30 * time.Second)
		require.NoError(t, err)
	}

	close(quit)
	wg.Wait()
}
