package spec

import (
	"fmt"
	"go/ast"
	"go/token"
	"go/types"
	"sort"
	"strings"

	"lndlint/internal/an"
	"lndlint/internal/flow"
)

// Obligations for the repairs d4f91a6 (the RBF close builds the transaction
// with the dust limits its messages are labelled by) and 12c7bf1 (the legacy
// fee baseline prices the channel type), and for the seeded changes C17/g and
// C17/h of the fourth round.  The helpers of the first part are also used by
// the re-anchored obligations proposal-and-completion-same-inputs (c17.go) and
// dust-predicates-negate-the-builders-keep-condition (c17_fix4.go).
func init() {
	specExtras["C17"] = append(specExtras["C17"], c17f5Rules)
}

const (
	c17f5Helper     = lw + "LightningChannel.coopCloseDustLimits"
	c17f5ScriptFlag = "$p0.scriptDustLimits"
)

// c17f5ScriptDust renders the dust limit of a delivery script given in
// canonical form.
func c17f5ScriptDust(script string) string {
	return lw + "DustLimitForSize(len(" + script + "))"
}

// c17f5DustBases reads coopCloseDustLimits: the canonical forms of the (local,
// remote) limits it returns when the script-dust-limits flag of its options
// argument is set, and of those it returns when it is not.  ok is false when
// the helper does not have exactly one return under each of the two outcomes
// of that one test.
func c17f5DustBases(p *an.Prog) (script, legacy [2]string, ok bool) {
	h := p.FuncOpt(c17f5Helper)
	if h == nil {
		return
	}
	nS, nL := 0, 0
	for _, s := range h.Returns() {
		rs, _ := s.Node.(*ast.ReturnStmt)
		if rs == nil || len(rs.Results) != 2 {
			return script, legacy, false
		}
		gs := c17f4CanonGuards(h, s)
		switch {
		case c17f4SameSet(gs, []string{c17f5ScriptFlag}):
			nS++
			script = [2]string{h.Canon(rs.Results[0]), h.Canon(rs.Results[1])}
		case c17f4SameSet(gs, []string{"!" + c17f5ScriptFlag}):
			nL++
			legacy = [2]string{h.Canon(rs.Results[0]), h.Canon(rs.Results[1])}
		default:
			return script, legacy, false
		}
	}
	return script, legacy, nS == 1 && nL == 1
}

// c17f5DustLimitHelper is the clause of
// C17/proposal-and-completion-same-inputs about the function both halves obtain
// their dust limits from: coopCloseDustLimits(options, local script, remote
// script) returns the channel's configured limits (local, remote) exactly when
// the script-dust-limits flag of the options is not set, and
// (DustLimitForSize(len(local script)), DustLimitForSize(len(remote script)))
// exactly when it is; it writes none of its parameters.
func c17f5DustLimitHelper(o *an.Obl, p *an.Prog) {
	h := p.FuncOpt(c17f5Helper)
	if h == nil {
		o.FailAt(c17f5Helper+"#missing", "", "coopCloseDustLimits is gone: the proposal and the completion must obtain the dust limits of the builder from one function")
		return
	}
	ps := h.Params(false)
	if len(ps) != 3 || ps[0] == nil || ps[1] == nil || ps[2] == nil || an.TypeID(ps[1].Type()) != "[]byte" || an.TypeID(ps[2].Type()) != "[]byte" {
		o.FailAt(h.ID+"#params", h.Where(h.Body.Pos()), "coopCloseDustLimits has %d parameters, the rule knows (options, local script, remote script)", len(ps))
		return
	}
	notReassigned(o, h, ps[0].Name(), ps[1].Name(), ps[2].Name())
	cs := "$recv.channelState."
	wantScript := [2]string{c17f5ScriptDust("$p1"), c17f5ScriptDust("$p2")}
	wantLegacy := [2]string{cs + "LocalChanCfg.DustLimit", cs + "RemoteChanCfg.DustLimit"}
	party := [2]string{"local", "remote"}
	nS, nL := 0, 0
	for _, s := range h.Returns() {
		rs, _ := s.Node.(*ast.ReturnStmt)
		if rs == nil || len(rs.Results) != 2 {
			o.FailAt(h.ID+"#exit-shape", s.Where(), "cannot read the two limits returned at %s", s.String())
			continue
		}
		gs := c17f4CanonGuards(h, s)
		got := [2]string{h.Canon(rs.Results[0]), h.Canon(rs.Results[1])}
		o.Site("coopCloseDustLimits returns (%s, %s) under %v", got[0], got[1], gs)
		var want [2]string
		what := ""
		switch {
		case c17f4SameSet(gs, []string{c17f5ScriptFlag}):
			nS++
			want, what = wantScript, "script"
		case c17f4SameSet(gs, []string{"!" + c17f5ScriptFlag}):
			nL++
			want, what = wantLegacy, "legacy"
		default:
			o.FailAt(h.ID+"#dust-basis-condition", s.Where(), "coopCloseDustLimits returns (%s, %s) under %v, expected the single test of the script-dust-limits flag of the options it is handed", got[0], got[1], gs)
			continue
		}
		for i := range want {
			if got[i] != want[i] {
				o.FailAt(h.ID+"#"+what+"-basis-"+party[i], s.Where(), "coopCloseDustLimits returns %s as the %s dust limit of the %s basis, expected %s", got[i], party[i], what, want[i])
			}
		}
	}
	if nS != 1 || nL != 1 {
		o.FailAt(h.ID+"#dust-bases", h.Where(h.Body.Pos()), "expected one return of coopCloseDustLimits for the script basis and one for the channel's limits, found %d / %d", nS, nL)
	}
}

// c17f5DustArguments is the dust clause of
// C17/proposal-and-completion-same-inputs for one of the two functions: the
// arguments 1 and 2 of the builder call tx are locals defined (and written by
// nothing else) as results #0 and #1 of the one call of coopCloseDustLimits in
// f, which receives the applied close options (the variable the fee payer of
// the balance call is read from, defined once by defaultCloseOpts()) and the
// local and the remote script the builder receives.
func c17f5DustArguments(o *an.Obl, f *an.Func, name string, tx, bal an.Site, scripts []string) {
	hc := f.Calls(an.CalleeIs(c17f5Helper), true)
	if !needExactly(o, f, "coopCloseDustLimits", hc, 1) {
		return
	}
	call := hc[0].Node.(*ast.CallExpr)
	c := tx.Node.(*ast.CallExpr)
	party := [2]string{"local", "remote"}
	for i, idx := range []int{1, 2} {
		id, _ := ast.Unparen(c.Args[idx]).(*ast.Ident)
		var def *ast.CallExpr
		k := -1
		if id != nil {
			def, k = f.UniqueCallDef(id)
		}
		if def != call || k != i {
			o.FailAt(f.ID+"#tx-arg-"+fmt.Sprint(idx), tx.Where(), "%s passes %s as argument %d of CreateCooperativeCloseTx, expected the %s limit (result #%d) of coopCloseDustLimits", name, f.Canon(c.Args[idx]), idx, party[i], i)
			continue
		}
		for _, w := range c17WritesOf(f, c17ObjOfIdent(f, id)) {
			as, _ := w.Node.(*ast.AssignStmt)
			if as == nil || !w.Whole || !w.Tuple || len(as.Rhs) != 1 || ast.Unparen(as.Rhs[0]) != ast.Expr(call) {
				o.FailAt(f.ID+"#tx-dust-"+party[i]+"-written", f.Where(w.Node.Pos()), "%s: the %s dust limit handed to the builder is also written by %s", name, party[i], an.Text(w.Node))
			}
		}
	}
	a := f.ArgCanon(hc[0])
	o.Site("%s: coopCloseDustLimits(%s)", name, strings.Join(a, ", "))
	if len(a) != 3 {
		o.FailAt(f.ID+"#dust-call-shape", hc[0].Where(), "coopCloseDustLimits is called with %d arguments, the rule knows (options, local script, remote script)", len(a))
		return
	}
	for i := 0; i < 2; i++ {
		if a[1+i] != scripts[i] {
			o.FailAt(f.ID+"#dust-script-"+party[i], hc[0].Where(), "%s derives the %s dust limit from %s, but hands the builder %s as the %s script", name, party[i], a[1+i], scripts[i], party[i])
		}
	}
	// the options: the very variable the rest of the function reads
	var payerObj types.Object
	if bc, ok := bal.Node.(*ast.CallExpr); ok && len(bc.Args) == 7 {
		if sel, ok := ast.Unparen(bc.Args[6]).(*ast.SelectorExpr); ok {
			if pid, ok := ast.Unparen(sel.X).(*ast.Ident); ok {
				payerObj = c17ObjOfIdent(f, pid)
			}
		}
	}
	oid, _ := ast.Unparen(call.Args[0]).(*ast.Ident)
	if oid == nil || payerObj == nil || c17ObjOfIdent(f, oid) != payerObj || a[0] != lw+"defaultCloseOpts()" {
		o.FailAt(f.ID+"#dust-options", hc[0].Where(), "%s derives the dust limits from the options %s, expected the applied close options (the variable the fee payer is read from, defined once by defaultCloseOpts())", name, an.Text(call.Args[0]))
	} else {
		notReassigned(o, f, oid.Name)
	}
}

// c17f5BuilderKeeps reads the conditions `balance <op> dust limit` under which
// CreateCooperativeCloseTx keeps the local (parameters 3, 1) and the remote
// (parameters 4, 2) output.
func c17f5BuilderKeeps(p *an.Prog) map[string]token.Token {
	b := p.Func(lw + "CreateCooperativeCloseTx")
	keeps, _ := c17BuilderKeeps(b)
	return keeps
}

// c17f5GuardsBeyond renders, in canonical form, the condition edges every path
// to b takes that a path to base need not take ("!"-prefixed for a false
// edge; a case of a tagless switch is rendered like an if condition).
func c17f5GuardsBeyond(f *an.Func, b, base an.Site) []string {
	var out []string
	for _, e := range c17ExtraGuards(f, b, base) {
		c := ""
		switch e.From.Kind {
		case flow.KCond:
			x, _ := e.From.Node.(ast.Expr)
			c = f.Canon(x)
		case flow.KCase:
			x, _ := e.From.Node.(ast.Expr)
			if e.From.Tag != nil {
				c = "(" + f.Canon(e.From.Tag) + " == " + f.Canon(x) + ")"
			} else {
				c = f.Canon(x)
			}
		default:
			c = "type " + an.Text(e.From.Node)
		}
		if e.Kind == flow.EFalse {
			c = "!" + c
		}
		out = append(out, c)
	}
	sort.Strings(out)
	return out
}

// c17f5FlagRefs: the field chanCloseOpt.<field> is written by the option
// constructor writer alone (one plain `= true`) and read by the functions in
// readers alone.
func c17f5FlagRefs(o *an.Obl, p *an.Prog, field, writer string, readers map[string]bool, what string) {
	fld := p.Field("lnwallet", "chanCloseOpt", field)
	nWrites := 0
	for _, ref := range p.RefsTo(fld, false) {
		id, _ := ref.Node.(*ast.Ident)
		if ref.Fn == nil {
			o.FailAt(field+"<-<package-level>", ref.Where, "the %s flag is referenced at package level", what)
			continue
		}
		fnID := ref.Fn.Root().ID
		o.Site("%s referenced by %s at %s", field, fnID, ref.Where)
		var write ast.Node
		isKV := false
		ast.Inspect(ref.Fn.Body, func(n ast.Node) bool {
			switch x := n.(type) {
			case *ast.AssignStmt:
				for _, l := range x.Lhs {
					if sel, ok := ast.Unparen(l).(*ast.SelectorExpr); ok && sel.Sel == id {
						write = x
					}
				}
			case *ast.IncDecStmt:
				if sel, ok := ast.Unparen(x.X).(*ast.SelectorExpr); ok && sel.Sel == id {
					write = x
				}
			case *ast.UnaryExpr:
				if sel, ok := ast.Unparen(x.X).(*ast.SelectorExpr); ok && x.Op == token.AND && sel.Sel == id {
					write = x
				}
			case *ast.KeyValueExpr:
				if x.Key == ast.Expr(id) {
					isKV = true
				}
			}
			return true
		})
		switch {
		case write != nil || isKV:
			nWrites++
			as, _ := write.(*ast.AssignStmt)
			if as == nil || fnID != writer || len(as.Lhs) != 1 || len(as.Rhs) != 1 || as.Tok != token.ASSIGN || !an.BoolConst(true)(ref.Fn, ast.Unparen(as.Rhs[0])) {
				o.FailAt(field+"<-write@"+fnID, ref.Where, "the %s flag is written in %s; only %s may set it (to true)", what, fnID, writer)
			}
		default:
			if !readers[fnID] {
				o.FailAt(field+"<-read@"+fnID, ref.Where, "the %s flag is read in %s; only %v decide by it", what, fnID, c17f5Keys(readers))
			}
		}
	}
	if nWrites != 1 {
		o.FailAt(field+"#writes", "", "expected exactly one write of the %s flag (in %s), found %d", what, writer, nWrites)
	}
}

func c17f5Keys(m map[string]bool) []string {
	var out []string
	for k := range m {
		out = append(out, k)
	}
	sort.Strings(out)
	return out
}

func c17f5Rules(r *an.Run) {
	p := r.Prog
	cc := "lnwallet/chancloser."
	lc := lw + "LightningChannel."
	neg := map[token.Token]token.Token{token.GEQ: token.LSS, token.GTR: token.LEQ, token.LEQ: token.GTR, token.LSS: token.GEQ}

	// ------------------------------------------------------------ d4f91a6, seed C17/g
	r.Obl("rbf-dust-decisions-use-the-builders-basis", "MIRROR",
		"every dust decision of the RBF close compares a party's balance with lnwallet.DustLimitForSize(len(<that party's delivery script>)), the basis coopCloseDustLimits hands the transaction builder under the script-dust-limits option (local script for the local limit, remote script for the remote one): CloseChannelTerms.LocalAmtIsDust / RemoteAmtIsDust return `<own side>Balance.ToSatoshis() < DustLimitForSize(len(<own side>DeliveryScript))`, the exact negation of the builder's keep condition; DeriveCloseTxOuts derives both outputs through one literal that returns an output carrying (script, balance) exactly when `balance >= DustLimitForSize(len(script))` (the builder's operator) and hands it (LocalBalance, LocalDeliveryScript) for the first and (RemoteBalance, RemoteDeliveryScript) for the second result; LocalCloseStart labels its signature no-closee exactly when the remote output of DeriveCloseTxOuts is nil and otherwise no-closer exactly when the balance CreateCloseProposal returned (the local balance it handed the builder) is below DustLimitForSize(len(<the local script it signed for>)), and prices the fee on those two outputs; RemoteCloseStart judges its own output by LocalAmtIsDust and builds for its own scripts; package chancloser computes a script dust limit nowhere else; the script-dust-limits option is placed by the three RBF states alone, its flag is set by WithScriptDustLimits alone and read by coopCloseDustLimits alone",
		"closing_complete / closing_sig say which outputs the signed transaction has; the peer builds the version the label names: a label, fee estimate or closee-side dust test decided on another basis than the builder's (the channel's dust limits, the other party's script) names outputs the signed transaction does not have, and two honest nodes sign different transactions or refuse each other's offer", 16,
		func(o *an.Obl) {
			keeps := c17f5BuilderKeeps(p)
			script, _, okBases := c17f5DustBases(p)
			if !okBases {
				o.FailAt(c17f5Helper+"#dust-bases", "", "cannot read the script basis and the channel basis of coopCloseDustLimits (one return under each outcome of the script-dust-limits flag)")
			}
			helperParam := map[string]string{"Local": "$p1", "Remote": "$p2"}

			// (a) the two predicates of the close terms
			for i, side := range []string{"Local", "Remote"} {
				f := p.Func(cc + "CloseChannelTerms." + side + "AmtIsDust")
				keep, ok := keeps[side]
				if !ok {
					o.FailAt(lw+"CreateCooperativeCloseTx#keep-"+side, "", "cannot find the condition `balance <op> dust limit` under which the builder keeps the %s output", strings.ToLower(side))
					continue
				}
				rets := f.Returns()
				if !needExactly(o, f, "return", rets, 1) {
					continue
				}
				rs, _ := rets[0].Node.(*ast.ReturnStmt)
				var be *ast.BinaryExpr
				if rs != nil && len(rs.Results) == 1 {
					be, _ = ast.Unparen(rs.Results[0]).(*ast.BinaryExpr)
				}
				if be == nil {
					o.FailAt(f.ID+"#verdict", rets[0].Where(), "%sAmtIsDust returns %s, expected a comparison of the %s balance with the dust limit of the %s delivery script", side, rets[0].String(), strings.ToLower(side), strings.ToLower(side))
					continue
				}
				o.Site("%sAmtIsDust returns %s; the builder keeps the output iff balance %s limit", side, f.Canon(be), keep)
				if be.Op != neg[keep] {
					o.FailAt(f.ID+"#verdict-operator", rets[0].Where(), "%sAmtIsDust says dust iff balance %s limit, but the builder keeps the output iff balance %s limit: the predicate must be the exact negation (%s)", side, be.Op, keep, neg[keep])
				}
				if c, w := f.Canon(be.X), "$recv."+side+"Balance.ToSatoshis()"; c != w {
					o.FailAt(f.ID+"#verdict-balance", rets[0].Where(), "%sAmtIsDust judges %s, expected %s", side, c, w)
				}
				ownScript := "$recv." + side + "DeliveryScript"
				limit := f.Canon(be.Y)
				if w := c17f5ScriptDust(ownScript); limit != w {
					o.FailAt(f.ID+"#verdict-limit", rets[0].Where(), "%sAmtIsDust compares with %s, expected %s: each party's output is judged by the dust limit of that party's own delivery script, as the builder does", side, limit, w)
				}
				// sibling agreement with the builder's basis
				if okBases {
					if w := strings.ReplaceAll(script[i], helperParam[side], ownScript); limit != w {
						o.FailAt(f.ID+"#verdict-limit-vs-builder", rets[0].Where(), "%sAmtIsDust compares with %s, but under the script-dust-limits option the builder is handed %s for the %s output", side, limit, w, strings.ToLower(side))
					}
				}
			}

			// (b) the outputs the fee is priced on and the no-closee label is read from
			c17f5DeriveCloseTxOuts(o, p, keeps)

			// (c) the labels of closing_complete
			start := p.Func(cc + "LocalCloseStart.ProcessEvent")
			prop := start.Calls(an.CalleeNamed("CreateCloseProposal"), false)
			enc := start.Calls(an.CalleeIs(cc+"encodeClosingSignatures"), false)
			if needExactly(o, start, "CreateCloseProposal", prop, 1) && needExactly(o, start, "encodeClosingSignatures", enc, 1) && len(enc[0].Node.(*ast.CallExpr).Args) == 5 && len(prop[0].Node.(*ast.CallExpr).Args) >= 3 {
				pc := prop[0].Node.(*ast.CallExpr)
				ec := enc[0].Node.(*ast.CallExpr)
				isRemoteOutNil := func(e ast.Expr) bool {
					// <result #1 of $recv.DeriveCloseTxOuts()> == nil
					be, ok := ast.Unparen(e).(*ast.BinaryExpr)
					if !ok || be.Op != token.EQL || !an.IsNilIdent(start.Info(), ast.Unparen(be.Y)) {
						return false
					}
					id, _ := ast.Unparen(be.X).(*ast.Ident)
					if id == nil {
						return false
					}
					call, idx := start.UniqueCallDef(id)
					return call != nil && idx == 1 && start.Canon(call) == "$recv.DeriveCloseTxOuts()"
				}
				isLocalDust := func(e ast.Expr) (bool, string) {
					be, ok := ast.Unparen(e).(*ast.BinaryExpr)
					if !ok {
						return false, "it is not a comparison"
					}
					if keep, ok := keeps["Local"]; !ok || be.Op != neg[keep] {
						return false, fmt.Sprintf("its operator %s is not the negation of the builder's keep condition", be.Op)
					}
					id, _ := ast.Unparen(be.X).(*ast.Ident)
					var call *ast.CallExpr
					idx := -1
					if id != nil {
						call, idx = start.UniqueCallDef(id)
					}
					if call != pc || idx != 2 {
						return false, an.Text(be.X) + " is not the balance (result #2) CreateCloseProposal returned"
					}
					if got, w := start.Canon(be.Y), c17f5ScriptDust(start.Canon(pc.Args[1])); got != w {
						return false, "the limit is " + got + ", expected " + w + " (the dust limit of the local script the proposal was signed for)"
					}
					return true, ""
				}
				type label struct {
					arg  int
					name string
				}
				for _, lb := range []label{{3, "no-closer"}, {4, "no-closee"}} {
					id, _ := ast.Unparen(ec.Args[lb.arg]).(*ast.Ident)
					obj := c17ObjOfIdent(start, id)
					if _, isVar := obj.(*types.Var); !isVar {
						o.FailAt(start.ID+"#label-"+lb.name, enc[0].Where(), "the %s label handed to encodeClosingSignatures is %s, expected a local set under the dust decision", lb.name, an.Text(ec.Args[lb.arg]))
						continue
					}
					nTrue := 0
					for _, w := range c17WritesOf(start, obj) {
						if w.Tok == token.VAR && w.Rhs == nil {
							continue
						}
						s, inGraph := c17SiteOfNode(start, w.Node)
						if !inGraph || !w.Whole || w.Tuple || w.Rhs == nil || w.Tok != token.ASSIGN || !an.BoolConst(true)(start, ast.Unparen(w.Rhs)) {
							o.FailAt(start.ID+"#label-"+lb.name+"-written", start.Where(w.Node.Pos()), "the %s label is written by %s; tabled is one `= true` under the dust decision", lb.name, an.Text(w.Node))
							continue
						}
						nTrue++
						if c17StrictlyAfter(start.Graph(), enc[0].V)[s.V] {
							o.FailAt(start.ID+"#label-"+lb.name+"-late", s.Where(), "the %s label is set after the signatures were encoded", lb.name)
						}
						var conds []ast.Expr
						var pol []bool
						for _, e := range c17ExtraGuards(start, s, enc[0]) {
							x, _ := e.From.Node.(ast.Expr)
							conds = append(conds, x)
							pol = append(pol, e.Kind == flow.ETrue)
						}
						gs := c17f5GuardsBeyond(start, s, enc[0])
						o.Site("closing_complete is labelled %s under %v", lb.name, gs)
						switch lb.name {
						case "no-closee":
							if len(conds) != 1 || !pol[0] || conds[0] == nil || !isRemoteOutNil(conds[0]) {
								o.FailAt(start.ID+"#label-no-closee", s.Where(), "the signature is labelled no-closee under %v, expected exactly when the remote output of DeriveCloseTxOuts is nil", gs)
							}
						case "no-closer":
							okShape := len(conds) == 2
							why := fmt.Sprintf("%v", gs)
							nDust := 0
							for k := range conds {
								if !okShape || conds[k] == nil {
									okShape = false
									break
								}
								if isRemoteOutNil(conds[k]) {
									if pol[k] {
										okShape = false
									}
									continue
								}
								d, w := isLocalDust(conds[k])
								if !d || !pol[k] {
									okShape = false
									why = w
									continue
								}
								nDust++
							}
							if !okShape || nDust != 1 {
								o.FailAt(start.ID+"#label-no-closer", s.Where(), "the signature is labelled no-closer under %v, expected exactly when the remote output exists and the balance CreateCloseProposal returned is below the script dust limit of the local script it signed for (%s)", gs, why)
							}
						}
					}
					if nTrue != 1 {
						o.FailAt(start.ID+"#label-"+lb.name, enc[0].Where(), "expected exactly one place that sets the %s label, found %d", lb.name, nTrue)
					}
				}
			}
			// the balance the proposal returns is the local balance it handed the builder
			for _, name := range []string{"CreateCloseProposal"} {
				g := p.Func(lc + name)
				tx := g.Calls(an.CalleeIs(lw+"CreateCooperativeCloseTx"), false)
				if !needExactly(o, g, "CreateCooperativeCloseTx", tx, 1) {
					continue
				}
				bid, _ := ast.Unparen(tx[0].Node.(*ast.CallExpr).Args[3]).(*ast.Ident)
				for _, s := range g.StrictSuccessReturnsOrNilPtr() {
					rs := s.Node.(*ast.ReturnStmt)
					rid, _ := ast.Unparen(rs.Results[2]).(*ast.Ident)
					if bid == nil || rid == nil || c17ObjOfIdent(g, bid) != c17ObjOfIdent(g, rid) {
						o.FailAt(g.ID+"#returned-balance", s.Where(), "the proposal returns %s as our balance, but hands the builder %s as the local balance: the caller decides the no-closer label on the returned one", an.Text(rs.Results[2]), an.Text(tx[0].Node.(*ast.CallExpr).Args[3]))
					}
				}
			}

			// the fee is priced on the outputs of DeriveCloseTxOuts (RBF states)
			// -- see fee-estimates-price-the-transaction-being-built.

			// (e) the closee judges its own output, and builds for its own scripts
			rem := p.Func(cc + "RemoteCloseStart.ProcessEvent")
			ext := rem.Calls(an.CalleeIs(cc+"extractSigAndNonceFromClosingComplete"), false)
			if needExactly(o, rem, "extractSigAndNonceFromClosingComplete", ext, 1) {
				a := rem.ArgCanon(ext[0])
				o.Site("RemoteCloseStart: extractSigAndNonceFromClosingComplete(%s)", strings.Join(a, ", "))
				if len(a) < 2 || a[1] != "$recv.LocalAmtIsDust()" {
					o.FailAt(rem.ID+"#closee-own-dust", ext[0].Where(), "the closee tells the signature selection %s as its own dust status, expected $recv.LocalAmtIsDust() (the closee's output is the local one)", strings.Join(a[1:min(2, len(a))], ""))
				}
			}
			rc := rem.Calls(an.CalleeNamed("CompleteCooperativeClose"), false)
			if needExactly(o, rem, "CompleteCooperativeClose", rc, 1) {
				a := rem.ArgCanon(rc[0])
				if len(a) < 4 || a[2] != "$recv.LocalDeliveryScript" || a[3] != "$recv.RemoteDeliveryScript" {
					o.FailAt(rem.ID+"#closee-scripts", rc[0].Where(), "the closee completes for scripts (%s), expected ($recv.LocalDeliveryScript, $recv.RemoteDeliveryScript): the scripts its dust predicates judge by", strings.Join(a[2:min(4, len(a))], ", "))
				}
			}

			// (g) no other script dust limit in the package
			tabled := map[string]bool{
				cc + "CloseChannelTerms.LocalAmtIsDust":    true,
				cc + "CloseChannelTerms.RemoteAmtIsDust":   true,
				cc + "CloseChannelTerms.DeriveCloseTxOuts": true,
				start.ID: true,
			}
			if obj := p.LookupObj("lnwallet", "DustLimitForSize"); obj != nil {
				for _, ref := range p.RefsTo(obj, false) {
					if ref.Fn == nil || ref.Fn.Pkg.PkgPath != start.Pkg.PkgPath {
						continue
					}
					id := ref.Fn.Root().ID
					o.Site("DustLimitForSize used by %s at %s", id, ref.Where)
					if !tabled[id] {
						o.FailAt(id+"#untabled-dust-decision", ref.Where, "%s computes a script dust limit; the dust decisions of the RBF close the rule knows (and checks against the builder's basis) are %v", id, c17f5Keys(tabled))
					}
				}
			}

			// (f) who places the option, who sets and reads the flag
			states := map[string]bool{start.ID: true, cc + "LocalOfferSent.ProcessEvent": true, rem.ID: true}
			if obj := p.LookupObj("lnwallet", "WithScriptDustLimits"); obj == nil {
				o.FailAt(lw+"WithScriptDustLimits#missing", "", "the option WithScriptDustLimits is gone: the RBF close would build by the channel's dust limits and label by the scripts'")
			} else {
				seen := map[string]bool{}
				for _, ref := range p.RefsTo(obj, false) {
					id := "<package-level>"
					if ref.Fn != nil {
						id = ref.Fn.Root().ID
					}
					seen[id] = true
					o.Site("WithScriptDustLimits placed by %s at %s", id, ref.Where)
					if !states[id] {
						o.FailAt(id+"#places-script-dust-limits", ref.Where, "%s places the script-dust-limits option; only the RBF states %v build by the scripts' dust limits (the legacy closer prices and builds by the channel's)", id, c17f5Keys(states))
					}
				}
				for id := range states {
					if !seen[id] {
						o.FailAt(id+"#lacks-script-dust-limits", "", "%s does not place the script-dust-limits option: that half builds by the channel's dust limits while the labels are decided by the scripts'", id)
					}
				}
			}
			c17f5FlagRefs(o, p, "scriptDustLimits", lw+"WithScriptDustLimits", map[string]bool{c17f5Helper: true}, "script-dust-limits")
		})

	// ------------------------------------------------------------ 12c7bf1
	r.Obl("fee-estimates-price-the-transaction-being-built", "TABLE",
		"every call of the fee estimator (EstimateFee) in package chancloser passes the type of the channel being closed - <closer>.cfg.Channel.ChanType() in the legacy ChanCloser, the ChanType field of the environment parameter in the RBF states - and, in this order, the local and the remote output of the transaction: in the RBF states results #0 and #1 of one DeriveCloseTxOuts() call, in the legacy closer's initFeeBaseline two locals that are nil unless set, once, under exactly the negated verdict of LocalBalanceDust() / RemoteBalanceDust() of the channel, to an output paying the closer's local / remote delivery script",
		"the channel type decides the size of the witness that spends the funding output (keyspend for taproot, 2-of-2 multisig otherwise) and the outputs the rest of the weight: an ideal fee and a fee cap computed for another transaction than the one that is signed start the legacy negotiation outside the range the user allowed and make the RBF closer offer a fee that does not buy the requested rate", 4,
		func(o *an.Obl) {
			n := 0
			for _, f := range p.Funcs(false, "lnwallet/chancloser") {
				if f.Parent != nil {
					continue
				}
				for _, s := range f.Calls(an.CalleeNamed("EstimateFee"), true) {
					c := s.Node.(*ast.CallExpr)
					if len(c.Args) != 4 {
						continue
					}
					if s.V == nil || f.Graph().Containing(c, false) == nil {
						o.FailAt(f.ID+"#estimate-in-literal", f.Where(c.Pos()), "%s estimates the fee inside a function literal: the rule cannot follow its arguments", f.ID)
						continue
					}
					n++
					a := f.ArgCanon(s)
					o.Site("%s: EstimateFee(%s)", f.ID, strings.Join(a, ", "))
					legacy := strings.HasPrefix(f.ID, cc+"ChanCloser.")
					// the channel type
					if legacy {
						if a[0] != "$recv.cfg.Channel.ChanType()" {
							o.FailAt(f.ID+"#estimate-chan-type", s.Where(), "%s prices the close for channel type %s, expected $recv.cfg.Channel.ChanType() (the witness of a taproot funding output is a single signature)", f.ID, a[0])
						}
					} else {
						okEnv := false
						for i, pv := range f.Params(false) {
							if pv != nil && an.TypeID(pv.Type()) == cc+"Environment" && a[0] == fmt.Sprintf("$p%d.ChanType", i) {
								okEnv = true
							}
						}
						if !okEnv {
							o.FailAt(f.ID+"#estimate-chan-type", s.Where(), "%s prices the close for channel type %s, expected the ChanType of the environment it received", f.ID, a[0])
						}
					}
					// the outputs
					if legacy {
						c17f5LegacyEstimateOutputs(o, f, s)
						continue
					}
					var first *ast.CallExpr
					for i := 0; i < 2; i++ {
						id, _ := ast.Unparen(c.Args[1+i]).(*ast.Ident)
						var call *ast.CallExpr
						idx := -1
						if id != nil {
							call, idx = f.UniqueCallDef(id)
						}
						if call == nil || idx != i || an.CalleeID(f.Info(), call) != cc+"CloseChannelTerms.DeriveCloseTxOuts" || (first != nil && call != first) {
							o.FailAt(f.ID+fmt.Sprintf("#estimate-output-%d", i), s.Where(), "%s prices %s as output %d, expected result #%d of one DeriveCloseTxOuts() call", f.ID, a[1+i], i, i)
							continue
						}
						first = call
					}
				}
			}
			if n < 4 {
				o.FailAt("chancloser#estimate-calls", "", "expected at least 4 calls of the fee estimator in package chancloser, found %d", n)
			}
		})

	// ------------------------------------------------------------ seed C17/h
	r.Obl("legacy-negotiation-is-entered-before-the-first-offer-is-handled", "PATH",
		"ChanCloser.BeginNegotiation writes the closer's state exactly once, to closeFeeNegotiation, outside any function literal, and that write lies on every path to each of its calls of ReceiveClosingSigned (the replay of the closing_signed stashed while the link was flushing, made from a function literal) and proposeCloseSigned (the opener's first offer)",
		"ReceiveClosingSigned only stashes a message while the state is closeAwaitingFlush: a replay before the transition stashes the opener's only unsolicited offer again and the responder never answers; an opener that offers before the transition treats the answer the same way: the negotiation never terminates", 3,
		func(o *an.Obl) {
			f := p.Func(cc + "ChanCloser.BeginNegotiation")
			writes := f.Assigns(an.FieldPath(an.Recv(), "state"), true)
			var trans []an.Site
			for _, w := range writes {
				as, _ := w.Node.(*ast.AssignStmt)
				_, inGraph := c17SiteOfNode(f, w.Node)
				if as == nil || !inGraph || as.Tok != token.ASSIGN || len(as.Lhs) != 1 || len(as.Rhs) != 1 || f.Canon(as.Rhs[0]) != cc+"closeFeeNegotiation" {
					o.FailAt(f.ID+"#state-write", w.Where(), "BeginNegotiation writes the state by %s; tabled is the one transition to closeFeeNegotiation made before any offer is handled", an.Text(w.Node))
					continue
				}
				trans = append(trans, w)
			}
			if !needExactly(o, f, "transition to closeFeeNegotiation", trans, 1) && len(trans) == 0 {
				return
			}
			calls := f.Calls(an.CalleeIs(cc+"ChanCloser.ReceiveClosingSigned", cc+"ChanCloser.proposeCloseSigned"), true)
			if !need(o, f, "call of ReceiveClosingSigned / proposeCloseSigned", calls, 2) {
				return
			}
			for _, c := range calls {
				o.Site("%s after %s", c.String(), trans[0].String())
				sameStmt := false
				for _, t := range trans {
					sameStmt = sameStmt || t.V == c.V
				}
				if sameStmt || !f.Before(trans, c) {
					o.FailAt(constructOf(f, c)+"<-before-transition", c.Where(), "%s can be reached while the state is still closeAwaitingFlush (the transition %s does not lie on every path to it): ReceiveClosingSigned only stashes a closing_signed in that state", c.String(), trans[0].String())
				}
			}
		})
}

// c17f5DeriveCloseTxOuts is clause (b) of
// rbf-dust-decisions-use-the-builders-basis.
func c17f5DeriveCloseTxOuts(o *an.Obl, p *an.Prog, keeps map[string]token.Token) {
	cc := "lnwallet/chancloser."
	f := p.Func(cc + "CloseChannelTerms.DeriveCloseTxOuts")
	if len(f.Lits) != 1 {
		o.FailAt(f.ID+"#literal", f.Where(f.Body.Pos()), "expected DeriveCloseTxOuts to derive both outputs through one function literal, found %d", len(f.Lits))
		return
	}
	lf := f.Lits[0]
	lp := lf.Params(false)
	if len(lp) != 2 || lp[0] == nil || lp[1] == nil {
		o.FailAt(f.ID+"#literal-params", f.Where(lf.Lit.Pos()), "the deriving literal does not take (balance, script)")
		return
	}
	notReassigned(o, lf, lp[0].Name(), lp[1].Name())
	keep, okKeep := keeps["Local"]
	if k2, ok2 := keeps["Remote"]; !okKeep || !ok2 || k2 != keep {
		o.FailAt(lw+"CreateCooperativeCloseTx#keep", "", "cannot find one operator under which the builder keeps both outputs")
		return
	}
	cond := "($lit.p0 " + keep.String() + " " + c17f5ScriptDust("$lit.p1") + ")"
	nOut, nNil := 0, 0
	for _, s := range lf.Returns() {
		rs, _ := s.Node.(*ast.ReturnStmt)
		if rs == nil || len(rs.Results) != 1 {
			o.FailAt(f.ID+"#literal-exit", s.Where(), "cannot read the output returned at %s", s.String())
			continue
		}
		gs := c17f4CanonGuards(lf, s)
		o.Site("DeriveCloseTxOuts literal returns %s under %v", lf.Canon(rs.Results[0]), gs)
		if an.IsNilIdent(lf.Info(), ast.Unparen(rs.Results[0])) {
			nNil++
			if !c17f4SameSet(gs, []string{"!" + cond}) {
				o.FailAt(f.ID+"#no-output-condition", s.Where(), "no output is derived under %v, expected exactly !%s (the negation of the builder's keep condition on the script's dust limit)", gs, cond)
			}
			continue
		}
		nOut++
		if !c17f4SameSet(gs, []string{cond}) {
			o.FailAt(f.ID+"#output-condition", s.Where(), "an output is derived under %v, expected exactly %s (the builder's keep condition on the script's dust limit)", gs, cond)
		}
		var cl *ast.CompositeLit
		if u, ok := ast.Unparen(rs.Results[0]).(*ast.UnaryExpr); ok && u.Op == token.AND {
			cl, _ = ast.Unparen(u.X).(*ast.CompositeLit)
		}
		if cl == nil || c17f4KV(cl, "PkScript") == nil || lf.Canon(c17f4KV(cl, "PkScript")) != "$lit.p1" || c17f4KV(cl, "Value") == nil || lf.Canon(c17f4KV(cl, "Value")) != "int64($lit.p0)" {
			o.FailAt(f.ID+"#output-contents", s.Where(), "the derived output is %s, expected the script and the balance that were judged", an.Text(rs.Results[0]))
		}
	}
	if nOut != 1 || nNil != 1 {
		o.FailAt(f.ID+"#literal-exits", f.Where(lf.Lit.Pos()), "expected one exit of the deriving literal with an output and one without, found %d / %d", nOut, nNil)
	}
	// the two uses
	rets := f.Returns()
	if !needExactly(o, f, "return", rets, 1) {
		return
	}
	rs, _ := rets[0].Node.(*ast.ReturnStmt)
	if rs == nil || len(rs.Results) != 2 {
		o.FailAt(f.ID+"#exit-shape", rets[0].Where(), "cannot read the two outputs returned at %s", rets[0].String())
		return
	}
	for i, side := range []string{"Local", "Remote"} {
		id, _ := ast.Unparen(rs.Results[i]).(*ast.Ident)
		var call *ast.CallExpr
		if id != nil {
			call, _ = ast.Unparen(f.UniqueDef(id)).(*ast.CallExpr)
		}
		var lit *ast.FuncLit
		if call != nil {
			if fid, ok := ast.Unparen(call.Fun).(*ast.Ident); ok {
				lit, _ = ast.Unparen(f.UniqueDef(fid)).(*ast.FuncLit)
			}
		}
		if call == nil || lit != lf.Lit || len(call.Args) != 2 {
			o.FailAt(f.ID+"#result-"+side, rets[0].Where(), "DeriveCloseTxOuts returns %s as the %s output, expected the result of the deriving literal", an.Text(rs.Results[i]), strings.ToLower(side))
			continue
		}
		got := [2]string{f.Canon(call.Args[0]), f.Canon(call.Args[1])}
		want := [2]string{"$recv." + side + "Balance.ToSatoshis()", "$recv." + side + "DeliveryScript"}
		o.Site("DeriveCloseTxOuts: %s output from (%s, %s)", strings.ToLower(side), got[0], got[1])
		if got != want {
			o.FailAt(f.ID+"#derives-"+side, f.Where(call.Pos()), "the %s output is derived from (%s, %s), expected (%s, %s): each party's balance is judged by its own script", strings.ToLower(side), got[0], got[1], want[0], want[1])
		}
	}
}

// c17f5LegacyEstimateOutputs: the outputs the legacy closer's estimate at s is
// given are locals, nil unless set once under the negated verdict of the dust
// predicate of that party, to an output for that party's script.
func c17f5LegacyEstimateOutputs(o *an.Obl, f *an.Func, s an.Site) {
	c := s.Node.(*ast.CallExpr)
	for i, side := range []string{"Local", "Remote"} {
		key := f.ID + "#estimate-output-" + side
		id, _ := ast.Unparen(c.Args[1+i]).(*ast.Ident)
		obj := c17ObjOfIdent(f, id)
		if _, isVar := obj.(*types.Var); !isVar {
			o.FailAt(key, s.Where(), "%s prices %s as the %s output, expected the local that holds it", f.ID, an.Text(c.Args[1+i]), strings.ToLower(side))
			continue
		}
		nSet := 0
		for _, w := range c17WritesOf(f, obj) {
			if w.Tok == token.VAR && w.Rhs == nil {
				continue
			}
			ws, inGraph := c17SiteOfNode(f, w.Node)
			var cl *ast.CompositeLit
			if w.Rhs != nil {
				if u, ok := ast.Unparen(w.Rhs).(*ast.UnaryExpr); ok && u.Op == token.AND {
					cl, _ = ast.Unparen(u.X).(*ast.CompositeLit)
				}
			}
			if !inGraph || !w.Whole || w.Tuple || w.Tok != token.ASSIGN || cl == nil {
				o.FailAt(key+"-written", f.Where(w.Node.Pos()), "%s: the %s output that is priced is written by %s; tabled is one assignment of an output under the dust verdict", f.ID, strings.ToLower(side), an.Text(w.Node))
				continue
			}
			nSet++
			gs := c17f4CanonGuards(f, ws)
			want := "!$recv.cfg.Channel." + side + "BalanceDust()"
			o.Site("%s: %s output priced under %v", f.ID, strings.ToLower(side), gs)
			if !c17f4SameSet(gs, []string{want}) {
				o.FailAt(key+"-condition", ws.Where(), "%s prices the %s output under %v, expected exactly %s (the verdict that agrees with the builder)", f.ID, strings.ToLower(side), gs, want)
			}
			sc := c17f4KV(cl, "PkScript")
			if w := "$recv." + strings.ToLower(side) + "DeliveryScript"; sc == nil || f.Canon(sc) != w {
				o.FailAt(key+"-script", ws.Where(), "%s prices the %s output %s, expected one that pays %s", f.ID, strings.ToLower(side), an.Text(cl), w)
			}
			if c17StrictlyAfter(f.Graph(), s.V)[ws.V] {
				o.FailAt(key+"-late", ws.Where(), "%s sets the %s output after the estimate", f.ID, strings.ToLower(side))
			}
		}
		if nSet != 1 {
			o.FailAt(key, s.Where(), "%s: expected exactly one place that sets the %s output that is priced, found %d", f.ID, strings.ToLower(side), nSet)
		}
	}
}
