package discovery

import (
	"bytes"
	"testing"

	"github.com/btcsuite/btcd/btcec/v2"
	"github.com/btcsuite/btcd/chainhash/v2"
	tmock "github.com/stretchr/testify/mock"
	"github.com/stretchr/testify/require"
)

// probe4PrepChain lets the mock chain answer the funding lookups of one
// announcement if they are made, without demanding that they are made.
func probe4PrepChain(t *testing.T, tCtx *testCtx, height uint32) {
	info := makeFundingTxInBlock(t)
	tCtx.chain.On("GetBlockHash", int64(height)).
		Return(&chainhash.Hash{}, nil).Maybe()
	tCtx.chain.On("GetBlock", tmock.Anything).
		Return(info.fundingBlock, nil).Maybe()
	tCtx.chain.On(
		"GetUtxo", tmock.Anything, tmock.Anything, tmock.Anything,
		tmock.Anything,
	).Return(info.fundingTx, nil).Maybe()
}

// TestProbeChanAnnSameNodeBothSides: BOLT 7 has node_id_1 and node_id_2 name
// the two nodes operating the channel. An announcement naming the same node on
// both sides, fully signed, must not be stored or relayed.
func TestProbeChanAnnSameNodeBothSides(t *testing.T) {
	ctx := t.Context()

	tCtx, err := createTestCtx(t, 10, false)
	require.NoError(t, err)
	probe4PrepChain(t, tCtx, 5)

	ann, err := tCtx.createChannelAnnouncement(
		5, remoteKeyPriv1, remoteKeyPriv1,
		withFundingTxPrep(fundingTxPrepTypeNone),
	)
	require.NoError(t, err)
	require.Equal(t, ann.NodeID1, ann.NodeID2)

	peer := &mockPeer{pk: remoteKeyPriv2.PubKey()}
	err = mustProcess(t, tCtx.gossiper.ProcessRemoteAnnouncement(
		ctx, ann, peer,
	))
	t.Logf("result: %v", err)

	require.False(t, tCtx.gossiper.cfg.Graph.IsKnownEdge(
		ann.ShortChannelID,
	), "channel of a node with itself was stored")
	require.Error(t, err)
}

// TestProbeChanAnnNodeIDsNotAscending: BOLT 7 requires node_id_1 to be the
// lexicographically lesser key. The direction bit of every later
// channel_update is resolved against that order, so an announcement stating
// the keys in descending order, fully signed, must not be stored or relayed.
func TestProbeChanAnnNodeIDsNotAscending(t *testing.T) {
	ctx := t.Context()

	tCtx, err := createTestCtx(t, 10, false)
	require.NoError(t, err)
	probe4PrepChain(t, tCtx, 5)

	var hi, lo *btcec.PrivateKey = remoteKeyPriv1, remoteKeyPriv2
	if bytes.Compare(
		hi.PubKey().SerializeCompressed(),
		lo.PubKey().SerializeCompressed(),
	) < 0 {

		hi, lo = lo, hi
	}

	ann, err := tCtx.createChannelAnnouncement(
		5, hi, lo, withFundingTxPrep(fundingTxPrepTypeNone),
	)
	require.NoError(t, err)
	require.Positive(t, bytes.Compare(ann.NodeID1[:], ann.NodeID2[:]))

	peer := &mockPeer{pk: remoteKeyPriv2.PubKey()}
	err = mustProcess(t, tCtx.gossiper.ProcessRemoteAnnouncement(
		ctx, ann, peer,
	))
	t.Logf("result: %v", err)

	require.False(t, tCtx.gossiper.cfg.Graph.IsKnownEdge(
		ann.ShortChannelID,
	), "channel with descending node ids was stored")
	require.Error(t, err)
}
