package spec

import (
	"go/ast"
	"go/token"
	"go/types"
	"strings"

	"lndlint/internal/an"
	"lndlint/internal/flow"
)

func init() {
	specExtras["C08"] = append(specExtras["C08"], c08f5Rules)
}

// c08f5LockedIn matches the package-level constant FwdStateLockedIn (the
// channeldb name is an alias of the chanstate one).
var c08f5LockedIn = canonTerm(`^(channeldb|chanstate)\.FwdStateLockedIn$`)

// c08f5CalledExactlyWhen: the call at site s of f happens exactly when one of
// the given conditions holds:
//
//   - s cannot be reached without an edge establishing one of them,
//   - every one of them is established on some edge from which s can be
//     reached, and from every such edge s is unavoidable (no path to the end of
//     the function goes around s),
//   - no condition other than the allowed ones dominates s.
//
// This is the disjunctive form of guarded + onlyGuards: with `A || B` in front
// of the call neither atom dominates it, so both helpers are silent about a
// disjunct that is dropped or turned into a conjunct.
func c08f5CalledExactlyWhen(o *an.Obl, f *an.Func, s an.Site, what string, allowed []string, conds ...an.Fact) {
	g := f.Graph()
	var descs []string
	for _, c := range conds {
		descs = append(descs, c.Desc)
	}
	guarded(o, f, s, an.AnyOf(strings.Join(descs, " || "), conds...))
	for _, c := range conds {
		n := 0
		for e := range f.EdgesOf(c) {
			if e.To != s.V && !g.Reach(e.To, nil, nil)[s.V] {
				continue
			}
			n++
			o.Site("%s: [%s] established at %s leads to the call", what, c.Desc, f.Where(e.From.Pos()))
			if e.To == s.V {
				continue
			}
			if g.Reach(e.To, nil, map[*flow.Vertex]bool{s.V: true})[g.Exit] {
				o.FailAt(constructOf(f, s)+"#"+what+"-skipped-under:"+c.Desc, s.Where(), "%s: although [%s] holds (established at %s), %s can be skipped: the condition is only one conjunct of what decides the call", what, c.Desc, f.Where(e.From.Pos()), s.String())
			}
		}
		if n == 0 {
			o.FailAt(constructOf(f, s)+"#"+what+"-never-under:"+c.Desc, s.Where(), "%s: no test establishing [%s] leads to %s", what, c.Desc, s.String())
		}
	}
	onlyGuards(o, f, s, allowed, what)
}

// c08f5Rules: the obligations for the repairs cff0d0c / 7e6e50c and for the
// round-4 seeds C08/g and C08/h.
func c08f5Rules(r *an.Run) {
	p := r.Prog

	r.Obl("remote-response-handlers-agree-on-locked-in", "MIRROR",
		"each of the three handlers of a response sent by the remote peer for an outgoing HTLC (processRemoteUpdateFulfillHTLC, processRemoteUpdateFailHTLC, processRemoteUpdateFailMalformedHTLC) hands the response to the state machine (ReceiveHTLCSettle / ReceiveFailHTLC) only after it established that the HTLC with the message's id is active: either below a comparison `!<htlc>.Incoming && <htlc>.HtlcIndex == <message id>` inside a loop over channel.ActiveHtlcs() (the fulfill handler), or after a successful call, with the message's id, of a channelLink method that returns nil only from inside such a loop below that comparison and after l.failf on every other path; the id tested is the id handed to the state machine",
		"ActiveHtlcs lists only HTLCs present on both commitments: a fail (or settle) for an outgoing HTLC the peer has not yet committed to would otherwise enter the update log and surface only at the next commitment, unspecific; the three handlers are siblings and a check present in one and absent in another is how the defect looked", 12,
		func(o *an.Obl) {
			type handler struct{ fn, recv string }
			n := 0
			for _, h := range []handler{
				{"processRemoteUpdateFulfillHTLC", "ReceiveHTLCSettle"},
				{"processRemoteUpdateFailHTLC", "ReceiveFailHTLC"},
				{"processRemoteUpdateFailMalformedHTLC", "ReceiveFailHTLC"},
			} {
				f := p.Func(hs + "channelLink." + h.fn)
				rc := f.Calls(an.CalleeIs(lw+"LightningChannel."+h.recv), true)
				if !c08OneDirect(o, f, h.recv, rc) {
					continue
				}
				n++
				// the id handed to the state machine
				idArg := 0
				if h.recv == "ReceiveHTLCSettle" {
					idArg = 1
				}
				id := f.ArgCanon(rc[0])[idArg]
				if id != "$p0.ID" {
					o.FailAt(f.ID+"#response-id", rc[0].Where(), "%s hands %s the id %s, expected the id of the message it was given ($p0.ID)", h.fn, h.recv, id)
					continue
				}
				// (a) inline: a flag that is set only below the comparison inside a
				// loop over ActiveHtlcs, and the state machine call below the flag
				if flag, why := c08f5LockedInFlag(o, f, id); flag != nil {
					guarded(o, f, rc[0], *flag)
					o.Site("%s: %s below the inline locked-in test", h.fn, h.recv)
					c08UnwrittenBefore(o, f, rc[0], f.Params(false)[0:1], "ID")
					continue
				} else {
					o.Site("%s: no inline locked-in test (%s)", h.fn, why)
				}
				// (b) through an asserting method of the link
				var asserts []an.Site
				for _, s := range f.AllCalls(false) {
					c := s.Node.(*ast.CallExpr)
					callee := p.FuncOpt(an.CalleeID(f.Info(), c))
					if callee == nil || !strings.HasPrefix(callee.ID, hs+"channelLink.") || len(c.Args) != 1 {
						continue
					}
					if !c08f5IsLockedInAssertion(o, callee) {
						continue
					}
					if got := f.Canon(c.Args[0]); got != id {
						o.FailAt(f.ID+"#asserts-other-id", s.Where(), "%s checks that HTLC %s is locked in but hands %s the id %s", h.fn, got, h.recv, id)
						continue
					}
					asserts = append(asserts, s)
				}
				if len(asserts) == 0 {
					o.FailAt(f.ID+"#response-for-htlc-not-locked-in", rc[0].Where(), "%s hands the peer's response to %s without having established that the outgoing HTLC %s is active on both commitments (no ActiveHtlcs test, no asserting call): the sibling handlers do", h.fn, h.recv, id)
					continue
				}
				mustPass(o, f, "the locked-in assertion", asserts, an.OkErrNil, rc)
				c08UnwrittenBefore(o, f, rc[0], f.Params(false)[0:1], "ID")
			}
			if n != 3 {
				o.FailAt(hs+"channelLink#remote-response-handlers", "", "expected the three remote response handlers with one state machine call each, found %d", n)
			}
		})

	r.Obl("mailbox-packet-acked-only-when-covered-or-refused", "PATH",
		"in channelLink.processLocalUpdateFulfillHTLC and processLocalUpdateFailHTLC every mailBox.AckPacket call names the packet being processed and is reached only through the failure edge of the state machine call (SettleHTLC / FailHTLC refused the response) or sits on a hodl-mask exit that does not lead on to that call; everywhere else in channelLink the mailbox is acked only by ackDownStreamPackets (called only by updateCommitTx after SignNextCommitment succeeded and by syncChanStates after ProcessChanSyncMsg succeeded, i.e. for a commitment that was signed and persisted before) and by handleDownstreamUpdateAdd under its hodl mask",
		"the mailbox is the retransmission buffer for responses that only live in the link's in-memory update log: a settle acked before a signature covers it is lost by a link flap while the revocation window is exhausted, the outgoing HTLC is settled and the incoming one dangles", 14,
		func(o *an.Obl) { c08f5MailboxAcks(o, p) })

	r.Obl("mailbox-reset-sites-rewind-both-queues", "MIRROR",
		"memoryMailBox.pktMailCourier receives from pktReset at two places (idle wait loop, delivery select); the clause of every one of them sets repHead to repPkts.Front() and addHead to addPkts.Front()",
		"a reset hands everything un-acked to the new link instance: a site that rewinds only the settle/fail queue leaves adds that were pulled by the old instance but never committed neither redelivered nor timed out (the expiry is armed only for the add at addHead), their circuits stay half-open and the incoming HTLCs dangle", 2,
		func(o *an.Obl) { c08f5ResetSites(o, p) })
}

// c08f5LockedInLoop: f has a range loop over $recv.channel.ActiveHtlcs() whose
// body compares an element's HtlcIndex with idCanon and tests its Incoming
// flag; `leadsOn` is asked for the vertex that follows the true edge of the
// index comparison.  Returns false with a reason when there is no such loop.
func c08f5LockedInLoop(f *an.Func, idCanon string, leadsOn func(after *flow.Vertex) bool) (bool, string) {
	const elem = `$elem($recv.channel.ActiveHtlcs())`
	var idx, inc bool
	for _, v := range f.Graph().V {
		if v.Kind != flow.KCond {
			continue
		}
		e, _ := v.Node.(ast.Expr)
		switch x := ast.Unparen(e).(type) {
		case *ast.BinaryExpr:
			a, b := f.Canon(x.X), f.Canon(x.Y)
			if x.Op.String() == "==" && (a == elem+".HtlcIndex" && b == idCanon || b == elem+".HtlcIndex" && a == idCanon) {
				for _, out := range v.Out {
					if out.Kind == flow.ETrue && leadsOn(out.To) {
						idx = true
					}
				}
			}
		case *ast.UnaryExpr:
			if x.Op.String() == "!" && f.Canon(x.X) == elem+".Incoming" {
				inc = true
			}
		case *ast.SelectorExpr:
			if f.Canon(x) == elem+".Incoming" {
				inc = true
			}
		}
	}
	switch {
	case !idx:
		return false, "no comparison of an active HTLC's index with " + idCanon
	case !inc:
		return false, "the direction (Incoming) of the active HTLC is not tested"
	}
	return true, ""
}

// c08f5IsLockedInAssertion: callee (a method of channelLink with one
// parameter) answers nil only for an HTLC that is active: its only success
// return sits inside a loop over channel.ActiveHtlcs() below
// `!elem.Incoming && elem.HtlcIndex == $p0`, and every other return is a
// failure preceded by l.failf.
func c08f5IsLockedInAssertion(o *an.Obl, callee *an.Func) bool {
	const elemRe = `^\$elem\(\$recv\.channel\.ActiveHtlcs\(\)\)`
	succ := callee.StrictSuccessReturns()
	if len(succ) == 0 {
		return false
	}
	if ok, _ := c08f5LockedInLoop(callee, "$p0", func(after *flow.Vertex) bool {
		for _, s := range succ {
			if s.V == after || callee.Graph().Reach(after, nil, nil)[s.V] {
				return true
			}
		}
		return false
	}); !ok {
		return false
	}
	o.Site("%s is a locked-in assertion: success only for an active outgoing HTLC with the given index", callee.ID)
	same := an.Cmp(canonTerm(elemRe+`\.HtlcIndex$`), an.EQ, an.Param(0), "active HTLC's index == the index asked for")
	outgoing := an.Truth(canonTerm(elemRe+`\.Incoming$`), false, "the active HTLC is outgoing")
	for _, s := range succ {
		guarded(o, callee, s, same)
		guarded(o, callee, s, outgoing)
	}
	notReassigned(o, callee, callee.Params(false)[0].Name())
	failf := callee.Calls(an.CalleeIs(hs+"channelLink.failf"), false)
	for _, rt := range callee.Returns() {
		if callee.ClassifyReturn(rt) == an.RetSuccess {
			continue
		}
		if len(failf) == 0 || !callee.Before(failf, rt) {
			o.FailAt(callee.ID+"#refusal-without-failf", rt.Where(), "%s refuses an HTLC that is not locked in without failing the link (l.failf): the fulfill path fails the link at once", callee.ID)
		}
	}
	return true
}

// c08f5MailboxAcks: who acks a packet of the link's mailbox, and when.
func c08f5MailboxAcks(o *an.Obl, p *an.Prog) {
	isAck := func(id string, c *ast.CallExpr) bool {
		return strings.HasSuffix(id, "MailBox.AckPacket") || strings.HasSuffix(id, "memoryMailBox.AckPacket")
	}
	tabled := map[string]string{
		hs + "channelLink.ackDownStreamPackets":          "after the commitment covering the responses was signed",
		hs + "channelLink.handleDownstreamUpdateAdd":     "an add the link refused (failed back through the mailbox)",
		hs + "channelLink.processLocalUpdateFulfillHTLC": "settle the state machine refused",
		hs + "channelLink.processLocalUpdateFailHTLC":    "fail the state machine refused",
	}
	n := 0
	for _, f := range p.Funcs(false, "htlcswitch") {
		if !strings.HasPrefix(f.Root().ID, hs+"channelLink.") {
			continue
		}
		for _, s := range f.Calls(isAck, false) {
			n++
			o.Site("mailbox ack in %s", s.String())
			if f.Root().ID == hs+"channelLink.handleDownstreamUpdateAdd" {
				guarded(o, f, s, an.Truth(an.CallNamed("Active", canonTerm(`^\$recv\.cfg\.HodlMask$`)), true, "a hodl mask is active (test builds only)"))
			}
			if _, ok := tabled[f.Root().ID]; !ok {
				o.FailAt("AckPacket<-"+f.Root().ID, s.Where(), "%s acks a mailbox packet; the site is not in the table (a response leaves the retransmission buffer only once a signed commitment covers it, or when it was refused)", f.Root().ID)
			}
		}
	}
	if n < 3 {
		o.FailAt("AckPacket#sites", "", "expected at least 3 mailbox ack sites in channelLink, found %d", n)
	}
	for fn, callee := range map[string]string{"processLocalUpdateFulfillHTLC": "SettleHTLC", "processLocalUpdateFailHTLC": "FailHTLC"} {
		f := p.Func(hs + "channelLink." + fn)
		acks := f.Calls(isAck, true)
		rm := f.Calls(an.CalleeIs(lw+"LightningChannel."+callee), false)
		if !need(o, f, "mailBox.AckPacket", acks, 1) || !needExactly(o, f, callee, rm, 1) {
			continue
		}
		before := f.Graph().Reach(f.Graph().Entry, nil, map[*flow.Vertex]bool{rm[0].V: true})
		for _, a := range acks {
			if a.Fn != f {
				o.FailAt(f.ID+"#ack-in-closure", a.Where(), "the mailbox ack of %s sits in a function literal; its place in the control flow cannot be decided", fn)
				continue
			}
			if before[a.V] && a.V != rm[0].V {
				// an exit taken before the state machine is asked (hodl mask):
				// the ack must not lead on to the state machine call
				if f.Graph().Reach(a.V, nil, nil)[rm[0].V] {
					o.FailAt(constructOf(f, a)+"<-before-"+callee, a.Where(), "%s acks the mailbox packet before %s decided on the response", fn, callee)
				}
				guarded(o, f, a, an.Truth(an.CallNamed("Active", canonTerm(`^\$recv\.cfg\.HodlMask$`)), true, "a hodl mask is active (test builds only)"))
				continue
			}
			c08AfterFailureOf(o, f, rm, a, callee)
		}
		// the ack names the packet being processed
		for _, a := range acks {
			if got := c08f5LocalCanon(f, callArg(a, 0)); got != "$p1.inKey()" {
				o.FailAt(constructOf(f, a)+"#acks-other-packet", a.Where(), "%s acks %s, expected the incoming key of the packet it processes ($p1.inKey())", fn, got)
			}
		}
	}
	// ackDownStreamPackets is called only after the signature
	u := p.Func(hs + "channelLink.updateCommitTx")
	ad := u.Calls(an.CalleeIs(hs+"channelLink.ackDownStreamPackets"), true)
	sign := u.Calls(an.CalleeNamed("SignNextCommitment"), false)
	if c08OneDirect(o, u, "ackDownStreamPackets", ad) && needExactly(o, u, "SignNextCommitment", sign, 1) {
		mustPass(o, u, "SignNextCommitment", sign, an.OkErrNil, ad)
	}
	// the other flush: the retransmission of a commitment that was signed and
	// persisted before the restart (its circuit lists come from the commit diff)
	sy := p.Func(hs + "channelLink.syncChanStates")
	sa := sy.Calls(an.CalleeIs(hs+"channelLink.ackDownStreamPackets"), true)
	pc := sy.Calls(an.CalleeNamed("ProcessChanSyncMsg"), false)
	if c08OneDirect(o, sy, "ackDownStreamPackets", sa) && needExactly(o, sy, "ProcessChanSyncMsg", pc, 1) {
		mustPass(o, sy, "ProcessChanSyncMsg", pc, an.OkErrNil, sa)
	}
	for _, fn := range p.Funcs(false, "htlcswitch") {
		for _, s := range fn.Calls(an.CalleeIs(hs+"channelLink.ackDownStreamPackets"), false) {
			if id := fn.Root().ID; id != u.ID && id != sy.ID {
				o.FailAt("ackDownStreamPackets<-"+id, s.Where(), "%s flushes the mailbox acks; only updateCommitTx (after signing) and syncChanStates (after ProcessChanSyncMsg re-created a signed commitment) may", id)
			}
		}
	}
}

// c08f5ResetSites: every place where the mail courier takes a reset request
// rewinds both queues.
func c08f5ResetSites(o *an.Obl, p *an.Prog) {
	f := p.Func(hs + "memoryMailBox.pktMailCourier")
	type reset struct {
		clause *ast.CommClause
		where  string
	}
	var sites []reset
	ast.Inspect(f.Body, func(n ast.Node) bool {
		cc, ok := n.(*ast.CommClause)
		if !ok || cc.Comm == nil {
			return true
		}
		var rx ast.Expr
		switch st := cc.Comm.(type) {
		case *ast.AssignStmt:
			if len(st.Rhs) == 1 {
				rx = st.Rhs[0]
			}
		case *ast.ExprStmt:
			rx = st.X
		}
		u, ok := ast.Unparen(rx).(*ast.UnaryExpr)
		if !ok || u.Op.String() != "<-" || f.Canon(u.X) != "$recv.pktReset" {
			return true
		}
		sites = append(sites, reset{cc, f.Where(cc.Pos())})
		return true
	})
	if len(sites) < 2 {
		o.FailAt(f.ID+"#reset-sites", f.Where(f.Body.Pos()), "expected the two places where the courier receives from pktReset (idle wait, delivery select), found %d", len(sites))
	}
	want := map[string]string{"repHead": "$recv.repPkts.Front()", "addHead": "$recv.addPkts.Front()"}
	for _, rs := range sites {
		got := map[string]string{}
		for _, st := range rs.clause.Body {
			ast.Inspect(st, func(n ast.Node) bool {
				if _, isLit := n.(*ast.FuncLit); isLit {
					return false
				}
				as, ok := n.(*ast.AssignStmt)
				if !ok || len(as.Lhs) != 1 || len(as.Rhs) != 1 {
					return true
				}
				sel, ok := ast.Unparen(as.Lhs[0]).(*ast.SelectorExpr)
				if !ok || f.Canon(sel.X) != "$recv" {
					return true
				}
				if _, tracked := want[sel.Sel.Name]; tracked {
					got[sel.Sel.Name] = f.Canon(as.Rhs[0])
				}
				return true
			})
		}
		o.Site("pktMailCourier reset at %s rewinds %v", rs.where, got)
		for _, head := range []string{"addHead", "repHead"} {
			switch g, ok := got[head]; {
			case !ok:
				o.FailAt(f.ID+"#reset-does-not-rewind-"+head, rs.where, "the reset handled at %s does not rewind %s; the sibling reset site does: packets of that queue handed out before the reset are neither redelivered nor timed out", rs.where, head)
			case g != want[head]:
				o.FailAt(f.ID+"#reset-rewinds-"+head+"-elsewhere", rs.where, "the reset handled at %s sets %s to %s, expected %s", rs.where, head, g, want[head])
			}
		}
	}
}

// c08f5LockedInFlag finds the boolean local of f that records "an active
// outgoing HTLC has the id idCanon": it is assigned the constant true only
// below `<active htlc>.HtlcIndex == id` and `!<active htlc>.Incoming` (the
// element of a range over channel.ActiveHtlcs()), and otherwise only declared
// or assigned false.  It returns the fact "that local is true".
func c08f5LockedInFlag(o *an.Obl, f *an.Func, idCanon string) (*an.Fact, string) {
	const elemRe = `^\$elem\(\$recv\.channel\.ActiveHtlcs\(\)\)`
	info := f.Info()
	same := an.Cmp(canonTerm(elemRe+`\.HtlcIndex$`), an.EQ, canonTerm(`^`+regexpQuote(idCanon)+`$`), "an active HTLC has the message's id")
	outgoing := an.Truth(canonTerm(elemRe+`\.Incoming$`), false, "that active HTLC is an outgoing one")
	why := "no boolean local is set to true below a comparison with the ids of channel.ActiveHtlcs()"
	for _, w := range f.Assigns(func(fn *an.Func, e ast.Expr) bool {
		id, ok := e.(*ast.Ident)
		if !ok {
			return false
		}
		v, isVar := info.Uses[id].(*types.Var)
		if !isVar {
			return false
		}
		b, isB := v.Type().Underlying().(*types.Basic)
		return isB && b.Kind() == types.Bool
	}, false) {
		as, ok := w.Node.(*ast.AssignStmt)
		if !ok || len(as.Lhs) != 1 || len(as.Rhs) != 1 || !an.BoolConst(true)(f, ast.Unparen(as.Rhs[0])) {
			continue
		}
		obj := info.Uses[as.Lhs[0].(*ast.Ident)]
		okSame, _ := f.Guarded(w, same)
		okOut, _ := f.Guarded(w, outgoing)
		if !okSame || !okOut {
			why = "the flag " + obj.Name() + " is set without both tests (index equal: " + fmtBool(okSame) + ", outgoing: " + fmtBool(okOut) + ")"
			continue
		}
		// every other write leaves it false
		clean := true
		for _, st := range c04Overwrites(f, obj) {
			if st == ast.Node(as) {
				continue
			}
			o2, isAs := st.(*ast.AssignStmt)
			if !isAs || len(o2.Rhs) != 1 || !an.BoolConst(false)(f, ast.Unparen(o2.Rhs[0])) {
				why = "the flag " + obj.Name() + " is also written by " + an.Text(st)
				clean = false
			}
		}
		if !clean {
			continue
		}
		o.Site("%s: flag %s is set only for an active outgoing HTLC with id %s", f.ID, obj.Name(), idCanon)
		fact := an.Truth(func(fn *an.Func, e ast.Expr) bool {
			id, ok := e.(*ast.Ident)
			return ok && fn.Info().Uses[id] == obj
		}, true, "an active outgoing HTLC has the message's id ("+obj.Name()+")")
		return &fact, ""
	}
	return nil, why
}

func fmtBool(b bool) string {
	if b {
		return "yes"
	}
	return "no"
}

// c08f5LocalCanon is Canon that also looks through a local whose address is
// taken somewhere but which is defined once and never written again.
func c08f5LocalCanon(f *an.Func, e ast.Expr) string {
	id, ok := ast.Unparen(e).(*ast.Ident)
	if !ok {
		return f.Canon(e)
	}
	return strings.TrimPrefix(c08RefCanon(f, &ast.UnaryExpr{Op: token.AND, X: id}), "&")
}
