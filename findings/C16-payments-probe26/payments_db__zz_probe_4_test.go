package paymentsdb

import (
	"crypto/sha256"
	"testing"
	"time"

	"github.com/lightningnetwork/lnd/record"
	"github.com/stretchr/testify/require"
)

// Suspicion 4: the order of the HTLCs of a payment (and with it the attempt
// TerminalInfo reports) must not depend on the backend. Attempt 5 is created
// before attempt 3 (wall clock stepped back / concurrent SendToRoute shards).
func TestZZProbe4HTLCOrder(t *testing.T) {
	type answer struct {
		order    []uint64
		terminal uint64
	}
	answers := make(map[string]answer)

	for name, db := range zzSeedStores(t) {
		ctx := t.Context()
		preimg := genPreimage(t)
		rhash := sha256.Sum256(preimg[:])
		info := genPaymentCreationInfo(t, rhash)
		hash := info.PaymentIdentifier
		require.NoError(t, db.InitPayment(ctx, hash, info))

		mpp := record.NewMPP(info.Value, [32]byte{1})
		for i, id := range []uint64{5, 3} {
			a := genAttemptWithHash(t, id, genSessionKey(t), rhash)
			a.AttemptTime = time.Unix(int64(1000+i), 0)
			a.Route.FinalHop().AmtToForward = info.Value / 2
			a.Route.FinalHop().MPP = mpp
			_, err := db.RegisterAttempt(ctx, hash, a)
			require.NoError(t, err)
		}
		for _, id := range []uint64{5, 3} {
			_, err := db.SettleAttempt(
				ctx, hash, id, &HTLCSettleInfo{Preimage: preimg},
			)
			require.NoError(t, err)
		}

		p, err := db.FetchPayment(ctx, hash)
		require.NoError(t, err)
		require.Len(t, p.HTLCs, 2)

		settled, _ := p.TerminalInfo()
		require.NotNil(t, settled)
		answers[name] = answer{
			order: []uint64{
				p.HTLCs[0].AttemptID, p.HTLCs[1].AttemptID,
			},
			terminal: settled.AttemptID,
		}
	}

	require.Equal(t, answers["kv"], answers["sql"])
}
