package spec

import (
	"lndlint/internal/an"
)

func init() {
	specExtras["C15"] = append(specExtras["C15"], c15ReplayFirst)
}

// c15ReplayFirst: a replayed HTLC is recognised before anything else decides
// about it (round-3 seed C15/e).
func c15ReplayFirst(r *an.Run) {
	p := r.Prog
	r.Obl("replay-is-recognised-before-any-other-verdict", "PATH",
		"in the update callback of InvoiceRegistry.notifyExitHopHtlcLocked every return is preceded, on all paths, by the one resolveReplayedHtlc call, and every return other than that call's own failure and replay exits lies below its not-replayed result",
		"an HTLC that was decided before (settled, accepted, canceled) gets its recorded verdict again; a branch that runs before the replay test (the interceptor's cancel-set branch, say) answers a settled shard with a fail resolution or cancels a held set on a mere re-delivery", 3,
		func(o *an.Obl) {
			f := p.Func("invoices.InvoiceRegistry.notifyExitHopHtlcLocked")
			var cb *an.Func
			for _, l := range f.Lits {
				if len(l.Calls(an.CalleeIs("invoices.resolveReplayedHtlc"), false)) > 0 {
					cb = l
				}
			}
			if cb == nil {
				o.FailAt(f.ID+"#replay-test", f.Where(f.Body.Pos()), "no closure of notifyExitHopHtlcLocked calls resolveReplayedHtlc")
				return
			}
			calls := cb.Calls(an.CalleeIs("invoices.resolveReplayedHtlc"), false)
			if !needExactly(o, cb, "resolveReplayedHtlc", calls, 1) {
				return
			}
			rets := cb.Returns()
			if !need(o, cb, "returns of the update callback", rets, 3) {
				return
			}
			before(o, cb, "the replay test", calls, "a return of the update callback", rets)
			replayed := an.ResultOf(an.CallTo("invoices.resolveReplayedHtlc", nil, an.Any(), an.Any()), 0)
			after := cb.Graph().Reach(calls[0].V, nil, nil)
			n := 0
			for _, s := range rets {
				if !after[s.V] {
					continue
				}
				if ok, _ := cb.Guarded(s, an.Truth(replayed, false, "!isReplayed")); ok {
					n++
					o.Site("%s below !isReplayed", s.String())
					continue
				}
				// the replay test's own exits: its failure and the replayed verdict
				own := false
				for _, g := range cb.GuardsAt(s) {
					if g == "err != nil" || g == "isReplayed" {
						own = true
					}
				}
				if !own {
					guarded(o, cb, s, an.Truth(replayed, false, "!isReplayed"))
				}
			}
			if n < 2 {
				o.FailAt(f.ID+"#verdict-returns", cb.Where(cb.Body.Pos()), "expected at least two verdict returns below the not-replayed result, found %d", n)
			}
		})
}
