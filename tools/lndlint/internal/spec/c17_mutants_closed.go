package spec

// Gaps reported by the adversarial authors for C17 and closed since: each of
// these edits violates the named obligation and is now reported by it.
func init() {
	const rbfObl = "rbf-proposal-and-completion-same-options"
	registry["C17"].Mutants = append(registry["C17"].Mutants, []Mutant{
		{Name: "closed-rbf-completion-payer-overwritten-by-index", File: "lnwallet/chancloser/rbf_coop_transitions.go",
			Old:    "\t\t// For taproot channels, update NonceState with the new nonce\n",
			New:    "\t\tcloseOpts[1] = lnwallet.WithCustomPayer(lntypes.Remote)\n\n",
			Expect: rbfObl},

		{Name: "closed-rbf-completion-options-truncated", File: "lnwallet/chancloser/rbf_coop_transitions.go",
			Old:    "\t\t// For taproot channels, update NonceState with the new nonce\n",
			New:    "\t\tcloseOpts = closeOpts[:1]\n\n",
			Expect: rbfObl},

		{Name: "closed-rbf-closee-second-payer-option-wins", File: "lnwallet/chancloser/rbf_coop_transitions.go",
			Old:    "\t\t\tlnwallet.WithCustomPayer(lntypes.Remote),\n",
			New:    "\t\t\tlnwallet.WithCustomPayer(lntypes.Remote),\n\t\t\tlnwallet.WithCustomPayer(lntypes.Local),\n",
			Expect: rbfObl},

		{Name: "closed-rbf-helper-drops-last-option", File: "lnwallet/chancloser/rbf_coop_transitions.go",
			Old:    "\trawSig, _, _, err := env.CloseSigner.CreateCloseProposal(\n\t\tfee, localScript, remoteScript, chanOpts...,",
			New:    "\tchanOpts = chanOpts[:len(chanOpts)-1]\n\trawSig, _, _, err := env.CloseSigner.CreateCloseProposal(\n\t\tfee, localScript, remoteScript, chanOpts...,",
			Expect: rbfObl},

		{Name: "closed-rbf-closee-list-extended-between-halves", File: "lnwallet/chancloser/rbf_coop_transitions.go",
			Old:    "\t\t// With our signature created, we'll now attempt to finalize the\n",
			New:    "\t\tchanOpts = append(chanOpts, lnwallet.WithCustomPayer(lntypes.Local))\n\n",
			Expect: rbfObl},

		{Name: "closed-rbf-prepare-sigs-smuggles-payer-option", File: "lnwallet/chancloser/rbf_coop_transitions.go",
			Old:    "\treturn localSig, remoteSig, nil, nil\n",
			New:    "\treturn localSig, remoteSig, []lnwallet.ChanCloseOpt{\n\t\tlnwallet.WithCustomPayer(lntypes.Remote),\n\t}, nil\n",
			Expect: rbfObl},

		{Name: "closed-rbf-closee-lock-time-offset", File: "lnwallet/chancloser/rbf_coop_transitions.go",
			Old:    "\t\t\tlnwallet.WithCustomLockTime(msg.SigMsg.LockTime),",
			New:    "\t\t\tlnwallet.WithCustomLockTime(1 + msg.SigMsg.LockTime),",
			Expect: rbfObl},

		{Name: "closed-rbf-fee-variable-changed-after-signing", File: "lnwallet/chancloser/rbf_coop_transitions.go",
			Old:    "\t\t// Depending on the channel type, we'll be encoding a normal\n",
			New:    "\t\tabsoluteFee = closeBalance\n\n",
			Expect: rbfObl},

		{Name: "closed-rbf-completion-opts-via-spread-list", File: "lnwallet/chancloser/rbf_coop_transitions.go",
			Old:    "\t\tcloseOpts = append(closeOpts, musigOpts...)\n\n\t\t// Now that we have their signature",
			New:    "\t\tcloseOpts = append(closeOpts, musigOpts...)\n\t\toverride := []lnwallet.ChanCloseOpt{\n\t\t\tlnwallet.WithCustomPayer(lntypes.Remote),\n\t\t}\n\t\tcloseOpts = append(closeOpts, override...)\n\n\t\t// Now that we have their signature",
			Expect: rbfObl},

		{Name: "closed-fb-custom-payer-ignored", File: "lnwallet/commitment.go",
			Old:    "\tpayer := feePayer.UnwrapOr(defaultPayer)",
			New:    "\tpayer := defaultPayer\n\t_ = feePayer",
			Expect: "final-balances"},

		{Name: "closed-fb-default-payer-is-counterparty-of-opener", File: "lnwallet/commitment.go",
			Old:    "\tpayer := feePayer.UnwrapOr(defaultPayer)",
			New:    "\tpayer := feePayer.UnwrapOr(defaultPayer.CounterParty())",
			Expect: "final-balances"},

		{Name: "closed-fb-default-payer-local-only-with-anchors", File: "lnwallet/commitment.go",
			Old:    "\t\tif isInitiator {\n\t\t\treturn lntypes.Local",
			New:    "\t\tif isInitiator && chanType.HasAnchors() {\n\t\t\treturn lntypes.Local",
			Expect: "final-balances"},

		{Name: "closed-fb-opener-credit-reduced-by-closing-fee", File: "lnwallet/commitment.go",
			Old:    "\t// To start with, we'll add the anchor and/or commitment fee to the\n",
			New:    "\tinitiatorDelta -= coopCloseFee\n\n",
			Expect: "final-balances"},

		{Name: "closed-fb-balances-swapped-by-tuple-assignment", File: "lnwallet/commitment.go",
			Old:    "\t// During fee negotiation it should always be verified that the\n",
			New:    "\tourBalance, theirBalance = theirBalance, ourBalance\n\n",
			Expect: "final-balances"},

		{Name: "closed-fb-commit-fee-parameter-zeroed", File: "lnwallet/commitment.go",
			Old:    "\tinitiatorDelta := commitFee\n",
			New:    "\tcommitFee = 0\n\tinitiatorDelta := commitFee\n",
			Expect: "final-balances"},

		{Name: "closed-fb-default-payer-constant-local", File: "lnwallet/commitment.go",
			Old:    "\tdefaultPayer := func() lntypes.ChannelParty {\n\t\tif isInitiator {\n\t\t\treturn lntypes.Local\n\t\t}\n\n\t\treturn lntypes.Remote\n\t}()\n",
			New:    "\tdefaultPayer := lntypes.Local\n",
			Expect: "final-balances"},

		{Name: "closed-fb-initiator-flag-inverted-on-entry", File: "lnwallet/commitment.go",
			Old:    "\tinitiatorDelta := commitFee\n",
			New:    "\tisInitiator = !isInitiator\n\tinitiatorDelta := commitFee\n",
			Expect: "final-balances"},

		{Name: "closed-fb-their-balance-decremented-by-incdec", File: "lnwallet/commitment.go",
			Old:    "\t// During fee negotiation it should always be verified that the\n",
			New:    "\ttheirBalance--\n\n",
			Expect: "final-balances"},

		{Name: "closed-fb-results-swapped-behind-error-variable", File: "lnwallet/commitment.go",
			Old:    "\treturn ourBalance, theirBalance, nil\n}",
			New:    "\tvar noErr error\n\n\treturn theirBalance, ourBalance, noErr\n}",
			Expect: "final-balances"},

		{Name: "closed-fb-negative-balance-returned-behind-error-variable", File: "lnwallet/commitment.go",
			Old:    "\tif ourBalance < 0 || theirBalance < 0 {\n\t\treturn 0, 0, fmt.Errorf(\"initiator cannot afford proposed \" +\n\t\t\t\"coop close fee\")\n\t}\n\n\treturn ourBalance, theirBalance, nil\n}",
			New:    "\tvar err error\n\tif ourBalance < 0 && theirBalance < 0 {\n\t\terr = fmt.Errorf(\"initiator cannot afford proposed \" +\n\t\t\t\"coop close fee\")\n\t}\n\n\treturn ourBalance, theirBalance, err\n}",
			Expect: "final-balances"},
		{Name: "closed-loop-three-clause-loop-breaks", File: "lnwallet/channel.go",
			Old:    "\tfor _, extraTxOut := range opts.extraCloseOutputs {\n",
			New:    "\tfor i := 0; i < len(opts.extraCloseOutputs); i++ {\n\t\textraTxOut := opts.extraCloseOutputs[i]\n\t\tif i > 0 {\n\t\t\tbreak\n\t\t}\n",
			Expect: "per-element-loops-visit-every-element"},

		{Name: "closed-loop-range-over-truncated-slice", File: "lnwallet/channel.go",
			Old:    "\tfor _, extraTxOut := range opts.extraCloseOutputs {\n",
			New:    "\tfor _, extraTxOut := range opts.extraCloseOutputs[:min(1, len(opts.extraCloseOutputs))] {\n",
			Expect: "per-element-loops-visit-every-element"},

		{Name: "closed-loop-replaced-by-first-element", File: "lnwallet/channel.go",
			Old:    "\tfor _, extraTxOut := range opts.extraCloseOutputs {\n",
			New:    "\tif len(opts.extraCloseOutputs) > 0 {\n\t\textraTxOut := opts.extraCloseOutputs[0]\n",
			Expect: "per-element-loops-visit-every-element"},
	}...)
}
