package graph

import (
	"image/color"
	"math/rand"
	"testing"
	"time"

	"github.com/btcsuite/btcd/btcec/v2"
	"github.com/btcsuite/btcd/chaincfg/v2"
	"github.com/btcsuite/btcd/wire/v2"
	"github.com/lightningnetwork/lnd/graph/db/models"
	"github.com/lightningnetwork/lnd/routing/route"
	"github.com/stretchr/testify/require"
)

// seedDemoNodeAnn builds the graph model of a (signature checked by the
// gossiper) node_announcement of the given node with the given timestamp.
func seedDemoNodeAnn(pub *btcec.PublicKey, ts time.Time,
	alias string) *models.Node {

	return models.NewV1Node(
		route.NewVertex(pub), &models.NodeV1Fields{
			LastUpdate:   ts,
			Addresses:    testAddrs,
			Color:        color.RGBA{1, 2, 3, 0},
			Alias:        alias,
			AuthSigBytes: testSig.Serialize(),
			Features:     testFeatures.RawFeatureVector,
		},
	)
}

// TestSeedDemoNodeAnnAfterChannelReorgedOut drives a real Builder on top of a
// real graph store through the following history:
//
//  1. a channel between two (so far unknown) nodes is confirmed in block 102
//     and announced; a node_announcement of node 1 is accepted, as the node
//     now has a known channel,
//  2. block 102 is reorged out, which removes the channel from the graph
//     (its funding output does not exist any more),
//  3. the replacement block 102' connects. It spends none of the funding
//     outputs we know of,
//  4. a *newer* node_announcement of node 1 arrives.
//
// Node 1 has no known channel at step 4, so the announcement must be ignored
// and must leave the graph untouched: Builder.IsStaleNode has to report it as
// not acceptable (that is what makes the gossiper drop it), Builder.AddNode
// has to refuse it and the node must not be part of the graph.
func TestSeedDemoNodeAnnAfterChannelReorgedOut(t *testing.T) {
	t.Parallel()
	ctxb := t.Context()

	const startingBlockHeight = 101
	ctx := createTestCtxSingleNode(t, startingBlockHeight)

	var pub1, pub2 route.Vertex
	copy(pub1[:], priv1.PubKey().SerializeCompressed())
	copy(pub2[:], priv2.PubKey().SerializeCompressed())

	// Block 102 confirms the funding transaction of the channel.
	const fundingHeight = startingBlockHeight + 1
	script, fundingTx, _, chanID := createChannelEdge(
		t, bitcoinKey1.SerializeCompressed(),
		bitcoinKey2.SerializeCompressed(), 10000, fundingHeight,
	)
	fundingBlock := &wire.MsgBlock{
		Transactions: []*wire.MsgTx{fundingTx},
	}
	ctx.chain.addBlock(fundingBlock, fundingHeight, rand.Uint32())
	ctx.chain.setBestBlock(fundingHeight)

	ctx.chainView.notifyBlockAck = make(chan struct{}, 1)
	ctx.chainView.notifyStaleBlockAck = make(chan struct{}, 1)

	ctx.chainView.notifyBlock(
		fundingBlock.BlockHash(), fundingHeight, []*wire.MsgTx{}, t,
	)
	<-ctx.chainView.notifyBlockAck
	require.Eventually(t, func() bool {
		return ctx.builder.SyncedHeight() == fundingHeight
	}, testTimeout, 10*time.Millisecond)

	// The channel is announced: both nodes enter the graph as shell nodes.
	edge, err := models.NewV1Channel(
		chanID.ToUint64(), *chaincfg.SimNetParams.GenesisHash, pub1,
		pub2, &models.ChannelV1Fields{
			BitcoinKey1Bytes: route.NewVertex(bitcoinKey1),
			BitcoinKey2Bytes: route.NewVertex(bitcoinKey2),
		},
		models.WithChanProof(&testAuthProof),
		models.WithFundingScript(script),
	)
	require.NoError(t, err)
	require.NoError(t, ctx.builder.AddEdge(ctxb, edge))

	// Node 1 has a known channel now, its first node_announcement is
	// accepted.
	firstTS := time.Unix(1_700_000_000, 0)
	require.False(t, ctx.builder.IsStaleNode(ctxb, pub1, firstTS))
	require.NoError(t, ctx.builder.AddNode(
		ctxb, seedDemoNodeAnn(priv1.PubKey(), firstTS, "first"),
	))

	// Block 102 is reorged out: the channel leaves the graph.
	ctx.chainView.notifyStaleBlock(
		fundingBlock.BlockHash(), fundingHeight,
		fundingBlock.Transactions, t,
	)
	<-ctx.chainView.notifyStaleBlockAck
	require.Eventually(t, func() bool {
		has, _, err := ctx.graph.HasChannelEdge(
			ctxb, chanID.ToUint64(),
		)

		return err == nil && !has
	}, testTimeout, 10*time.Millisecond)

	// The replacement block connects, it does not contain the funding
	// transaction and spends nothing we know of.
	newBlock := &wire.MsgBlock{Transactions: []*wire.MsgTx{}}
	ctx.chain.addBlock(newBlock, fundingHeight, rand.Uint32())
	ctx.chain.setBestBlock(fundingHeight)
	ctx.chainView.notifyBlock(
		newBlock.BlockHash(), fundingHeight, []*wire.MsgTx{}, t,
	)
	<-ctx.chainView.notifyBlockAck

	// Wait until the builder has consumed the block (the prune tip moves
	// to it).
	newHash := newBlock.BlockHash()
	require.Eventually(t, func() bool {
		tipHash, tipHeight, err := ctx.graph.PruneTip(ctxb)

		return err == nil && tipHeight == fundingHeight &&
			tipHash.IsEqual(&newHash)
	}, testTimeout, 10*time.Millisecond)

	// No channel is known any more.
	numChans := 0
	err = ctx.graph.ForEachChannel(ctxb, func(*models.ChannelEdgeInfo,
		*models.ChannelEdgePolicy, *models.ChannelEdgePolicy) error {

		numChans++

		return nil
	}, func() { numChans = 0 })
	require.NoError(t, err)
	require.Zero(t, numChans, "no channel may be left in the graph")

	// A newer node_announcement of node 1 arrives. The node has no known
	// channel, so the announcement must not be acceptable...
	secondTS := firstTS.Add(time.Hour)
	require.True(
		t, ctx.builder.IsStaleNode(ctxb, pub1, secondTS),
		"node_announcement of a node without any known channel is "+
			"treated as fresh",
	)

	// ... must be refused by the graph ...
	err = ctx.builder.AddNode(
		ctxb, seedDemoNodeAnn(priv1.PubKey(), secondTS, "second"),
	)
	require.Error(t, err, "node_announcement of a node without any "+
		"known channel was applied to the graph")
	require.True(t, IsError(err, ErrIgnored), "unexpected error: %v", err)

	// ... and must not have changed the graph.
	exists, err := ctx.graph.HasNode(ctxb, pub1)
	require.NoError(t, err)
	require.False(t, exists, "node without channels is part of the graph")
}
