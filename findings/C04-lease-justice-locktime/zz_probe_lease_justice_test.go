package contractcourt

import (
	"fmt"
	"reflect"
	"testing"
	"time"
	"unsafe"

	"github.com/btcsuite/btcd/txscript/v2"
	"github.com/btcsuite/btcd/wire/v2"
	"github.com/lightningnetwork/lnd/chainntnfs"
	"github.com/lightningnetwork/lnd/channeldb"
	"github.com/lightningnetwork/lnd/fn/v2"
	"github.com/lightningnetwork/lnd/input"
	"github.com/lightningnetwork/lnd/lntest/mock"
	"github.com/lightningnetwork/lnd/lnwallet"
	"github.com/lightningnetwork/lnd/lnwallet/chainfee"
	"github.com/lightningnetwork/lnd/lnwire"
	"github.com/stretchr/testify/require"
)

const (
	probeBreachHeight = 1000
	probeLeaseExpiry  = 2016
)

var (
	probeAnchorChanType = channeldb.SingleFunderTweaklessBit |
		channeldb.AnchorOutputsBit | channeldb.ZeroHtlcTxFeeBit

	probeLeaseChanType = probeAnchorChanType |
		channeldb.LeaseExpirationBit
)

// probeRevokedState builds a real channel pair of the given type, lets Bob
// (the non-initiator) revoke a commitment that carries an HTLC, and derives
// the retribution for that state from Alice's channel state exactly as the
// chain watcher does when it sees the revoked commitment confirm.
func probeRevokedState(t *testing.T, chanType channeldb.ChannelType,
	thawHeight uint32) (*lnwallet.LightningChannel, *retributionInfo) {

	alice, bob, err := lnwallet.CreateTestChannels(t, chanType)
	require.NoError(t, err)

	// The helper leaves the thaw height at zero. For a script enforced
	// lease the thaw height is the absolute lease expiry that is committed
	// to in the initiator's outputs.
	alice.State().ThawHeight = thawHeight
	bob.State().ThawHeight = thawHeight

	// Lock in an HTLC so that the revoked state has an HTLC output too.
	htlcAmount := lnwire.NewMSatFromSatoshis(20000)
	htlc, _ := createHTLC(0, htlcAmount)
	_, err = alice.AddHTLC(htlc, nil)
	require.NoError(t, err)
	_, err = bob.ReceiveHTLC(htlc)
	require.NoError(t, err)
	require.NoError(t, lnwallet.ForceStateTransition(alice, bob))

	// This is the state Bob will later broadcast.
	revokedStateNum := bob.State().LocalCommitment.CommitHeight
	revokedCommitTx := bob.State().LocalCommitment.CommitTx.Copy()

	// Advance the channel so that the above state is revoked.
	htlc2, _ := createHTLC(1, htlcAmount)
	_, err = alice.AddHTLC(htlc2, nil)
	require.NoError(t, err)
	_, err = bob.ReceiveHTLC(htlc2)
	require.NoError(t, err)
	require.NoError(t, lnwallet.ForceStateTransition(alice, bob))

	breachRet, err := lnwallet.NewBreachRetribution(
		alice.State(), revokedStateNum, probeBreachHeight,
		revokedCommitTx, fn.None[lnwallet.AuxLeafStore](),
		fn.None[lnwallet.AuxContractResolver](),
	)
	require.NoError(t, err)
	require.NotNil(t, breachRet.LocalOutputSignDesc, "our to_remote")
	require.NotNil(t, breachRet.RemoteOutputSignDesc, "their to_local")
	require.Len(t, breachRet.HtlcRetributions, 1)

	// Sanity check: the outputs the retribution refers to really are the
	// outputs of the revoked commitment transaction.
	localOut := revokedCommitTx.TxOut[breachRet.LocalOutpoint.Index]
	require.Equal(
		t, breachRet.LocalOutputSignDesc.Output.PkScript,
		localOut.PkScript,
	)
	remoteOut := revokedCommitTx.TxOut[breachRet.RemoteOutpoint.Index]
	require.Equal(
		t, breachRet.RemoteOutputSignDesc.Output.PkScript,
		remoteOut.PkScript,
	)

	chanPoint := alice.State().FundingOutpoint

	return alice, newRetributionInfo(&chanPoint, breachRet)
}

// probeVerifyTx runs the Bitcoin script engine with the standard verification
// flags over every input of the transaction.
func probeVerifyTx(t *testing.T, name string, tx *wire.MsgTx,
	outputs []breachedOutput) error {

	t.Helper()

	inputs := make([]input.Input, 0, len(outputs))
	byOutpoint := make(map[wire.OutPoint]*breachedOutput)
	for i := range outputs {
		bo := &outputs[i]
		inputs = append(inputs, bo)
		byOutpoint[bo.outpoint] = bo
	}
	fetcher, err := input.MultiPrevOutFetcher(inputs)
	require.NoError(t, err)
	hashCache := txscript.NewTxSigHashes(tx, fetcher)

	t.Logf("%s: nLockTime=%d, %d inputs", name, tx.LockTime, len(tx.TxIn))

	var firstErr error
	for idx, txIn := range tx.TxIn {
		bo, ok := byOutpoint[txIn.PreviousOutPoint]
		require.True(t, ok)

		vm, err := txscript.NewEngine(
			bo.signDesc.Output.PkScript, tx, idx,
			txscript.StandardVerifyFlags, nil, hashCache,
			bo.signDesc.Output.Value, fetcher,
		)
		require.NoError(t, err)

		if err := vm.Execute(); err != nil {
			err = fmt.Errorf("%s: input %d (%v, sequence=%d) "+
				"fails script validation: %w", name, idx,
				bo.witnessType, txIn.Sequence, err)
			t.Log(err)

			if firstErr == nil {
				firstErr = err
			}

			continue
		}

		t.Logf("%s: input %d (%v) valid", name, idx, bo.witnessType)
	}

	return firstErr
}

// probeJusticeTxVariants asks the breach arbitrator to build the justice
// transactions for the revoked state and checks that every transaction it
// built is valid under the script rules, and that every breached output is
// spent by at least one of them.
func probeJusticeTxVariants(t *testing.T, chanType channeldb.ChannelType,
	thawHeight uint32) {

	alice, retInfo := probeRevokedState(t, chanType, thawHeight)

	brar := NewBreachArbitrator(&BreachConfig{
		Estimator: chainfee.NewStaticEstimator(12500, 0),
		GenSweepScript: func() fn.Result[lnwallet.AddrWithKey] {
			return fn.Ok(lnwallet.AddrWithKey{})
		},
		Signer: alice.Signer,
	})

	justiceTxs, err := brar.createJusticeTx(retInfo.breachedOutputs)
	require.NoError(t, err)

	variants := map[string]*justiceTxCtx{
		"spendAll":        justiceTxs.spendAll,
		"spendCommitOuts": justiceTxs.spendCommitOuts,
		"spendHTLCs":      justiceTxs.spendHTLCs,
	}

	// Pick up any further variants a repaired tree may have added, without
	// naming a field that the unmodified tree doesn't have.
	v := reflect.ValueOf(justiceTxs).Elem()
	for i := 0; i < v.NumField(); i++ {
		f := v.Field(i)
		if f.Type() != reflect.TypeOf([]*justiceTxCtx(nil)) {
			continue
		}

		//nolint:gosec
		txs := *(*[]*justiceTxCtx)(unsafe.Pointer(f.UnsafeAddr()))
		for j, tx := range txs {
			name := fmt.Sprintf("%s[%d]", v.Type().Field(i).Name, j)
			variants[name] = tx
		}
	}

	covered := make(map[wire.OutPoint]string)
	for name, txCtx := range variants {
		if txCtx == nil {
			continue
		}

		err := probeVerifyTx(
			t, name, txCtx.justiceTx, retInfo.breachedOutputs,
		)
		if err != nil {
			t.Errorf("%v", err)
			continue
		}

		for _, txIn := range txCtx.justiceTx.TxIn {
			covered[txIn.PreviousOutPoint] = name
		}
	}

	for _, bo := range retInfo.breachedOutputs {
		name, ok := covered[bo.outpoint]
		if !ok {
			t.Errorf("breached output %v (%v) is not spent by "+
				"any valid justice tx", bo.outpoint,
				bo.witnessType)

			continue
		}
		t.Logf("breached output %v (%v) swept by %s", bo.outpoint,
			bo.witnessType, name)
	}
}

// TestProbeJusticeTxAnchorChannel is the control: for a plain anchor channel
// all justice transaction inputs pass script validation.
func TestProbeJusticeTxAnchorChannel(t *testing.T) {
	probeJusticeTxVariants(t, probeAnchorChanType, 0)
}

// TestProbeJusticeTxLeaseChannel asserts the same for a script enforced lease
// channel where we are the initiator, i.e. where our to_remote output on the
// counterparty's commitment carries `<lease expiry> OP_CHECKLOCKTIMEVERIFY`.
func TestProbeJusticeTxLeaseChannel(t *testing.T) {
	probeJusticeTxVariants(t, probeLeaseChanType, probeLeaseExpiry)
}

// TestProbeLeaseBreachRetributionFlow drives the breach arbitrator's
// exactRetribution goroutine for the lease channel and checks what it actually
// hands to PublishTransaction: the justice transaction it broadcasts once the
// breach confirms must be valid, and our own lease locked output must be swept
// by a valid transaction once the lease expired.
func TestProbeLeaseBreachRetributionFlow(t *testing.T) {
	alice, retInfo := probeRevokedState(
		t, probeLeaseChanType, probeLeaseExpiry,
	)
	outputs := append([]breachedOutput{}, retInfo.breachedOutputs...)

	var toRemote, toLocal wire.OutPoint
	for _, bo := range outputs {
		switch bo.witnessType {
		case input.CommitmentRevoke:
			toLocal = bo.outpoint

		case input.CommitmentToRemoteConfirmed,
			input.LeaseCommitmentToRemoteConfirmed:

			toRemote = bo.outpoint
		}
	}

	notifier := mock.MakeMockSpendNotifier()
	published := make(chan *wire.MsgTx, 20)
	brar := NewBreachArbitrator(&BreachConfig{
		Estimator: chainfee.NewStaticEstimator(12500, 0),
		GenSweepScript: func() fn.Result[lnwallet.AddrWithKey] {
			return fn.Ok(lnwallet.AddrWithKey{})
		},
		Signer:   alice.Signer,
		Notifier: notifier,
		PublishTransaction: func(tx *wire.MsgTx, _ string) error {
			published <- tx.Copy()
			return nil
		},
	})

	confirmed := make(chan *chainntnfs.TxConfirmation, 1)
	confirmed <- &chainntnfs.TxConfirmation{
		BlockHeight: probeBreachHeight,
	}
	confEvent := &chainntnfs.ConfirmationEvent{
		Confirmed: confirmed,
		Cancel:    func() {},
	}

	brar.wg.Add(1)
	go brar.exactRetribution(confEvent, retInfo)
	defer func() {
		close(brar.quit)
		brar.wg.Wait()
	}()

	nextTx := func() *wire.MsgTx {
		select {
		case tx := <-published:
			return tx
		case <-time.After(5 * time.Second):
			t.Fatalf("no transaction published")
			return nil
		}
	}
	spends := func(tx *wire.MsgTx, op wire.OutPoint) bool {
		for _, txIn := range tx.TxIn {
			if txIn.PreviousOutPoint == op {
				return true
			}
		}

		return false
	}

	// The breach is confirmed at height 1000, the cheater's to_local
	// output matures a few blocks later while the lease runs until 2016.
	// What is broadcast right away must be valid and claim the revoked
	// to_local output.
	justiceTx := nextTx()
	require.True(t, spends(justiceTx, toLocal))
	require.NoError(
		t, probeVerifyTx(t, "first broadcast", justiceTx, outputs),
		"justice tx broadcast on breach confirmation is invalid",
	)

	// A block before the lease expiry, and before the split height, must
	// not trigger anything.
	notifier.EpochChan <- &chainntnfs.BlockEpoch{
		Height: probeBreachHeight + 1,
	}
	select {
	case tx := <-published:
		t.Fatalf("unexpected broadcast: %v", tx.TxHash())
	case <-time.After(200 * time.Millisecond):
	}

	// Once the lease expired, our own output must be swept as well, by a
	// transaction that is valid.
	notifier.EpochChan <- &chainntnfs.BlockEpoch{Height: probeLeaseExpiry}

	var toRemoteSweep *wire.MsgTx
	for toRemoteSweep == nil {
		tx := nextTx()
		if spends(tx, toRemote) {
			toRemoteSweep = tx
		}
	}
	require.NoError(
		t, probeVerifyTx(t, "to_remote sweep", toRemoteSweep, outputs),
	)
	require.LessOrEqual(t, toRemoteSweep.LockTime, uint32(probeLeaseExpiry))
}
