package routing

import (
	"math"
	"testing"

	"github.com/lightningnetwork/lnd/lnwire"
	"github.com/stretchr/testify/require"
)

// TestProbeOutgoingChanRestrictionForeignSource: QueryRoutes lets the caller
// name a source other than the own node (source_pub_key) together with
// outgoing_chan_ids. findPath hands the restriction to the edge unifier along
// with `self` (pathfind.go:1070), and the unifier applies it to channels whose
// from-node is that node only (unified_edges.go:57-66), while "first hop" in
// findPath means `source` (pathfind.go:867). With source != self the
// restriction is therefore not applied to the first hop of the route at all.
func TestProbeOutgoingChanRestrictionForeignSource(t *testing.T) {
	const height = 100

	// self is "me"; the route is asked for from "s" to "t". s has two ways:
	// the cheap one over channel 2 (via x) and the dear one over channel
	// 4 (via y).
	testChannels := []*testChannel{
		symmetricTestChannel("me", "s", 100000, &testChannelPolicy{
			Expiry:  40,
			MinHTLC: 1,
		}, 1),
		symmetricTestChannel("s", "x", 100000, &testChannelPolicy{
			Expiry:      40,
			FeeBaseMsat: 1000,
			MinHTLC:     1,
		}, 2),
		symmetricTestChannel("x", "t", 100000, &testChannelPolicy{
			Expiry:      40,
			FeeBaseMsat: 1000,
			MinHTLC:     1,
		}, 3),
		symmetricTestChannel("s", "y", 100000, &testChannelPolicy{
			Expiry:      40,
			FeeBaseMsat: 5000,
			MinHTLC:     1,
		}, 4),
		symmetricTestChannel("y", "t", 100000, &testChannelPolicy{
			Expiry:      40,
			FeeBaseMsat: 5000,
			MinHTLC:     1,
		}, 5),
	}

	graph, err := createTestGraphFromChannels(
		t, true, testChannels, "me",
	)
	require.NoError(t, err)

	ctx := createTestCtxFromGraphInstance(t, height, graph)

	target := ctx.aliases["t"]
	restrictions := &RestrictParams{
		FeeLimit:           lnwire.NewMSatFromSatoshis(100),
		ProbabilitySource:  noProbabilitySource,
		CltvLimit:          math.MaxUint32,
		OutgoingChannelIDs: []uint64{4},
	}

	req, err := NewRouteRequest(
		ctx.aliases["s"], &target, lnwire.NewMSatFromSatoshis(1000), 0,
		restrictions, nil, nil, nil, 40,
	)
	require.NoError(t, err)

	rt, _, err := ctx.router.FindRoute(req)
	if err != nil {
		return
	}

	require.EqualValues(t, 4, rt.Hops[0].ChannelID, "the route leaves "+
		"the source over channel %d although only channel 4 is "+
		"allowed", rt.Hops[0].ChannelID)
}

// TestProbeOutgoingChanRestrictionSelfIntermediate: with a foreign source and
// our own node as an intermediate hop, the restriction must constrain the
// channel leaving the source (1), not the one leaving our own node (6).
func TestProbeOutgoingChanRestrictionSelfIntermediate(t *testing.T) {
	testChannels := []*testChannel{
		symmetricTestChannel("s", "me", 100000, &testChannelPolicy{
			Expiry:  40,
			MinHTLC: 1,
		}, 1),
		symmetricTestChannel("me", "t", 100000, &testChannelPolicy{
			Expiry:      40,
			FeeBaseMsat: 1000,
			MinHTLC:     1,
		}, 6),
	}

	graph, err := createTestGraphFromChannels(
		t, true, testChannels, "me",
	)
	require.NoError(t, err)

	ctx := createTestCtxFromGraphInstance(t, 100, graph)

	target := ctx.aliases["t"]
	find := func(outChan uint64) (uint64, error) {
		restrictions := &RestrictParams{
			FeeLimit:           lnwire.NewMSatFromSatoshis(100),
			ProbabilitySource:  noProbabilitySource,
			CltvLimit:          math.MaxUint32,
			OutgoingChannelIDs: []uint64{outChan},
		}
		req, err := NewRouteRequest(
			ctx.aliases["s"], &target,
			lnwire.NewMSatFromSatoshis(1000), 0, restrictions, nil,
			nil, nil, 40,
		)
		require.NoError(t, err)

		rt, _, err := ctx.router.FindRoute(req)
		if err != nil {
			return 0, err
		}

		return rt.Hops[0].ChannelID, nil
	}

	// Channel 1 is the source's only channel: the route exists.
	first, err := find(1)
	require.NoError(t, err, "route s -> me -> t leaves s over channel 1")
	require.EqualValues(t, 1, first)

	// Channel 6 does not leave the source: no route.
	_, err = find(6)
	require.ErrorIs(t, err, errNoPathFound)
}
