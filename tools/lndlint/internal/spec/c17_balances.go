package spec

import (
	"fmt"
	"go/ast"
	"go/token"
	"go/types"
	"regexp"

	"lndlint/internal/an"
)

// c17FinalBalances is the body of C17/final-balances.  CoopCloseBalance has the
// parameters (0 chanType, 1 isInitiator, 2 coopCloseFee, 3 ourBalance,
// 4 theirBalance, 5 commitFee, 6 feePayer).  The rule identifies the inputs
// by position, so they must keep their value; the two balances may only be
// written by the four tabled updates; the opener's credit has one definition
// and one conditional increase; the payer is feePayer.UnwrapOr(default) with
// the default decided by isInitiator alone; every return that can report
// success hands out (ourBalance, theirBalance) below both non-negative tests,
// which test the final values.
func c17FinalBalances(o *an.Obl, f *an.Func) {
	ps := f.Params(false)
	if len(ps) != 7 {
		o.FailAt(f.ID+"#params", f.Where(f.Body.Pos()), "CoopCloseBalance has %d parameters, the rule knows 7", len(ps))
		return
	}
	for _, p := range ps {
		if p == nil {
			o.FailAt(f.ID+"#params", f.Where(f.Body.Pos()), "CoopCloseBalance has an unnamed parameter")
			return
		}
	}
	notReassigned(o, f, c17ParamNames(f, 0, 1, 2, 5, 6)...)
	for _, i := range []int{0, 1, 2, 5, 6} {
		for _, w := range c17WritesOf(f, ps[i]) {
			if w.Tok == token.AND || !w.Whole {
				o.FailAt(f.ID+"#input-escapes-"+ps[i].Name(), f.Where(w.Node.Pos()), "the input %s is made writable by %s", ps[i].Name(), an.Text(w.Node))
			}
		}
	}
	isInit := regexp.QuoteMeta(ps[1].Name())
	ours, theirs := types.Object(ps[3]), types.Object(ps[4])

	// the payer: feePayer.UnwrapOr(<immediately invoked closure>)
	var iife *ast.FuncLit
	iifeTerm := func(fn *an.Func, e ast.Expr) bool {
		c, ok := e.(*ast.CallExpr)
		if !ok || len(c.Args) != 0 {
			return false
		}
		fl, ok := ast.Unparen(c.Fun).(*ast.FuncLit)
		if ok {
			iife = fl
		}
		return ok
	}
	payer := an.CallNamed("UnwrapOr", an.Param(6), iifeTerm)

	type upd struct {
		s    an.Site
		ours bool
	}
	var credits, charges []upd
	var delta types.Object
	for _, obj := range []types.Object{ours, theirs} {
		for _, w := range c17WritesOf(f, obj) {
			as, isAssign := w.Node.(*ast.AssignStmt)
			s, inGraph := c17SiteOfNode(f, w.Node)
			if !isAssign || !w.Whole || w.Tuple || w.Rhs == nil || !inGraph || (as.Tok != token.ADD_ASSIGN && as.Tok != token.SUB_ASSIGN) {
				o.FailAt(f.ID+"#balance-write", f.Where(w.Node.Pos()), "unexpected write of %s: %s (only the opener's credit `+=` and the payer's charge `-=` are tabled)", obj.Name(), an.Text(w.Node))
				continue
			}
			isOurs := obj == ours
			if as.Tok == token.ADD_ASSIGN {
				credits = append(credits, upd{s, isOurs})
				guarded(o, f, s, an.Truth(an.Param(1), isOurs, "isInitiator == "+fmt.Sprint(isOurs)))
				onlyGuards(o, f, s, []string{`^` + isInit + `$`, `^!\(` + isInit + `\)$`}, "opener credit")
				id, _ := ast.Unparen(w.Rhs).(*ast.Ident)
				d := c17ObjOfIdent(f, id)
				if _, isVar := d.(*types.Var); !isVar || d == ours || d == theirs {
					o.FailAt(f.ID+"#credit", s.Where(), "the opener is credited %s, expected the local that holds commit fee + anchors", an.Text(w.Rhs))
					continue
				}
				if delta != nil && delta != d {
					o.FailAt(f.ID+"#credit", s.Where(), "the two credits add different amounts (%s and %s)", delta.Name(), d.Name())
				}
				delta = d
			} else {
				charges = append(charges, upd{s, isOurs})
				party := map[bool]string{true: "Local", false: "Remote"}[isOurs]
				guarded(o, f, s, an.Cmp(payer, an.EQ, an.PkgVar("lntypes", party), "feePayer.UnwrapOr(default payer) == lntypes."+party))
				onlyGuards(o, f, s, []string{`^!?\(?\w+ == lntypes\.(Local|Remote)\)?$`}, "closing fee charge")
				if c := f.Canon(w.Rhs); c != "$p2" {
					o.FailAt(f.ID+"#charge", s.Where(), "the payer is charged %s, expected the closing fee", an.Text(w.Rhs))
				}
			}
		}
	}
	count := func(l []upd, isOurs bool) int {
		n := 0
		for _, u := range l {
			if u.ours == isOurs {
				n++
			}
		}
		return n
	}
	if count(credits, true) != 1 || count(credits, false) != 1 || count(charges, true) != 1 || count(charges, false) != 1 {
		o.FailAt(f.ID+"#updates", f.Where(f.Body.Pos()), "expected one credit and one charge per balance, found credits ours=%d theirs=%d, charges ours=%d theirs=%d",
			count(credits, true), count(credits, false), count(charges, true), count(charges, false))
	}

	// the opener's credit: := commitFee, then += 2*AnchorSize below HasAnchors
	if delta == nil {
		o.FailAt(f.ID+"#delta", f.Where(f.Body.Pos()), "cannot identify the amount credited to the opener")
	} else {
		nDef, nAnchor := 0, 0
		var deltaSites []an.Site
		for _, w := range c17WritesOf(f, delta) {
			s, inGraph := c17SiteOfNode(f, w.Node)
			if !inGraph || !w.Whole || w.Tuple || w.Rhs == nil {
				o.FailAt(f.ID+"#delta-write", f.Where(w.Node.Pos()), "unexpected write of the opener's credit: %s", an.Text(w.Node))
				continue
			}
			deltaSites = append(deltaSites, s)
			switch w.Tok {
			case token.DEFINE, token.VAR:
				nDef++
				o.Site("opener credit starts from %s", f.Canon(w.Rhs))
				if f.Canon(w.Rhs) != "$p5" {
					o.FailAt(f.ID+"#delta", s.Where(), "the opener's credit starts from %s, expected the commit fee", an.Text(w.Rhs))
				}
			case token.ADD_ASSIGN:
				nAnchor++
				guarded(o, f, s, an.Truth(an.CallNamed("HasAnchors", an.Param(0)), true, "chanType.HasAnchors()"))
				onlyGuards(o, f, s, []string{`^` + regexp.QuoteMeta(ps[0].Name()) + `\.HasAnchors\(\)$`}, "anchor credit")
				if c := f.Canon(w.Rhs); c != "(2 * "+lw+"AnchorSize)" && c != "("+lw+"AnchorSize * 2)" {
					o.FailAt(f.ID+"#anchors", s.Where(), "the anchor credit is %s", an.Text(w.Rhs))
				}
			default:
				o.FailAt(f.ID+"#delta-write", s.Where(), "unexpected update of the opener's credit: %s (only `:= commitFee` and `+= 2*AnchorSize` are tabled)", an.Text(w.Node))
			}
		}
		if nDef != 1 || nAnchor != 1 {
			o.FailAt(f.ID+"#delta-steps", f.Where(f.Body.Pos()), "the opener's credit has %d definitions and %d anchor increases, expected one each", nDef, nAnchor)
		}
		// the credit is complete when it is added to a balance
		for _, c := range credits {
			after := c17StrictlyAfter(f.Graph(), c.s.V)
			for _, d := range deltaSites {
				if after[d.V] {
					o.FailAt(f.ID+"#delta-after-credit", d.Where(), "the opener's credit is still changed (%s) after it was added to a balance", d.String())
				}
			}
		}
	}

	// default payer: Local iff isInitiator
	if iife == nil {
		o.FailAt(f.ID+"#payer-definition", f.Where(f.Body.Pos()), "the party charged is not feePayer.UnwrapOr(<default decided from isInitiator>): cannot find that definition behind the tests that select the charged balance")
	} else {
		lf := f.LitFunc(iife)
		nLocal, nRemote := 0, 0
		for _, s := range lf.Returns() {
			rs, _ := s.Node.(*ast.ReturnStmt)
			if rs == nil || len(rs.Results) != 1 {
				o.FailAt(f.ID+"#default-payer", s.Where(), "cannot read the default payer returned at %s", s.String())
				continue
			}
			c := lf.Canon(rs.Results[0])
			o.Site("default payer -> %s", c)
			onlyGuards(o, lf, s, []string{`^` + isInit + `$`, `^!\(` + isInit + `\)$`}, "default payer")
			switch c {
			case "lntypes.Local":
				nLocal++
				guarded(o, lf, s, an.Truth(an.Param(1), true, "isInitiator"))
			case "lntypes.Remote":
				nRemote++
				guarded(o, lf, s, an.Truth(an.Param(1), false, "!isInitiator"))
			default:
				o.FailAt(f.ID+"#default-payer", s.Where(), "the default fee payer can be %s", c)
			}
		}
		if nLocal == 0 || nRemote == 0 {
			o.FailAt(f.ID+"#default-payer", lf.Where(iife.Pos()), "the default fee payer does not depend on isInitiator (Local exits %d, Remote exits %d)", nLocal, nRemote)
		}
	}

	// exits: whatever is not certainly a failure hands out the final balances
	n := 0
	for _, s := range f.SuccessReturns() {
		rs, _ := s.Node.(*ast.ReturnStmt)
		if rs == nil || len(rs.Results) != 3 {
			o.FailAt(f.ID+"#exit-shape", s.Where(), "cannot read the results returned at %s", s.String())
			continue
		}
		n++
		ge0 := an.CmpX(an.Param(3), an.GE, an.IntConst(0), "ourBalance >= 0")
		ge1 := an.CmpX(an.Param(4), an.GE, an.IntConst(0), "theirBalance >= 0")
		guarded(o, f, s, ge0)
		guarded(o, f, s, ge1)
		c17HoldsSinceLastWrite(o, f, s, ge0, ours)
		c17HoldsSinceLastWrite(o, f, s, ge1, theirs)
		if f.Canon(rs.Results[0]) != "$p3" || f.Canon(rs.Results[1]) != "$p4" {
			o.FailAt(f.ID+"#result-order", s.Where(), "the balances are returned as (%s, %s)", an.Text(rs.Results[0]), an.Text(rs.Results[1]))
		}
	}
	if n == 0 {
		o.FailAt(f.ID+"#no-success-exit", f.Where(f.Body.Pos()), "CoopCloseBalance has no exit that can report success")
	}
}
