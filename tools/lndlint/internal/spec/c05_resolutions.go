package spec

import (
	"go/ast"
	"go/token"
	"go/types"
	"regexp"
	"sort"
	"strings"

	"lndlint/internal/an"
	"lndlint/internal/flow"
)

// c05AllDefs lists every expression assigned to the local obj in the root
// function of f (`=`, `:=`, `var x = e`; closures included).
func c05AllDefs(f *an.Func, obj types.Object) []ast.Expr {
	root := f.Root()
	info := root.Info()
	var out []ast.Expr
	is := func(e ast.Expr) bool {
		id, ok := ast.Unparen(e).(*ast.Ident)
		return ok && (info.Defs[id] == obj || info.Uses[id] == obj)
	}
	ast.Inspect(root.Body, func(n ast.Node) bool {
		switch x := n.(type) {
		case *ast.AssignStmt:
			if len(x.Lhs) == len(x.Rhs) {
				for i, l := range x.Lhs {
					if is(l) {
						out = append(out, x.Rhs[i])
					}
				}
			}
		case *ast.ValueSpec:
			if len(x.Names) == len(x.Values) {
				for i, nm := range x.Names {
					if info.Defs[nm] == obj {
						out = append(out, x.Values[i])
					}
				}
			}
		}
		return true
	})
	return out
}

// c05FeeDependent reports whether the value of e can come from
// HtlcTimeoutFee / HtlcSuccessFee: a call of one of them inside e, or inside
// any definition of a local e mentions (all definitions, not only unique
// ones: `fee := HtlcTimeoutFee(..); if incoming { fee = HtlcSuccessFee(..) }`).
func c05FeeDependent(f *an.Func, e ast.Expr) bool {
	info := f.Info()
	seen := map[types.Object]bool{}
	var dep func(x ast.Expr, depth int) bool
	dep = func(x ast.Expr, depth int) bool {
		if x == nil || depth > 4 {
			return false
		}
		found := false
		ast.Inspect(x, func(n ast.Node) bool {
			if found {
				return false
			}
			switch y := n.(type) {
			case *ast.FuncLit:
				return false
			case *ast.CallExpr:
				if id := an.CalleeID(info, y); id == lw+"HtlcTimeoutFee" || id == lw+"HtlcSuccessFee" {
					found = true
					return false
				}
			case *ast.Ident:
				v, ok := info.Uses[y].(*types.Var)
				if !ok || v.IsField() || seen[v] || (v.Pkg() != nil && v.Parent() == v.Pkg().Scope()) {
					return true
				}
				seen[v] = true
				for _, d := range c05AllDefs(f, v) {
					if dep(d, depth+1) {
						found = true
						return false
					}
				}
			}
			return true
		})
		return found
	}
	return dep(e, 0)
}

// c05TrimmedHtlcs: the resolutions of a confirmed commitment skip exactly the
// HTLCs the commitment builder trimmed.
func c05TrimmedHtlcs(r *an.Run) {
	p := r.Prog
	r.Obl("resolutions-skip-exactly-the-trimmed-htlcs", "ROLE",
		"extractHtlcResolutions decides which HTLCs have no output on the confirmed commitment with HtlcIsDust(chanType, htlc.Incoming, whoseCommit, feePerKw, htlc.Amt.ToSatoshis(), the dust limit selected by whoseCommit), evaluated once in every iteration over the HTLC list; a resolution is built only on its false edge and every HTLC that is not dust gets one; outside HtlcIsDust no function of lnwallet or contractcourt compares a value that depends on HtlcTimeoutFee / HtlcSuccessFee (directly or through locals) with anything (tabled: the balance estimate of availableCommitmentBalance)",
		"HtlcIsDust picks the second-level fee from the HTLC direction AND the commitment owner, exactly as the commitment builder did when it created and indexed the outputs; a resolution pass that classifies differently leaves an existing HTLC output unclaimed or builds a sweep for an output that does not exist", 6,
		func(o *an.Obl) {
			ex := p.Func(lw + "extractHtlcResolutions")
			const loopRe = `^\$p3$`
			dust := ex.Calls(an.CalleeIs(lw+"HtlcIsDust"), true)
			if !needExactly(o, ex, "HtlcIsDust", dust, 1) {
				return
			}
			a := ex.ArgCanon(dust[0])
			want := []string{"$p9", "$elem($p3).Incoming", "$p1", "$p0", "$elem($p3).Amt.ToSatoshis()"}
			for i, w := range want {
				if a[i] != w {
					o.FailAt(ex.ID+"#dust-arg"+itoa(i), dust[0].Where(), "HtlcIsDust receives argument %d = %s, expected %s (channel type, direction of this HTLC, owner of the confirmed commitment, its fee rate, amount of this HTLC)", i, a[i], w)
				}
			}
			call := dust[0].Node.(*ast.CallExpr)
			for _, arg := range call.Args {
				c04OperandsNotOverwritten(o, ex, arg, "dust classification")
			}
			selectorConsistent(o, ex, dust[0], call.Args[5], canonTerm(`^\$p1$`), canonTerm(`^\$p5\.DustLimit$`), canonTerm(`^\$p6\.DustLimit$`), "dust limit")
			everyIteration(o, ex, loopRe, dust, "the HtlcIsDust classification")
			var build []an.Site
			for _, callee := range []string{"newIncomingHtlcResolution", "newOutgoingHtlcResolution"} {
				build = append(build, ex.Calls(an.CalleeIs(lw+callee), false)...)
			}
			isDust := an.CallTo(lw+"HtlcIsDust", nil)
			guardedAll(o, ex, build, an.Truth(isDust, false, "!HtlcIsDust(...)"))
			everyIterationOr(o, ex, loopRe, build, an.Truth(isDust, true, "the HTLC is dust"), "a resolution constructor")
			// no second, private notion of "dust"
			exempt := map[string]string{
				lw + "HtlcIsDust": "the classification itself",
				lw + "LightningChannel.availableCommitmentBalance": "balance estimate for the next HTLC to add (largest amount that would still be trimmed); classifies no existing HTLC",
			}
			n := 0
			for _, f := range p.Funcs(false, "lnwallet", "contractcourt") {
				if f.Lit != nil {
					continue
				}
				for _, fn := range append([]*an.Func{f}, f.Lits...) {
					ast.Inspect(fn.Body, func(x ast.Node) bool {
						if _, isLit := x.(*ast.FuncLit); isLit && x != ast.Node(fn.Lit) {
							return false
						}
						be, ok := x.(*ast.BinaryExpr)
						if !ok {
							return true
						}
						switch be.Op {
						case token.LSS, token.LEQ, token.GTR, token.GEQ, token.EQL, token.NEQ:
						default:
							return true
						}
						if !c05FeeDependent(fn, be.X) && !c05FeeDependent(fn, be.Y) {
							return true
						}
						n++
						if why, ok := exempt[f.ID]; ok {
							o.Site("%s: %s (%s)", f.ID, an.Text(be), why)
							return true
						}
						o.FailAt(f.ID+"#inlined-dust-test", fn.Where(be.Pos()), "%s compares a value derived from HtlcTimeoutFee / HtlcSuccessFee (%s): whether an HTLC has an output is decided by HtlcIsDust alone, which also takes the commitment owner into account", f.ID, an.Text(be))
						return true
					})
				}
			}
			if n < 2 {
				o.FailAt("HtlcIsDust#fee-comparisons", "", "expected the fee comparisons of HtlcIsDust and availableCommitmentBalance, found %d", n)
			}
		})
}

// c05CsvRoles: which delay goes into the CsvDelay of an HTLC resolution.
func c05CsvRoles(r *an.Run) {
	p := r.Prog
	r.Obl("resolution-csv-delay-roles", "MIRROR",
		"newOutgoingHtlcResolution and newIncomingHtlcResolution are the only functions of lnwallet and contractcourt that fill the CsvDelay of an OutgoingHtlcResolution / IncomingHtlcResolution literal; a literal built below whoseCommit.IsRemote() (direct spend from the counterparty's commitment) carries HtlcSecondLevelInputSequence(chanType), every literal built for the node's own commitment (second-level transaction, swept after the to_self delay) carries the csvDelay parameter; both constructors have one remote and two own-commitment literals with the same values",
		"contractcourt and the sweeper take the relative lock time of the sweep from CsvDelay: the output of the node's own second-level transaction enforces `<to_self_delay> OP_CSV`, so a sweep with the input sequence of the second-level transaction (0 or 1) can never be valid and the HTLC stays locked", 6,
		func(o *an.Obl) {
			ctors := map[string]string{
				lw + "newOutgoingHtlcResolution": "OutgoingHtlcResolution",
				lw + "newIncomingHtlcResolution": "IncomingHtlcResolution",
			}
			const whose, csv, chanType = 9, 7, 11
			table := map[string][]string{}
			for _, ctor := range []string{lw + "newOutgoingHtlcResolution", lw + "newIncomingHtlcResolution"} {
				f := p.Func(ctor)
				// the parameter roles this table relies on
				ps := f.Params(false)
				if len(ps) <= chanType || ps[whose] == nil || an.TypeID(ps[whose].Type()) != "lntypes.ChannelParty" || ps[csv] == nil || ps[csv].Type().String() != "uint32" {
					o.FailAt(ctor+"#parameters", f.Where(f.Body.Pos()), "%s no longer has (csvDelay uint32 at 7, whoseCommit at 9, chanType at 11)", ctor)
					continue
				}
				for _, ref := range p.CompositeLitsOf(p.LookupType("lnwallet", ctors[ctor])) {
					if ref.Fn == nil || ref.Fn.ID != ctor {
						continue
					}
					lit := ref.Node.(*ast.CompositeLit)
					var val ast.Expr
					for _, el := range lit.Elts {
						if kv, ok := el.(*ast.KeyValueExpr); ok && an.Text(kv.Key) == "CsvDelay" {
							val = kv.Value
						}
					}
					// the function (or closure) that contains the literal
					fn := f
					for _, lf := range f.Lits {
						if lf.Lit.Pos() <= lit.Pos() && lit.End() <= lf.Lit.End() {
							fn = lf
						}
					}
					if fn != f {
						o.FailAt(ctor+"#literal-in-closure", ref.Where, "a %s is built inside a closure of %s: its branch cannot be classified", ctors[ctor], ctor)
						continue
					}
					site := an.Site{Fn: f, V: f.Graph().Containing(lit, false), Node: lit}
					if site.V == nil {
						o.FailAt(ctor+"#literal-vertex", ref.Where, "cannot place the %s literal in the flow graph", ctors[ctor])
						continue
					}
					party := an.Param(whose)
					remote, _ := f.Guarded(site, an.AnyOf("remote", an.Truth(an.CallNamed("IsRemote", party), true, ""), an.Truth(an.CallNamed("IsLocal", party), false, "")))
					local, _ := f.Guarded(site, an.AnyOf("local", an.Truth(an.CallNamed("IsRemote", party), false, ""), an.Truth(an.CallNamed("IsLocal", party), true, "")))
					if val == nil {
						o.FailAt(ctor+"#csv-missing", ref.Where, "a %s literal of %s leaves CsvDelay unset", ctors[ctor], ctor)
						continue
					}
					c := f.Canon(val)
					role, wantC := "", ""
					switch {
					case remote && !local:
						role, wantC = "counterparty's commitment", "lnwallet.HtlcSecondLevelInputSequence($p"+itoa(chanType)+")"
					case local && !remote:
						role, wantC = "own commitment", "$p"+itoa(csv)
					default:
						o.FailAt(ctor+"#csv-branch", ref.Where, "cannot decide whose commitment the %s literal at %s is built for", ctors[ctor], ref.Where)
						continue
					}
					o.Site("%s at %s (%s): CsvDelay = %s", ctors[ctor], ref.Where, role, c)
					table[ctor] = append(table[ctor], role+": "+c)
					if c != wantC {
						o.FailAt(ctor+"#csv-delay-"+strings.ReplaceAll(role, " ", "-"), ref.Where, "the %s built for the %s gets CsvDelay = %s, expected %s", ctors[ctor], role, c, wantC)
					}
					c04OperandsNotOverwritten(o, f, val, "resolution CSV delay")
				}
				sort.Strings(table[ctor])
				nRemote := 0
				for _, e := range table[ctor] {
					if strings.HasPrefix(e, "counterparty") {
						nRemote++
					}
				}
				if nRemote != 1 || len(table[ctor]) != 3 {
					o.FailAt(ctor+"#literals", f.Where(f.Body.Pos()), "expected one counterparty-commitment and two own-commitment %s literals in %s, found %v", ctors[ctor], ctor, table[ctor])
				}
			}
			if a, b := strings.Join(table[lw+"newOutgoingHtlcResolution"], " ; "), strings.Join(table[lw+"newIncomingHtlcResolution"], " ; "); a != b {
				o.FailAt("HtlcResolution#csv-mirror", "", "the two resolution constructors disagree on the CsvDelay per branch: outgoing {%s} incoming {%s}", a, b)
			}
			// nobody else fills the field
			for _, tn := range []string{"OutgoingHtlcResolution", "IncomingHtlcResolution"} {
				for _, ref := range p.CompositeLitsOf(p.LookupType("lnwallet", tn)) {
					id := "<package-level>"
					if ref.Fn != nil {
						id = ref.Fn.ID
					}
					if _, ok := ctors[id]; ok {
						continue
					}
					for _, el := range ref.Node.(*ast.CompositeLit).Elts {
						if kv, ok := el.(*ast.KeyValueExpr); ok && an.Text(kv.Key) == "CsvDelay" {
							o.FailAt(id+"#csv-delay-elsewhere", ref.Where, "%s builds a %s with a CsvDelay of its own (%s)", id, tn, an.Text(kv.Value))
						}
					}
				}
				for _, f := range p.Funcs(false, "lnwallet", "contractcourt") {
					for _, s := range f.Assigns(an.Field("lnwallet."+tn, "CsvDelay", nil), false) {
						o.FailAt(f.Root().ID+"#csv-delay-assigned", s.Where(), "%s overwrites the CsvDelay of a %s: %s", f.Root().ID, tn, s.String())
					}
				}
			}
		})
}

// c05HtlcsOfTheConfirmedState: NewLocalForceCloseSummary builds its key ring
// for the state number that confirmed but knows HTLCs (with output indexes and
// second-level signatures) only for the local commitment in the database.  The
// list handed to extractHtlcResolutions is a local with exactly one non-nil
// definition, `<commitment of the fee rate>.Htlcs`; every other definition is
// nil and lies below `state number != <that commitment>.CommitHeight`; and the
// non-nil definition reaches the call only through the equality of the two
// (repair f76866c: stale output indexes were used on another state's
// transaction).
func c05HtlcsOfTheConfirmedState(o *an.Obl, f *an.Func, call an.Site, feeBase string, a []string) {
	key := func(s string) string { return f.ID + "#" + s }
	m := regexp.MustCompile(`RevocationProducer\.AtIndex\((\$p\d+)\)`).FindStringSubmatch(a[4])
	if m == nil {
		o.FailAt(key("key-ring-height"), call.Where(), "cannot tell the state number the key ring %s was derived at", a[4])
		return
	}
	stateNum := canonTerm(`^` + regexp.QuoteMeta(m[1]) + `$`)
	height := canonTerm(`^` + regexp.QuoteMeta(feeBase) + `\.CommitHeight$`)
	same := an.Cmp(stateNum, an.EQ, height, "confirmed state number == CommitHeight of the commitment the HTLCs belong to")
	differ := an.Cmp(stateNum, an.NE, height, "confirmed state number != CommitHeight of the commitment the HTLCs belong to")
	arg := an.Strip(f.Info(), call.Node.(*ast.CallExpr).Args[3])
	id, ok := arg.(*ast.Ident)
	if !ok {
		// handed over directly: then the call itself must be below the equality
		if a[3] != feeBase+".Htlcs" {
			o.FailAt(key("fee-and-htlcs-same-commitment"), call.Where(), "the HTLC list %s and the fee rate %s are taken from different commitments", a[3], a[0])
		}
		guarded(o, f, call, same)
		return
	}
	obj := f.Info().Uses[id]
	var full, empty []an.Site
	for _, v := range f.Graph().V {
		for _, how := range assignedTo(f, v, obj) {
			s := an.Site{Fn: f, V: v, Node: v.Node}
			if how == "decl" {
				empty = append(empty, s) // `var htlcs []HTLC`: the empty list
				continue
			}
			rhs := rhsFor(f, s, obj)
			switch {
			case rhs != nil && an.IsNilIdent(f.Info(), rhs):
				empty = append(empty, s)
			case rhs != nil && f.Canon(rhs) == feeBase+".Htlcs":
				full = append(full, s)
			default:
				o.FailAt(key("fee-and-htlcs-same-commitment"), s.Where(), "the HTLC list handed to extractHtlcResolutions is set by %s; expected %s.Htlcs (the commitment the fee rate %s is taken from) or nil", an.Text(v.Node), feeBase, a[0])
			}
		}
	}
	if len(full) != 1 {
		o.FailAt(key("fee-and-htlcs-same-commitment"), call.Where(), "expected exactly one definition of the HTLC list %s from %s.Htlcs, found %d", id.Name, feeBase, len(full))
		return
	}
	for _, st := range c04Overwrites(f, obj) {
		if _, isAssign := st.(*ast.AssignStmt); !isAssign {
			o.FailAt(key("htlc-list-modified"), f.Where(st.Pos()), "the HTLC list is modified by %s", an.Text(st))
		}
	}
	// the list is not re-sliced / appended to through another name: any use
	// of the variable other than the call argument and len() is reported
	ast.Inspect(f.Body, func(n ast.Node) bool {
		if u, ok := n.(*ast.UnaryExpr); ok && u.Op == token.AND {
			if x, ok := ast.Unparen(u.X).(*ast.Ident); ok && f.Info().Uses[x] == obj {
				o.FailAt(key("htlc-list-address-taken"), f.Where(u.Pos()), "the address of the HTLC list is taken: %s", an.Text(u))
			}
		}
		return true
	})
	o.Site("%s: HTLC list %s = %s.Htlcs, %d empty definitions", f.ID, id.Name, feeBase, len(empty))
	for _, s := range empty {
		if _, isDecl := s.Node.(*ast.DeclStmt); isDecl {
			continue
		}
		// dropping the HTLCs of the state that did confirm loses their outputs
		guarded(o, f, s, differ)
	}
	// the full list reaches the call only through the equality
	cut := f.EdgesOf(same)
	stop := map[*flow.Vertex]bool{}
	for _, s := range empty {
		if s.V != full[0].V {
			stop[s.V] = true
		}
	}
	o.Site("%s: %s.Htlcs reaches extractHtlcResolutions only where [%s] (%d establishing edges)", f.ID, feeBase, same.Desc, len(cut))
	if reach := f.Graph().Reach(full[0].V, cut, stop); reach[call.V] && !stop[call.V] {
		o.FailAt(key("htlcs-of-another-state"), call.Where(), "the HTLCs of %s (output indexes, second-level signatures) are resolved on the confirmed transaction although the state number %s the keys were derived at was not compared equal to %s.CommitHeight: on a node behind its own confirmed commitment the indexes are out of range or point at unrelated outputs", feeBase, m[1], feeBase)
	}
	if !f.Before(full, call) {
		o.FailAt(key("htlcs-defined-before-use"), call.Where(), "extractHtlcResolutions can be reached before the HTLC list is defined")
	}
}
