package lnwire_test

import (
	"bytes"
	"testing"

	"github.com/btcsuite/btcd/btcec/v2"
	"github.com/btcsuite/btcd/btcec/v2/ecdsa"
	"github.com/btcsuite/btcd/chainhash/v2"
	"github.com/lightningnetwork/lnd/lnwire"
	"github.com/lightningnetwork/lnd/netann"
	"github.com/lightningnetwork/lnd/tlv"
	"github.com/stretchr/testify/require"
)

// TestProbeChannelUpdateRelayKeepsSignatureValid plays a channel_update that
// was produced by a node which appends an odd TLV record lnd does not know
// through lnd's receive -> validate -> relay path: ReadMessage, the real
// netann signature check, WriteMessage (what the gossiper does when it
// forwards the message object to its peers), and the same check at the next
// hop.
func TestProbeChannelUpdateRelayKeepsSignatureValid(t *testing.T) {
	priv, err := btcec.NewPrivateKey()
	require.NoError(t, err)

	// The part of the message lnd understands, inbound fee included.
	fee := lnwire.Fee{BaseFee: -10, FeeRate: -20}
	base := &lnwire.ChannelUpdate1{
		ShortChannelID:  lnwire.NewShortChanIDFromInt(0x1234500001),
		Timestamp:       1700000000,
		MessageFlags:    lnwire.ChanUpdateRequiredMaxHtlc,
		TimeLockDelta:   80,
		HtlcMinimumMsat: 1000,
		BaseFee:         1000,
		FeeRate:         1,
		HtlcMaximumMsat: 100000000,
		InboundFee: tlv.SomeRecordT(
			tlv.NewRecordT[tlv.TlvType55555, lnwire.Fee](fee),
		),
	}
	var b bytes.Buffer
	_, err = lnwire.WriteMessage(&b, base, 0)
	require.NoError(t, err)

	// The originator appends an odd record of a type unknown to lnd:
	// type 77777 (bigsize fe 00 01 2f d1), length 3.
	wireBytes := append(
		b.Bytes(), 0xfe, 0x00, 0x01, 0x2f, 0xd1, 0x03, 0xaa, 0xbb, 0xcc,
	)

	// The originator signs the double-SHA256 of everything after the
	// signature, as BOLT 7 prescribes, i.e. including the unknown record.
	digest := chainhash.DoubleHashB(wireBytes[2+64:])
	sig, err := lnwire.NewSigFromSignature(ecdsa.Sign(priv, digest))
	require.NoError(t, err)
	copy(wireBytes[2:2+64], sig.RawBytes())

	// Hop 1 (us): receive and validate. This must and does succeed.
	msg, err := lnwire.ReadMessage(bytes.NewReader(wireBytes), 0)
	require.NoError(t, err)
	upd, ok := msg.(*lnwire.ChannelUpdate1)
	require.True(t, ok)
	require.True(t, upd.InboundFee.IsSome())
	require.NoError(
		t, netann.VerifyChannelUpdateSignature(upd, priv.PubKey()),
		"update must be valid when it arrives",
	)

	// Hop 1 relays the very message object to its peers.
	var relayed bytes.Buffer
	_, err = lnwire.WriteMessage(&relayed, upd, 0)
	require.NoError(t, err)

	// Hop 2 receives what we sent.
	msg2, err := lnwire.ReadMessage(bytes.NewReader(relayed.Bytes()), 0)
	require.NoError(t, err)
	err = netann.VerifyChannelUpdateSignature(
		msg2.(*lnwire.ChannelUpdate1), priv.PubKey(),
	)
	require.NoError(t, err, "relayed update must still be valid")

	require.Equal(t, wireBytes, relayed.Bytes(), "relayed bytes differ")

	// Encoding must also not have invalidated the in-memory message.
	require.NoError(
		t, netann.VerifyChannelUpdateSignature(upd, priv.PubKey()),
		"update no longer valid after it was encoded once",
	)
}
