package spec

import (
	"go/ast"
	"go/token"
	"go/types"
	"strings"
	"sync"

	"lndlint/internal/an"
)

// An index loop `for i := 0; i < len(X); i++ { … X[i] … }` over a list that
// the function does not write is the loop `for i, x := range X`: i is the
// position ($key(X)) and X[i] the element ($elem(X)).  an.Func.Canon knows
// only the range form; the helpers below give the C08 rules (and the C07
// replay mirror) the same canonical forms for the index form, so that the
// rules keep comparing positions and elements, not loop syntax.

// c08IdxLoop is one validated index loop of a root function.
type c08IdxLoop struct {
	stmt *ast.ForStmt
	idx  types.Object // the index variable
	list ast.Expr     // X of len(X)
}

// c08IndexLoops lists the loops of the root function of f that have exactly
// the shape `for i := 0; i < len(X); i++` (or `len(X) > i`), whose index is
// written by nothing but the post statement (and whose address is not
// taken), and whose list X is a variable or field path no statement of the
// function assigns to (neither to it, nor to something it is a part of, nor
// to a part of it).
func c08IndexLoops(f *an.Func) []c08IdxLoop {
	root := f.Root()
	if c, ok := c08IdxLoopCache.Load(root); ok {
		return c.([]c08IdxLoop)
	}
	out := c08FindIndexLoops(root)
	c08IdxLoopCache.Store(root, out)
	return out
}

var c08IdxLoopCache sync.Map // *an.Func (root) -> []c08IdxLoop

func c08FindIndexLoops(root *an.Func) []c08IdxLoop {
	info := root.Info()
	var out []c08IdxLoop
	ast.Inspect(root.Body, func(n ast.Node) bool {
		fs, ok := n.(*ast.ForStmt)
		if !ok || fs.Cond == nil {
			return true
		}
		init, ok := fs.Init.(*ast.AssignStmt)
		if !ok || init.Tok != token.DEFINE || len(init.Lhs) != 1 || len(init.Rhs) != 1 {
			return true
		}
		iv, ok := init.Lhs[0].(*ast.Ident)
		if !ok || info.Defs[iv] == nil {
			return true
		}
		obj := info.Defs[iv]
		if tv, ok := info.Types[init.Rhs[0]]; !ok || tv.Value == nil || tv.Value.ExactString() != "0" {
			return true
		}
		post, ok := fs.Post.(*ast.IncDecStmt)
		if !ok || post.Tok != token.INC {
			return true
		}
		if pid, ok := ast.Unparen(post.X).(*ast.Ident); !ok || info.Uses[pid] != obj {
			return true
		}
		cond, ok := ast.Unparen(fs.Cond).(*ast.BinaryExpr)
		if !ok {
			return true
		}
		var iSide, lSide ast.Expr
		switch cond.Op {
		case token.LSS:
			iSide, lSide = cond.X, cond.Y
		case token.GTR:
			iSide, lSide = cond.Y, cond.X
		default:
			return true
		}
		if cid, ok := ast.Unparen(iSide).(*ast.Ident); !ok || info.Uses[cid] != obj {
			return true
		}
		call, ok := ast.Unparen(lSide).(*ast.CallExpr)
		if !ok || len(call.Args) != 1 || an.CalleeID(info, call) != "builtin.len" {
			return true
		}
		list := ast.Unparen(call.Args[0])
		if ws := c08WritesOf(root, obj, true); len(ws) != 1 {
			return true // written besides the post statement, or aliased
		}
		if !c08ListStable(root, list) {
			return true
		}
		out = append(out, c08IdxLoop{stmt: fs, idx: obj, list: list})
		return true
	})
	return out
}

// c08ListStable: list is an identifier or a path of field selections below
// one, and no assignment, ++/--, range clause or address-of in the function
// touches that path, a prefix of it or an extension of it.
func c08ListStable(root *an.Func, list ast.Expr) bool {
	info := root.Info()
	for e := list; ; {
		switch x := ast.Unparen(e).(type) {
		case *ast.SelectorExpr:
			if info.Selections[x] == nil {
				return false
			}
			e = x.X
			continue
		case *ast.Ident:
			if _, isVar := info.Uses[x].(*types.Var); !isVar {
				return false
			}
		default:
			return false
		}
		break
	}
	rid := c08RootIdent(list)
	if rid == nil {
		return false
	}
	lobj := info.Uses[rid]
	path := an.Text(list)
	overlaps := func(e ast.Expr) bool {
		if e == nil {
			return false
		}
		id := c08RootIdent(e)
		if id == nil || c08ObjOf(info, id) != lobj {
			return false
		}
		t := an.Text(ast.Unparen(e))
		return t == path || strings.HasPrefix(path, t+".") || strings.HasPrefix(t, path+".") || strings.HasPrefix(t, path+"[")
	}
	stable := true
	ast.Inspect(root.Body, func(n ast.Node) bool {
		switch x := n.(type) {
		case *ast.AssignStmt:
			if x.Tok == token.DEFINE {
				return true
			}
			for _, l := range x.Lhs {
				if overlaps(l) {
					stable = false
				}
			}
		case *ast.IncDecStmt:
			if overlaps(x.X) {
				stable = false
			}
		case *ast.RangeStmt:
			if x.Tok == token.ASSIGN && (overlaps(x.Key) || overlaps(x.Value)) {
				stable = false
			}
		case *ast.UnaryExpr:
			if x.Op == token.AND && overlaps(x.X) {
				stable = false
			}
		}
		return stable
	})
	return stable
}

func c08LoopOfIndex(loops []c08IdxLoop, obj types.Object) *c08IdxLoop {
	if obj == nil {
		return nil
	}
	for i := range loops {
		if loops[i].idx == obj {
			return &loops[i]
		}
	}
	return nil
}

// c08IsIndexLoopKey: v is the index of a validated index loop.
func c08IsIndexLoopKey(f *an.Func, v types.Object) bool {
	return c08LoopOfIndex(c08IndexLoops(f), v) != nil
}

// c08MentionsIndex: e, looked at through uniquely defined locals, uses the
// index of one of the loops.
func c08MentionsIndex(f *an.Func, loops []c08IdxLoop, e ast.Expr, depth int) bool {
	info := f.Info()
	found := false
	ast.Inspect(e, func(n ast.Node) bool {
		id, ok := n.(*ast.Ident)
		if !ok || found {
			return !found
		}
		obj := info.Uses[id]
		if c08LoopOfIndex(loops, obj) != nil {
			found = true
			return false
		}
		if _, isVar := obj.(*types.Var); isVar && depth < 5 {
			if d := f.UniqueDef(id); d != nil && c08MentionsIndex(f, loops, d, depth+1) {
				found = true
			}
		}
		return !found
	})
	return found
}

// c08Canon is f.Canon, except that inside a validated index loop over X the
// index is $key(X) and X[index] is $elem(X), as in the range form of the same
// loop.  Expressions that do not involve such an index are left to f.Canon.
func c08Canon(f *an.Func, e ast.Expr) string {
	if e == nil {
		return f.Canon(e)
	}
	loops := c08IndexLoops(f)
	if len(loops) == 0 {
		return f.Canon(e)
	}
	return c08CanonIx(f, loops, e, 0)
}

func c08CanonIx(f *an.Func, loops []c08IdxLoop, e ast.Expr, depth int) string {
	if depth > 6 || !c08MentionsIndex(f, loops, e, 0) {
		return f.Canon(e)
	}
	info := f.Info()
	rec := func(x ast.Expr) string { return c08CanonIx(f, loops, x, depth+1) }
	switch x := ast.Unparen(e).(type) {
	case *ast.Ident:
		if l := c08LoopOfIndex(loops, info.Uses[x]); l != nil {
			return "$key(" + f.Canon(l.list) + ")"
		}
		if d := f.UniqueDef(x); d != nil {
			return rec(d)
		}
	case *ast.SelectorExpr:
		return rec(x.X) + "." + x.Sel.Name
	case *ast.IndexExpr:
		if id, ok := ast.Unparen(x.Index).(*ast.Ident); ok {
			if l := c08LoopOfIndex(loops, info.Uses[id]); l != nil && f.Canon(l.list) == f.Canon(x.X) {
				return "$elem(" + f.Canon(l.list) + ")"
			}
		}
	case *ast.UnaryExpr:
		return x.Op.String() + rec(x.X)
	case *ast.StarExpr:
		return "*" + rec(x.X)
	case *ast.TypeAssertExpr:
		return rec(x.X) + ".(" + types.ExprString(x.Type) + ")"
	case *ast.CallExpr:
		var args []string
		for _, a := range x.Args {
			args = append(args, rec(a))
		}
		fun := ""
		if tv, ok := info.Types[x.Fun]; ok && tv.IsType() {
			fun = f.Canon(x.Fun)
		} else if sel, ok := ast.Unparen(x.Fun).(*ast.SelectorExpr); ok && info.Selections[sel] != nil && an.Callee(info, x) != nil {
			fun = rec(sel.X) + "." + sel.Sel.Name
		} else {
			return f.Canon(e)
		}
		return fun + "(" + strings.Join(args, ", ") + ")"
	}
	return f.Canon(e)
}

// c08LoopHeader is enclosingLoopHeader with the index form of a loop over a
// list answered like its range form: the canonical form of the list.
func c08LoopHeader(f *an.Func, n ast.Node) string {
	root := f.Root()
	var best *c08IdxLoop
	var bestLen token.Pos = 1 << 30
	loops := c08IndexLoops(root)
	for i := range loops {
		l := loops[i].stmt
		if l.Body.Pos() <= n.Pos() && n.End() <= l.Body.End() && l.End()-l.Pos() < bestLen {
			bestLen = l.End() - l.Pos()
			best = &loops[i]
		}
	}
	if best != nil {
		// innermost loop of any kind must be this one
		inner := false
		ast.Inspect(best.stmt.Body, func(x ast.Node) bool {
			switch x.(type) {
			case *ast.ForStmt, *ast.RangeStmt:
				if x.Pos() <= n.Pos() && n.End() <= x.End() {
					inner = true
				}
			}
			return !inner
		})
		if !inner {
			return root.Canon(best.list)
		}
	}
	return enclosingLoopHeader(root, n)
}

// c08IndexLoopGuards: the source text of the continuation tests of the
// validated index loops of f.  Such a test is the head of the loop (what
// `range` does implicitly), not a restriction of a statement in its body.
func c08IndexLoopGuards(f *an.Func) []string {
	var out []string
	for _, l := range c08IndexLoops(f) {
		out = append(out, an.Text(l.stmt.Cond))
	}
	return out
}

// c08PassThroughAlias: id is defined (`p := &x`, `var p T = &x`) as a local
// whose every later use is the value of a keyed field of a composite literal:
// the address travels into the literal exactly as `Field: &x` would carry it,
// and p is neither written through, reassigned, dereferenced nor handed on.
func c08PassThroughAlias(root *an.Func, id *ast.Ident) bool {
	info := root.Info()
	obj := info.Defs[id]
	if obj == nil {
		return false
	}
	ok, uses := true, 0
	var stack []ast.Node
	ast.Inspect(root.Body, func(n ast.Node) bool {
		if n == nil {
			stack = stack[:len(stack)-1]
			return true
		}
		stack = append(stack, n)
		u, isID := n.(*ast.Ident)
		if !isID || info.Uses[u] != obj {
			return true
		}
		uses++
		if len(stack) < 3 {
			ok = false
			return true
		}
		kv, isKV := stack[len(stack)-2].(*ast.KeyValueExpr)
		_, inLit := stack[len(stack)-3].(*ast.CompositeLit)
		if !isKV || !inLit || kv.Value != ast.Expr(u) {
			ok = false
		}
		return true
	})
	return ok && uses > 0
}
