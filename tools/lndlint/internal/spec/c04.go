package spec

import (
	"go/ast"
	"regexp"
	"strings"

	"lndlint/internal/an"
)

func init() {
	register(&Spec{
		ID:          "C04",
		Loads:       []LoadSpec{{Patterns: []string{"./lnwallet", "./chanstate", "./channeldb", "./contractcourt"}}},
		Explanation: "Decides that every reconstruction of a remote commitment's scripts (output-index search at revocation time, breach retribution, unilateral close) passes the arguments of the construction site as seen from the remote owner (negated initiator flag, remote CSV delay, keys of the remote key ring, uniform lease-expiry selection); that the output indexes found before the state advance are persisted in (ours, theirs) order together with the outgoing remote commitment inside the revocation transaction; that the revocation-log TLV structs are well formed and carry every field the retribution reads; that only dust HTLCs are skipped; that the state is advanced only after the secret was accepted and matches the current commitment point; that the state-hint obfuscator is derived initiator-first everywhere; that amounts come from the breach transaction only below the index bound check; and that the breach arbitrator assigns a witness type in every case; that the retribution store and the arbitrator use a looked-up bucket or the first breached output only where it exists; that nothing in contractcourt writes into a breach retribution it hands on; that the HTLC entry list of a revocation log ends only at an entry boundary; and that every witness type given to the node's own CSV-encumbered output is in the table that yields the justice input's sequence.",
		NotDecided: []string{
			"script-interpreter validity of the justice transaction (needs the script engine)",
			"which witness-type constant is right for which channel type", "amount equality with the actual revoked transaction",
		},
		Assumptions: commonAssumptions,
		Engines:     "ROLE/MIRROR (canonical argument fingerprints), PATH, CODEC, GUARD, TABLE",
		TagMatrix:   [][]string{{"integration"}},
		Run:         runC04,
	})
}

func runC04(r *an.Run) {
	p := r.Prog
	pp := `\$p\d+`
	remoteRing := `DeriveCommitmentKeys\(.*lntypes\.Remote.*\)`
	localRing := `DeriveCommitmentKeys\(.*lntypes\.Local.*\)`

	r.Obl("remote-view-reconstruction", "ROLE",
		"every non-test call of CommitScriptToSelf, CommitScriptToRemote, SecondLevelHtlcScript and genHtlcScript in lnwallet/contractcourt is classified; remote-view sites pass !IsInitiator, RemoteChanCfg.CsvDelay and keys of DeriveCommitmentKeys(point, Remote, ...), local-view sites pass IsInitiator, LocalChanCfg.CsvDelay and the Local key ring; DeriveCommitmentKeys always receives (local cfg, remote cfg)",
		"the justice transaction spends outputs whose scripts are re-derived; one swapped argument yields a script that hashes to a different output and the revoked funds cannot be claimed", 30,
		func(o *an.Obl) {
			pk := []string{"lnwallet", "contractcourt"}
			roleSites(o, p, pk, lw+"CommitScriptToSelf", []role{
				{Fn: lw + "CreateCommitTx", Name: "construction", Args: map[int]string{1: `^` + pp + `$`, 2: `\.ToLocalKey$`, 3: `\.RevocationKey$`, 4: `^uint32\(` + pp + `\.CsvDelay\)$`}},
				{Fn: lw + "findOutputIndexesFromRemote", Name: "remote view/index search", Args: map[int]string{
					1: `^!` + pp + `\.IsInitiator$`, 2: remoteRing + `\.ToLocalKey$`, 3: remoteRing + `\.RevocationKey$`, 4: `^uint32\(` + pp + `\.RemoteChanCfg\.CsvDelay\)$`, 5: `ThawHeight$`}},
				{Fn: lw + "NewBreachRetribution", Name: "remote view/breach", Args: map[int]string{
					1: `^!` + pp + `\.IsInitiator$`, 2: remoteRing + `\.ToLocalKey$`, 3: remoteRing + `\.RevocationKey$`, 4: `^uint32\(` + pp + `\.RemoteChanCfg\.CsvDelay\)$`, 5: `ThawHeight$`}},
				{Fn: lw + "NewLocalForceCloseSummary", Name: "local view/force close", Args: map[int]string{
					1: `^` + pp + `\.IsInitiator$`, 2: localRing + `\.ToLocalKey$`, 3: localRing + `\.RevocationKey$`, 4: `LocalChanCfg\.CsvDelay\)$`}},
				{Fn: "contractcourt.chainWatcher.handleUnknownLocalState", Name: "local view/unknown local state", Args: map[int]string{
					1: `chanState\.IsInitiator$`, 2: localRing + `\.ToLocalKey$`, 3: localRing + `\.RevocationKey$`, 4: `LocalChanCfg\.CsvDelay\)$`}},
			}, nil)
			roleSites(o, p, pk, lw+"CommitScriptToRemote", []role{
				{Fn: lw + "CreateCommitTx", Name: "construction", Args: map[int]string{1: `^` + pp + `$`, 2: `\.ToRemoteKey$`}},
				{Fn: lw + "findOutputIndexesFromRemote", Name: "remote view/index search", Args: map[int]string{1: `^!` + pp + `\.IsInitiator$`, 2: remoteRing + `\.ToRemoteKey$`, 3: `ThawHeight$`}},
				{Fn: lw + "NewBreachRetribution", Name: "remote view/breach", Args: map[int]string{1: `^!` + pp + `\.IsInitiator$`, 2: remoteRing + `\.ToRemoteKey$`, 3: `ThawHeight$`}},
				{Fn: lw + "NewUnilateralCloseSummary", Name: "remote view/unilateral close (C05)", Args: map[int]string{1: `^!` + pp + `\.IsInitiator$`, 2: remoteRing + `\.ToRemoteKey$`, 3: `ThawHeight$`}},
				{Fn: "contractcourt.chainWatcher.handleUnknownLocalState", Name: "local view/unknown local state", Args: map[int]string{1: `chanState\.IsInitiator$`, 2: localRing + `\.ToRemoteKey$`}},
			}, nil)
			roleSites(o, p, pk, lw+"SecondLevelHtlcScript", []role{
				{Fn: lw + "CreateHtlcSuccessTx", Name: "construction/success", Args: map[int]string{1: `^\$p1$`, 2: `^\$p6$`, 3: `^\$p7$`, 4: `^\$p4$`, 5: `^\$p5$`}},
				{Fn: lw + "CreateHtlcTimeoutTx", Name: "construction/timeout", Args: map[int]string{1: `^\$p1$`, 2: `^\$p7$`, 3: `^\$p8$`, 4: `^\$p5$`, 5: `^\$p6$`}},
				{Fn: lw + "createHtlcRetribution", Name: "remote view/second-level breach", Args: map[int]string{
					1: `^!` + pp + `\.IsInitiator$`, 2: `\.RevocationKey$`, 3: `\.ToLocalKey$`, 4: `^uint32\(` + pp + `\.RemoteChanCfg\.CsvDelay\)$`}},
				{Fn: lw + "newIncomingHtlcResolution", Name: "resolution/incoming (C05)", Args: map[int]string{1: `^\$p10$`, 2: `\.RevocationKey$`, 3: `\.ToLocalKey$`, 4: `^\$p7$`, 5: `^\$p8$`}},
				{Fn: lw + "newOutgoingHtlcResolution", Name: "resolution/outgoing (C05)", Args: map[int]string{1: `^\$p10$`, 2: `\.RevocationKey$`, 3: `\.ToLocalKey$`, 4: `^\$p7$`, 5: `^\$p8$`}},
			}, nil)
			roleSites(o, p, pk, lw+"genHtlcScript", []role{
				{Fn: lw + "addHTLC", Name: "construction", Args: map[int]string{1: `^\$p2$`, 2: `^\$p1$`, 3: `^\$p3\.Timeout$`, 4: `^\$p3\.RHash$`, 5: `^\$p4$`}},
				{Fn: lw + "createHtlcRetribution", Name: "remote view/breach", Args: map[int]string{1: `\.Incoming\.Val$`, 2: `^lntypes\.Remote$`, 3: `\.RefundTimeout\.Val$`, 4: `\.RHash\.Val$`, 5: `^\$p1$`}},
				{Fn: lw + "LightningChannel.diskHtlcToPayDesc", Nth: 1, Name: "restore/local", Args: map[int]string{1: `\.Incoming$`, 2: `^lntypes\.Local$`, 3: `\.RefundTimeout$`, 4: `\.RHash$`, 5: `GetForParty\(lntypes\.Local\)$`}},
				{Fn: lw + "LightningChannel.diskHtlcToPayDesc", Nth: 2, Name: "restore/remote", Args: map[int]string{1: `\.Incoming$`, 2: `^lntypes\.Remote$`, 3: `\.RefundTimeout$`, 4: `\.RHash$`, 5: `GetForParty\(lntypes\.Remote\)$`}},
				{Fn: lw + "LightningChannel.logUpdateToPayDesc", Name: "restore/pending local add on remote commitment", Args: map[int]string{1: `^false$`, 2: `^lntypes\.Remote$`, 3: `\.Expiry$`, 4: `\.PaymentHash$`}},
				{Fn: lw + "newIncomingHtlcResolution", Name: "resolution/incoming (C05)", Args: map[int]string{1: `^true$`, 2: `^\$p9$`, 3: `\.RefundTimeout$`, 4: `\.RHash$`, 5: `^\$p5$`}},
				{Fn: lw + "newOutgoingHtlcResolution", Name: "resolution/outgoing (C05)", Args: map[int]string{1: `^false$`, 2: `^\$p9$`, 3: `\.RefundTimeout$`, 4: `\.RHash$`, 5: `^\$p5$`}},
			}, nil)
			// DeriveCommitmentKeys: config order is fixed
			for _, f := range p.Funcs(false, pk...) {
				for _, s := range f.Calls(an.CalleeIs(lw+"DeriveCommitmentKeys"), false) {
					a := f.ArgCanon(s)
					o.Site("DeriveCommitmentKeys(%s, %s, _, %s, %s) in %s", a[0], a[1], a[3], a[4], f.ID)
					low3, low4 := strings.ToLower(a[3]), strings.ToLower(a[4])
					if strings.Contains(low3, "remote") || strings.Contains(low3, "their") || strings.Contains(low4, "local") || strings.Contains(low4, "our") {
						o.FailAt(f.ID+"#DeriveCommitmentKeys-cfg-order", s.Where(), "DeriveCommitmentKeys must receive (local cfg, remote cfg); got (%s, %s)", a[3], a[4])
					}
				}
			}
			// the breach key ring comes from the stored secret of that state
			nb := p.Func(lw + "NewBreachRetribution")
			for _, s := range nb.Calls(an.CalleeIs(lw+"DeriveCommitmentKeys"), false) {
				a := nb.ArgCanon(s)
				if !strings.Contains(a[0], "RevocationStore.LookUp($p1)") {
					o.FailAt(nb.ID+"#breach-commit-point", s.Where(), "the breach key ring is derived from %s, expected the stored revocation secret of the broadcast state", a[0])
				}
			}
		})

	r.Obl("lease-expiry-selection-uniform", "MIRROR",
		"every site that sets a lease expiry from ThawHeight does so exactly under ChanType.HasLeaseExpiration() (no further condition), in construction and reconstruction alike",
		"a reconstruction site that applies the lease CLTV under a narrower condition than the constructor derives a different to_local / to_remote script for leased channels", 8,
		func(o *an.Obl) {
			n := 0
			for _, f := range p.Funcs(false, "lnwallet", "contractcourt") {
				if f.Lit != nil {
					continue
				}
				for _, v := range f.Graph().V {
					as, ok := v.Node.(*ast.AssignStmt)
					if !ok || len(as.Lhs) != 1 || len(as.Rhs) != 1 || as.Tok.String() != "=" {
						continue
					}
					if !strings.HasSuffix(f.Canon(as.Rhs[0]), ".ThawHeight") {
						continue
					}
					id, ok := as.Lhs[0].(*ast.Ident)
					if !ok {
						continue
					}
					n++
					site := an.Site{Fn: f, V: v, Node: as}
					// guards specific to the assignment: those that do not
					// already hold at the variable's declaration
					obj := f.Info().Uses[id]
					var declGuards map[string]bool
					for _, dv := range f.Graph().V {
						for _, how := range assignedTo(f, dv, obj) {
							if how == "decl" {
								declGuards = map[string]bool{}
								for _, g := range f.GuardsAt(an.Site{Fn: f, V: dv, Node: dv.Node}) {
									declGuards[g] = true
								}
							}
						}
					}
					var local []string
					for _, g := range f.GuardsAt(site) {
						if !declGuards[g] {
							local = append(local, g)
						}
					}
					o.Site("%s: lease expiry set under %v", site.String(), local)
					if declGuards == nil {
						o.FailAt(f.ID+"#lease-decl", site.Where(), "cannot find the declaration of %s", id.Name)
						continue
					}
					if len(local) != 1 || !strings.HasSuffix(local[0], ".HasLeaseExpiration()") {
						o.FailAt(f.ID+"#lease-guard", site.Where(), "the lease expiry is set under %v; every other site sets it exactly under ChanType.HasLeaseExpiration()", local)
					}
				}
			}
			if n == 0 {
				o.FailAt("lease#none", "", "no lease-expiry selection sites found")
			}
		})

	r.Obl("revocation-records-indexes-and-outgoing-commitment", "PATH",
		"ReceiveRevocation computes findOutputIndexesFromRemote before the state advance (OpenChannel.AdvanceCommitChainTailWithRevocation) and passes its two results in (ours, theirs) order, after the forwarding package and the pending local updates; that method hands the channel itself, the forwarding package, the updates and the two indexes unchanged and in this order to Db.AdvanceCommitChainTail; inside findOutputIndexesFromRemote the to_remote script match sets our index and the to_local match their index; the store passes the outgoing channel.RemoteCommitment and the indexes unchanged to putRevocationLog, which stores them as OurOutputIndex/TheirOutputIndex and the balances as Local->Our, Remote->Their",
		"indexes or balances recorded crosswise make the justice transaction sign for the wrong outputs", 12,
		func(o *an.Obl) {
			f := p.Func(lw + "LightningChannel.ReceiveRevocation")
			find := f.Calls(an.CalleeIs(lw+"findOutputIndexesFromRemote"), false)
			adv := f.Calls(an.CalleeIs("chanstate.OpenChannel.AdvanceCommitChainTailWithRevocation", "chanstate.OpenChannel.AdvanceCommitChainTail"), false)
			if need(o, f, "findOutputIndexesFromRemote", find, 1) && needExactly(o, f, "state advance (AdvanceCommitChainTailWithRevocation)", adv, 1) {
				mustPass(o, f, "findOutputIndexesFromRemote", find, an.OkErrNil, adv)
				a := f.ArgCanon(adv[0])
				// the two indexes are the last two arguments of either form
				k := len(a) - 2
				if k < 2 || !strings.HasPrefix(a[k], "lnwallet.findOutputIndexesFromRemote(") || strings.HasSuffix(a[k], "#1") || !strings.HasPrefix(a[k+1], "lnwallet.findOutputIndexesFromRemote(") || !strings.HasSuffix(a[k+1], "#1") {
					o.FailAt(f.ID+"#index-order", adv[0].Where(), "the state advance must receive (ourOutputIndex, theirOutputIndex) = results 0 and 1 of findOutputIndexesFromRemote as its last two arguments; got %v", a)
				}
				fa := f.ArgCanon(find[0])
				if !strings.Contains(fa[0], "Revocation[:]") || fa[1] != "$recv.channelState" {
					o.FailAt(f.ID+"#find-args", find[0].Where(), "findOutputIndexesFromRemote must be given the revealed secret and the channel state; got %v", fa[:2])
				}
			}
			// the chanstate method forwards what it was given
			m := p.Func("chanstate.OpenChannel.AdvanceCommitChainTailWithRevocation")
			mdb := m.Calls(an.CalleeNamed("AdvanceCommitChainTail"), true)
			if needExactly(o, m, "Db.AdvanceCommitChainTail call", mdb, 1) {
				a := m.ArgCanon(mdb[0])
				want := []string{"$recv", "$p2", "$p3", "$p4", "$p5"}
				if strings.Join(a, ", ") != strings.Join(want, ", ") {
					o.FailAt(m.ID+"#forwarded-args", mdb[0].Where(), "Db.AdvanceCommitChainTail receives (%s), expected the channel, the forwarding package, the updates and (ourOutputIndex, theirOutputIndex) unchanged: (%s)", strings.Join(a, ", "), strings.Join(want, ", "))
				}
				if c := m.Canon(mdb[0].Node.(*ast.CallExpr).Fun); c != "$recv.Db.AdvanceCommitChainTail" {
					o.FailAt(m.ID+"#forwarded-to", mdb[0].Where(), "the durable advance goes to %s, expected the channel's own store ($recv.Db)", c)
				}
				for _, arg := range mdb[0].Node.(*ast.CallExpr).Args {
					c04OperandsNotOverwritten(o, m, arg, "forwarded argument")
				}
				// and its caller's argument order matches the parameter roles
				if len(adv) == 1 && strings.HasSuffix(an.CalleeID(f.Info(), adv[0].Node.(*ast.CallExpr)), "WithRevocation") {
					ps := m.Params(false)
					if len(ps) != 6 || ps[4].Name() != "ourOutputIndex" || ps[5].Name() != "theirOutputIndex" {
						o.FailAt(m.ID+"#parameter-roles", m.Where(m.Body.Pos()), "the last two parameters of AdvanceCommitChainTailWithRevocation are no longer (ourOutputIndex, theirOutputIndex)")
					}
				}
			}
			g := p.Func(lw + "findOutputIndexesFromRemote")
			nIdx := 0
			defer func() {
				if nIdx != 2 {
					o.FailAt(g.ID+"#index-assignments", g.Where(g.Body.Pos()), "expected the two output index assignments (ours, theirs) in the search loop, found %d", nIdx)
				}
			}()
			// case bytes.Equal(txOut.PkScript, ourScript.PkScript()): ourIndex = ...
			for _, s := range g.Assigns(func(fn *an.Func, e ast.Expr) bool { _, ok := e.(*ast.Ident); return ok }, false) {
				// (an index loop adds `i++`, which is a write of an identifier
				// but not an assignment statement)
				as, isAssign := s.Node.(*ast.AssignStmt)
				if !isAssign || as.Tok.String() != "=" || len(as.Lhs) != 1 || len(as.Rhs) != 1 {
					continue
				}
				if c := g.Canon(as.Rhs[0]); !strings.HasPrefix(c, "uint32($v:int)") && !strings.HasPrefix(c, "uint32($key(") {
					continue
				}
				nIdx++
				guards := strings.Join(g.GuardsAt(s), " ; ")
				name := as.Lhs[0].(*ast.Ident).Name
				o.Site("%s under [%s]", s.String(), guards)
				// which script is compared is decided through the definition
				var cond string
				for _, v := range g.Graph().V {
					if v.Kind.String() == "cond" && strings.Contains(guards, an.Text(v.Node)) && strings.Contains(an.Text(v.Node), "bytes.Equal") {
						cond = g.Canon(v.Node.(ast.Expr))
					}
				}
				isToRemote := strings.Contains(cond, "lnwallet.CommitScriptToRemote(")
				isToLocal := strings.Contains(cond, "lnwallet.CommitScriptToSelf(")
				// the first result of the function is ours
				rets := g.StrictSuccessReturns()
				first := ""
				if len(rets) > 0 {
					if rs, ok := rets[len(rets)-1].Node.(*ast.ReturnStmt); ok {
						first = an.Text(rs.Results[0])
					}
				}
				ours := name == first
				if ours && !isToRemote || !ours && !isToLocal {
					o.FailAt(g.ID+"#index-assignment-"+name, s.Where(), "on a remote commitment our output is the to_remote one and theirs the to_local one; %s is set under %q", name, cond)
				}
			}
			h := p.Func("channeldb.ChannelStateDB.AdvanceCommitChainTail")
			cl := theLit(h, kvUpdate, "kvdb.Update")
			for _, s := range cl.Calls(an.CalleeIs("channeldb.putRevocationLog"), false) {
				a := cl.ArgCanon(s)
				o.Site("%s args=%v", s.String(), a[1:4])
				if a[1] != "&$p0.RemoteCommitment" || a[2] != "$p3" || a[3] != "$p4" {
					o.FailAt(h.ID+"#putRevocationLog-args", s.Where(), "putRevocationLog must receive the outgoing channel.RemoteCommitment and (ourOutputIndex, theirOutputIndex) unchanged; got %v", a[1:4])
				}
				// and it happens before the in-memory commitment is replaced
			}
			pr := p.Func("channeldb.putRevocationLog")
			want := map[string]string{
				"OurOutputIndex":   `\(uint16\(\$p2\)\)$`,
				"TheirOutputIndex": `\(uint16\(\$p3\)\)$`,
				"CommitTxHash":     `\$p1\.CommitTx\.TxHash\(\)\)$`,
			}
			for _, ref := range p.CompositeLitsOf(p.LookupType("chanstate", "RevocationLog")) {
				if ref.Fn == nil || ref.Fn.ID != pr.ID {
					continue
				}
				for _, el := range ref.Node.(*ast.CompositeLit).Elts {
					if kv, ok := el.(*ast.KeyValueExpr); ok {
						k := kv.Key.(*ast.Ident).Name
						if re, ok := want[k]; ok {
							c := pr.Canon(kv.Value)
							o.Site("RevocationLog.%s = %s", k, c)
							if !reMatch(re, c) {
								o.FailAt(pr.ID+"#field-"+k, pr.Where(kv.Pos()), "RevocationLog.%s is stored as %s, expected /%s/", k, c, re)
							}
							delete(want, k)
						}
					}
				}
			}
			for k := range want {
				o.FailAt(pr.ID+"#field-missing-"+k, pr.Where(pr.Body.Pos()), "putRevocationLog no longer sets RevocationLog.%s in its literal", k)
			}
			for fld, src := range map[string]string{"OurBalance": "LocalBalance", "TheirBalance": "RemoteBalance"} {
				sites := pr.Assigns(an.Field("chanstate.RevocationLog", fld, nil), false)
				if len(sites) != 1 {
					o.FailAt(pr.ID+"#"+fld, pr.Where(pr.Body.Pos()), "expected one assignment of RevocationLog.%s, found %d", fld, len(sites))
					continue
				}
				c := pr.Canon(sites[0].Node.(*ast.AssignStmt).Rhs[0])
				o.Site("RevocationLog.%s = %s", fld, c)
				if !strings.Contains(c, "$p1."+src+")") {
					o.FailAt(pr.ID+"#"+fld+"-source", sites[0].Where(), "RevocationLog.%s is stored from %s, expected commit.%s", fld, c, src)
				}
			}
		})

	r.Obl("revocation-log-codec", "CODEC",
		"RevocationLog and HTLCEntry: distinct TLV types; serializer and deserializer hand exactly the declared records to the stream and re-attach optional ones under their own key; NewHTLCEntryFromHTLC fills every HTLCEntry field; the retribution reads only fields that are stored; only HTLCs with a negative (dust) output index are skipped when the log is written",
		"a field missing from the log is a revoked HTLC output that cannot be punished after the in-memory state is gone", 25,
		func(o *an.Obl) {
			p.CheckTlvStruct(o, "chanstate", "RevocationLog", "chanstate.SerializeRevocationLog", "chanstate.DeserializeRevocationLog")
			p.CheckTlvStruct(o, "chanstate", "HTLCEntry", "chanstate.htlcEntryToTlvStream", "chanstate.DeserializeHTLCEntries")
			p.CheckPair(o, an.CodecPair{Name: "HTLCEntry/constructor-vs-reader", TypePkg: "chanstate", TypeName: "HTLCEntry",
				Enc: []string{"chanstate.NewHTLCEntryFromHTLC"}, Dec: []string{lw + "createHtlcRetribution"}, MentionsOnly: true,
				EncOnly: map[string]string{"HtlcIndex": "read by the aux-leaf lookup through a helper", "CustomBlob": "read by the aux resolver path"}})
			p.CheckPair(o, an.CodecPair{Name: "HTLCEntry/all-fields-set", TypePkg: "chanstate", TypeName: "HTLCEntry",
				Enc: []string{"chanstate.NewHTLCEntryFromHTLC"}, Dec: []string{"chanstate.NewHTLCEntryFromHTLC"}, MentionsOnly: true, AllFields: true})
			p.CheckPair(o, an.CodecPair{Name: "RevocationLog/writer-vs-reader", TypePkg: "chanstate", TypeName: "RevocationLog",
				Enc: []string{"channeldb.putRevocationLog"}, Dec: []string{lw + "createBreachRetribution", lw + "NewBreachRetribution"}, MentionsOnly: true,
				EncOnly: map[string]string{"CustomBlob": "consumed by the aux leaf store"}})
			pr := p.Func("channeldb.putRevocationLog")
			app := pr.Assigns(an.Field("chanstate.RevocationLog", "HTLCEntries", nil), false)
			if len(app) != 1 {
				o.FailAt(pr.ID+"#HTLCEntries-append", pr.Where(pr.Body.Pos()), "expected one append to RevocationLog.HTLCEntries, found %d", len(app))
			} else {
				onlyGuards(o, pr, app[0], []string{
					`^!\(ourOutputIndex > math\.MaxUint16\)$`, `^!\(theirOutputIndex > math\.MaxUint16\)$`,
					`^!\(htlc\.OutputIndex < 0\)$`, `^!\(htlc\.OutputIndex > math\.MaxUint16\)$`, `^!\(err != nil\)$`,
				}, "entries skipped")
				guarded(o, pr, app[0], an.Cmp(an.FieldPath(nil, "OutputIndex"), an.GE, an.IntConst(0), "htlc.OutputIndex >= 0"))
			}
		})

	revocationAcceptance(r)

	r.Obl("state-hint-obfuscator-order", "MIRROR",
		"every DeriveStateHintObfuscator call passes the two PaymentBasePoint.PubKey of one channel, the initiator's first: (Local, Remote) only below that channel's IsInitiator, (Remote, Local) only below !IsInitiator; at funding time the funder passes (ours, theirs), the fundee (theirs, ours) and a dual-funded channel puts the key first whose serialisation compares lower (bytes.Compare(ours, theirs) == -1 -> ours first); DeriveStateHintObfuscator hashes its first parameter before its second",
		"the breach is recognised by de-obfuscating the state number; a swapped order or another key pair hides every revoked state", 4,
		func(o *an.Obl) {
			n, nFund := 0, 0
			defer func() {
				if nFund != 4 {
					o.FailAt("obfuscator#funding-sites", "", "expected the 4 funding-time construction sites in lnwallet/wallet.go, found %d", nFund)
				}
			}()
			// an argument is the payment base point of one side of one channel
			localRe := regexp.MustCompile(`^(.*)\.(?:LocalChanCfg|ourContribution)\.PaymentBasePoint\.PubKey$`)
			remoteRe := regexp.MustCompile(`^(.*)\.(?:RemoteChanCfg|theirContribution)\.PaymentBasePoint\.PubKey$`)
			// classify returns "local"/"remote" for the first argument when the
			// two arguments are the two base points of the same channel
			classify := func(a []string) (first, base string) {
				if l, r := localRe.FindStringSubmatch(a[0]), remoteRe.FindStringSubmatch(a[1]); l != nil && r != nil && l[1] == r[1] {
					return "local", l[1]
				}
				if r, l := remoteRe.FindStringSubmatch(a[0]), localRe.FindStringSubmatch(a[1]); l != nil && r != nil && l[1] == r[1] {
					return "remote", l[1]
				}
				return "", ""
			}
			for _, f := range r.Wide().Funcs(false) {
				for _, s := range f.Calls(an.CalleeIs(lw+"DeriveStateHintObfuscator"), false) {
					a := f.ArgCanon(s)
					first, base := classify(a)
					if strings.HasSuffix(f.Filename(), "lnwallet/wallet.go") {
						// funding flow: the role is fixed by the code path: the
						// funder continues in handleChanPointReady, the fundee
						// signs in handleSingleFunderSigs; a dual-funded channel
						// orders the two keys by their serialisation
						ours, theirs := first == "local", first == "remote"
						o.Site("funding-time site %s: (%s, %s)", f.Root().ID, a[0], a[1])
						nFund++
						switch f.Root().ID {
						case lw + "LightningWallet.handleChanPointReady":
							ser := func(side string) an.Term {
								return canonTerm(`^` + regexp.QuoteMeta(base) + `\.` + side + `\.PaymentBasePoint\.PubKey\.SerializeCompressed\(\)$`)
							}
							cmp := an.CallTo("bytes.Compare", nil, ser("ourContribution"), ser("theirContribution"))
							single, _ := f.Guarded(s, an.Truth(an.CallNamed("IsSingleFunder", nil), true, ""))
							lower, _ := f.Guarded(s, an.Cmp(cmp, an.EQ, canonTerm(`^-1$`), ""))
							switch {
							case ours && (single || lower):
							case theirs && !single && !lower:
								guarded(o, f, s, an.Truth(an.CallNamed("IsSingleFunder", nil), false, "dual funder"))
								guarded(o, f, s, an.Cmp(cmp, an.NE, canonTerm(`^-1$`), "bytes.Compare(our serialised base point, their serialised base point) != -1"))
							default:
								o.FailAt(f.Root().ID+"#obfuscator-order", s.Where(), "the funder derives the obfuscator from (%s, %s) here; expected its own payment base point first (single funder, or the lower key of a dual-funded channel: bytes.Compare(ours, theirs) == -1)", a[0], a[1])
							}
						case lw + "LightningWallet.handleSingleFunderSigs":
							if !theirs {
								o.FailAt(f.Root().ID+"#obfuscator-order", s.Where(), "the fundee derives the obfuscator from (%s, %s); expected the funder's (their) payment base point first, then ours", a[0], a[1])
							}
						default:
							o.FailAt(f.Root().ID+"#obfuscator-site", s.Where(), "%s derives a state hint obfuscator; the funding-time sites are tabled", f.Root().ID)
						}
						continue
					}
					n++
					o.Site("%s (%s, %s)", s.String(), a[0], a[1])
					// the role flag of the very channel whose keys are passed; the
					// condition itself must be that field (a local is followed to
					// its single definition by the canonical form)
					flag := canonTerm(`^` + regexp.QuoteMeta(base) + `\.IsInitiator$`)
					switch first {
					case "local":
						guarded(o, f, s, an.Truth(flag, true, "IsInitiator"))
					case "remote":
						guarded(o, f, s, an.Truth(flag, false, "!IsInitiator"))
					default:
						o.FailAt(f.ID+"#obfuscator-args", s.Where(), "cannot classify the arguments (%s, %s) as the local and remote PaymentBasePoint.PubKey of one channel", a[0], a[1])
					}
					for _, arg := range s.Node.(*ast.CallExpr).Args {
						c04OperandsNotOverwritten(o, f, arg, "obfuscator key")
					}
				}
			}
			if n < 2 {
				o.FailAt("obfuscator#sites", "", "expected at least the two construction sites of the obfuscator, found %d", n)
			}
			// the helper itself: sha256(first || second)
			d := p.Func(lw + "DeriveStateHintObfuscator")
			wr := d.Calls(an.CalleeNamed("Write"), true)
			if needExactly(o, d, "hash writes", wr, 2) {
				for i, s := range wr {
					want := "$p" + itoa(i) + ".SerializeCompressed()"
					if a := d.ArgCanon(s); len(a) != 1 || a[0] != want {
						o.FailAt(d.ID+"#hash-order", s.Where(), "hash write %d of DeriveStateHintObfuscator feeds %v, expected %s (initiator key first)", i+1, a, want)
					}
					c04OperandsNotOverwritten(o, d, s.Node.(*ast.CallExpr).Args[0], "hashed key")
				}
				if d.Canon(wr[0].Node.(*ast.CallExpr).Fun) != d.Canon(wr[1].Node.(*ast.CallExpr).Fun) {
					o.FailAt(d.ID+"#hash-receiver", wr[1].Where(), "the two keys are written to different hashers")
				}
				before(o, d, "write of the first key", wr[:1], "write of the second key", wr[1:])
			}
		})

	r.Obl("breach-amount-sources", "GUARD",
		"createBreachRetribution reads an amount from spendTx.TxOut[i] only below `i < len(spendTx.TxOut)` and spendTx != nil, and otherwise from the revocation log with ErrRevLogDataMissing on absence; our amount uses OurOutputIndex/OurBalance, theirs TheirOutputIndex/TheirBalance",
		"an out-of-range index from persisted data must not panic the breach handler, and amounts must belong to the right party", 4,
		func(o *an.Obl) {
			f := p.Func(lw + "createBreachRetribution")
			spend := an.Param(1)
			n := 0
			for _, v := range f.Graph().V {
				as, ok := v.Node.(*ast.AssignStmt)
				if !ok || len(as.Rhs) != 1 {
					continue
				}
				c := f.Canon(as.Rhs[0])
				if !strings.HasPrefix(c, "$p1.TxOut[") {
					continue
				}
				n++
				s := an.Site{Fn: f, V: v, Node: as}
				guarded(o, f, s, an.IsNil(spend, false, "spendTx != nil"))
				guarded(o, f, s, an.Cmp(an.Any(), an.LT, an.Len(an.FieldPath(spend, "TxOut")), "index < len(spendTx.TxOut)"))
				lhs := an.Text(as.Lhs[0])
				wantIdx := "OurOutputIndex"
				if strings.Contains(strings.ToLower(lhs), "their") {
					wantIdx = "TheirOutputIndex"
				}
				// spendTx.TxOut[V.Index]: V.Index must have been set from the
				// stored index of the same party
				var holder *ast.Ident
				ast.Inspect(as.Rhs[0], func(n ast.Node) bool {
					if ix, ok := n.(*ast.IndexExpr); ok {
						if sel, ok := ix.Index.(*ast.SelectorExpr); ok && sel.Sel.Name == "Index" {
							holder, _ = sel.X.(*ast.Ident)
						}
					}
					return true
				})
				okSrc := false
				if holder != nil {
					hobj := f.Info().Uses[holder]
					for _, w := range f.Graph().V {
						was, ok := w.Node.(*ast.AssignStmt)
						if !ok || len(was.Lhs) != 1 {
							continue
						}
						sel, ok := was.Lhs[0].(*ast.SelectorExpr)
						if !ok || sel.Sel.Name != "Index" {
							continue
						}
						if id, ok := sel.X.(*ast.Ident); ok && f.Info().Uses[id] == hobj {
							src := f.Canon(was.Rhs[0])
							o.Site("%s.Index = %s", holder.Name, src)
							okSrc = strings.Contains(src, wantIdx+".Val")
						}
					}
				}
				if !okSrc {
					o.FailAt(f.ID+"#amount-index-"+lhs, s.Where(), "%s is read at %s, whose index was not set from the stored %s", lhs, c, wantIdx)
				}
			}
			if n != 2 {
				o.FailAt(f.ID+"#spendTx-reads", f.Where(f.Body.Pos()), "expected two reads of spendTx.TxOut, found %d", n)
			}
			for _, s := range f.Calls(an.CalleeNamed("UnwrapOrErr"), false) {
				a := f.ArgCanon(s)
				o.Site("%s", s.String())
				if !strings.HasSuffix(a[0], "ErrRevLogDataMissing") {
					o.FailAt(f.ID+"#missing-data-error", s.Where(), "absent balance data must yield ErrRevLogDataMissing, got %s", a[0])
				}
			}
		})

	r.Obl("witness-type-total", "TABLE",
		"in the breach arbitrator every makeBreachedOutput call receives a witness type variable that is assigned in every combination of (taproot final, taproot, tweakless, confirmed to_remote, incoming)",
		"an output left with the zero witness type gets no witness and the whole justice transaction is invalid", 3,
		func(o *an.Obl) {
			n := 0
			for _, f := range p.Funcs(false, "contractcourt") {
				if !strings.HasSuffix(f.Filename(), "breach_arbitrator.go") {
					continue
				}
				for _, s := range f.Calls(an.CalleeIs("contractcourt.makeBreachedOutput"), false) {
					c := s.Node.(*ast.CallExpr)
					if _, ok := an.Strip(f.Info(), c.Args[1]).(*ast.Ident); !ok {
						continue
					}
					if f.UniqueDef(an.Strip(f.Info(), c.Args[1]).(*ast.Ident)) != nil {
						continue
					}
					n++
					definitelyAssigned(o, f, s, 1, "witness type")
				}
			}
			if n < 3 {
				o.FailAt("makeBreachedOutput#sites", "", "expected three witness-type selections (our output, their output, HTLCs), found %d", n)
			}
		})

	c04BreachLookup(r)

	r.Obl("taproot-retribution-fields-mirror", "MIRROR",
		"taprootBriefcaseFromRetInfo (store) and applyTaprootRetInfo (reload) move, per witness-type case, the same pairs (breached output field <-> briefcase field): commit/revoke control blocks, the two resolution blobs, the first-level tap tweak and the second-level tap tweak each to and from its own briefcase field",
		"after a restart the justice transaction is rebuilt from the briefcase; a field reloaded from its sibling signs for the wrong output key and that input of the justice transaction is invalid", 3,
		func(o *an.Obl) {
			st := transferPairs(p.Func("contractcourt.taprootBriefcaseFromRetInfo"), "bo", "tapCase")
			ld := transferPairs(p.Func("contractcourt.applyTaprootRetInfo"), "bo", "tapCase")
			keys := map[string]bool{}
			for k := range st {
				keys[k] = true
			}
			for k := range ld {
				keys[k] = true
			}
			n := 0
			for k := range keys {
				a, b := strings.Join(st[k], " ; "), strings.Join(ld[k], " ; ")
				o.Site("case %s: stored {%s} reloaded {%s}", k, a, b)
				n += len(st[k])
				if a != b {
					o.FailAt("contractcourt.applyTaprootRetInfo#case-"+k, "", "for witness types %s the briefcase stores {%s} but the reload applies {%s}", k, a, b)
				}
			}
			if n < 6 {
				o.FailAt("contractcourt.taprootBriefcaseFromRetInfo#pairs", "", "expected at least 6 stored field pairs, found %d", n)
			}
		})

	justiceLockTime(r)

	scriptPathPairs(r, "C04", 4)
	secondLevelConversion(r)
}

// transferPairs extracts, per case clause of the first tag switch of f, the
// pairs "itemField<->caseField" of values moved between the variable named
// item and the variable named box (in either direction), following locals,
// copy() and WhenSome closures.
func transferPairs(f *an.Func, item, box string) map[string][]string {
	out := map[string][]string{}
	var sw *ast.SwitchStmt
	ast.Inspect(f.Body, func(n ast.Node) bool {
		if s, ok := n.(*ast.SwitchStmt); ok && sw == nil && s.Tag != nil {
			sw = s
		}
		return sw == nil
	})
	if sw == nil {
		return out
	}
	pathOf := func(e ast.Expr) (root, path string) {
		e = ast.Unparen(e)
		var parts []string
		for {
			switch x := e.(type) {
			case *ast.SelectorExpr:
				if x.Sel.Name != "Val" {
					parts = append([]string{x.Sel.Name}, parts...)
				}
				e = x.X
				continue
			case *ast.IndexExpr:
				e = x.X
				continue
			case *ast.SliceExpr:
				e = x.X
				continue
			case *ast.StarExpr:
				e = x.X
				continue
			case *ast.UnaryExpr:
				e = x.X
				continue
			case *ast.ParenExpr:
				e = x.X
				continue
			case *ast.Ident:
				return x.Name, strings.Join(parts, ".")
			}
			return "", ""
		}
	}
	// fallthrough groups: a clause whose body is only `fallthrough` shares the next clause's body
	clauses := sw.Body.List
	for i := 0; i < len(clauses); i++ {
		cl := clauses[i].(*ast.CaseClause)
		var labels []string
		for _, e := range cl.List {
			labels = append(labels, an.Text(e))
		}
		for len(cl.Body) == 1 && i+1 < len(clauses) {
			if b, ok := cl.Body[0].(*ast.BranchStmt); !ok || b.Tok.String() != "fallthrough" {
				break
			}
			i++
			cl = clauses[i].(*ast.CaseClause)
			for _, e := range cl.List {
				labels = append(labels, an.Text(e))
			}
		}
		sortStrings(labels)
		key := strings.Join(labels, ",")
		env := map[string]map[string]bool{} // local -> "root:path"
		srcs := func(e ast.Expr) map[string]bool {
			res := map[string]bool{}
			ast.Inspect(e, func(n ast.Node) bool {
				switch x := n.(type) {
				case *ast.SelectorExpr, *ast.IndexExpr:
					root, path := pathOf(x.(ast.Expr))
					if (root == item || root == box) && path != "" {
						res[root+":"+path] = true
						return false
					}
				case *ast.Ident:
					for k := range env[x.Name] {
						res[k] = true
					}
				case *ast.FuncLit:
					return false
				}
				return true
			})
			return res
		}
		pairs := map[string]bool{}
		record := func(dst ast.Expr, from map[string]bool) {
			root, path := pathOf(dst)
			if id, ok := ast.Unparen(dst).(*ast.Ident); ok {
				if env[id.Name] == nil {
					env[id.Name] = map[string]bool{}
				}
				for k := range from {
					env[id.Name][k] = true
				}
				return
			}
			if (root != item && root != box) || path == "" {
				// a local selected/sliced: treat as the local
				if root != "" && root != item && root != box {
					if env[root] == nil {
						env[root] = map[string]bool{}
					}
					for k := range from {
						env[root][k] = true
					}
				}
				return
			}
			for k := range from {
				kr := k[:strings.Index(k, ":")]
				if kr == root {
					continue
				}
				ip, bp := path, k[strings.Index(k, ":")+1:]
				if root == box {
					ip, bp = bp, path
				}
				pairs[ip+"<->"+bp] = true
			}
		}
		var walk func(n ast.Node)
		walk = func(n ast.Node) {
			ast.Inspect(n, func(m ast.Node) bool {
				switch x := m.(type) {
				case *ast.AssignStmt:
					if len(x.Rhs) == 1 {
						from := srcs(x.Rhs[0])
						record(x.Lhs[0], from)
					} else {
						for j := range x.Lhs {
							if j < len(x.Rhs) {
								record(x.Lhs[j], srcs(x.Rhs[j]))
							}
						}
					}
				case *ast.ValueSpec:
					for j, nm := range x.Names {
						if j < len(x.Values) {
							record(nm, srcs(x.Values[j]))
						}
					}
				case *ast.CallExpr:
					if id, ok := x.Fun.(*ast.Ident); ok && id.Name == "copy" && len(x.Args) == 2 {
						record(x.Args[0], srcs(x.Args[1]))
					}
					if sel, ok := x.Fun.(*ast.SelectorExpr); ok && strings.HasPrefix(sel.Sel.Name, "WhenSome") && len(x.Args) == 1 {
						if fl, ok := x.Args[0].(*ast.FuncLit); ok && len(fl.Type.Params.List) == 1 && len(fl.Type.Params.List[0].Names) == 1 {
							pn := fl.Type.Params.List[0].Names[0].Name
							env[pn] = srcs(sel.X)
							walk(fl.Body)
							return false
						}
					}
				}
				return true
			})
		}
		for _, st := range cl.Body {
			walk(st)
		}
		var list []string
		for k := range pairs {
			list = append(list, k)
		}
		sortStrings(list)
		out[key] = list
	}
	return out
}

// revocationAcceptance: a counterparty secret advances the remote chain only
// when it opens the current revocation point and the store accepted it.
// Shared by C04 (the state must be punishable) and C06 (inconsistent secrets
// are rejected).  Since repair 3b9a88f the rule spans two functions: the point
// comparison lives in LightningChannel.ReceiveRevocation, the store insertion,
// the rotation of the two remote points and the durable advance in
// OpenChannel.AdvanceCommitChainTailWithRevocation.
func revocationAcceptance(r *an.Run) {
	p := r.Prog
	r.Obl("state-advance-needs-valid-secret", "GUARD",
		"ReceiveRevocation reaches the state advance (OpenChannel.AdvanceCommitChainTailWithRevocation; also any plain AdvanceCommitChainTail or write of RemoteCurrentRevocation/RemoteNextRevocation of its own) only where the commitment point derived from the revealed secret was compared equal to the current remote revocation point, and hands it the hash of that very secret and the message's NextRevocationKey; a plain advance or a rotation inside ReceiveRevocation additionally needs an accepted AddNextEntry there; inside AdvanceCommitChainTailWithRevocation the store's AddNextEntry receives the secret parameter and its success dominates the two revocation-point rotations and the Db.AdvanceCommitChainTail call (a store error leaves before anything is rotated or persisted); the rotation first assigns RemoteCurrentRevocation the previous RemoteNextRevocation, then RemoteNextRevocation the key parameter; nothing but ReceiveRevocation calls the method",
		"a state recorded as revoked without a valid secret cannot be punished", 15,
		func(o *an.Obl) {
			f := p.Func(lw + "LightningChannel.ReceiveRevocation")
			advR := f.Calls(an.CalleeIs("chanstate.OpenChannel.AdvanceCommitChainTailWithRevocation"), true)
			adv := f.Calls(an.CalleeIs("chanstate.OpenChannel.AdvanceCommitChainTail"), true)
			writes := append(f.Assigns(an.Field("chanstate.OpenChannel", "RemoteCurrentRevocation", nil), true),
				f.Assigns(an.Field("chanstate.OpenChannel", "RemoteNextRevocation", nil), true)...)
			eq := an.Truth(an.CallNamed("IsEqual", an.CallTo("input.ComputeCommitmentPoint", nil), an.FieldPath(nil, "RemoteCurrentRevocation")), true, "ComputeCommitmentPoint(secret).IsEqual(RemoteCurrentRevocation)")
			if len(advR)+len(adv) == 0 {
				o.FailAt(f.ID+"#no-state-advance", f.Where(f.Body.Pos()), "ReceiveRevocation no longer advances the remote commitment chain (neither AdvanceCommitChainTailWithRevocation nor AdvanceCommitChainTail is called)")
			}
			targets := append(append(append([]an.Site{}, advR...), adv...), writes...)
			guardedAll(o, f, targets, eq)
			// the old shape: store, rotation and advance in ReceiveRevocation
			// itself; then the store's verdict must dominate them here
			if own := append(append([]an.Site{}, adv...), writes...); len(own) > 0 {
				mustPass(o, f, "RevocationStore.AddNextEntry", f.Calls(an.CalleeNamed("AddNextEntry"), false), an.OkErrNil, own)
			}
			for _, s := range advR {
				a := f.ArgCanon(s)
				o.Site("%s(secret=%s, next=%s)", "AdvanceCommitChainTailWithRevocation", a[0], a[1])
				if !reMatch(`(^|/)chainhash(/v2)?\.NewHash\(\$p0\.Revocation(\[:\])?\)(#0)?$`, a[0]) {
					o.FailAt(f.ID+"#stored-secret", s.Where(), "the secret handed to the store is %s, expected the hash of the message's Revocation field (the one the commitment point was computed from)", a[0])
				}
				if a[1] != "$p0.NextRevocationKey" {
					o.FailAt(f.ID+"#next-point", s.Where(), "the next revocation point handed on is %s, expected the message's NextRevocationKey", a[1])
				}
				for _, arg := range s.Node.(*ast.CallExpr).Args[:2] {
					c04OperandsNotOverwritten(o, f, arg, "revocation message")
				}
				if c := f.Canon(s.Node.(*ast.CallExpr).Fun); c != "$recv.channelState.AdvanceCommitChainTailWithRevocation" {
					o.FailAt(f.ID+"#advanced-channel", s.Where(), "the state advance goes to %s, expected the channel's own state", c)
				}
			}

			// the chanstate half
			m := p.Func("chanstate.OpenChannel.AdvanceCommitChainTailWithRevocation")
			add := m.Calls(an.CalleeNamed("AddNextEntry"), true)
			db := m.Calls(an.CalleeNamed("AdvanceCommitChainTail"), true)
			cur := m.Assigns(an.Field("chanstate.OpenChannel", "RemoteCurrentRevocation", nil), true)
			next := m.Assigns(an.Field("chanstate.OpenChannel", "RemoteNextRevocation", nil), true)
			if !needExactly(o, m, "AddNextEntry call", add, 1) || !needExactly(o, m, "Db.AdvanceCommitChainTail call", db, 1) {
				return
			}
			if len(cur) != 1 || len(next) != 1 {
				o.FailAt(m.ID+"#revocation-point-writes", m.Where(m.Body.Pos()), "expected the two revocation-point rotations (one write of RemoteCurrentRevocation, one of RemoteNextRevocation), found %d and %d", len(cur), len(next))
				return
			}
			if c, a := m.Canon(add[0].Node.(*ast.CallExpr).Fun), m.ArgCanon(add[0]); c != "$recv.RevocationStore.AddNextEntry" || len(a) != 1 || a[0] != "$p0" {
				o.FailAt(m.ID+"#stored-secret", add[0].Where(), "the store insertion is %s(%v), expected $recv.RevocationStore.AddNextEntry($p0): the channel's own store receives the secret parameter", c, a)
			}
			mTargets := append(append(append([]an.Site{}, cur...), next...), db...)
			mustPass(o, m, "RevocationStore.AddNextEntry", add, an.OkErrNil, mTargets)
			failureStops(o, m, "RevocationStore.AddNextEntry", add, an.OkErrNil, mTargets, "the rotation / the durable advance")
			rot := func(s an.Site, lhs, want, what string) {
				as, ok := s.Node.(*ast.AssignStmt)
				if !ok || len(as.Lhs) != 1 || len(as.Rhs) != 1 || as.Tok.String() != "=" {
					o.FailAt(m.ID+"#rotation-shape-"+what, s.Where(), "unexpected form of the rotation: %s", an.Text(s.Node))
					return
				}
				l, c := m.Canon(as.Lhs[0]), m.Canon(as.Rhs[0])
				o.Site("%s: %s = %s", m.ID, l, c)
				if l != lhs || c != want {
					o.FailAt(m.ID+"#rotation-"+what, s.Where(), "the rotation assigns %s = %s, expected %s = %s", l, c, lhs, want)
				}
			}
			rot(cur[0], "$recv.RemoteCurrentRevocation", "$recv.RemoteNextRevocation", "current")
			rot(next[0], "$recv.RemoteNextRevocation", "$p1", "next")
			// `$recv.RemoteNextRevocation` names the field: it is the previous
			// next point only while the second rotation has not happened
			before(o, m, "the rotation of RemoteCurrentRevocation", cur, "the rotation of RemoteNextRevocation", next)
			if m.Graph().Reach(next[0].V, nil, nil)[cur[0].V] {
				o.FailAt(m.ID+"#rotation-order", cur[0].Where(), "RemoteCurrentRevocation is assigned after RemoteNextRevocation was overwritten: it receives the new key, not the previous next point")
			}
			before(o, m, "the rotation", next, "the durable advance", db)
			notReassigned(o, m, "revocation", "nextRevocation")
			for _, prm := range m.Params(true) {
				if prm != nil && (prm == m.Recv() || prm.Name() == "revocation" || prm.Name() == "nextRevocation") {
					for _, st := range c04Overwrites(m, prm) {
						o.FailAt(m.ID+"#overwrites-"+prm.Name(), m.Where(st.Pos()), "%s overwrites %s (%s); the rule identifies it by its binding", m.ID, prm.Name(), an.Text(st))
					}
				}
			}
			// who may call it: the method stores whatever it is given
			w := r.Wide()
			w.WhoMay(o, "chanstate.OpenChannel.AdvanceCommitChainTailWithRevocation",
				w.RefsTo(w.Method("chanstate", "OpenChannel", "AdvanceCommitChainTailWithRevocation"), true),
				map[string]string{lw + "LightningChannel.ReceiveRevocation": "compares the commitment point first"},
				[]string{lw + "LightningChannel.ReceiveRevocation"})
		})

}

// c04BreachLookup: the chain watcher classifies a spend with the revocation
// store as it is on disk, not as it was when the watcher started.  Shared by
// C04 (the breach is recognised) and C06 (the received secrets are reproduced
// where they are needed; seeded change C06/h).
func c04BreachLookup(r *an.Run) {
	p := r.Prog
	r.Obl("breach-lookup-sees-persisted-secrets", "ROLE",
		"the chain watcher refreshes the revocation store of its channel snapshot from disk before it classifies a spend: newChainSet calls RemoteRevocationStore successfully; since it discards the result, ChannelStateDB.RemoteRevocationStore must decode the stored revocation state into the channel it was given and return that channel's store; NewBreachRetribution looks the secret up in chanState.RevocationStore",
		"the watcher holds a snapshot taken at start-up: without the refresh every state revoked since then is not recognised as a breach although its secret is on disk", 4,
		func(o *an.Obl) {
			f := p.Func("contractcourt.newChainSet")
			calls := f.Calls(an.CalleeIs("chanstate.OpenChannel.RemoteRevocationStore"), false)
			if need(o, f, "RemoteRevocationStore", calls, 1) {
				mustPass(o, f, "RemoteRevocationStore", calls, an.OkErrNil, f.StrictSuccessReturnsOrNilPtr())
				discarded := false
				ast.Inspect(f.Body, func(n ast.Node) bool {
					if as, ok := n.(*ast.AssignStmt); ok && len(as.Rhs) == 1 && as.Rhs[0] == calls[0].Node.(ast.Expr) {
						if id, ok := as.Lhs[0].(*ast.Ident); ok && id.Name == "_" {
							discarded = true
						}
					}
					return true
				})
				o.Site("newChainSet discards the returned store: %v", discarded)
				if discarded {
					g := p.Func("channeldb.ChannelStateDB.RemoteRevocationStore")
					ok := false
					for _, lf := range append([]*an.Func{g}, g.Lits...) {
						for _, s := range lf.Calls(an.CalleeIs("channeldb.fetchChanRevocationState"), false) {
							a := lf.ArgCanon(s)
							o.Site("%s decodes into %s", s.String(), a[1])
							if a[1] == "$p0" {
								ok = true
							}
						}
					}
					if !ok {
						o.FailAt(g.ID+"#refreshes-caller", g.Where(g.Body.Pos()), "RemoteRevocationStore no longer decodes the stored revocation state into the channel it was given, but newChainSet relies on exactly that side effect")
					}
					for _, s := range g.StrictSuccessReturnsOrNilPtr() {
						if c := g.Canon(s.Node.(*ast.ReturnStmt).Results[0]); c != "$p0.RevocationStore" {
							o.FailAt(g.ID+"#returned-store", s.Where(), "RemoteRevocationStore returns %s", c)
						}
					}
				}
			}
			nb := p.Func(lw + "NewBreachRetribution")
			n := 0
			for _, s := range nb.Calls(an.CalleeNamed("LookUp"), false) {
				n++
				if c := nb.Canon(s.Node.(*ast.CallExpr).Fun); c != "$p0.RevocationStore.LookUp" {
					o.FailAt(nb.ID+"#lookup-store", s.Where(), "the revoked secret is looked up through %s", c)
				}
				if a := nb.ArgCanon(s); a[0] != "$p1" {
					o.FailAt(nb.ID+"#lookup-height", s.Where(), "the revoked secret is looked up at %s, expected the broadcast state number", a[0])
				}
			}
			if n != 1 {
				o.FailAt(nb.ID+"#lookup", nb.Where(nb.Body.Pos()), "expected one RevocationStore.LookUp in NewBreachRetribution, found %d", n)
			}
		})
}
