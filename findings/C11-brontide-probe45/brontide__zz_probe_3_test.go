package brontide

import (
	"io"
	"net"
	"sync/atomic"
	"testing"
	"time"

	"github.com/btcsuite/btcd/btcec/v2"
	"github.com/lightningnetwork/lnd/keychain"
	"github.com/stretchr/testify/require"
)

// zzp3Conn records whether Close was called and runs a hook after every
// successful Write.
type zzp3Conn struct {
	net.Conn
	closed     atomic.Bool
	afterWrite func()
}

func (c *zzp3Conn) Close() error {
	c.closed.Store(true)
	return c.Conn.Close()
}

func (c *zzp3Conn) Write(p []byte) (int, error) {
	n, err := c.Conn.Write(p)
	if err == nil && c.afterWrite != nil {
		c.afterWrite()
	}
	return n, err
}

func zzp3Listener(t *testing.T) (*Listener, *btcec.PublicKey) {
	priv, err := btcec.NewPrivateKey()
	require.NoError(t, err)

	l := &Listener{
		localStatic:   &keychain.PrivKeyECDH{PrivKey: priv},
		shouldAccept:  DisabledBanClosure,
		handshakeSema: make(chan struct{}, 1),
		conns:         make(chan maybeConn),
		quit:          make(chan struct{}),
	}

	return l, priv.PubKey()
}

// TestZZProbe3HandshakeQuitBeforeStart: a socket handed to doHandshake after
// the listener was closed must be closed, not dropped.
func TestZZProbe3HandshakeQuitBeforeStart(t *testing.T) {
	l, _ := zzp3Listener(t)
	close(l.quit)

	server, client := net.Pipe()
	defer client.Close()
	conn := &zzp3Conn{Conn: server}

	l.doHandshake(conn)
	require.True(t, conn.closed.Load(), "accepted socket was dropped "+
		"without being closed when the listener had quit")
}

// TestZZProbe3HandshakeQuitAfterActTwo: the listener is closed right after
// act two went out; the socket must be closed.
func TestZZProbe3HandshakeQuitAfterActTwo(t *testing.T) {
	l, serverPub := zzp3Listener(t)

	server, client := net.Pipe()
	defer client.Close()
	conn := &zzp3Conn{Conn: server}
	conn.afterWrite = func() { close(l.quit) }

	clientPriv, err := btcec.NewPrivateKey()
	require.NoError(t, err)
	initiator := NewBrontideMachine(
		true, &keychain.PrivKeyECDH{PrivKey: clientPriv}, serverPub,
	)
	actOne, err := initiator.GenActOne()
	require.NoError(t, err)

	done := make(chan struct{})
	go func() {
		defer close(done)
		l.doHandshake(conn)
	}()

	_, err = client.Write(actOne[:])
	require.NoError(t, err)
	var actTwo [ActTwoSize]byte
	_, err = io.ReadFull(client, actTwo[:])
	require.NoError(t, err)

	select {
	case <-done:
	case <-time.After(10 * time.Second):
		t.Fatalf("doHandshake did not return")
	}

	require.True(t, conn.closed.Load(), "socket was dropped without "+
		"being closed when the listener quit after act two")
}

// TestZZProbe3HandshakeQuitBeforeAccept: the handshake completes, nobody calls
// Accept, the listener is closed: the authenticated socket must be closed.
func TestZZProbe3HandshakeQuitBeforeAccept(t *testing.T) {
	l, serverPub := zzp3Listener(t)

	server, client := net.Pipe()
	defer client.Close()
	conn := &zzp3Conn{Conn: server}

	clientPriv, err := btcec.NewPrivateKey()
	require.NoError(t, err)
	initiator := NewBrontideMachine(
		true, &keychain.PrivKeyECDH{PrivKey: clientPriv}, serverPub,
	)

	done := make(chan struct{})
	go func() {
		defer close(done)
		l.doHandshake(conn)
	}()

	actOne, err := initiator.GenActOne()
	require.NoError(t, err)
	_, err = client.Write(actOne[:])
	require.NoError(t, err)
	var actTwo [ActTwoSize]byte
	_, err = io.ReadFull(client, actTwo[:])
	require.NoError(t, err)
	require.NoError(t, initiator.RecvActTwo(actTwo))
	actThree, err := initiator.GenActThree()
	require.NoError(t, err)
	_, err = client.Write(actThree[:])
	require.NoError(t, err)

	// doHandshake now waits for an Accept call; close the listener
	// instead.
	select {
	case <-done:
		t.Fatalf("doHandshake returned without Accept or quit")
	case <-time.After(200 * time.Millisecond):
	}
	close(l.quit)

	select {
	case <-done:
	case <-time.After(10 * time.Second):
		t.Fatalf("doHandshake did not return")
	}

	require.True(t, conn.closed.Load(), "authenticated socket was "+
		"dropped without being closed when the listener quit before "+
		"Accept")
}
