package spec

import (
	"go/ast"
	"go/types"

	"lndlint/internal/an"
)

// runC10alias: decoded list elements must not share one read buffer.
func runC10alias(r *an.Run) {
	p := r.Prog
	r.Obl("decoded-elements-do-not-alias", "BOUND",
		"in the wire packages no loop stores a slice of an array declared outside the loop into a value that outlives the iteration (a composite literal field, an element appended as such, a field or element assignment); passing such a slice to a call (reading into it, hashing it, copying from it with `...`) is fine",
		"every element built that way points at the same bytes: after decoding a list all entries equal the last one, so the decoded message differs from the one sent and does not re-encode to the input", 1,
		func(o *an.Obl) {
			loops, flagged := 0, 0
			for _, f := range p.Funcs(false, "lnwire") {
				info := f.Info()
				var visitLoop func(body *ast.BlockStmt)
				visitLoop = func(body *ast.BlockStmt) {
					loops++
					outer := func(id *ast.Ident) bool {
						obj := info.Uses[id]
						if obj == nil {
							return false
						}
						if _, isArr := obj.Type().Underlying().(*types.Array); !isArr {
							return false
						}
						return !(obj.Pos() >= body.Pos() && obj.Pos() <= body.End())
					}
					retained := func(e ast.Expr, how string) {
						se, ok := ast.Unparen(e).(*ast.SliceExpr)
						if !ok {
							return
						}
						id, ok := ast.Unparen(se.X).(*ast.Ident)
						if !ok || !outer(id) {
							return
						}
						flagged++
						o.FailAt(f.ID+"#aliased-"+id.Name, f.Where(e.Pos()), "%s keeps %s, a slice of the array %s that is declared outside the loop and overwritten by the next iteration (%s)", f.ID, an.Text(e), id.Name, how)
					}
					ast.Inspect(body, func(n ast.Node) bool {
						switch x := n.(type) {
						case *ast.FuncLit:
							return false
						case *ast.KeyValueExpr:
							retained(x.Value, "composite literal field "+an.Text(x.Key))
						case *ast.CompositeLit:
							for _, el := range x.Elts {
								if _, isKV := el.(*ast.KeyValueExpr); !isKV {
									retained(el, "composite literal element")
								}
							}
						case *ast.CallExpr:
							if an.CalleeID(info, x) == "builtin.append" && !x.Ellipsis.IsValid() {
								for _, a := range x.Args[1:] {
									retained(a, "appended element")
								}
							}
						case *ast.AssignStmt:
							for i, l := range x.Lhs {
								if i >= len(x.Rhs) {
									break
								}
								switch ast.Unparen(l).(type) {
								case *ast.SelectorExpr, *ast.IndexExpr, *ast.StarExpr:
									retained(x.Rhs[i], "stored into "+an.Text(l))
								}
							}
						}
						return true
					})
				}
				ast.Inspect(f.Body, func(n ast.Node) bool {
					switch x := n.(type) {
					case *ast.FuncLit:
						return false
					case *ast.ForStmt:
						visitLoop(x.Body)
					case *ast.RangeStmt:
						visitLoop(x.Body)
					}
					return true
				})
			}
			o.Site("lnwire: %d loops inspected, %d retained slices of loop-external arrays", loops, flagged)
			if loops < 40 {
				o.FailAt("lnwire#loops", "", "expected at least 40 loops in lnwire, found %d", loops)
			}
		})
}
