package chanstate

import (
	"bytes"
	"fmt"
	"testing"

	"github.com/lightningnetwork/lnd/fn/v2"
	"github.com/lightningnetwork/lnd/lnwire"
	"github.com/lightningnetwork/lnd/tlv"
	"github.com/stretchr/testify/require"
)

func probe4Entries(t *testing.T) ([]*HTLCEntry, []byte, int) {
	t.Helper()

	var entries []*HTLCEntry
	for i := 0; i < 3; i++ {
		h := HTLC{
			RefundTimeout: uint32(500 + i),
			OutputIndex:   int32(2 + i),
			Incoming:      i%2 == 0,
			Amt:           lnwire.NewMSatFromSatoshis(100_000),
			HtlcIndex:     uint64(i),
		}
		h.RHash[0] = byte(i + 1)

		e, err := NewHTLCEntryFromHTLC(h)
		require.NoError(t, err)
		entries = append(entries, e)
	}

	// Length of the first two entries.
	var two bytes.Buffer
	require.NoError(t, SerializeHTLCEntries(&two, entries[:2]))

	var b bytes.Buffer
	require.NoError(t, SerializeHTLCEntries(&b, entries))

	return entries, b.Bytes(), two.Len()
}

// TestProbe4TruncatedHTLCEntry: an HTLC entry list whose last entry is cut
// mid-stream must fail to load instead of silently returning fewer HTLCs (the
// justice transaction would leave those outputs to the cheater).
func TestProbe4TruncatedHTLCEntry(t *testing.T) {
	entries, full, twoLen := probe4Entries(t)

	// Sanity: the full encoding round-trips.
	got, err := DeserializeHTLCEntries(bytes.NewReader(full))
	require.NoError(t, err)
	require.Len(t, got, len(entries))

	// A cut at an entry boundary is a legitimately shorter list.
	got, err = DeserializeHTLCEntries(bytes.NewReader(full[:twoLen]))
	require.NoError(t, err)
	require.Len(t, got, 2)

	// Every cut inside the third entry (after at least its length byte)
	// must be an error.
	accepted := probe4AcceptedCuts(full, twoLen, false)
	require.Emptyf(t, accepted, "encodings cut inside a record of the "+
		"third entry (full length %d, 3 htlcs) accepted without "+
		"error", len(full))
}

// probe4Boundaries are the offsets within the third entry at which a tlv
// record (or the length prefix) ends: length byte, RHash (34), RefundTimeout
// (6), OutputIndex (4), Incoming (3), Amt (7); the HtlcIndex record (3) ends
// the entry.
var probe4Boundaries = map[int]bool{
	1: true, 35: true, 41: true, 45: true, 48: true, 55: true,
}

func probe4AcceptedCuts(full []byte, twoLen int, boundary bool) []string {
	var accepted []string
	for cut := twoLen + 1; cut < len(full); cut++ {
		if probe4Boundaries[cut-twoLen] != boundary {
			continue
		}

		got, err := DeserializeHTLCEntries(bytes.NewReader(full[:cut]))
		if err == nil {
			accepted = append(accepted, fmt.Sprintf(
				"cut=%d->%d htlcs", cut, len(got),
			))
		}
	}

	return accepted
}

// TestProbe4TruncatedAtRecordBoundary: the third entry announces its full
// length but is cut where one of its tlv records ends. The entry is accepted
// with the missing records left at their zero value.
func TestProbe4TruncatedAtRecordBoundary(t *testing.T) {
	_, full, twoLen := probe4Entries(t)

	accepted := probe4AcceptedCuts(full, twoLen, true)
	require.Emptyf(t, accepted, "encodings cut at a record boundary of "+
		"the third entry accepted without error")
}

// TestProbe4TruncatedRevocationLog: the same through the revocation log
// decoder that the breach path uses.
func TestProbe4TruncatedRevocationLog(t *testing.T) {
	entries, _, _ := probe4Entries(t)

	rl := NewRevocationLog(
		0, 1, [32]byte{1}, fn.Some(lnwire.MilliSatoshi(1000)),
		fn.Some(lnwire.MilliSatoshi(2000)), entries,
		fn.None[tlv.Blob](),
	)

	var b bytes.Buffer
	require.NoError(t, SerializeRevocationLog(&b, &rl))
	full := b.Bytes()

	got, err := DeserializeRevocationLog(bytes.NewReader(full))
	require.NoError(t, err)
	require.Len(t, got.HTLCEntries, 3)

	// Drop the last 5 bytes: the third HTLC is cut mid-entry.
	got, err = DeserializeRevocationLog(
		bytes.NewReader(full[:len(full)-5]),
	)
	require.Errorf(t, err, "truncated revocation log accepted with %d "+
		"of 3 htlcs", len(got.HTLCEntries))
}
