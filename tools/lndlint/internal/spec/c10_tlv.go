package spec

import (
	"go/ast"
	"go/constant"
	"go/types"
	"strings"

	"lndlint/internal/an"
)

func runC10d(r *an.Run) {
	p := r.Prog

	r.Obl("tlv-stream-canonical", "GUARD",
		"tlv.Stream.decode handles a record (known-record decoder call or copy of an unknown record) only below !(overflow || typ < min) and, in P2P mode, below length <= MaxRecordSize; min is advanced to typ+1 and the overflow flag set at MaxUint64 on every iteration; all four public Decode* entry points funnel into decode; NewStream rejects non-increasing record types",
		"a TLV stream must be accepted exactly when it is canonical (strictly increasing types, bounded lengths); a record handled before the order check lets duplicate or reordered types through", 10,
		func(o *an.Obl) {
			f := p.Func("tlv.Stream.decode")
			var handle []an.Site
			handle = append(handle, f.CallsMatching(func(fn *an.Func, e ast.Expr) bool {
				c, ok := e.(*ast.CallExpr)
				if !ok {
					return false
				}
				sel, ok := c.Fun.(*ast.SelectorExpr)
				return ok && sel.Sel.Name == "decoder"
			}, false)...)
			handle = append(handle, f.Calls(an.CalleeIs("io.CopyN"), false)...)
			if len(handle) != 2 {
				o.FailAt(f.ID+"#handling-sites", f.Where(f.Body.Pos()), "expected the known-record decoder call and the unknown-record copy, found %d sites", len(handle))
				return
			}
			typLocal := an.LocalNamed("typ")
			guardedAll(o, f, handle,
				an.Truth(an.LocalNamed("overflow"), false, "!overflow"),
				an.Cmp(typLocal, an.GE, an.LocalNamed("min"), "typ >= min"),
				an.AnyOf("!p2p || length <= MaxRecordSize", an.Truth(an.Param(2), false, ""), an.Cmp(an.Any(), an.LE, an.PkgVar("tlv", "MaxRecordSize"), "")),
			)
			if v := constValue(p, "tlv", "MaxRecordSize"); v != "65535" {
				o.FailAt("tlv.MaxRecordSize", "", "MaxRecordSize = %s, expected 65535", v)
			}
			// min = typ + 1 reached on every path from a handled record back
			// to the loop head
			minAsg := f.Assigns(an.LocalNamed("min"), false)
			okForm := false
			for _, s := range minAsg {
				if as, isAs := s.Node.(*ast.AssignStmt); isAs && strings.HasSuffix(an.Text(as.Rhs[0]), "typ + 1") {
					okForm = true
					for _, h := range handle {
						if !f.PostDominatedOrFails(h, s) {
							o.FailAt(f.ID+"#min-advance", s.Where(), "after %s the lower bound is not advanced on some path that continues the loop", h.String())
						}
					}
				}
			}
			if !okForm {
				o.FailAt(f.ID+"#min-form", f.Where(f.Body.Pos()), "the lower bound is no longer set to typ + 1")
			}
			// NewStream: the records of a stream are strictly increasing
			ns := p.Func("tlv.NewStream")
			nmin := 0
			for _, s := range ns.Assigns(an.LocalNamed("min"), false) {
				as := s.Node.(*ast.AssignStmt)
				if as.Tok.String() == ":=" || !strings.HasSuffix(an.Text(as.Rhs[0]), ".typ + 1") {
					continue
				}
				nmin++
				guarded(o, ns, s, an.Truth(an.LocalNamed("overflow"), false, "!overflow"))
				guarded(o, ns, s, an.Cmp(an.FieldPath(nil, "typ"), an.GE, an.LocalNamed("min"), "record.typ >= min"))
			}
			if nmin != 1 {
				o.FailAt(ns.ID+"#min", ns.Where(ns.Body.Pos()), "NewStream advances its lower bound at %d sites, expected one (min = record.typ + 1)", nmin)
			}
			everyIteration(o, ns, `^\$p0$`, ns.Assigns(an.LocalNamed("min"), false), "min = record.typ + 1")
			for _, name := range []string{"Decode", "DecodeP2P", "DecodeWithParsedTypes", "DecodeWithParsedTypesP2P"} {
				g := p.Func("tlv.Stream." + name)
				cs := g.Calls(an.CalleeIs("tlv.Stream.decode"), false)
				if !need(o, g, "decode", cs, 1) {
					continue
				}
				a := g.ArgCanon(cs[0])
				o.Site("%s -> decode(p2p=%s)", name, a[2])
				if want := map[bool]string{true: "true", false: "false"}[strings.HasSuffix(name, "P2P")]; a[2] != want {
					o.FailAt(g.ID+"#p2p-flag", cs[0].Where(), "%s calls decode with p2p=%s", name, a[2])
				}
			}
		})

	r.Obl("bigsize-minimal-both-ways", "MIRROR",
		"ReadVarInt rejects, per discriminant, exactly the values WriteVarInt would have written in a shorter form: (0xfd: v < 0xfd), (0xfe: v <= 0xffff), (0xff: v <= 0xffffffff), the same three thresholds and operators WriteVarInt uses to choose the width",
		"a non-minimal BigSize accepted on decode re-encodes to different bytes: the stream is not a canonical fixpoint", 2,
		func(o *an.Obl) {
			thresholds := func(f *an.Func, subject string) []string {
				var out []string
				for _, v := range f.Graph().V {
					c := f.AtomCanon(v)
					if strings.HasPrefix(c, "("+subject+" <") {
						out = append(out, strings.TrimPrefix(c, "("+subject+" "))
					}
				}
				return out
			}
			rd := p.Func("tlv.ReadVarInt")
			wr := p.Func("tlv.WriteVarInt")
			// the decoded value variable: the one returned
			var rvName string
			for _, s := range rd.StrictSuccessReturns() {
				if rs, ok := s.Node.(*ast.ReturnStmt); ok {
					rvName = an.Text(rs.Results[0])
				}
			}
			rt := thresholds(rd, "$v:uint64")
			wt := thresholds(wr, "$p1")
			o.Site("ReadVarInt rejects %s %v", rvName, rt)
			o.Site("WriteVarInt widths by %v", wt)
			want := []string{"< 253)", "<= 65535)", "<= 4294967295)"}
			if strings.Join(rt, " ") != strings.Join(want, " ") {
				o.FailAt(rd.ID+"#minimality", rd.Where(rd.Body.Pos()), "ReadVarInt's canonical-form checks are %v, expected %v", rt, want)
			}
			if strings.Join(wt, " ") != strings.Join(want, " ") {
				o.FailAt(wr.ID+"#widths", wr.Where(wr.Body.Pos()), "WriteVarInt's width thresholds are %v, expected %v", wt, want)
			}
			// each rejection is an error return below its discriminant
			n := 0
			for _, s := range rd.Returns() {
				if rs, ok := s.Node.(*ast.ReturnStmt); ok && len(rs.Results) == 2 && strings.HasSuffix(rd.Canon(rs.Results[1]), "ErrVarIntNotCanonical") {
					n++
				}
			}
			if n != 3 {
				o.FailAt(rd.ID+"#rejections", rd.Where(rd.Body.Pos()), "expected three ErrVarIntNotCanonical returns, found %d", n)
			}
		})

	r.Obl("primitive-decoders-check-length", "GUARD",
		"every fixed-size primitive TLV decoder reads only below `l == size` (truncated integers: `l <= size`, followed by the minimal-length check), and the number of bytes read equals that size",
		"a primitive decoder that ignores the record length desynchronises the stream (reads into the next record) or accepts padded encodings", 12,
		func(o *an.Obl) {
			fixed := map[string]int64{"DUint8": 1, "DUint16": 2, "DUint32": 4, "DUint64": 8, "DBool": 1, "DBytes32": 32, "DBytes33": 33, "DBytes64": 64, "DPubKey": 33}
			for name, size := range fixed {
				f := p.Func("tlv." + name)
				reads := f.Calls(an.CalleeIs("io.ReadFull"), false)
				if !need(o, f, "io.ReadFull", reads, 1) {
					continue
				}
				guardedAll(o, f, reads, an.CmpX(an.Param(3), an.EQ, an.IntConst(size), "l == "+itoa(int(size))))
				// the bytes read are exactly that size
				if n, ok := staticSliceLen(f, callArg(reads[0], 1)); !ok || n != size {
					o.FailAt(f.ID+"#read-size", reads[0].Where(), "%s reads %s (%d bytes, known=%v) for a record whose length was checked to be %d", name, an.Text(callArg(reads[0], 1)), n, ok, size)
				}
			}
			for name, size := range map[string]int64{"DTUint16": 2, "DTUint32": 4, "DTUint64": 8} {
				f := p.Func("tlv." + name)
				reads := f.Calls(an.CalleeIs("io.ReadFull"), false)
				if !need(o, f, "io.ReadFull", reads, 1) {
					continue
				}
				guardedAll(o, f, reads, an.CmpX(an.Param(3), an.LE, an.IntConst(size), "l <= "+itoa(int(size))))
				// the l low-order bytes of the buffer are filled: buf[size-l:size]
				if se, ok := ast.Unparen(callArg(reads[0], 1)).(*ast.SliceExpr); ok {
					lo := ""
					if se.Low != nil {
						lo = f.Canon(se.Low)
					}
					hi, hiOK := int64(0), false
					if se.High != nil {
						if v, ok := f.Info().Types[se.High]; ok && v.Value != nil {
							hi, hiOK = constInt64(v.Value)
						}
					} else if at, ok := f.Info().TypeOf(se.X).Underlying().(*types.Array); ok {
						hi, hiOK = at.Len(), true
					} else if pt, ok := f.Info().TypeOf(se.X).Underlying().(*types.Pointer); ok {
						if at, ok := pt.Elem().Underlying().(*types.Array); ok {
							hi, hiOK = at.Len(), true
						}
					}
					o.Site("%s reads into [%s : %d]", name, lo, hi)
					if lo != "("+itoa(int(size))+" - $p3)" || !hiOK || hi != size {
						o.FailAt(f.ID+"#read-window", reads[0].Where(), "%s reads into %s, expected buf[%d-l:%d]", name, an.Text(se), size, size)
					}
				} else {
					o.FailAt(f.ID+"#read-window", reads[0].Where(), "%s reads into %s", name, an.Text(callArg(reads[0], 1)))
				}
				// success only after the minimality check
				var succ []an.Site
				for _, s := range f.StrictSuccessReturns() {
					succ = append(succ, s)
				}
				n := 0
				for _, s := range f.Returns() {
					if rs, ok := s.Node.(*ast.ReturnStmt); ok && strings.HasSuffix(f.Canon(rs.Results[0]), "ErrTUintNotMinimal") {
						n++
					}
				}
				o.Site("%s: %d minimality rejections", name, n)
				if n != 1 {
					o.FailAt(f.ID+"#minimal", f.Where(f.Body.Pos()), "%s no longer rejects non-minimal truncated integers", name)
				}
			}
		})

	r.Obl("peer-decoding-uses-p2p-streams", "WHO",
		"inside lnwire every decode of a tlv.Stream uses the P2P-bounded variants (DecodeP2P / DecodeWithParsedTypesP2P); the unbounded variants are used only by the tabled helper for data read back from the node's own database",
		"the unbounded variants accept 4 GB record lengths; reachable from a peer message they allow allocations far beyond the message bound", 6,
		func(o *an.Obl) {
			allowedUnbounded := map[string]string{
				"lnwire.ExtraOpaqueData.DecodeRecords": "",
				"lnwire.DecodeRecords":                 "exported helper for records read back from disk",
			}
			n := 0
			for _, f := range p.Funcs(false, "lnwire") {
				for _, s := range f.Calls(an.CalleeNamed("Decode", "DecodeP2P", "DecodeWithParsedTypes", "DecodeWithParsedTypesP2P"), false) {
					c := s.Node.(*ast.CallExpr)
					sel, ok := c.Fun.(*ast.SelectorExpr)
					if !ok || an.TypeID(f.Info().TypeOf(sel.X)) != "tlv.Stream" {
						continue
					}
					n++
					o.Site("%s", s.String())
					if strings.HasSuffix(sel.Sel.Name, "P2P") {
						continue
					}
					if _, ok := allowedUnbounded[f.Root().ID]; !ok {
						o.FailAt(f.Root().ID+"#unbounded-tlv-decode", s.Where(), "%s decodes a TLV stream with the unbounded %s", f.Root().ID, sel.Sel.Name)
					}
				}
			}
			if n < 6 {
				o.FailAt("tlv-decode#sites", "", "expected at least 6 TLV stream decode sites in lnwire, found %d", n)
			}
			// the unbounded helper is not reachable from message decoding
			var roots []string
			for _, mt := range messageTypes(p) {
				roots = append(roots, "lnwire."+mt.name+".Decode")
			}
			roots = append(roots, "lnwire.DecodeFailure", "lnwire.DecodeFailureMessage", "lnwire.ReadMessage")
			reach := p.Reachable(roots...)
			for id := range allowedUnbounded {
				if p.FuncOpt(id) != nil && reach[id] {
					o.FailAt(id+"#reachable-from-decode", "", "%s (unbounded TLV decoding) is reachable from peer message decoding", id)
				}
			}
		})
}

// staticSliceLen returns the statically known length of a slice expression
// over an array (or pointer to array): x[:], x[:N], x[A:B] with constant
// bounds; also a dereferenced pointer to a slice is not known.
func staticSliceLen(f *an.Func, e ast.Expr) (int64, bool) {
	se, ok := ast.Unparen(e).(*ast.SliceExpr)
	if !ok {
		return 0, false
	}
	lo := int64(0)
	if se.Low != nil {
		v, ok := f.Info().Types[se.Low]
		if !ok || v.Value == nil {
			return 0, false
		}
		lo, _ = constInt64(v.Value)
	}
	if se.High != nil {
		v, ok := f.Info().Types[se.High]
		if !ok || v.Value == nil {
			return 0, false
		}
		hi, _ := constInt64(v.Value)
		return hi - lo, true
	}
	t := f.Info().TypeOf(se.X).Underlying()
	if pt, ok := t.(*types.Pointer); ok {
		t = pt.Elem().Underlying()
	}
	if at, ok := t.(*types.Array); ok {
		return at.Len() - lo, true
	}
	return 0, false
}

func constInt64(v constant.Value) (int64, bool) {
	return constant.Int64Val(constant.ToInt(v))
}
