package spec

// Witnesses for the rules of c09_round5.go (seeded changes of round 5).
func init() {
	const mirror = "enforced-policy-mirrors-the-advertised-edge"
	registry["C09"].Mutants = append(registry["C09"].Mutants, []Mutant{
		{Name: "seed5-C09-i", File: "routing/localchans/manager.go",
			Old:    "\t\tvar inboundWireFee lnwire.Fee\n\t\tedge.InboundFee.WhenSome(func(fee lnwire.Fee) {\n\t\t\tinboundWireFee = fee\n\t\t})\n\t\tinboundFee := models.NewInboundFeeFromWire(inboundWireFee)\n",
			New:    "\t\tinboundFee := newSchema.InboundFee.UnwrapOr(models.InboundFee{})\n",
			Expect: mirror},
		// the same slip on a sibling field: the link enforces the requested
		// base fee, the edge advertises what updateEdge made of it
		{Name: "seed5-C09-i-base-fee-from-the-request", File: "routing/localchans/manager.go",
			Old:    "\t\t\tBaseFee:       edge.FeeBaseMSat,\n",
			New:    "\t\t\tBaseFee:       newSchema.BaseFee,\n",
			Expect: mirror},
		// two fields of the same type swapped
		{Name: "seed5-C09-i-fee-rate-from-the-base-fee", File: "routing/localchans/manager.go",
			Old:    "\t\t\tFeeRate:       edge.FeeProportionalMillionths,\n",
			New:    "\t\t\tFeeRate:       edge.FeeBaseMSat,\n",
			Expect: mirror},
	}...)
}
