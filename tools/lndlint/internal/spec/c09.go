package spec

import (
	"go/ast"
	"go/token"
	"go/types"
	"strings"

	"lndlint/internal/an"
	"lndlint/internal/flow"
)

func init() {
	register(&Spec{
		ID:          "C09",
		Loads:       []LoadSpec{{Patterns: []string{"./htlcswitch", "./graph/db/models", "./routing/localchans"}}},
		Explanation: "Decides that the accepting return of the forwarding check is dominated by every advertised-policy comparison with the documented operands (incoming >= outgoing amount; actual fee less the outbound fee >= inbound fee on (out + outbound fee), the overflow-free form of the fee test; expiry gap >= time-lock delta and <= maximum; outgoing expiry beyond height + reject delta and within the maximum, both sums computed in 64 bits; amount within [min_htlc, max_htlc] and bandwidth), that each BOLT-4 failure is constructed only below the predicate it names, that the two fee formulas, interpreted on boundary values, agree with unbounded-integer arithmetic wherever the fee is payable and saturate without wrapping beyond, that every unsigned subtraction in these functions is below the matching >= guard or on signed values, that no sum of the check is computed in 32 bits, that the link's policy is read under its lock and one forwarding decision uses one snapshot of it, that a policy update reaches links of both indexes, that the amount the policy is checked on is the amount of the add that is sent, and that the switch hands an HTLC only to links whose check returned nil.",
		NotDecided: []string{
			"agreement with unbounded-integer arithmetic outside the sampled boundary values of the fee formulas, and for fees beyond the total supply (a saturated outbound fee combined with an inbound discount)",
			"that the failure named is the most specific one",
		},
		Assumptions: commonAssumptions,
		Engines:     "GUARD (origin terms), ROLE (formulas interpreted on boundary values), BOUND (unsigned subtraction, 64-bit sums), LOCK, MIRROR, WHO, TABLE",
		TagMatrix:   [][]string{{"GOARCH=386"}},
		Run:         runC09,
	})
}

func runC09(r *an.Run) {
	p := r.Prog
	const (
		outFee = `htlcswitch\.ExpectedFee\(\$recv\.cfg\.FwrdingPolicy, \$p2\)`
		inFee  = `^\$p5\.CalcFee\(\(\$p2 \+ ` + outFee + `\)\)$`
		// the fee that is left for the inbound side: (in - out) - outbound fee,
		// on int64 conversions. The sum inFee + int64(outFee) is NOT accepted:
		// the outbound fee saturates at MaxInt64 and the sum overflows.
		netFee = `^\(\(int64\(\$p1\) - int64\(\$p2\)\) - int64\(` + outFee + `\)\)$`
	)
	// the two outgoing-expiry bounds of canSendHtlc, each a sum computed in 64 bits
	tooSoonBound := c09f5WideSum(an.Param(4), an.FieldPath(nil, "OutgoingCltvRejectDelta"))
	tooFarBound := c09f5WideSum(an.FieldPath(nil, "MaxOutgoingCltvExpiry"), an.Param(4))

	r.Obl("forward-accept-guards", "GUARD",
		"CheckHtlcForward returns nil only below: incoming >= outgoing amount; (int64(in)-int64(out)) - int64(ExpectedFee(policy,out)) >= inboundFee.CalcFee(out+ExpectedFee(policy,out)) (the difference form: the sum inFee+int64(outFee) can overflow once the outbound fee saturates and is not accepted); canSendHtlc == nil; incomingTimeout >= outgoingTimeout; gap >= policy.TimeLockDelta; gap <= MaxOutgoingCltvExpiry. canSendHtlc returns nil only below validateHtlcAmount == nil; timeout > heightNow+OutgoingCltvRejectDelta; timeout <= MaxOutgoingCltvExpiry+heightNow, where each of the two sums is an addition of 64-bit type (operands widened before they are added); amt <= bandwidth. validateHtlcAmount returns nil (for non-custom HTLCs) only below amt >= MinHTLCOut and !(MaxHTLC != 0 && amt > MaxHTLC)",
		"a forward accepted outside the advertised policy loses the node money or gets the HTLC stuck", 14,
		func(o *an.Obl) {
			f := p.Func(hs + "channelLink.CheckHtlcForward")
			acc := f.StrictSuccessReturnsOrNilPtr()
			if len(acc) != 1 {
				o.FailAt(f.ID+"#accept-returns", f.Where(f.Body.Pos()), "expected one accepting `return nil`, found %d", len(acc))
			}
			gap := func(fn *an.Func, e ast.Expr) bool {
				id, ok := e.(*ast.Ident)
				if !ok {
					return false
				}
				// the variable assigned incomingTimeout - outgoingTimeout
				for _, s := range fn.Assigns(an.LocalNamed(id.Name), false) {
					if as, ok := s.Node.(*ast.AssignStmt); ok && fn.Canon(as.Rhs[0]) == "($p3 - $p4)" {
						return fn.Info().Uses[id] == fn.Info().Uses[as.Lhs[0].(*ast.Ident)] || fn.Info().Defs[as.Lhs[0].(*ast.Ident)] == fn.Info().Uses[id]
					}
				}
				return false
			}
			guardedAll(o, f, acc,
				an.Cmp(an.Param(1), an.GE, an.Param(2), "incomingHtlcAmt >= amtToForward"),
				an.Cmp(canonTerm(netFee), an.GE, canonTerm(inFee), "actualFee - outFee >= inboundFee(out+outFee)"),
				an.Cmp(an.Param(3), an.GE, an.Param(4), "incomingTimeout >= outgoingTimeout"),
				an.Cmp(gap, an.GE, an.FieldPath(nil, "TimeLockDelta"), "expiry gap >= policy.TimeLockDelta"),
				an.Cmp(gap, an.LE, an.FieldPath(nil, "MaxOutgoingCltvExpiry"), "expiry gap <= MaxOutgoingCltvExpiry"),
			)
			mustPass(o, f, "canSendHtlc", f.Calls(an.CalleeIs(hs+"channelLink.canSendHtlc"), false), an.OkNil, acc)
			cs := f.Calls(an.CalleeIs(hs+"channelLink.canSendHtlc"), false)
			if len(cs) == 1 {
				a := f.ArgCanon(cs[0])
				if a[0] != "$recv.cfg.FwrdingPolicy" || a[2] != "$p2" || a[3] != "$p4" || a[4] != "$p6" {
					o.FailAt(f.ID+"#canSendHtlc-args", cs[0].Where(), "canSendHtlc must check (policy, amtToForward, outgoingTimeout, heightNow); got %v", a)
				}
			}
			g := p.Func(hs + "channelLink.canSendHtlc")
			gacc := g.StrictSuccessReturnsOrNilPtr()
			guardedAll(o, g, gacc,
				an.Cmp(an.Param(3), an.GT, tooSoonBound, "timeout > heightNow + OutgoingCltvRejectDelta (64-bit sum)"),
				an.Cmp(an.Param(3), an.LE, tooFarBound, "timeout <= MaxOutgoingCltvExpiry + heightNow (64-bit sum)"),
				an.Cmp(an.Param(2), an.LE, an.LocalNamed("availableBandwidth"), "amt <= available bandwidth"),
			)
			mustPass(o, g, "validateHtlcAmount", g.Calls(an.CalleeIs(hs+"channelLink.validateHtlcAmount"), false), an.OkNil, gacc)
			h := p.Func(hs + "channelLink.validateHtlcAmount")
			var policyAcc []an.Site
			for _, s := range h.StrictSuccessReturnsOrNilPtr() {
				// the custom-HTLC early accept is tabled
				if ok, _ := h.Guarded(s, an.Truth(canonTerm(`MapOptionZ\(\$recv\.cfg\.AuxTrafficShaper`), true, "")); ok {
					o.Site("tabled: custom HTLC accepted by the aux traffic shaper at %s", s.String())
					continue
				}
				policyAcc = append(policyAcc, s)
			}
			if len(policyAcc) != 1 {
				o.FailAt(h.ID+"#accept-returns", h.Where(h.Body.Pos()), "expected one policy-checked accepting return, found %d", len(policyAcc))
			}
			guardedAll(o, h, policyAcc, an.Cmp(an.Param(2), an.GE, an.FieldPath(an.Param(0), "MinHTLCOut"), "amt >= policy.MinHTLCOut"))
			// !(MaxHTLC != 0 && amt > MaxHTLC): accept unreachable when both
			// atoms are true
			// the two atoms are recognised by what they compare, in either
			// operand order and under either polarity (De Morgan'd, split or
			// merged conditions produce the complementary atoms)
			maxHTLC := an.FieldPath(an.Param(0), "MaxHTLC")
			nonZero, above := false, false
			decide := func(f *an.Func, v *flow.Vertex) (bool, bool) {
				if v.Kind != flow.KCond {
					return false, false
				}
				be, ok := ast.Unparen(v.Node.(ast.Expr)).(*ast.BinaryExpr)
				if !ok {
					return false, false
				}
				rel, ok := c09RelOf(be.Op)
				if !ok {
					return false, false
				}
				switch {
				case an.Match(f, maxHTLC, be.X) && an.Match(f, an.IntConst(0), be.Y):
					// assumed: MaxHTLC != 0, i.e. (unsigned) MaxHTLC > 0
					nonZero = true
					return rel&an.GT != 0, true
				case an.Match(f, an.IntConst(0), be.X) && an.Match(f, maxHTLC, be.Y):
					nonZero = true
					return rel&an.LT != 0, true
				case an.Match(f, an.Param(2), be.X) && an.Match(f, maxHTLC, be.Y):
					// assumed: amt > MaxHTLC
					above = true
					return rel&an.GT != 0, true
				case an.Match(f, maxHTLC, be.X) && an.Match(f, an.Param(2), be.Y):
					above = true
					return rel&an.LT != 0, true
				}
				return false, false
			}
			reach := h.ReachUnder(decide)
			if !nonZero || !above {
				o.FailAt(h.ID+"#max-htlc-atoms", h.Where(h.Body.Pos()), "the max_htlc test `policy.MaxHTLC != 0 && amt > policy.MaxHTLC` is gone")
			} else if len(policyAcc) == 1 {
				o.Site("max_htlc exceeded -> accept reachable: %v", reach[policyAcc[0].V])
				if reach[policyAcc[0].V] {
					o.FailAt(h.ID+"#max-htlc", policyAcc[0].Where(), "an amount above a non-zero max_htlc can be accepted")
				}
			}
		})

	r.Obl("failure-names-violated-rule", "GUARD",
		"each BOLT-4 failure constructor in the forwarding check is built only below its own predicate: fee_insufficient below (in < out or actual fee - outbound fee < inbound fee); incorrect_cltv_expiry below (in expiry < out expiry or gap < delta); expiry_too_far below (gap > max or timeout > max + height); expiry_too_soon below timeout <= height + reject delta (both sums of 64-bit type); amount_below_minimum below amt < min_htlc; temporary_channel_failure (max/bandwidth) below the corresponding amount test",
		"the failure returned to the sender must name a rule that is actually violated, otherwise senders penalise the wrong channel or retry forever", 6,
		func(o *an.Obl) {
			type fc struct {
				fn, ctor string
				fact     an.Fact
			}
			f := hs + "channelLink.CheckHtlcForward"
			g := hs + "channelLink.canSendHtlc"
			h := hs + "channelLink.validateHtlcAmount"
			for _, c := range []fc{
				{f, "lnwire.NewFeeInsufficient", an.AnyOf("in < out or actual fee - outbound fee < inbound fee", an.Cmp(an.Param(1), an.LT, an.Param(2), ""), an.Cmp(canonTerm(netFee), an.LT, canonTerm(inFee), ""))},
				{f, "lnwire.NewIncorrectCltvExpiry", an.AnyOf("in expiry < out expiry or gap < delta", an.Cmp(an.Param(3), an.LT, an.Param(4), ""), an.Cmp(an.Any(), an.LT, an.FieldPath(nil, "TimeLockDelta"), ""))},
				{g, "lnwire.NewExpiryTooSoon", an.Cmp(an.Param(3), an.LE, tooSoonBound, "timeout <= heightNow + reject delta")},
				{h, "lnwire.NewAmountBelowMinimum", an.Cmp(an.Param(2), an.LT, an.FieldPath(an.Param(0), "MinHTLCOut"), "amt < min_htlc")},
			} {
				fn := p.Func(c.fn)
				n := 0
				for _, lf := range fn.Lits {
					for _, s := range lf.Calls(an.CalleeIs(c.ctor), false) {
						n++
						v := fn.Graph().Containing(lf.Lit, true)
						if v == nil {
							o.FailAt(c.fn+"#"+c.ctor+"-site", s.Where(), "cannot locate the statement creating the failure callback")
							continue
						}
						site := an.Site{Fn: fn, V: v, Node: lf.Lit}
						_ = s
						guarded(o, fn, site, c.fact)
					}
				}
				if n != 1 {
					o.FailAt(c.fn+"#"+c.ctor+"-count", fn.Where(fn.Body.Pos()), "expected one construction of %s in %s, found %d", c.ctor, c.fn, n)
				}
			}
			// FailExpiryTooFar literals
			for _, ref := range p.CompositeLitsOf(p.LookupTypeAny("lnwire", "FailExpiryTooFar")) {
				if ref.Fn == nil || !strings.HasPrefix(ref.Fn.ID, hs+"channelLink.") {
					continue
				}
				fn := ref.Fn
				v := fn.Graph().Containing(ref.Node, false)
				if v == nil {
					continue
				}
				site := an.Site{Fn: fn, V: v, Node: ref.Node}
				switch fn.ID {
				case f:
					guarded(o, fn, site, an.Cmp(an.Any(), an.GT, an.FieldPath(nil, "MaxOutgoingCltvExpiry"), "gap > MaxOutgoingCltvExpiry"))
				case g:
					guarded(o, fn, site, an.Cmp(an.Param(3), an.GT, tooFarBound, "timeout > MaxOutgoingCltvExpiry + heightNow"))
				}
			}
		})

	r.Obl("fee-formulas", "ROLE",
		"the bodies of ExpectedFee and InboundFee.CalcFee are interpreted (from the syntax tree, whatever their shape; a body the interpreter cannot run is reported) on every combination of boundary values of base fee, rate and amount (0, 1, around 10^6, around 2^32, around 2^63/10^7, 2^64/10 (where the high word of the 128-bit product equals the divisor), the total supply 2.1*10^18 msat, 2^63-1, 2^63, 2^64-1; inbound base and rate over the int32 range and around the cap of +-10^7) and compared with unbounded-integer arithmetic: ExpectedFee returns BaseFee + floor(amt*FeeRate/1000000) wherever that is at most the total supply and otherwise a value above the supply and at most math.MaxInt64 (it stays positive as an int64); CalcFee returns Base + rate*amt/1000000 with the rate capped at +-10000000 and the quotient rounded toward zero wherever the proportional part is at most the supply in size, and otherwise a value of the same sign beyond the supply; during the runs no +, -, * may wrap around its static type and math/bits.Div64 may not panic; models.feeRateParts is 1000000",
		"dividing before multiplying truncates sub-satoshi amounts and under-charges; a different parts-per-million constant changes every fee; amt*FeeRate in uint64 wraps for a rate near the uint32 maximum (a sender picks the amount whose product wraps to almost nothing and is forwarded nearly free); rate*int64(amt) overflows int64 above 9.22 BTC and turns a positive inbound fee negative", 2890,
		func(o *an.Obl) {
			c09f5FeeFormulas(o, p)
			if v := constValue(p, "graph/db/models", "feeRateParts"); v != "1000000" {
				o.FailAt("graph/db/models.InboundFee.CalcFee#feeRateParts", "", "feeRateParts = %s, expected 1000000", v)
			}
		})

	r.Obl("no-unguarded-unsigned-subtraction", "BOUND",
		"in CheckHtlcForward, canSendHtlc, validateHtlcAmount, ExpectedFee and CalcFee every subtraction whose operands are unsigned is dominated by the matching `left >= right` guard; the fee difference is computed on int64 conversions",
		"an unsigned difference computed without the guard wraps to a huge value and turns a too-small gap or a negative fee into an accepted forward", 2,
		func(o *an.Obl) {
			n := 0
			for _, id := range []string{hs + "channelLink.CheckHtlcForward", hs + "channelLink.canSendHtlc", hs + "channelLink.validateHtlcAmount", hs + "ExpectedFee", "graph/db/models.InboundFee.CalcFee"} {
				f := p.Func(id)
				info := f.Info()
				for _, v := range f.Graph().V {
					v.Inspect(false, func(x ast.Node) bool {
						be, ok := x.(*ast.BinaryExpr)
						if !ok || be.Op.String() != "-" {
							return true
						}
						// skip arguments of logging calls
						t, _ := info.TypeOf(be).Underlying().(*types.Basic)
						if t == nil || t.Info()&types.IsUnsigned == 0 {
							n++
							o.Site("%s: signed subtraction %s", f.ID, an.Text(be))
							return true
						}
						if isLogArg(f, v, be) {
							return true
						}
						n++
						s := an.Site{Fn: f, V: v, Node: be}
						l, rr := f.Canon(be.X), f.Canon(be.Y)
						guarded(o, f, s, an.Cmp(canonTerm("^"+regexpQuote(l)+"$"), an.GE, canonTerm("^"+regexpQuote(rr)+"$"), an.Text(be.X)+" >= "+an.Text(be.Y)))
						return true
					})
				}
			}
			if n < 2 {
				o.FailAt("subtractions#count", "", "expected at least two subtractions in the forwarding check, found %d", n)
			}
		})

	r.Obl("switch-forwards-only-to-checked-links", "GUARD",
		"handlePacketAdd appends a link to the destination set only if it is eligible and its CheckHtlcForward returned nil; the packet is handed to a link taken from that set; CheckHtlcForward receives (incomingAmount, amount, incomingTimeout, outgoingTimeout, inboundFee, height) in that order",
		"the policy check is worthless if a link that failed it can still be chosen", 4,
		func(o *an.Obl) {
			f := p.Func(hs + "Switch.handlePacketAdd")
			var app []an.Site
			for _, s := range f.Assigns(an.LocalNamed("destinations"), false) {
				if as, ok := s.Node.(*ast.AssignStmt); ok && len(as.Rhs) == 1 && isAppend(f, as.Rhs[0]) {
					app = append(app, s)
				}
			}
			if len(app) != 1 {
				o.FailAt(f.ID+"#destinations", f.Where(f.Body.Pos()), "expected one append to the destination set, found %d", len(app))
				return
			}
			failVar := an.LocalNamed("failure")
			guarded(o, f, app[0], an.IsNil(failVar, true, "failure == nil"))
			// failure is assigned from CheckHtlcForward on the eligible path
			chk := f.Calls(an.CalleeNamed("CheckHtlcForward"), false)
			if need(o, f, "CheckHtlcForward", chk, 1) {
				a := f.ArgCanon(chk[0])
				o.Site("%s", chk[0].String())
				want := []string{"", "$p0.incomingAmount", "$p0.amount", "$p0.incomingTimeout", "$p0.outgoingTimeout", "$p0.inboundFee"}
				for i := 1; i < len(want); i++ {
					if a[i] != want[i] {
						o.FailAt(f.ID+"#CheckHtlcForward-arg"+itoa(i), chk[0].Where(), "CheckHtlcForward argument %d is %s, expected %s", i, a[i], want[i])
					}
				}
				guarded(o, f, chk[0], an.Truth(an.CallNamed("EligibleToForward", nil), true, "link.EligibleToForward()"))
			}
			// every assignment of `failure` is either the check result or a
			// non-nil error
			for _, s := range f.Assigns(failVar, false) {
				as, ok := s.Node.(*ast.AssignStmt)
				if !ok {
					continue
				}
				c := f.Canon(as.Rhs[0])
				o.Site("failure <- %s", c)
				if !strings.Contains(c, ".CheckHtlcForward(") && !strings.HasPrefix(c, "htlcswitch.NewDetailedLinkError(") {
					o.FailAt(f.ID+"#failure-source", s.Where(), "the per-link verdict is assigned from %s", c)
				}
			}
			hsp := f.Calls(an.CalleeNamed("handleSwitchPacket"), false)
			if need(o, f, "handleSwitchPacket", hsp, 1) {
				sel := hsp[0].Node.(*ast.CallExpr).Fun.(*ast.SelectorExpr)
				okSrc := false
				if id, isId := sel.X.(*ast.Ident); isId {
					if d := f.UniqueDef(id); d != nil {
						if ix, isIx := ast.Unparen(d).(*ast.IndexExpr); isIx {
							if base, isB := ix.X.(*ast.Ident); isB {
								lhs := app[0].Node.(*ast.AssignStmt).Lhs[0].(*ast.Ident)
								okSrc = f.Info().Uses[base] == f.Info().Uses[lhs]
							}
						}
						o.Site("packet handed to %s", an.Text(d))
					}
				}
				if !okSrc {
					o.FailAt(f.ID+"#destination-source", hsp[0].Where(), "the packet is handed to %s, which is not an element of the checked destination set", an.Text(sel.X))
				}
			}
		})

	policyInputs(r)
}

func constValue(p *an.Prog, pkg, name string) string {
	c, ok := p.LookupObj(pkg, name).(*types.Const)
	if !ok {
		return ""
	}
	return c.Val().ExactString()
}

// isLogArg reports whether expression e occurs inside an argument of a
// logging call (method named Warnf/Debugf/Errorf/Infof/Tracef) at vertex v.
func isLogArg(f *an.Func, v *an.FlowVertex, e ast.Expr) bool {
	found := false
	v.Inspect(false, func(n ast.Node) bool {
		c, ok := n.(*ast.CallExpr)
		if !ok {
			return true
		}
		sel, ok := c.Fun.(*ast.SelectorExpr)
		if !ok {
			return true
		}
		switch sel.Sel.Name {
		case "Warnf", "Debugf", "Errorf", "Infof", "Tracef":
			if c.Pos() <= e.Pos() && e.End() <= c.End() {
				found = true
			}
		}
		return true
	})
	return found
}

// c09RelOf maps a comparison operator to the orderings under which it holds.
func c09RelOf(op token.Token) (an.Rel, bool) {
	switch op {
	case token.LSS:
		return an.LT, true
	case token.LEQ:
		return an.LE, true
	case token.GTR:
		return an.GT, true
	case token.GEQ:
		return an.GE, true
	case token.EQL:
		return an.EQ, true
	case token.NEQ:
		return an.NE, true
	}
	return 0, false
}
