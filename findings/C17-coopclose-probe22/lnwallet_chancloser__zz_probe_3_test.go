package chancloser

import (
	"testing"

	"github.com/btcsuite/btcd/btcutil/v2"
	"github.com/btcsuite/btcd/mempool"
	"github.com/lightningnetwork/lnd/channeldb"
	"github.com/lightningnetwork/lnd/lntypes"
	"github.com/lightningnetwork/lnd/lnwallet"
	"github.com/lightningnetwork/lnd/lnwire"
	"github.com/lightningnetwork/lnd/tlv"
	"github.com/stretchr/testify/require"
)

// TestProbeCloseeSignsTheCloseeOnlyTransaction: BOLT 2 lets the closer drop
// its own output (closee_output_only: MUST when it is dust, MAY when it finds
// it uneconomical). The closee then has to sign the transaction that only
// carries the closee output. lnd's closee picks the closee_output_only
// signature but still builds the transaction with the closer's output, so the
// signature never verifies.
func TestProbeCloseeSignsTheCloseeOnlyTransaction(t *testing.T) {
	t.Parallel()

	aliceChan, bobChan, err := lnwallet.CreateTestChannels(
		t, channeldb.SingleFunderTweaklessBit,
	)
	require.NoError(t, err)

	aliceScript, bobScript := probe5Script(0xa1), probe5Script(0xb0)

	// Alice, the closer, signs the transaction that only pays Bob: her own
	// balance (raw balance plus the refunded commitment fee) goes to fees
	// entirely.
	aliceAll := aliceChan.StateSnapshot().LocalBalance.ToSatoshis() +
		aliceChan.CommitFee()
	aliceSig, closeeOnlyTx, _, err := aliceChan.CreateCloseProposal(
		aliceAll, aliceScript, bobScript,
		lnwallet.WithCustomSequence(mempool.MaxRBFSequence),
		lnwallet.WithCustomPayer(lntypes.Local),
	)
	require.NoError(t, err)
	require.Len(t, closeeOnlyTx.TxOut, 1)
	require.Equal(t, []byte(bobScript), closeeOnlyTx.TxOut[0].PkScript)

	wireSig, err := lnwire.NewSigFromSignature(aliceSig)
	require.NoError(t, err)

	bobNeg, bobEnv := probe5Negotiation(bobChan, bobScript, aliceScript)
	transition, err := bobNeg.ProcessEvent(&OfferReceivedEvent{
		SigMsg: lnwire.ClosingComplete{
			ChannelID:    bobEnv.ChanID,
			CloserScript: aliceScript,
			CloseeScript: bobScript,
			FeeSatoshis:  btcutil.Amount(2_000),
			ClosingSigs: lnwire.ClosingSigs{
				NoCloserClosee: newSigTlv[tlv.TlvType2](wireSig),
			},
		},
	}, bobEnv)
	require.NoError(t, err, "closee cannot sign the closee_output_only "+
		"transaction")

	bobNext, ok := transition.NextState.(*ClosingNegotiation)
	require.True(t, ok)
	pending, ok := bobNext.PeerState.GetForParty(
		lntypes.Remote,
	).(*ClosePending)
	require.True(t, ok)
	require.Equal(t, closeeOnlyTx.TxHash(), pending.CloseTx.TxHash())

	closingSig := probe5SentMsg[*lnwire.ClosingSig](t, transition)
	require.True(t, closingSig.ClosingSigs.NoCloserClosee.IsSome(),
		"closing_sig must answer in the closee_output_only field")
}
