package htlcswitch

import (
	"math"
	"math/big"
	"testing"

	"github.com/lightningnetwork/lnd/graph/db/models"
	"github.com/lightningnetwork/lnd/lnwire"
	"github.com/stretchr/testify/require"
)

// TestProbeWrappedFeeForwardedEndToEnd: with the largest configurable
// fee_rate_ppm, a sender picks an amount for which amt*rate wraps to a tiny
// value. The exact fee is ~1.8e13 msat; the HTLC carries 5000 msat of fee. The
// decision must be FeeInsufficient.
func TestProbeWrappedFeeForwardedEndToEnd(t *testing.T) {
	link := newProbeLink(t, models.ForwardingPolicy{
		TimeLockDelta: 20,
		MinHTLCOut:    1,
		MaxHTLC:       lnwire.MilliSatoshi(1 << 40),
		FeeRate:       lnwire.MilliSatoshi(math.MaxUint32),
	}, 3)

	var hash [32]byte

	amt := lnwire.MilliSatoshi(1<<32 + 2)
	res := link.CheckHtlcForward(
		hash, amt+5000, amt, 200, 150, models.InboundFee{}, 100,
		lnwire.ShortChannelID{}, nil,
	)
	require.NotNil(t, res)
	require.IsType(t, &lnwire.FailFeeInsufficient{}, res.WireMessage(),
		"got %T", res.WireMessage())
}

// TestProbeFeeFunctionsAgreeWithBigInt sweeps ExpectedFee and CalcFee over
// amounts up to the total supply and rates up to the configurable maxima and
// compares with unbounded arithmetic (saturation allowed only where the exact
// value exceeds what an int64 can hold).
func TestProbeFeeFunctionsAgreeWithBigInt(t *testing.T) {
	amts := []uint64{
		0, 1, 2, 3, 999_999, 1_000_000, 1_000_001, 4_294_967_296,
		4_294_967_298, 5_000_000_000, 922_337_203_685,
		922_337_203_686, 950_000_000_000, 1_000_000_000_000,
		16_777_215_000, 2_100_000_000_000_000_000,
	}
	rates := []uint64{
		0, 1, 999, 1_000_000, 10_000_000, 2_000_000_000,
		math.MaxUint32,
	}
	bases := []uint64{0, 1, 1000, math.MaxUint32}

	million := big.NewInt(1_000_000)
	maxI64 := big.NewInt(math.MaxInt64)

	for _, a := range amts {
		for _, r := range rates {
			for _, b := range bases {
				exact := new(big.Int).Mul(
					new(big.Int).SetUint64(a),
					new(big.Int).SetUint64(r),
				)
				exact.Quo(exact, million)
				exact.Add(exact, new(big.Int).SetUint64(b))

				got := ExpectedFee(models.ForwardingPolicy{
					BaseFee: lnwire.MilliSatoshi(b),
					FeeRate: lnwire.MilliSatoshi(r),
				}, lnwire.MilliSatoshi(a))

				if exact.Cmp(maxI64) > 0 {
					require.GreaterOrEqual(
						t, uint64(got),
						uint64(math.MaxInt64),
						"amt=%d rate=%d base=%d", a, r,
						b,
					)

					continue
				}
				require.Equal(
					t, exact.String(),
					new(big.Int).SetUint64(
						uint64(got),
					).String(),
					"amt=%d rate=%d base=%d", a, r, b,
				)
			}
		}
	}

	inRates := []int32{
		0, 1, -1, 500_000, -500_000, 999_999, -999_999, 10_000_000,
		-10_000_000, math.MaxInt32, math.MinInt32,
	}
	inBases := []int32{0, 5, -5, math.MaxInt32, math.MinInt32}
	for _, a := range amts {
		for _, r := range inRates {
			for _, b := range inBases {
				capped := int64(r)
				if capped > 10_000_000 {
					capped = 10_000_000
				}
				if capped < -10_000_000 {
					capped = -10_000_000
				}

				// big.Int.Quo truncates toward zero: positive
				// fees round down, negative fees round up.
				exact := new(big.Int).Mul(
					new(big.Int).SetUint64(a),
					big.NewInt(capped),
				)
				exact.Quo(exact, million)
				exact.Add(exact, big.NewInt(int64(b)))

				// Out of the int64 range only beyond 9.2e17
				// msat at the capped rate: skip those.
				if !exact.IsInt64() {
					continue
				}

				inbound := models.InboundFee{Base: b, Rate: r}
				got := inbound.CalcFee(lnwire.MilliSatoshi(a))
				require.Equal(
					t, exact.String(),
					big.NewInt(got).String(),
					"amt=%d rate=%d base=%d", a, r, b,
				)
			}
		}
	}
}
