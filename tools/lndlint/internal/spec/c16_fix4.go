package spec

import (
	"fmt"
	"go/ast"
	"go/constant"
	"go/token"
	"go/types"
	"regexp"
	"sort"
	"strings"

	"lndlint/internal/an"
	"lndlint/internal/flow"
)

func init() {
	specExtras["C16"] = append(specExtras["C16"], c16f4Repairs)
}

// ---------------------------------------------------------------------------
// helpers shared with c16.go (re-anchored obligations)

// c16f4SaturatedSum matches the saturating sum of the two operands (given as
// regular expressions over canonical forms), in either argument order.
func c16f4SaturatedSum(a, b string) an.Term {
	h := regexpQuote(pd + "addMsatSaturating")
	return canonTerm(`^` + h + `\((` + a + `, ` + b + `|` + b + `, ` + a + `)\)$`)
}

// c16f4Accumulation classifies a write `w` of the accumulator obj: "saturating"
// for `obj = addMsatSaturating(obj, x)` (either argument order), "plain" for
// `obj += x` / `obj = obj + x`, "" for anything else. The second result is the
// canonical form of x.
func c16f4Accumulation(f *an.Func, w c15LocalWrite, obj types.Object) (string, string) {
	info := f.Info()
	switch {
	case w.tok == token.ADD_ASSIGN && w.rhs != nil:
		return "plain", f.Canon(w.rhs)
	case w.tok == token.ASSIGN && w.rhs != nil:
		switch x := ast.Unparen(w.rhs).(type) {
		case *ast.CallExpr:
			if an.CalleeID(info, x) != pd+"addMsatSaturating" || len(x.Args) != 2 {
				return "", ""
			}
			for i := range x.Args {
				if c15IdentIs(info, x.Args[i], obj) && !c15IdentIs(info, x.Args[1-i], obj) {
					return "saturating", f.Canon(x.Args[1-i])
				}
			}
		case *ast.BinaryExpr:
			if x.Op != token.ADD {
				return "", ""
			}
			if c15IdentIs(info, x.X, obj) {
				return "plain", f.Canon(x.Y)
			}
			if c15IdentIs(info, x.Y, obj) {
				return "plain", f.Canon(x.X)
			}
		}
	}
	return "", ""
}

func c16f4IsZeroConst(info *types.Info, e ast.Expr) bool {
	tv, ok := info.Types[e]
	if !ok || tv.Value == nil {
		return false
	}
	c := constant.ToInt(tv.Value)
	return c.Kind() == constant.Int && constant.Sign(c) == 0
}

// c16f4SentAmt is the SentAmt part of status-and-state-derivation: the
// function returns two locals; the first is written only by its zero-valued
// declaration and by one `sum = addMsatSaturating(sum, h.Route.ReceiverAmt())`
// per non-failed attempt of m.HTLCs, the second likewise by the attempt's
// TotalFees() (a plain += is tolerated there: the fee sum is reported, not
// compared against the payment amount).
func c16f4SentAmt(o *an.Obl, p *an.Prog) {
	sa := p.Func(pd + "MPPayment.SentAmt")
	info := sa.Info()
	var sums [2]types.Object
	for _, s := range sa.Returns() {
		rs, _ := s.Node.(*ast.ReturnStmt)
		if rs == nil {
			continue
		}
		o.Site("SentAmt returns %s", an.Text(rs))
		var objs [2]types.Object
		ok := len(rs.Results) == 2
		for i := 0; ok && i < 2; i++ {
			id, isID := ast.Unparen(rs.Results[i]).(*ast.Ident)
			if !isID {
				ok = false
				break
			}
			v, isVar := info.Uses[id].(*types.Var)
			if !isVar || v.IsField() {
				ok = false
				break
			}
			objs[i] = v
		}
		if ok && sums[0] != nil && sums != objs {
			ok = false
		}
		if !ok || objs[0] == objs[1] {
			o.FailAt(sa.ID+"#result-order", s.Where(), "SentAmt returns `%s`, expected the two sums (sum of receiver amounts, sum of fees) it accumulated", an.Text(rs))
			return
		}
		sums = objs
	}
	if sums[0] == nil {
		o.FailAt(sa.ID+"#result-order", sa.Where(sa.Body.Pos()), "SentAmt has no return of its two sums")
		return
	}
	want := [2]string{"$elem($recv.HTLCs).Route.ReceiverAmt()", "$elem($recv.HTLCs).Route.TotalFees()"}
	role := [2]string{"sent", "fees"}
	notFailed := an.IsNil(an.FieldPath(nil, "Failure"), true, "h.Failure == nil")
	failed := an.IsNil(an.FieldPath(nil, "Failure"), false, "h.Failure != nil")
	for i, obj := range sums {
		k := 0
		for _, w := range c15WritesOfLocal(sa, obj) {
			if (w.tok == token.VAR && w.rhs == nil) || ((w.tok == token.VAR || w.tok == token.DEFINE) && w.rhs != nil && w.idx < 0 && c16f4IsZeroConst(info, w.rhs)) {
				continue // starts at zero
			}
			form, operand := c16f4Accumulation(sa, w, obj)
			// `for i := range xs { h := &xs[i]; ... h.F }` names the same
			// element as `for _, h := range xs { ... h.F }`
			operand = c16ElemOfKeyed(operand)
			o.Site("SentAmt: result %d (%s) <- %s [%s %s]", i, role[i], an.Text(w.site.Node), form, operand)
			switch {
			case form == "":
				o.FailAt(sa.ID+"#write-of-"+role[i], w.site.Where(), "result %d of SentAmt (%s) is given a value by `%s`; it may only start at zero and grow by %s", i, role[i], an.Text(w.site.Node), want[i])
				continue
			case form == "plain" && i == 0:
				o.FailAt(sa.ID+"#sum-wraps", w.site.Where(), "the amount sent is accumulated by `%s`: a plain addition of uint64 amounts wraps around to a small value, and this sum is compared against the payment amount; expected sum = addMsatSaturating(sum, %s)", an.Text(w.site.Node), want[i])
			}
			k++
			if operand != want[i] {
				o.FailAt(sa.ID+"#operand-"+role[i], w.site.Where(), "%s accumulates %s, expected %s", role[i], operand, want[i])
			}
			guarded(o, sa, w.site, notFailed)
			if hdr := enclosingLoopHeader(sa, w.site.Node); hdr != "$recv.HTLCs" {
				o.FailAt(sa.ID+"#loop", w.site.Where(), "SentAmt sums over %s", hdr)
			}
			// every non-failed attempt counted: the only way to skip is the Failure test
			everyIterationOr(o, sa, `^\$recv\.HTLCs$`, []an.Site{w.site}, failed, role[i]+" += amount")
		}
		if k != 1 {
			key := "#sum"
			if i == 1 {
				key = "#sum-fees"
			}
			o.FailAt(sa.ID+key, sa.Where(sa.Body.Pos()), "SentAmt has %d accumulation sites for its result %d (%s)", k, i, role[i])
		}
	}
}

// ---------------------------------------------------------------------------
// a tiny evaluator for straight-line uint64 helpers (if / return / :=)

type c16f4Env map[types.Object]uint64

func c16f4B(b bool) uint64 {
	if b {
		return 1
	}
	return 0
}

func c16f4IsUint64(t types.Type) bool {
	b, ok := t.Underlying().(*types.Basic)
	return ok && b.Kind() == types.Uint64
}

func c16f4Eval(f *an.Func, e ast.Expr, env c16f4Env) (uint64, error) {
	info := f.Info()
	if tv, ok := info.Types[e]; ok && tv.Value != nil {
		switch tv.Value.Kind() {
		case constant.Bool:
			return c16f4B(constant.BoolVal(tv.Value)), nil
		case constant.Int, constant.Float:
			c := constant.ToInt(tv.Value)
			if u, exact := constant.Uint64Val(c); exact && c.Kind() == constant.Int {
				return u, nil
			}
		}
		return 0, fmt.Errorf("constant %s is not a uint64", an.Text(e))
	}
	switch x := e.(type) {
	case *ast.ParenExpr:
		return c16f4Eval(f, x.X, env)
	case *ast.Ident:
		o := info.Uses[x]
		if v, ok := env[o]; ok && o != nil {
			return v, nil
		}
		return 0, fmt.Errorf("%s is not a parameter or local of the helper", x.Name)
	case *ast.CallExpr:
		if tv, ok := info.Types[x.Fun]; ok && tv.IsType() && len(x.Args) == 1 && c16f4IsUint64(tv.Type) {
			if t := info.TypeOf(x.Args[0]); t != nil && c16f4IsUint64(t) {
				return c16f4Eval(f, x.Args[0], env)
			}
		}
		return 0, fmt.Errorf("call %s is not understood", an.Text(x))
	case *ast.UnaryExpr:
		if x.Op == token.NOT {
			v, err := c16f4Eval(f, x.X, env)
			return c16f4B(v == 0), err
		}
	case *ast.BinaryExpr:
		l, err := c16f4Eval(f, x.X, env)
		if err != nil {
			return 0, err
		}
		// short circuit is irrelevant: the operands have no effects
		r, err := c16f4Eval(f, x.Y, env)
		if err != nil {
			return 0, err
		}
		switch x.Op {
		case token.LAND:
			return c16f4B(l != 0 && r != 0), nil
		case token.LOR:
			return c16f4B(l != 0 || r != 0), nil
		}
		if t := info.TypeOf(x.X); t == nil || !c16f4IsUint64(t) {
			if tv, isConst := info.Types[x.X]; !isConst || tv.Value == nil {
				return 0, fmt.Errorf("operand %s is not a uint64", an.Text(x.X))
			}
		}
		switch x.Op {
		case token.ADD:
			return l + r, nil
		case token.SUB:
			return l - r, nil
		case token.MUL:
			return l * r, nil
		case token.LSS:
			return c16f4B(l < r), nil
		case token.LEQ:
			return c16f4B(l <= r), nil
		case token.GTR:
			return c16f4B(l > r), nil
		case token.GEQ:
			return c16f4B(l >= r), nil
		case token.EQL:
			return c16f4B(l == r), nil
		case token.NEQ:
			return c16f4B(l != r), nil
		}
	}
	return 0, fmt.Errorf("expression %s is not understood", an.Text(e))
}

// c16f4Exec runs a statement list; done reports that a return was executed.
func c16f4Exec(f *an.Func, stmts []ast.Stmt, env c16f4Env) (val uint64, done bool, err error) {
	info := f.Info()
	for _, st := range stmts {
		switch x := st.(type) {
		case *ast.ReturnStmt:
			if len(x.Results) != 1 {
				return 0, false, fmt.Errorf("`%s` does not return one value", an.Text(x))
			}
			v, err := c16f4Eval(f, x.Results[0], env)
			return v, true, err
		case *ast.BlockStmt:
			if v, done, err := c16f4Exec(f, x.List, env); done || err != nil {
				return v, done, err
			}
		case *ast.IfStmt:
			if x.Init != nil {
				if _, _, err := c16f4Exec(f, []ast.Stmt{x.Init}, env); err != nil {
					return 0, false, err
				}
			}
			c, err := c16f4Eval(f, x.Cond, env)
			if err != nil {
				return 0, false, err
			}
			var branch []ast.Stmt
			if c != 0 {
				branch = x.Body.List
			} else if x.Else != nil {
				branch = []ast.Stmt{x.Else}
			}
			if v, done, err := c16f4Exec(f, branch, env); done || err != nil {
				return v, done, err
			}
		case *ast.AssignStmt:
			if len(x.Lhs) != 1 || len(x.Rhs) != 1 {
				return 0, false, fmt.Errorf("`%s` is not understood", an.Text(x))
			}
			id, ok := x.Lhs[0].(*ast.Ident)
			if !ok {
				return 0, false, fmt.Errorf("`%s` is not understood", an.Text(x))
			}
			obj := info.Defs[id]
			if obj == nil {
				obj = info.Uses[id]
			}
			v, err := c16f4Eval(f, x.Rhs[0], env)
			if err != nil {
				return 0, false, err
			}
			switch x.Tok {
			case token.ASSIGN, token.DEFINE:
				env[obj] = v
			case token.ADD_ASSIGN:
				env[obj] += v
			case token.SUB_ASSIGN:
				env[obj] -= v
			default:
				return 0, false, fmt.Errorf("`%s` is not understood", an.Text(x))
			}
		default:
			return 0, false, fmt.Errorf("statement `%s` is not understood", an.Text(st))
		}
	}
	return 0, false, nil
}

// c16f4SaturatingHelper decides the body of the helper by evaluating it.
func c16f4SaturatingHelper(o *an.Obl, h *an.Func) {
	ps := h.Params(false)
	rs := h.Results()
	if len(ps) != 2 || len(rs) != 1 || ps[0] == nil || ps[1] == nil || !c16f4IsUint64(ps[0].Type()) || !c16f4IsUint64(ps[1].Type()) || !c16f4IsUint64(rs[0]) {
		o.FailAt(h.ID+"#signature", h.Where(h.Body.Pos()), "%s is expected to take two 64-bit unsigned amounts and return one", h.ID)
		return
	}
	const max = ^uint64(0)
	samples := []uint64{0, 1, 2, 277, 555, 1 << 32, 1<<63 - 1, 1 << 63, 1<<63 + 1, max - 555, max - 277, max - 276, max - 1, max}
	bad := 0
	for _, a := range samples {
		for _, b := range samples {
			got, done, err := c16f4Exec(h, h.Body.List, c16f4Env{ps[0]: a, ps[1]: b})
			if err != nil || !done {
				msg := "the body does not return"
				if err != nil {
					msg = err.Error()
				}
				o.FailAt(h.ID+"#not-evaluable", h.Where(h.Body.Pos()), "cannot evaluate %s: %s; the rule decides the helper by running it on boundary values and has to be re-anchored", h.ID, msg)
				return
			}
			want := a + b
			if want < a {
				want = max
			}
			o.Site("%s(%d, %d) = %d", h.ID, a, b, got)
			if got != want && bad < 3 {
				bad++
				o.FailAt(h.ID+"#value", h.Where(h.Body.Pos()), "%s(%d, %d) returns %d, expected %d (the sum, or the largest amount when the sum does not fit)", h.ID, a, b, got, want)
			}
		}
	}
}

// c16f4Parents maps every node below root to its parent.
func c16f4Parents(root ast.Node) map[ast.Node]ast.Node {
	out := map[ast.Node]ast.Node{}
	var stack []ast.Node
	ast.Inspect(root, func(n ast.Node) bool {
		if n == nil {
			stack = stack[:len(stack)-1]
			return true
		}
		if len(stack) > 0 {
			out[n] = stack[len(stack)-1]
		}
		stack = append(stack, n)
		return true
	})
	return out
}

// c16f4NilCmp reports whether e is `x == nil` (isNil) or `x != nil` and
// returns x.
func c16f4NilCmp(info *types.Info, e ast.Expr) (x ast.Expr, isNil, ok bool) {
	be, isBin := ast.Unparen(e).(*ast.BinaryExpr)
	if !isBin || (be.Op != token.EQL && be.Op != token.NEQ) {
		return nil, false, false
	}
	switch {
	case an.IsNilIdent(info, ast.Unparen(be.Y)):
		return be.X, be.Op == token.EQL, true
	case an.IsNilIdent(info, ast.Unparen(be.X)):
		return be.Y, be.Op == token.EQL, true
	}
	return nil, false, false
}

// c16f4ExactlyOneNil is the fact "exactly one of the two values (canonical
// forms a, b) is nil": an edge of a comparison of two nil tests.
func c16f4ExactlyOneNil(a, b, desc string) an.Fact {
	return an.Fact{Desc: desc, Hold: func(f *an.Func, e *flow.Edge) bool {
		if e.From.Kind != flow.KCond || (e.Kind != flow.ETrue && e.Kind != flow.EFalse) {
			return false
		}
		be, ok := ast.Unparen(e.From.Node.(ast.Expr)).(*ast.BinaryExpr)
		if !ok || (be.Op != token.EQL && be.Op != token.NEQ) {
			return false
		}
		x, xNil, okx := c16f4NilCmp(f.Info(), be.X)
		y, yNil, oky := c16f4NilCmp(f.Info(), be.Y)
		if !okx || !oky {
			return false
		}
		cx, cy := f.Canon(x), f.Canon(y)
		if !((cx == a && cy == b) || (cx == b && cy == a)) {
			return false
		}
		// the atom is true iff exactly one is nil ...
		xor := (be.Op == token.NEQ) == (xNil == yNil)
		// ... and the edge taken makes it so
		return xor == (e.Kind == flow.ETrue)
	}}
}

// c16f4Mentions: the canonical form of e, or of a value given to a local that e
// mentions, matches re (`&tmp` with `tmp := uint64(h.F)` mentions h.F).
func c16f4Mentions(f *an.Func, e ast.Expr, re string) bool {
	r := regexp.MustCompile(re)
	if r.MatchString(f.Canon(e)) {
		return true
	}
	info := f.Info()
	found := false
	ast.Inspect(e, func(n ast.Node) bool {
		id, ok := n.(*ast.Ident)
		if !ok || found {
			return !found
		}
		v, isVar := info.Uses[id].(*types.Var)
		if !isVar || v.IsField() || (v.Pkg() != nil && v.Parent() == v.Pkg().Scope()) {
			return true
		}
		for _, w := range c15WritesOfLocal(f, v) {
			if w.rhs != nil && r.MatchString(f.Canon(w.rhs)) {
				found = true
			}
		}
		return true
	})
	return found
}

func c16f4SortedKeys(m map[string]bool) []string {
	var out []string
	for k := range m {
		out = append(out, k)
	}
	sort.Strings(out)
	return out
}

// c16f4LessByID decides the `less` closure of a sort call: it returns the
// canonical form of the compared key with the two index parameters replaced by
// "#", and whether the order is ascending, for a body of the single statement
// `return key(i) < key(j)` (or `key(j) > key(i)`).
func c16f4Less(f *an.Func, fl *ast.FuncLit) (key string, ascending bool, err error) {
	if fl.Type.Params == nil || fl.Type.Params.NumFields() != 2 || len(fl.Body.List) != 1 {
		return "", false, fmt.Errorf("the comparison closure is not a single return over two indexes")
	}
	var names []string
	for _, fld := range fl.Type.Params.List {
		for _, n := range fld.Names {
			names = append(names, n.Name)
		}
	}
	rs, ok := fl.Body.List[0].(*ast.ReturnStmt)
	if !ok || len(rs.Results) != 1 || len(names) != 2 {
		return "", false, fmt.Errorf("the comparison closure is not a single return over two indexes")
	}
	be, ok := ast.Unparen(rs.Results[0]).(*ast.BinaryExpr)
	if !ok || (be.Op != token.LSS && be.Op != token.GTR) {
		return "", false, fmt.Errorf("the comparison closure returns %s, expected a strict comparison of one key of the two elements", an.Text(rs.Results[0]))
	}
	info := f.Info()
	subst := func(e ast.Expr) (string, string) {
		// which parameter the side mentions, and the side's text with it blanked
		used := ""
		ast.Inspect(e, func(n ast.Node) bool {
			if id, ok := n.(*ast.Ident); ok {
				if v, isVar := info.Uses[id].(*types.Var); isVar && (id.Name == names[0] || id.Name == names[1]) && v.Pos() >= fl.Pos() && v.Pos() < fl.End() {
					if used != "" && used != id.Name {
						used = "both"
					} else {
						used = id.Name
					}
				}
			}
			return true
		})
		txt := regexp.MustCompile(`\b`+regexp.QuoteMeta(used)+`\b`).ReplaceAllString(an.Text(e), "#")
		return used, txt
	}
	ux, tx := subst(be.X)
	uy, ty := subst(be.Y)
	if tx != ty || ux == uy || ux == "both" || uy == "both" || ux == "" || uy == "" {
		return "", false, fmt.Errorf("the comparison closure compares %s with %s, expected the same key of element i and element j", an.Text(be.X), an.Text(be.Y))
	}
	// ascending: less(i, j) is key(i) < key(j)
	asc := (ux == names[0]) == (be.Op == token.LSS)
	return tx, asc, nil
}

// c16f4SortCalls lists the sort.Slice / sort.SliceStable calls of f.
func c16f4SortCalls(f *an.Func) []an.Site {
	return f.Calls(an.CalleeIs("sort.Slice", "sort.SliceStable"), false)
}

// ---------------------------------------------------------------------------

// c16f4Repairs: obligations for the repairs 082618c, 5389d06, c55b246,
// 3142111, 5f5c0fb, d0600e8, d137e29 in payments/db.
func c16f4Repairs(r *an.Run) {
	p := r.Prog

	r.Obl("amounts-are-added-without-wrapping", "TABLE",
		"addMsatSaturating(a, b), run on every pair of the boundary amounts {0, 1, 2, 277, 555, 2^32, 2^63-1, 2^63, 2^63+1, 2^64-556, 2^64-278, 2^64-277, 2^64-2, 2^64-1}, returns a+b when that fits in 64 bits and 2^64-1 otherwise (the body is evaluated, whatever its shape; a body the evaluator cannot run is reported); in the non-test code of payments/db an addition (`+`, `+=`) of lnwire.MilliSatoshi values occurs only inside that helper and as the fee sum of SentAmt (its second result); SentAmt and verifyAttempt both call the helper (what they do with it: status-and-state-derivation, attempt-admission)",
		"sentAmt+amt and the sum over the attempts are uint64 additions: a shard of 2^64-276 msat next to 277 msat in flight wrapped to 1 and was admitted by both backends, and the ErrSentExceedsTotal backstop of setState wrapped the same way; any other place that adds amounts before they are compared with the payment value re-opens that", 196,
		func(o *an.Obl) {
			h := p.FuncOpt(pd + "addMsatSaturating")
			if h == nil {
				o.FailAt(pd+"addMsatSaturating#missing", "", "the saturating addition helper payments/db.addMsatSaturating is gone")
				return
			}
			c16f4SaturatingHelper(o, h)
			// who adds amounts
			sa := p.Func(pd + "MPPayment.SentAmt")
			var fees types.Object
			for _, s := range sa.Returns() {
				if rs, ok := s.Node.(*ast.ReturnStmt); ok && len(rs.Results) == 2 {
					if id, ok := ast.Unparen(rs.Results[1]).(*ast.Ident); ok {
						fees = sa.Info().Uses[id]
					}
				}
			}
			isMsat := func(info *types.Info, e ast.Expr) bool {
				t := info.TypeOf(e)
				return t != nil && an.TypeID(t) == "lnwire.MilliSatoshi"
			}
			for _, f := range p.Funcs(false, "payments/db") {
				if f.Lit != nil || f.Body == nil {
					continue // literals are walked with their root
				}
				info := f.Info()
				ast.Inspect(f.Body, func(n ast.Node) bool {
					switch x := n.(type) {
					case *ast.BinaryExpr:
						if x.Op != token.ADD || !isMsat(info, x) {
							return true
						}
						if tv, ok := info.Types[x]; ok && tv.Value != nil {
							return true // a constant
						}
						o.Site("amount addition in %s: %s", f.ID, an.Text(x))
						if f.ID != h.ID {
							o.FailAt(f.ID+"#plain-amount-addition", f.Where(x.Pos()), "%s adds amounts by `%s`: a uint64 addition wraps; amounts are added through addMsatSaturating", f.ID, an.Text(x))
						}
					case *ast.AssignStmt:
						if x.Tok != token.ADD_ASSIGN || len(x.Lhs) != 1 || !isMsat(info, x.Lhs[0]) {
							return true
						}
						o.Site("amount accumulation in %s: %s", f.ID, an.Text(x))
						if !(f.ID == sa.ID && fees != nil && c15IdentIs(info, x.Lhs[0], fees)) {
							o.FailAt(f.ID+"#plain-amount-accumulation", f.Where(x.Pos()), "%s accumulates amounts by `%s`: a uint64 addition wraps; only the fee sum of SentAmt (reported, never compared with the payment amount) is tabled", f.ID, an.Text(x))
						}
					case *ast.IncDecStmt:
						if x.Tok == token.INC && isMsat(info, x.X) {
							o.FailAt(f.ID+"#plain-amount-increment", f.Where(x.Pos()), "%s increments an amount by `%s`", f.ID, an.Text(x))
						}
					}
					return true
				})
			}
			for _, id := range []string{pd + "MPPayment.SentAmt", pd + "verifyAttempt"} {
				f := p.Func(id)
				need(o, f, "addMsatSaturating", f.Calls(an.CalleeIs(h.ID), false), 1)
			}
		})

	r.Obl("kv-hop-codec-keeps-the-records-an-attempt-was-validated-against", "CODEC",
		"for every field verifyAttempt reads off a route's FinalHop() (EncryptedData, TotalAmtMsat, MPP, AMP): serializeHop appends the field's record to the one record list it hands to tlv.RecordsToMap, at a site restricted by nothing but the presence test of that field and the error exits before it (in particular not by LegacyPayload); that list is written only by its declaration and by append to itself; the count written is uint32(len(<that map>)), the records written are the keys and values of a loop over that map, and every success return comes after both; deserializeHop assigns the field of the hop it returns under nothing but the presence (`ok`) of the field's own record type in the map read, the error exits, the `numElements == 0` shortcut and the exhaustion of the loop that reads the numElements records",
		"an attempt validated as an MPP shard on a hop with LegacyPayload set was stored without its MPP record: the next shard was refused with ErrNonMPPayment on kv and admitted on sql; what the admission check looked at must be what the next admission check reads back", 40,
		func(o *an.Obl) {
			va := p.Func(pd + "verifyAttempt")
			fields := map[string]bool{}
			vaAliases := c16FinalHopAliases(va)
			ast.Inspect(va.Body, func(n ast.Node) bool {
				sel, ok := n.(*ast.SelectorExpr)
				if !ok {
					return true
				}
				// the final hop is the call itself or a local that holds
				// nothing but its result
				if id, isID := ast.Unparen(sel.X).(*ast.Ident); isID {
					if _, isAlias := vaAliases[va.Info().Uses[id]]; !isAlias {
						return true
					}
				} else if c, ok := ast.Unparen(sel.X).(*ast.CallExpr); !ok || !strings.HasSuffix(an.CalleeID(va.Info(), c), "route.Route.FinalHop") {
					return true
				}
				if s := va.Info().Selections[sel]; s != nil && s.Kind() == types.FieldVal {
					fields[sel.Sel.Name] = true
				}
				return true
			})
			names := c16f4SortedKeys(fields)
			o.Site("verifyAttempt reads %v off the final hop", names)
			for _, must := range []string{"EncryptedData", "TotalAmtMsat", "MPP", "AMP"} {
				if !fields[must] {
					o.FailAt(va.ID+"#reads-"+must, va.Where(va.Body.Pos()), "verifyAttempt no longer reads FinalHop().%s: the record consistency checks moved, re-anchor", must)
				}
			}

			// --- writer
			sh := p.Func(pd + "serializeHop")
			hop := "h"
			if ps := sh.Params(false); len(ps) == 2 && ps[1] != nil {
				hop = ps[1].Name()
			}
			notReassigned(o, sh, hop)
			toMap := sh.Calls(an.CalleeIs("tlv.RecordsToMap"), false)
			if !needExactly(o, sh, "tlv.RecordsToMap", toMap, 1) {
				return
			}
			recID, _ := ast.Unparen(callArg(toMap[0], 0)).(*ast.Ident)
			var rec types.Object
			if recID != nil {
				rec = sh.Info().Uses[recID]
			}
			if rec == nil {
				o.FailAt(sh.ID+"#record-list", toMap[0].Where(), "RecordsToMap is given %s, expected the local list the records were gathered in", an.Text(callArg(toMap[0], 0)))
				return
			}
			appendsOf := map[string][]an.Site{}
			for _, w := range c15WritesOfLocal(sh, rec) {
				if w.tok == token.VAR && w.rhs == nil {
					continue
				}
				call, _ := w.rhs.(*ast.CallExpr)
				if w.tok != token.ASSIGN || call == nil || an.CalleeID(sh.Info(), call) != "builtin.append" || len(call.Args) < 2 || !c15IdentIs(sh.Info(), call.Args[0], rec) {
					o.FailAt(sh.ID+"#record-list-rewritten", w.site.Where(), "the record list is written by `%s`; it may only grow by append to itself (dropping what was gathered drops what the attempt was validated against)", an.Text(w.site.Node))
					continue
				}
				for _, a := range call.Args[1:] {
					for _, fld := range names {
						if c16f4Mentions(sh, a, `\$p1\.`+fld+`\b`) {
							appendsOf[fld] = append(appendsOf[fld], w.site)
						}
					}
				}
			}
			for _, fld := range names {
				if len(appendsOf[fld]) == 0 {
					o.FailAt(sh.ID+"#no-record-for-"+fld, sh.Where(sh.Body.Pos()), "serializeHop gathers no record built from %s.%s, which verifyAttempt decides on", hop, fld)
					continue
				}
				q := regexp.QuoteMeta(hop + "." + fld)
				allowed := []string{`^!\(err != nil\)$`, `^` + q + ` != nil$`, `^` + q + ` != 0$`, `^len\(` + q + `\) (!=|>) 0$`}
				for _, s := range appendsOf[fld] {
					onlyGuards(o, sh, s, allowed, "record of "+fld)
					// and it is under the presence test (a nil MPP has no record)
					o.Site("serializeHop: record of %s gathered at %s", fld, s.Where())
				}
			}
			// the count and the records written are those of the map
			mapCanon := sh.Canon(toMap[0].Node.(*ast.CallExpr))
			var countWrites, inLoop []an.Site
			heads := c15RangeHeads(sh, `^`+regexp.QuoteMeta(mapCanon)+`$`)
			for _, s := range sh.Calls(an.CalleeNamed("WriteElements", "WriteVarBytes"), false) {
				for _, a := range sh.ArgCanon(s) {
					switch a {
					case "uint32(len(" + mapCanon + "))":
						countWrites = append(countWrites, s)
					case "$key(" + mapCanon + ")", "$elem(" + mapCanon + ")":
						inLoop = append(inLoop, s)
					}
				}
			}
			if len(heads) != 1 || len(countWrites) != 1 || len(inLoop) != 2 {
				o.FailAt(sh.ID+"#map-written", sh.Where(sh.Body.Pos()), "serializeHop is expected to write uint32(len(m)) once and, in one loop over m, each key and value, for m = %s; found %d count writes, %d loops, %d element writes", mapCanon, len(countWrites), len(heads), len(inLoop))
			} else {
				okRets := sh.StrictSuccessReturns()
				mustPass(o, sh, "tlv.RecordsToMap", toMap, an.OkErrNil, okRets)
				mustPass(o, sh, "the write of the record count", countWrites, an.OkErrNil, okRets)
				before(o, sh, "the write of the record count", countWrites, "the loop over the records", []an.Site{{Fn: sh, V: heads[0], Node: heads[0].Node}})
				loopVisitsAll(o, sh, `^`+regexp.QuoteMeta(mapCanon)+`$`)
			}
			// no return that may succeed before the records are gathered
			for _, s := range sh.Returns() {
				if sh.ClassifyReturn(s) == an.RetFailure {
					continue
				}
				if !sh.Before(toMap, s) {
					o.FailAt(sh.ID+"#returns-before-records", s.Where(), "`%s` can end serializeHop before the records were gathered and written", an.Text(s.Node))
				}
			}

			// --- reader
			dh := p.Func(pd + "deserializeHop")
			typeOf := map[string]string{
				"MPP":           "MPPOnionType",
				"AMP":           "AMPOnionType",
				"EncryptedData": "EncryptedDataOnionType",
				"TotalAmtMsat":  "TotalAmtMsatBlindedType",
			}
			for _, fld := range names {
				ws := dh.Assigns(an.Field("routing/route.Hop", fld, nil), false)
				if len(ws) == 0 {
					o.FailAt(dh.ID+"#no-read-of-"+fld, dh.Where(dh.Body.Pos()), "deserializeHop never sets Hop.%s, which verifyAttempt decides on", fld)
					continue
				}
				for _, w := range ws {
					o.Site("deserializeHop: %s", an.Text(w.Node))
					onlyGuards(o, dh, w, []string{`^!\(err != nil\)$`, `^ok$`, `^!\(numElements == 0\)$`, `^!\(\w+ < numElements\)$`}, "read of "+fld)
					if rt, known := typeOf[fld]; known {
						// the `ok` above is the presence of this field's own type
						var inits []string
						ast.Inspect(dh.Body, func(n ast.Node) bool {
							is, isIf := n.(*ast.IfStmt)
							if !isIf || is.Init == nil || !(is.Body.Pos() <= w.Node.Pos() && w.Node.End() <= is.Body.End()) {
								return true
							}
							if as, isAs := is.Init.(*ast.AssignStmt); isAs && len(as.Rhs) == 1 {
								if ix, isIx := ast.Unparen(as.Rhs[0]).(*ast.IndexExpr); isIx {
									inits = append(inits, dh.Canon(ix.Index))
								}
							}
							return true
						})
						if len(inits) != 1 || !reMatch(`^uint64\(record\.`+rt+`\)$`, inits[0]) {
							o.FailAt(dh.ID+"#record-type-of-"+fld, w.Where(), "Hop.%s is read under the presence of %v, expected the record type record.%s alone", fld, inits, rt)
						}
					}
				}
			}
			// the hop handed out is the one the fields were set on
			for _, s := range dh.StrictSuccessReturns() {
				rs := s.Node.(*ast.ReturnStmt)
				o.Site("deserializeHop returns %s", dh.Canon(rs.Results[0]))
			}
		})

	r.Obl("final-hop-is-dereferenced-only-where-it-exists", "GUARD",
		"in the non-test code of payments/db every use of the result of route.Route.FinalHop() is either a comparison with nil or a field selection; a field selection on x.FinalHop() is reachable only through the `x.FinalHop() != nil` edge of a test on the same x (canonical form) — also where x is the route of a stored attempt (an element of payment.InFlightHTLCs() / m.HTLCs): a stored attempt can lack hops (written by an older version, or loaded without them); verifyAttempt returns nil only below attempt.Route.FinalHop() != nil, and once a stored attempt it compares against is found without final hop neither the next iteration nor `return nil` is reachable (the attempt that cannot be compared is an error, it is not skipped)",
		"FinalHop() is nil for a route without hops: RegisterAttempt panicked on it (inside the bbolt transaction on kv) instead of refusing the attempt, and a refused attempt must not be stored on one backend and crash the other; a stored attempt that is skipped instead lets a shard with other MPP / AMP / blinded records join it", 17,
		func(o *an.Obl) {
			stored := regexp.MustCompile(`^\$elem\(\$(p\d|recv)\.(InFlightHTLCs\(\)|HTLCs)\)\.Route$`)
			n, nStored := 0, 0
			for _, f := range p.Funcs(false, "payments/db") {
				if f.Body == nil {
					continue
				}
				calls := f.Calls(func(id string, c *ast.CallExpr) bool { return strings.HasSuffix(id, "route.Route.FinalHop") }, false)
				if len(calls) == 0 {
					continue
				}
				parents := c16f4Parents(f.Body)
				aliases := c16FinalHopAliases(f)
				aliasOf := map[*ast.CallExpr]types.Object{}
				for obj, c := range aliases {
					aliasOf[c] = obj
				}
				for _, s := range calls {
					n++
					call := s.Node.(*ast.CallExpr)
					if obj, held := aliasOf[call]; held {
						// `fh := x.FinalHop()`, fh written by nothing else: every
						// use of fh is a use of the call's result and is held to
						// the same rule, with `fh != nil` as the test
						sel, _ := ast.Unparen(call.Fun).(*ast.SelectorExpr)
						if sel == nil {
							o.FailAt(f.ID+"#final-hop-call-shape", s.Where(), "cannot identify the route of %s", an.Text(call))
							continue
						}
						base := f.Canon(sel.X)
						o.Site("%s: %s holds %s.FinalHop()", f.ID, obj.Name(), base)
						if len(c15ObjsNamed(f, obj.Name())) != 1 {
							o.FailAt(f.ID+"#final-hop-escapes", s.Where(), "the result of %s is held in %s, a name %s declares more than once: dereferences of it are not followed by this rule, re-anchor it", an.Text(call), obj.Name(), f.ID)
							continue
						}
						ast.Inspect(f.Body, func(nd ast.Node) bool {
							id, ok := nd.(*ast.Ident)
							if !ok || f.Info().Uses[id] != obj {
								return true
							}
							var par ast.Node = id
							for {
								par = parents[par]
								if _, isParen := par.(*ast.ParenExpr); !isParen {
									break
								}
							}
							v := f.Graph().Containing(id, false)
							us := an.Site{Fn: f, V: v, Node: id}
							switch x := par.(type) {
							case *ast.BinaryExpr:
								if _, _, isNilCmp := c16f4NilCmp(f.Info(), x); isNilCmp {
									o.Site("%s: nil test of %s.FinalHop() held in %s", f.ID, base, obj.Name())
									return true
								}
							case *ast.SelectorExpr:
								if ast.Unparen(x.X) == ast.Expr(id) {
									if sl := f.Info().Selections[x]; sl != nil && sl.Kind() == types.FieldVal && v != nil {
										if stored.MatchString(base) {
											nStored++
											o.Site("%s: %s on a stored attempt (%s)", f.ID, an.Text(x), base)
										}
										guarded(o, f, us, an.IsNil(an.LocalNamed(obj.Name()), false, obj.Name()+" != nil"))
										return true
									}
								}
							}
							o.FailAt(f.ID+"#final-hop-escapes", f.Where(id.Pos()), "the result of %s, held in %s, is neither tested against nil nor selected from (%s): dereferences of a further copy are not followed by this rule, re-anchor it", an.Text(call), obj.Name(), an.Text(par))
							return true
						})
						continue
					}
					sel, _ := ast.Unparen(call.Fun).(*ast.SelectorExpr)
					var par ast.Node = call
					for {
						par = parents[par]
						if _, isParen := par.(*ast.ParenExpr); !isParen {
							break
						}
					}
					if sel == nil {
						o.FailAt(f.ID+"#final-hop-call-shape", s.Where(), "cannot identify the route of %s", an.Text(call))
						continue
					}
					base := f.Canon(sel.X)
					switch x := par.(type) {
					case *ast.BinaryExpr:
						if _, _, isNilCmp := c16f4NilCmp(f.Info(), x); isNilCmp {
							o.Site("%s: nil test of %s.FinalHop()", f.ID, base)
							continue
						}
					case *ast.SelectorExpr:
						if ast.Unparen(x.X) == ast.Expr(call) {
							if stored.MatchString(base) {
								nStored++
								o.Site("%s: %s on a stored attempt (%s)", f.ID, an.Text(x), base)
							}
							guarded(o, f, s, an.IsNil(an.CallNamed("FinalHop", canonTerm(`^`+regexp.QuoteMeta(base)+`$`)), false, base+".FinalHop() != nil"))
							continue
						}
					}
					o.FailAt(f.ID+"#final-hop-escapes", s.Where(), "the result of %s is neither tested against nil nor selected from on the spot (%s): dereferences of a copy are not followed by this rule, re-anchor it", an.Text(call), an.Text(par))
				}
			}
			if n == 0 {
				o.FailAt(pd+"#final-hop-uses", "", "no use of Route.FinalHop() found in payments/db")
			}
			if nStored == 0 {
				o.FailAt(pd+"#final-hop-of-stored-attempts", "", "no field selection on the final hop of a stored attempt found in payments/db: verifyAttempt no longer compares the new attempt with the attempts in flight, re-anchor")
			}
			va := p.Func(pd + "verifyAttempt")
			var okRets []an.Site
			for _, s := range va.Returns() {
				if rs, ok := s.Node.(*ast.ReturnStmt); ok && len(rs.Results) == 1 && an.IsNilIdent(va.Info(), rs.Results[0]) {
					okRets = append(okRets, s)
					// the test is on the call or on a local holding its result
					held := false
					for _, name := range c16AliasesOfBase(va, `^\$p1\.Route$`) {
						if ok, _ := va.Guarded(s, an.IsNil(an.LocalNamed(name), false, name+" != nil")); ok {
							o.Site("%s below %s != nil (%s holds attempt.Route.FinalHop())", s.String(), name, name)
							held = true
						}
					}
					if !held {
						guarded(o, va, s, an.IsNil(an.CallNamed("FinalHop", canonTerm(`^\$p1\.Route$`)), false, "attempt.Route.FinalHop() != nil"))
					}
				}
			}
			// a stored attempt without final hop ends the admission
			forbidden := append([]an.Site{}, okRets...)
			for _, hd := range c15RangeHeads(va, `^\$p0\.InFlightHTLCs\(\)$`) {
				forbidden = append(forbidden, an.Site{Fn: va, V: hd, Node: hd.Node})
			}
			storedFact := an.IsNil(an.CallNamed("FinalHop", canonTerm(`^\$elem\(\$p0\.InFlightHTLCs\(\)\)\.Route$`)), true, "h.Route.FinalHop() == nil for an attempt in flight")
			storedHeld := c16AliasesOfBase(va, `^\$elem\(\$p0\.InFlightHTLCs\(\)\)\.Route$`)
			for _, name := range storedHeld {
				c15FactStops(o, va, an.IsNil(an.LocalNamed(name), true, name+" == nil for an attempt in flight ("+name+" holds h.Route.FinalHop())"), forbidden, "further admission")
			}
			if len(storedHeld) == 0 || len(va.EdgesOf(storedFact)) > 0 {
				c15FactStops(o, va, storedFact, forbidden, "further admission")
			}
		})

	r.Obl("both-stores-list-attempts-by-attempt-id", "MIRROR",
		"SQL: buildPaymentFromBatchData hands the MPPayment literal a local list as HTLCs; that list is written only by its make(…) definition and by append to itself in the conversion loop, and between the last of those writes and the literal it is sorted (sort.Slice / sort.SliceStable) by a closure that is `list[i].AttemptID < list[j].AttemptID`; KV: fetchHtlcAttempts returns a list filled only by `list[i] = *m[key]` in a loop over a key slice that was sorted ascending (`keys[i] < keys[j]`) before that loop and filled from the keys of m, and the attempt stored under a key of m carries that key as its AttemptID",
		"the sql query orders by attempt_time, the kv store by attempt id: after a wall-clock step, concurrent shards or equal timestamps the same history listed its HTLCs in a different order, which changes TerminalInfo() (the first settled attempt) and every index-based consumer; both loaders must use one order", 8,
		func(o *an.Obl) {
			// --- SQL
			bp := p.Func(pd + "buildPaymentFromBatchData")
			var lit *ast.CompositeLit
			nLit := 0
			for _, cl := range p.CompositeLitsOf(p.LookupType("payments/db", "MPPayment")) {
				if cl.Fn != nil && cl.Fn.ID == bp.ID {
					lit = cl.Node.(*ast.CompositeLit)
					nLit++
				}
			}
			if nLit != 1 {
				o.FailAt(bp.ID+"#payment-literal", bp.Where(bp.Body.Pos()), "expected one MPPayment literal in buildPaymentFromBatchData, found %d", nLit)
				return
			}
			keys := c15LitKeys(lit)
			hid, _ := ast.Unparen(keys["HTLCs"]).(*ast.Ident)
			if hid == nil {
				o.FailAt(bp.ID+"#htlcs-value", bp.Where(lit.Pos()), "the payment's HTLCs are %s, expected the local list of converted attempts", an.Text(keys["HTLCs"]))
				return
			}
			list := bp.Info().Uses[hid]
			litV := bp.Graph().Containing(lit, false)
			litSite := an.Site{Fn: bp, V: litV, Node: lit}
			var grow []an.Site
			for _, w := range c15WritesOfLocal(bp, list) {
				call, _ := w.rhs.(*ast.CallExpr)
				id := ""
				if call != nil {
					id = an.CalleeID(bp.Info(), call)
				}
				switch {
				case w.def && id == "builtin.make":
				case w.tok == token.ASSIGN && id == "builtin.append" && len(call.Args) == 2 && c15IdentIs(bp.Info(), call.Args[0], list):
					if c := bp.Canon(call.Args[1]); !reMatch(`^\*`+regexpQuote(pd)+`dbAttemptToHTLCAttempt\(\$elem\(`, c) {
						o.FailAt(bp.ID+"#attempt-source", w.site.Where(), "the attempt list grows by %s, expected the conversion of each loaded attempt row", c)
					}
					grow = append(grow, w.site)
				default:
					o.FailAt(bp.ID+"#attempt-list-rewritten", w.site.Where(), "the attempt list is written by `%s`: its order is no longer the order it was sorted into", an.Text(w.site.Node))
				}
			}
			var sorts []an.Site
			for _, s := range c16f4SortCalls(bp) {
				if a := callArg(s, 0); a != nil && c15IdentIs(bp.Info(), a, list) {
					sorts = append(sorts, s)
				}
			}
			if needExactly(o, bp, "sort of the attempt list", sorts, 1) && need(o, bp, "append of a converted attempt", grow, 1) {
				fl, _ := ast.Unparen(callArg(sorts[0], 1)).(*ast.FuncLit)
				if fl == nil {
					o.FailAt(bp.ID+"#sort-closure", sorts[0].Where(), "the attempts are sorted by %s, expected a comparison closure", an.Text(callArg(sorts[0], 1)))
				} else if key, asc, err := c16f4Less(bp, fl); err != nil {
					o.FailAt(bp.ID+"#sort-closure", sorts[0].Where(), "%v", err)
				} else {
					o.Site("sql: attempts sorted by %s ascending=%v", key, asc)
					if key != hid.Name+"[#].AttemptID" || !asc {
						o.FailAt(bp.ID+"#sort-key", sorts[0].Where(), "the sql loader orders the attempts by %s (ascending=%v), the kv loader by attempt id ascending", key, asc)
					}
				}
				before(o, bp, "the sort by attempt id", sorts, "the payment literal", []an.Site{litSite})
				for _, g := range grow {
					if bp.Graph().Reach(sorts[0].V, nil, nil)[g.V] {
						o.FailAt(bp.ID+"#append-after-sort", g.Where(), "an attempt is appended after the list was sorted")
					}
				}
			}

			// --- KV
			fh := p.Func(pd + "fetchHtlcAttempts")
			var ret types.Object
			for _, s := range fh.StrictSuccessReturns() {
				rs := s.Node.(*ast.ReturnStmt)
				id, _ := ast.Unparen(rs.Results[0]).(*ast.Ident)
				if id == nil || (ret != nil && fh.Info().Uses[id] != ret) {
					o.FailAt(fh.ID+"#result", s.Where(), "fetchHtlcAttempts returns %s, expected the list filled in key order", an.Text(rs.Results[0]))
					return
				}
				ret = fh.Info().Uses[id]
			}
			if ret == nil {
				o.FailAt(fh.ID+"#result", fh.Where(fh.Body.Pos()), "fetchHtlcAttempts has no success return")
				return
			}
			// element writes of the result
			var fills []an.Site
			keyList, attemptMap := "", ""
			for _, s := range fh.Assigns(an.Index(c15LocalTerm(ret), an.Any()), false) {
				as := s.Node.(*ast.AssignStmt)
				l, rr := fh.Canon(as.Lhs[0]), fh.Canon(as.Rhs[0])
				o.Site("kv: %s = %s", l, rr)
				m := regexp.MustCompile(`^.*\[\$key\((.+)\)\]$`).FindStringSubmatch(l)
				if as.Tok != token.ASSIGN || m == nil || !strings.HasSuffix(rr, "[$elem("+m[1]+")]") || !strings.HasPrefix(rr, "*") {
					o.FailAt(fh.ID+"#fill", s.Where(), "the result is filled by `%s` (%s = %s), expected result[i] = *map[key] for the i-th sorted key", an.Text(as), l, rr)
					continue
				}
				keyList = m[1]
				attemptMap = strings.TrimSuffix(strings.TrimPrefix(rr, "*"), "[$elem("+m[1]+")]")
				fills = append(fills, s)
			}
			for _, w := range c15WritesOfLocal(fh, ret) {
				if call, _ := w.rhs.(*ast.CallExpr); !(w.def && call != nil && an.CalleeID(fh.Info(), call) == "builtin.make") {
					o.FailAt(fh.ID+"#result-rewritten", w.site.Where(), "the result list is written by `%s` besides the element fill", an.Text(w.site.Node))
				}
			}
			if !needExactly(o, fh, "result[i] = *map[key]", fills, 1) {
				return
			}
			// the key slice: the object ranged over by the fill loop
			var keysObj types.Object
			var fillHead an.Site
			for _, hd := range c15RangeHeads(fh, `^`+regexp.QuoteMeta(keyList)+`$`) {
				rs := hd.Node.(*ast.RangeStmt)
				if id, ok := ast.Unparen(rs.X).(*ast.Ident); ok && rs.Pos() <= fills[0].Node.Pos() && fills[0].Node.End() <= rs.End() {
					keysObj = fh.Info().Uses[id]
					fillHead = an.Site{Fn: fh, V: hd, Node: rs}
				}
			}
			if keysObj == nil {
				o.FailAt(fh.ID+"#key-list", fills[0].Where(), "cannot identify the key slice the fill loop ranges over (%s)", keyList)
				return
			}
			var ksorts []an.Site
			for _, s := range c16f4SortCalls(fh) {
				if a := callArg(s, 0); a != nil && c15IdentIs(fh.Info(), a, keysObj) {
					ksorts = append(ksorts, s)
				}
			}
			if needExactly(o, fh, "sort of the attempt ids", ksorts, 1) {
				fl, _ := ast.Unparen(callArg(ksorts[0], 1)).(*ast.FuncLit)
				if fl == nil {
					o.FailAt(fh.ID+"#sort-closure", ksorts[0].Where(), "the keys are sorted by %s, expected a comparison closure", an.Text(callArg(ksorts[0], 1)))
				} else if key, asc, err := c16f4Less(fh, fl); err != nil {
					o.FailAt(fh.ID+"#sort-closure", ksorts[0].Where(), "%v", err)
				} else {
					o.Site("kv: keys sorted by %s ascending=%v", key, asc)
					if key != keysObj.Name()+"[#]" || !asc {
						o.FailAt(fh.ID+"#sort-key", ksorts[0].Where(), "the kv loader orders the attempts by %s (ascending=%v), expected the attempt ids ascending", key, asc)
					}
				}
				before(o, fh, "the sort of the attempt ids", ksorts, "the fill loop", []an.Site{fillHead})
			}
			// the keys are the keys of the attempt map, written only before the sort
			for _, s := range fh.Assigns(an.Index(c15LocalTerm(keysObj), an.Any()), false) {
				as := s.Node.(*ast.AssignStmt)
				rr := fh.Canon(as.Rhs[0])
				o.Site("kv: key slice element <- %s", rr)
				if rr != "$key("+attemptMap+")" {
					o.FailAt(fh.ID+"#key-source", s.Where(), "the key slice is filled with %s, expected the keys of the attempt map %s", rr, attemptMap)
				}
				if len(ksorts) == 1 && fh.Graph().Reach(ksorts[0].V, nil, nil)[s.V] {
					o.FailAt(fh.ID+"#key-written-after-sort", s.Where(), "a key is written after the keys were sorted")
				}
			}
			// the map key is the attempt id
			for _, lf := range fh.Lits {
				ids := lf.Assigns(an.FieldPath(an.Any(), "AttemptID"), false)
				infos := lf.Assigns(an.FieldPath(an.Any(), "HTLCAttemptInfo"), false)
				if len(ids) == 0 && len(infos) == 0 {
					continue
				}
				if len(ids) != 1 || len(infos) != 1 {
					o.FailAt(fh.ID+"#attempt-id-of-key", lf.Where(lf.Body.Pos()), "expected one write of AttemptID and one of HTLCAttemptInfo in the bucket walk, found %d and %d", len(ids), len(infos))
					continue
				}
				idv := lf.Canon(ids[0].Node.(*ast.AssignStmt).Rhs[0])
				tgt := lf.Canon(infos[0].Node.(*ast.AssignStmt).Lhs[0])
				o.Site("kv: attempt id %s stored under %s", idv, tgt)
				if !strings.Contains(tgt, "["+idv+"].HTLCAttemptInfo") {
					o.FailAt(fh.ID+"#attempt-id-of-key", ids[0].Where(), "the attempt stored at %s is given the id %s: the map key the list is sorted by is not the attempt id", tgt, idv)
				}
			}
		})

	r.Obl("sql-bulk-delete-window-excludes-no-payment", "ROLE",
		"the FilterPaymentsParams literal of SQLStore.DeletePayments leaves CreatedAfter at the zero time (the key absent, or an empty time.Time literal), sets no intent-type filter and no upper id bound, its IndexOffsetGet is the page cursor handed to the closure, and CreatedBefore is a time.Date of a constant year of at least 9999; the literal is what FilterPayments is called with",
		"the kv store's DeletePayments walks every payment bucket; the sql statement filters `created_at >= CreatedAfter`: with the unix epoch as lower bound a payment with a zero or pre-1970 creation time (migrated kv payments carry one) was never bulk-deleted on sql and is on kv", 4,
		func(o *an.Obl) {
			dp := p.Func(pd + "SQLStore.DeletePayments")
			pt := p.LookupTypeAny("sqldb/sqlc", "FilterPaymentsParams")
			var lits []*ast.CompositeLit
			var owner *an.Func
			for _, lf := range append([]*an.Func{dp}, dp.Lits...) {
				for _, v := range lf.Graph().V {
					v.Inspect(false, func(n ast.Node) bool {
						cl, ok := n.(*ast.CompositeLit)
						if !ok {
							return true
						}
						if nt := an.NamedOf(lf.Info().TypeOf(cl)); nt != nil && pt != nil && nt.Obj() == pt.Obj() {
							lits = append(lits, cl)
							owner = lf
						}
						return true
					})
				}
			}
			if pt == nil || len(lits) != 1 {
				o.FailAt(dp.ID+"#filter-literal", dp.Where(dp.Body.Pos()), "expected one sqlc.FilterPaymentsParams literal in SQLStore.DeletePayments, found %d", len(lits))
				return
			}
			lit := lits[0]
			keys := c15LitKeys(lit)
			if keys == nil {
				o.FailAt(dp.ID+"#filter-literal-positional", dp.Where(lit.Pos()), "the filter is built with positional fields")
				return
			}
			info := owner.Info()
			for k, v := range keys {
				o.Site("DeletePayments filter: %s = %s", k, owner.Canon(v))
				switch k {
				case "NumLimit":
				case "CreatedAfter":
					cl, isLit := ast.Unparen(v).(*ast.CompositeLit)
					if !isLit || len(cl.Elts) != 0 || an.TypeID(info.TypeOf(cl)) != "time.Time" {
						o.FailAt(dp.ID+"#created-after", dp.Where(v.Pos()), "the bulk delete only looks at payments created at or after %s; the kv store deletes whatever the creation time is: the lower bound has to be the zero time", an.Text(v))
					}
				case "CreatedBefore":
					call, isCall := ast.Unparen(v).(*ast.CallExpr)
					ok := isCall && an.CalleeID(info, call) == "time.Date" && len(call.Args) == 8
					if ok {
						tv := info.Types[call.Args[0]]
						y, exact := int64(0), false
						if tv.Value != nil {
							y, exact = constant.Int64Val(constant.ToInt(tv.Value))
						}
						ok = exact && y >= 9999
					}
					if !ok {
						o.FailAt(dp.ID+"#created-before", dp.Where(v.Pos()), "the bulk delete only looks at payments created up to %s, expected a time.Date in the year 9999 or later", an.Text(v))
					}
				case "IndexOffsetGet":
					if c := owner.Canon(v); !reMatch(`^sqldb\.SQLInt64\(\$lit\.p1\)$|^sqldb\.SQLInt64\(\$p1\)$`, c) {
						o.FailAt(dp.ID+"#cursor", dp.Where(v.Pos()), "the page starts after %s, expected the cursor handed to the query closure", c)
					}
				default:
					o.FailAt(dp.ID+"#filter-"+k, dp.Where(v.Pos()), "the bulk delete filters by %s = %s; the kv store applies no such filter", k, an.Text(v))
				}
			}
			if _, ok := keys["IndexOffsetGet"]; !ok {
				o.FailAt(dp.ID+"#cursor", dp.Where(lit.Pos()), "the filter has no page cursor")
			}
			// the literal is the query's argument and is not edited in between
			fcalls := owner.Calls(an.CalleeNamed("FilterPayments"), false)
			if needExactly(o, owner, "FilterPayments", fcalls, 1) {
				arg := callArg(fcalls[0], 1)
				id, _ := ast.Unparen(arg).(*ast.Ident)
				switch {
				case id != nil:
					obj := info.Uses[id]
					for _, w := range c15WritesOfLocal(owner, obj) {
						if !(w.def && w.rhs != nil && ast.Unparen(w.rhs) == ast.Expr(lit)) {
							o.FailAt(dp.ID+"#filter-rewritten", w.site.Where(), "the filter is written by `%s` besides its literal", an.Text(w.site.Node))
						}
					}
					ast.Inspect(owner.Body, func(n ast.Node) bool {
						as, ok := n.(*ast.AssignStmt)
						if !ok {
							return true
						}
						for _, l := range as.Lhs {
							if sel, ok := ast.Unparen(l).(*ast.SelectorExpr); ok && c15IdentIs(info, sel.X, obj) {
								o.FailAt(dp.ID+"#filter-field-rewritten", dp.Where(as.Pos()), "`%s` edits the filter after its literal", an.Text(as))
							}
						}
						return true
					})
				case ast.Unparen(arg) == ast.Expr(lit):
				default:
					o.FailAt(dp.ID+"#filter-argument", fcalls[0].Where(), "FilterPayments is called with %s, expected the filter literal", an.Text(arg))
				}
			}
		})

	r.Obl("unknown-payment-is-ErrPaymentNotInitiated-on-kv", "PATH",
		"in every non-test function of payments/db that looks a payment bucket up by a payment-hash parameter (Nested[ReadWrite|Read]Bucket(hash[:]) on the result of [ReadWrite|Read]Bucket(paymentsRootBucket)): each return that is reachable only through the `== nil` edge of a test of one of these two lookups hands out ErrPaymentNotInitiated as its error",
		"the sql store answers every operation on an unknown payment hash with ErrPaymentNotInitiated; kv DeletePayment answered nil when the root bucket did not exist yet: identical (empty) histories were answered differently, and callers test the sentinel", 10,
		func(o *an.Obl) {
			isLookup := func(f *an.Func, c *ast.CallExpr) string {
				id := an.CalleeID(f.Info(), c)
				last := id[strings.LastIndex(id, ".")+1:]
				if len(c.Args) != 1 {
					return ""
				}
				a := f.Canon(c.Args[0])
				switch last {
				case "ReadWriteBucket", "ReadBucket":
					if a == pd+"paymentsRootBucket" {
						return "root"
					}
				case "NestedReadWriteBucket", "NestedReadBucket":
					if reMatch(`^\$p\d\[:\]$`, a) {
						if se, ok := ast.Unparen(c.Args[0]).(*ast.SliceExpr); ok {
							if t := f.Info().TypeOf(se.X); t != nil && an.TypeID(t) == "lntypes.Hash" {
								return "payment"
							}
						}
					}
				}
				return ""
			}
			nFuncs := 0
			lookupFns := map[string]bool{}
			for _, root := range p.Funcs(false, "payments/db") {
				if root.Lit != nil || root.Body == nil {
					continue
				}
				for _, f := range append([]*an.Func{root}, root.Lits...) {
					// locals defined by a lookup
					type look struct {
						obj  types.Object
						kind string
					}
					var looks []look
					hasPayment := false
					ast.Inspect(f.Body, func(n ast.Node) bool {
						if fl, ok := n.(*ast.FuncLit); ok && fl != f.Lit {
							return false
						}
						as, ok := n.(*ast.AssignStmt)
						if !ok || len(as.Lhs) != 1 || len(as.Rhs) != 1 {
							return true
						}
						c, ok := ast.Unparen(as.Rhs[0]).(*ast.CallExpr)
						if !ok {
							return true
						}
						k := isLookup(f, c)
						if k == "" {
							return true
						}
						if id, ok := as.Lhs[0].(*ast.Ident); ok {
							obj := f.Info().Defs[id]
							if obj == nil {
								obj = f.Info().Uses[id]
							}
							looks = append(looks, look{obj, k})
							if k == "payment" {
								hasPayment = true
							}
						}
						return true
					})
					if !hasPayment {
						continue
					}
					nFuncs++
					lookupFns[root.ID] = true
					for _, lk := range looks {
						missing := an.IsNil(c15LocalTerm(lk.obj), true, lk.obj.Name()+" == nil")
						n := 0
						for _, s := range f.Returns() {
							rs, isRet := s.Node.(*ast.ReturnStmt)
							if !isRet || len(rs.Results) == 0 {
								continue
							}
							if ok, _ := f.Guarded(s, missing); !ok {
								continue
							}
							n++
							got := f.Canon(rs.Results[len(rs.Results)-1])
							o.Site("%s: no %s bucket (%s == nil) -> %s", f.ID, lk.kind, lk.obj.Name(), got)
							if got != pd+"ErrPaymentNotInitiated" {
								o.FailAt(root.ID+"#unknown-payment-"+lk.kind, s.Where(), "%s answers a missing %s bucket with %s; the sql store and the other kv methods answer an unknown payment with ErrPaymentNotInitiated", root.ID, lk.kind, got)
							}
						}
						if n == 0 {
							o.FailAt(root.ID+"#unchecked-lookup-"+lk.kind, f.Where(f.Body.Pos()), "%s does not end with an error when the %s bucket lookup (%s) finds nothing", root.ID, lk.kind, lk.obj.Name())
						}
					}
				}
			}
			// every kv entry point that is given a payment hash (other than
			// the one that creates the payment) goes through such a lookup
			lookups := c16f4SortedKeys(lookupFns)
			for _, f := range p.Funcs(false, "payments/db") {
				if f.Lit != nil || f.Decl == nil || f.Decl.Recv == nil || !strings.HasPrefix(f.ID, pd+"KVStore.") || !f.Decl.Name.IsExported() || f.ID == pd+"KVStore.InitPayment" {
					continue
				}
				byHash := false
				for _, pv := range f.Params(false) {
					if pv != nil && an.TypeID(pv.Type()) == "lntypes.Hash" {
						byHash = true
					}
				}
				if !byHash {
					continue
				}
				reach := p.Reachable(f.ID)
				ok := false
				for _, l := range lookups {
					if reach[l] {
						ok = true
					}
				}
				o.Site("%s finds its payment through one of %v: %v", f.ID, lookups, ok)
				if !ok {
					o.FailAt(f.ID+"#no-tabled-lookup", f.Where(f.Body.Pos()), "%s is given a payment hash but reaches none of the bucket lookups %v whose not-found exits this rule decides", f.ID, lookups)
				}
			}
			if nFuncs < 3 {
				o.FailAt(pd+"#bucket-lookups", "", "expected at least the three lookups by payment hash (fetchPaymentBucket, fetchPaymentBucketUpdate, KVStore.DeletePayment), found %d", nFuncs)
			}
		})

	r.Obl("shards-of-one-payment-carry-consistent-records", "GUARD",
		"verifyAttempt has exactly one return of ErrMixedAMPAndNonAMPShards, reachable only where exactly one of attempt.Route.FinalHop().AMP and h.Route.FinalHop().AMP is nil, and exactly one of ErrAMPSetIDMismatch, reachable only where the new shard's AMP record is non-nil and its SetID() differs from that of h's record, h being the element of the loop over payment.InFlightHTLCs(); once either condition holds neither the next iteration nor `return nil` is reachable (likewise for the blinded-mix, blinded-total, payment-address and MPP-total mismatches below); every iteration of that loop reaches the presence comparison unless the shard is blinded or carries no MPP record (the exits the MPP / blinded checks take); the same table holds for the MPP and blinded rejections: ErrMixedBlindedAndNonBlindedPayments under isBlinded != hBlinded, ErrBlindedPaymentTotalAmountMismatch under differing TotalAmtMsat, ErrMPPayment / ErrNonMPPayment under exactly the nil pattern of the two MPP records, ErrMPPPaymentAddrMismatch / ErrMPPTotalAmountMismatch under differing PaymentAddr() / TotalMsat()",
		"a shard of another AMP set, or a shard without AMP record next to AMP shards, was admitted: the receiver can never reassemble such a payment while the sender counts its amount as in flight", 14,
		func(o *an.Obl) {
			va := p.Func(pd + "verifyAttempt")
			heads := c15RangeHeads(va, `^\$p0\.InFlightHTLCs\(\)$`)
			if len(heads) != 1 {
				o.FailAt(va.ID+"#inflight-loop", va.Where(va.Body.Pos()), "expected one loop over payment.InFlightHTLCs() in verifyAttempt, found %d", len(heads))
				return
			}
			loop := heads[0].Node.(*ast.RangeStmt)
			newHop, oldHop := `$p1.Route.FinalHop()`, `$elem($p0.InFlightHTLCs()).Route.FinalHop()`
			q := regexp.QuoteMeta
			ct := func(s string) an.Term { return canonTerm(`^` + q(s) + `$`) }
			differ := func(suffix, desc string) an.Fact {
				return an.Cmp(ct(newHop+suffix), an.NE, ct(oldHop+suffix), desc)
			}
			blindedNew := ct("(len(" + newHop + ".EncryptedData) != 0)")
			blindedOld := ct("(len(" + oldHop + ".EncryptedData) != 0)")
			type row struct {
				err   string
				n     int
				facts []an.Fact
				// final: the last fact alone decides the rejection (its edge
				// is taken only where the others hold already)
				final bool
			}
			table := []row{
				{"ErrMixedAMPAndNonAMPShards", 1, []an.Fact{c16f4ExactlyOneNil(newHop+".AMP", oldHop+".AMP", "exactly one of the two AMP records is nil")}, true},
				{"ErrAMPSetIDMismatch", 1, []an.Fact{
					an.IsNil(ct(newHop+".AMP"), false, "the new shard has an AMP record"),
					differ(".AMP.SetID()", "the two set ids differ")}, true},
				{"ErrMixedBlindedAndNonBlindedPayments", 1, []an.Fact{an.Cmp(blindedNew, an.NE, blindedOld, "isBlinded != hBlinded")}, true},
				{"ErrBlindedPaymentTotalAmountMismatch", 1, []an.Fact{an.Truth(blindedNew, true, "isBlinded"), differ(".TotalAmtMsat", "the two blinded totals differ")}, true},
				{"ErrMPPayment", 1, []an.Fact{an.IsNil(ct(newHop+".MPP"), true, "mpp == nil"), an.IsNil(ct(oldHop+".MPP"), false, "hMpp != nil")}, false},
				{"ErrNonMPPayment", 1, []an.Fact{an.IsNil(ct(newHop+".MPP"), false, "mpp != nil"), an.IsNil(ct(oldHop+".MPP"), true, "hMpp == nil")}, false},
				{"ErrMPPPaymentAddrMismatch", 1, []an.Fact{differ(".MPP.PaymentAddr()", "the two payment addresses differ")}, true},
				{"ErrMPPTotalAmountMismatch", 1, []an.Fact{differ(".MPP.TotalMsat()", "the two MPP totals differ")}, true},
			}
			var okRets []an.Site
			for _, s := range va.Returns() {
				if rs, ok := s.Node.(*ast.ReturnStmt); ok && len(rs.Results) == 1 && an.IsNilIdent(va.Info(), rs.Results[0]) {
					okRets = append(okRets, s)
				}
			}
			headSite := an.Site{Fn: va, V: heads[0], Node: loop}
			for _, rw := range table {
				var rets []an.Site
				for _, s := range va.Returns() {
					rs, ok := s.Node.(*ast.ReturnStmt)
					if ok && len(rs.Results) == 1 && va.Canon(rs.Results[0]) == pd+rw.err {
						rets = append(rets, s)
					}
				}
				if len(rets) != rw.n {
					o.FailAt(va.ID+"#returns-of-"+rw.err, va.Where(va.Body.Pos()), "verifyAttempt has %d returns of %s, expected %d", len(rets), rw.err, rw.n)
					continue
				}
				for _, s := range rets {
					if s.Node.Pos() < loop.Pos() || s.Node.End() > loop.End() {
						o.FailAt(va.ID+"#outside-loop-"+rw.err, s.Where(), "%s is decided outside the loop over the attempts in flight", rw.err)
					}
					for _, fc := range rw.facts {
						guarded(o, va, s, fc)
					}
				}
				if rw.final {
					// the mismatch really rejects: once it is found neither the
					// next iteration nor the admission is reachable
					c15FactStops(o, va, rw.facts[len(rw.facts)-1], append([]an.Site{headSite}, okRets...), "further admission")
				}
			}
			// no iteration skips the AMP comparisons other than through the exits
			// of the MPP / blinded checks
			amp := table[0].facts[0]
			var tests []an.Site
			seen := map[*flow.Vertex]bool{}
			for e := range va.EdgesOf(amp) {
				if !seen[e.From] {
					seen[e.From] = true
					tests = append(tests, an.Site{Fn: va, V: e.From, Node: e.From.Node})
				}
			}
			if len(tests) == 0 {
				o.FailAt(va.ID+"#amp-presence-test", va.Where(loop.Pos()), "verifyAttempt does not compare the presence of the two AMP records")
				return
			}
			skip := an.AnyOf("the shard is blinded or carries no MPP record",
				an.Truth(blindedNew, true, ""), an.IsNil(ct(newHop+".MPP"), true, ""))
			everyIterationOr(o, va, `^\$p0\.InFlightHTLCs\(\)$`, tests, skip, "the AMP presence comparison")
			// and the set ids are compared whenever both records are present:
			// from the "same presence" edge, with a record present, the
			// comparison is met before the iteration ends
			var idTests []an.Site
			seen = map[*flow.Vertex]bool{}
			for e := range va.EdgesOf(table[1].facts[1]) {
				if !seen[e.From] {
					seen[e.From] = true
					idTests = append(idTests, an.Site{Fn: va, V: e.From, Node: e.From.Node})
				}
			}
			if need(o, va, "comparison of the two set ids", idTests, 1) {
				stop := map[*flow.Vertex]bool{}
				for _, t := range idTests {
					stop[t.V] = true
				}
				noAmp := va.EdgesOf(an.IsNil(ct(newHop+".AMP"), true, "amp == nil"))
				for _, t := range tests {
					for _, e := range t.V.Out {
						if amp.Hold(va, e) {
							continue
						}
						reach := va.Graph().Reach(e.To, noAmp, stop)
						o.Site("with both AMP records present every path from %s meets the set id comparison", va.Where(t.V.Pos()))
						if stop[e.To] {
							continue
						}
						if reach[heads[0]] {
							o.FailAt(va.ID+"#set-id-comparison-skipped", va.Where(t.V.Pos()), "an iteration with both AMP records present can end without comparing their set ids")
						}
						for _, s := range okRets {
							if reach[s.V] {
								o.FailAt(va.ID+"#set-id-comparison-skipped", va.Where(t.V.Pos()), "verifyAttempt can admit the shard with both AMP records present without comparing their set ids")
							}
						}
					}
				}
			}
		})
}

// c16FinalHopAliases lists the locals of f that hold nothing but the result of
// one route.Route.FinalHop() call: declared by `x := r.FinalHop()` (or `var x
// = r.FinalHop()`), written by nothing else, address never taken.  A use of
// such a local is a use of the call's result.
func c16FinalHopAliases(f *an.Func) map[types.Object]*ast.CallExpr {
	out := map[types.Object]*ast.CallExpr{}
	if f == nil || f.Body == nil {
		return out
	}
	info := f.Info()
	consider := func(lhs *ast.Ident, rhs ast.Expr) {
		c, ok := ast.Unparen(rhs).(*ast.CallExpr)
		if !ok || !strings.HasSuffix(an.CalleeID(info, c), "route.Route.FinalHop") {
			return
		}
		obj := info.Defs[lhs]
		if obj == nil {
			return
		}
		ws := c15WritesOfLocal(f, obj)
		if len(ws) != 1 || !ws[0].def {
			return
		}
		out[obj] = c
	}
	ast.Inspect(f.Body, func(n ast.Node) bool {
		switch x := n.(type) {
		case *ast.AssignStmt:
			if x.Tok == token.DEFINE && len(x.Lhs) == 1 && len(x.Rhs) == 1 {
				if id, ok := x.Lhs[0].(*ast.Ident); ok {
					consider(id, x.Rhs[0])
				}
			}
		case *ast.ValueSpec:
			if len(x.Names) == 1 && len(x.Values) == 1 {
				consider(x.Names[0], x.Values[0])
			}
		}
		return true
	})
	return out
}

// c16AliasesOfBase: the names of the FinalHop aliases of f whose call is made
// on a route with a canonical form matching baseRe (sorted).
func c16AliasesOfBase(f *an.Func, baseRe string) []string {
	var out []string
	for obj, c := range c16FinalHopAliases(f) {
		sel, _ := ast.Unparen(c.Fun).(*ast.SelectorExpr)
		if sel == nil || !reMatch(baseRe, f.Canon(sel.X)) || len(c15ObjsNamed(f, obj.Name())) != 1 {
			continue
		}
		out = append(out, obj.Name())
	}
	sort.Strings(out)
	return out
}

// c16ElemOfKeyed rewrites, in a canonical form, the element of a ranged
// collection that is reached through the loop's own key (`A[$key(A)]`, also
// through a pointer to it, `&A[$key(A)]`, whose selections dereference
// implicitly) to the element form `$elem(A)` the by-value loop yields.
func c16ElemOfKeyed(c string) string {
	const open = "[$key("
	for from := 0; ; {
		i := strings.Index(c[from:], open)
		if i < 0 {
			return c
		}
		i += from
		// the collection named inside $key( ... )
		depth, j := 1, i+len(open)
		for ; j < len(c) && depth > 0; j++ {
			switch c[j] {
			case '(':
				depth++
			case ')':
				depth--
			}
		}
		if depth != 0 || j >= len(c) || c[j] != ']' {
			from = i + len(open)
			continue
		}
		coll := c[i+len(open) : j-1]
		if coll == "" || !strings.HasSuffix(c[:i], coll) {
			from = i + len(open)
			continue
		}
		start := i - len(coll)
		// the collection must be a whole operand, not the tail of a longer one
		if start > 0 {
			if p := c[start-1]; p == '.' || p == '$' || p == '_' || (p >= '0' && p <= '9') || (p >= 'a' && p <= 'z') || (p >= 'A' && p <= 'Z') {
				from = i + len(open)
				continue
			}
		}
		if start > 0 && c[start-1] == '&' {
			// &A[k].F selects from the element itself; a bare &A[k] (no
			// selection following) stays a pointer and is left alone
			if j+1 < len(c) && c[j+1] == '.' {
				start--
			} else {
				from = i + len(open)
				continue
			}
		}
		c = c[:start] + "$elem(" + coll + ")" + c[j+1:]
		from = start
	}
}
