package an

import (
	"encoding/json"
	"fmt"
	"os"
	"path/filepath"
	"regexp"
	"runtime/debug"
	"sort"
	"strings"
	"time"
)

// Failure is one violated rule instance.
type Failure struct {
	Key   string `json:"key"`   // obligation id + "#" + construct: stable, no line numbers
	Where string `json:"where"` // file:line (orientation only)
	Msg   string `json:"msg"`
	Known string `json:"known_finding,omitempty"`
}

// Obl is one obligation: a rule instance set with a vacuity floor.
type Obl struct {
	ID       string    `json:"id"`
	Engine   string    `json:"engine"`
	Rule     string    `json:"rule"`
	Why      string    `json:"necessary_because,omitempty"`
	Matched  int       `json:"matched"`
	Floor    int       `json:"floor"`
	Sites    []string  `json:"sites"`
	Notes    []string  `json:"notes,omitempty"`
	Failures []Failure `json:"failures,omitempty"`
	Status   string    `json:"status"`
}

// Run is the state of one property check.
type Run struct {
	Property  string
	Tier      string
	Prog      *Prog
	Obls      []*Obl
	known     map[string]string // key -> description
	knownUsed map[string]bool
	start     time.Time
	Extra     map[string]any
	KnownPath string
	// WideLoader loads the whole module for who-may rules on exported
	// objects; nil means: use Prog.
	WideLoader func() (*Prog, error)
	wide       *Prog
}

// KnownFindings file format.
type KnownFindings struct {
	Findings []struct {
		Property string `json:"property"`
		Key      string `json:"key"`
		What     string `json:"what"`
	} `json:"findings"`
	Fixed []string `json:"fixed"`
}

// NewRun creates a run and loads the known-findings file.
func NewRun(property, tier string, prog *Prog, knownPath string) (*Run, error) {
	r := &Run{Property: property, Tier: tier, Prog: prog, known: map[string]string{}, knownUsed: map[string]bool{}, start: time.Now(), Extra: map[string]any{}, KnownPath: knownPath}
	if knownPath != "" {
		b, err := os.ReadFile(knownPath)
		if err == nil {
			var kf KnownFindings
			if err := json.Unmarshal(b, &kf); err != nil {
				return nil, fmt.Errorf("known findings: %w", err)
			}
			for _, f := range kf.Findings {
				if f.Property == property {
					r.known[f.Key] = f.What
				}
			}
		}
	}
	return r, nil
}

// Obl runs one obligation. A panic (unresolved anchor, checker bug) fails the
// obligation: a rule that could not be evaluated never passes.
func (r *Run) Obl(id, engine, rule, why string, floor int, body func(o *Obl)) {
	o := &Obl{ID: r.Property + "/" + engine + "/" + id, Engine: engine, Rule: rule, Why: why, Floor: floor}
	r.Obls = append(r.Obls, o)
	func() {
		defer func() {
			if x := recover(); x != nil {
				if ae, ok := x.(AnchorError); ok {
					o.FailAt("anchor", "", "%s", ae.Error())
					return
				}
				st := string(debug.Stack())
				if len(st) > 1500 {
					st = st[:1500]
				}
				o.FailAt("checker-panic", "", "checker panic: %v\n%s", x, st)
			}
		}()
		body(o)
	}()
	if o.Matched < o.Floor {
		o.FailAt("floor", "", "rule matched %d constructs, fewer than the %d confirmed by reading: the anchor moved or the rule no longer sees it", o.Matched, o.Floor)
	}
	// known findings
	for i := range o.Failures {
		if what, ok := r.known[o.Failures[i].Key]; ok {
			o.Failures[i].Known = what
			r.knownUsed[o.Failures[i].Key] = true
		}
	}
	o.Status = "discharged"
	for _, f := range o.Failures {
		if f.Known == "" {
			o.Status = "VIOLATED"
		}
	}
	if o.Status == "discharged" && len(o.Failures) > 0 {
		o.Status = "known-finding"
	}
	sort.Strings(o.Sites)
}

// Site records an analysed construct.
func (o *Obl) Site(format string, a ...any) {
	o.Matched++
	s := fmt.Sprintf(format, a...)
	if len(o.Sites) < 60 {
		o.Sites = append(o.Sites, s)
	}
}

// Note records free-form information in the evidence.
func (o *Obl) Note(format string, a ...any) {
	if len(o.Notes) < 60 {
		o.Notes = append(o.Notes, fmt.Sprintf(format, a...))
	}
}

var lineRe = regexp.MustCompile(`:\d+`)

// FailAt records a violation. construct identifies the offending construct
// without line numbers.
func (o *Obl) FailAt(construct, where, format string, a ...any) {
	construct = lineRe.ReplaceAllString(construct, "")
	o.Failures = append(o.Failures, Failure{Key: o.ID + "#" + construct, Where: where, Msg: fmt.Sprintf(format, a...)})
}

// Check is a convenience: count the site and fail if !ok.
func (o *Obl) Check(ok bool, construct, where, format string, a ...any) bool {
	if !ok {
		o.FailAt(construct, where, format, a...)
	}
	return ok
}

// Finish prints the verdict lines, writes evidence and violation files and
// returns the exit code.
func (r *Run) Finish(verifDir string, seed int64, loads []map[string]any) int {
	evDir := filepath.Join(verifDir, "evidence")
	vioDir := filepath.Join(evDir, "violations")
	os.MkdirAll(vioDir, 0o755)
	// remove stale violation files of this property
	if ents, err := os.ReadDir(vioDir); err == nil {
		for _, e := range ents {
			if strings.HasPrefix(e.Name(), r.Property+"-") {
				os.Remove(filepath.Join(vioDir, e.Name()))
			}
		}
	}
	nViol, nKnown, discharged, nontrivial, sites := 0, 0, 0, 0, 0
	var samples []any
	for _, o := range r.Obls {
		sites += o.Matched
		if o.Matched > 0 {
			nontrivial++
		}
		if o.Status != "VIOLATED" {
			discharged++
		}
		samples = append(samples, o)
		for _, f := range o.Failures {
			if f.Known != "" {
				nKnown++
				fmt.Printf("KNOWN-FINDING: property=%s %s: %s\n", r.Property, f.Key, f.Known)
				continue
			}
			nViol++
			name := r.Property + "-" + sanitize(strings.TrimPrefix(f.Key, r.Property+"/")) + ".json"
			path := filepath.Join(vioDir, name)
			b, _ := json.MarshalIndent(map[string]any{
				"property": r.Property, "obligation": o.ID, "engine": o.Engine, "rule": o.Rule,
				"necessary_because": o.Why, "key": f.Key, "where": f.Where, "message": f.Msg,
				"sites_analysed": o.Sites,
			}, "", " ")
			os.WriteFile(path, b, 0o644)
			fmt.Printf("VIOLATION property=%s replay=%s\n", r.Property, path)
			fmt.Printf("  obligation %s [%s]\n  at %s\n  %s\n  rule: %s\n", o.ID, f.Key, f.Where, strings.ReplaceAll(f.Msg, "\n", "\n  "), o.Rule)
		}
	}
	wall := time.Since(r.start).Seconds()
	cov := map[string]any{
		"explanation":         r.Extra["explanation"],
		"obligations":         len(r.Obls),
		"discharged":          discharged,
		"evaluations":         sites,
		"distinct_nontrivial": nontrivial,
		"rule":                "one evaluation = one construct (call site, return, field, case, edge) matched by an obligation; an obligation is non-trivial when it matched at least one construct",
		"samples":             samples,
		"exhaustive":          true,
		"checker_cmd":         "./check " + r.Property + " " + r.Tier,
		"trusted_base":        []string{"go/types and go/packages (x/tools v0.29.0)", "lndlint flow graph builder", "spec tables in tools/lndlint/internal/spec"},
		"loads":               loads,
		"known_findings":      nKnown,
	}
	if len(NamesApplied) > 0 {
		cov["names_normalised"] = NamesApplied
	}
	for k, v := range r.Extra {
		if k != "explanation" && k != "assumptions" {
			cov[k] = v
		}
	}
	ev := map[string]any{
		"property_id": r.Property,
		"tier":        r.Tier,
		"seed":        seed,
		"level":       "other",
		"coverage":    cov,
		"assumptions": r.Extra["assumptions"],
		"wall_s":      wall,
		"violations":  nViol,
	}
	b, _ := json.MarshalIndent(ev, "", " ")
	if err := os.WriteFile(filepath.Join(evDir, r.Property+".json"), b, 0o644); err != nil {
		fmt.Printf("cannot write evidence: %v\n", err)
		return 2
	}
	if nViol > 0 {
		fmt.Printf("FAIL property=%s obligations=%d discharged=%d violations=%d sites=%d wall=%.1fs\n", r.Property, len(r.Obls), discharged, nViol, sites, wall)
		return 1
	}
	fmt.Printf("OK property=%s tier=%s obligations=%d discharged=%d sites=%d known_findings=%d wall=%.1fs\n", r.Property, r.Tier, len(r.Obls), discharged, sites, nKnown, wall)
	return 0
}

func sanitize(s string) string {
	s = regexp.MustCompile(`[^A-Za-z0-9_.-]+`).ReplaceAllString(s, "_")
	if len(s) > 120 {
		s = s[:120]
	}
	return s
}

// Wide returns the whole-module program (all packages of the root module),
// loading it on first use. Without a loader (witness-mutant runs) the
// property's own packages are used.
func (r *Run) Wide() *Prog {
	if r.wide != nil {
		return r.wide
	}
	if r.WideLoader == nil {
		r.wide = r.Prog
		return r.wide
	}
	p, err := r.WideLoader()
	if err != nil {
		panic(AnchorError{Msg: "whole-module load failed: " + err.Error()})
	}
	r.wide = p
	return p
}
