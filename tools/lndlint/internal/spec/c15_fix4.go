package spec

import (
	"go/ast"
	"go/token"
	"go/types"
	"regexp"
	"sort"
	"strings"

	"lndlint/internal/an"
	"lndlint/internal/flow"
)

func init() {
	specExtras["C15"] = append(specExtras["C15"], c15f4Rules)
}

// c15f4Rules: the conditions the repairs 1a638aa, bae84d9, d6beefc, 6c7db20
// and 4ebee0c of /repo established (probes: findings/C15-invoices-probe25).
func c15f4Rules(r *an.Run) {
	c15f4ReplayMemory(r)
	c15f4CancelKeepsSettled(r)
	c15f4FailedSet(r)
	c15f4RefLookup(r)
	c15f4DeleteSiblings(r)
}

// ---------------------------------------------------------------- 1a638aa

// c15f4ReplayMemory: the HTLC records of a canceled invoice are what a replayed
// HTLC is recognised by; the registry deletes a canceled invoice on the fly only
// when it recorded none.
func c15f4ReplayMemory(r *an.Run) {
	p := r.Prog
	r.Obl("canceled-invoice-that-recorded-htlcs-is-not-deleted-on-the-fly", "GUARD",
		"within package invoices the store's DeleteInvoice is called only by InvoiceRegistry.cancelInvoiceImpl, once, after the cancelling UpdateInvoice call succeeded and below `len(invoice.Htlcs) == 0` for the invoice that call returned; that call looks the invoice up by its payment hash with a nil set id (the HTLCs of every set are loaded, so the count is the count of all records), the local holding the result is not written again once read, and the delete reference names that invoice (the hash the update was made for, the AddIndex of the returned invoice)",
		"the HTLC records of a canceled invoice are the only memory of the verdict its HTLCs got: once they are deleted a replayed HTLC (same circuit key) is no longer recognised, a keysend or spontaneous AMP invoice is created anew for it and the HTLC is accepted and held as a fresh payment instead of being canceled again", 9,
		func(o *an.Obl) {
			const del = iv + "InvoiceDB.DeleteInvoice"
			owner := iv + "InvoiceRegistry.cancelInvoiceImpl"
			var sites []an.Site
			for _, fn := range p.Funcs(false, "invoices") {
				for _, s := range fn.Calls(an.CalleeIs(del), false) {
					o.Site("invoice deletion %s", s.String())
					if fn.ID != owner {
						o.FailAt(fn.ID+"#deletes-an-invoice", s.Where(), "%s deletes an invoice from the store; only %s may, for a canceled invoice without HTLC records", fn.ID, owner)
						continue
					}
					sites = append(sites, s)
				}
			}
			f := p.Func(owner)
			if !needExactly(o, f, "idb.DeleteInvoice", sites, 1) {
				return
			}
			ups := f.Calls(an.CalleeIs(iv+"InvoiceDB.UpdateInvoice"), false)
			if !needExactly(o, f, "idb.UpdateInvoice", ups, 1) {
				return
			}
			invObj := c15LhsObj(f, ups[0], 0)
			if invObj == nil {
				o.FailAt(f.ID+"#canceled-invoice-unbound", ups[0].Where(), "the invoice returned by the cancelling update is not bound to a local (%s)", an.Text(ups[0].Node))
				return
			}
			invT := c15LocalTerm(invObj)
			mustPass(o, f, "the cancelling idb.UpdateInvoice", ups, an.OkErrNil, sites)
			guarded(o, f, sites[0], an.Cmp(an.Len(an.FieldPath(invT, "Htlcs")), an.EQ, an.IntConst(0), "len(invoice.Htlcs) == 0 for the invoice the cancel returned"))
			c15StableOnceRead(o, f, invObj.Name())

			// the count is the count of all records: lookup by hash, no set id
			hash := ""
			a := f.ArgCanon(ups[0])
			if m := regexp.MustCompile(`^invoices\.InvoiceRefByHash\((.*)\)$`).FindStringSubmatch(a[1]); m != nil {
				hash = m[1]
			} else {
				o.FailAt(f.ID+"#cancel-ref", ups[0].Where(), "the invoice is canceled under the reference %s, expected InvoiceRefByHash of the payment hash (a reference with a set id loads only that set's HTLCs)", a[1])
			}
			if !an.Match(f, an.Nil(), callArg(ups[0], 2)) {
				o.FailAt(f.ID+"#cancel-set-id", ups[0].Where(), "the cancelling update loads the invoice with set id %s, expected nil (every HTLC of every set): an AMP invoice would otherwise look as if it had recorded no HTLCs", a[2])
			}
			o.Site("%s: the cancel loads %s with set id %s", f.ID, a[1], a[2])

			// the deleted invoice is the canceled one
			nRef := 0
			ast.Inspect(f.Body, func(n ast.Node) bool {
				cl, ok := n.(*ast.CompositeLit)
				if !ok || an.TypeID(f.Info().TypeOf(cl)) != iv+"InvoiceDeleteRef" {
					return true
				}
				nRef++
				keys := c15LitKeys(cl)
				o.Site("%s: delete reference %s", f.ID, f.Canon(cl))
				if v, ok := keys["PayHash"]; !ok || (hash != "" && f.Canon(v) != hash) {
					o.FailAt(f.ID+"#deleted-hash", f.Where(cl.Pos()), "the delete reference names hash %s, the invoice was canceled under %s", f.Canon(v), hash)
				}
				if v, ok := keys["AddIndex"]; !ok || !an.Match(f, an.FieldPath(invT, "AddIndex"), v) {
					o.FailAt(f.ID+"#deleted-add-index", f.Where(cl.Pos()), "the delete reference's AddIndex is %s, expected the one of the invoice the cancel returned", f.Canon(v))
				}
				return true
			})
			if nRef != 1 {
				o.FailAt(f.ID+"#delete-refs", f.Where(f.Body.Pos()), "expected one InvoiceDeleteRef literal in %s, found %d", f.ID, nRef)
			}
		})
}

// ---------------------------------------------------------------- bae84d9

// c15f4CancelKeepsSettled: canceling an invoice decides about every HTLC except
// the Settled ones of an AMP invoice, which keep their state.
func c15f4CancelKeepsSettled(r *an.Run) {
	p := r.Prog
	r.Obl("invoice-cancel-leaves-settled-htlcs-alone", "PATH",
		"cancelInvoice has one loop over invoice.Htlcs; inside it getUpdatedHtlcState (which refuses a Settled HTLC with ErrHTLCAlreadySettled) is asked only where the invoice is not an AMP invoice (invoice.IsAMP(), a flag set before the loop and not written again) or the loop's HTLC is not in state Settled; an iteration gets around that decision only for an HTLC in state Settled",
		"an AMP invoice stays open after a set was settled, so its settled HTLCs are still there when it is canceled: asking to cancel them aborts the whole cancellation (the invoice stays open past its expiry and keeps settling new sets) and an HTLC must never be both settled and canceled; skipping anything but a Settled HTLC leaves a held HTLC Accepted on a Canceled invoice", 4,
		func(o *an.Obl) {
			f := p.Func(iv + "cancelInvoice")
			hds := c15RangeHeads(f, `^\$p0\.Htlcs$`)
			if len(hds) != 1 {
				o.FailAt(f.ID+"#htlc-loop", f.Where(f.Body.Pos()), "expected one loop over invoice.Htlcs in %s, found %d", f.ID, len(hds))
				return
			}
			head := hds[0]
			rs := head.Node.(*ast.RangeStmt)
			var gus []an.Site
			for _, s := range f.Calls(an.CalleeIs(iv+"getUpdatedHtlcState"), false) {
				if rs.Body.Pos() <= s.Node.Pos() && s.Node.End() <= rs.Body.End() {
					gus = append(gus, s)
				} else {
					o.FailAt(f.ID+"#decision-outside-the-loop", s.Where(), "%s decides about an HTLC outside the loop over invoice.Htlcs", s.String())
				}
			}
			if !need(o, f, "getUpdatedHtlcState in the loop over invoice.Htlcs", gus, 1) {
				return
			}
			elemState := canonTerm(`^\$elem\(\$p0\.Htlcs\)\.State$`)
			settled := an.PkgVar("invoices", "HtlcStateSettled")
			isAMP := an.CallNamed("IsAMP", an.Param(0))
			for _, s := range gus {
				guarded(o, f, s, an.AnyOf("the invoice is not an AMP invoice, or the HTLC is not Settled",
					an.Truth(isAMP, false, ""), an.Cmp(elemState, an.NE, settled, "")))
			}
			// an iteration skips the decision only for a Settled HTLC
			skip := an.Cmp(elemState, an.EQ, settled, "htlc.State == HtlcStateSettled")
			stop := map[*flow.Vertex]bool{head: true}
			for _, s := range gus {
				stop[s.V] = true
			}
			for _, e := range head.Out {
				if e.Kind != flow.ERangeIn {
					continue
				}
				o.Site("%s: every iteration of the loop at %s asks getUpdatedHtlcState unless [%s]", f.ID, f.Where(rs.Pos()), skip.Desc)
				if !stop[e.To] && f.Graph().Reach(e.To, f.EdgesOf(skip), stop)[head] {
					o.FailAt(f.ID+"#iteration-skips-the-cancel-decision", f.Where(rs.Pos()), "an iteration of the loop over invoice.Htlcs can go on to the next HTLC without asking getUpdatedHtlcState although the HTLC is not known to be Settled: a held HTLC stays Accepted on a Canceled invoice")
				}
			}
			// the AMP flag, when it is a local: set before the loop, stable
			seen := map[types.Object]bool{}
			for _, v := range f.Graph().V {
				if v.Kind != flow.KCond {
					continue
				}
				id, ok := ast.Unparen(v.Node.(ast.Expr)).(*ast.Ident)
				if !ok || !an.Match(f, isAMP, id) {
					continue
				}
				obj := f.Info().Uses[id]
				if obj == nil || seen[obj] {
					continue
				}
				seen[obj] = true
				c15StableOnceRead(o, f, obj.Name())
				var defs []an.Site
				for _, w := range c15WritesOfLocal(f, obj) {
					if w.rhs != nil {
						defs = append(defs, w.site)
					}
				}
				before(o, f, "the definition of the AMP flag", defs, "the loop over invoice.Htlcs", []an.Site{{Fn: f, V: head, Node: rs}})
			}
		})
}

// ---------------------------------------------------------------- d6beefc

// c15f4LitOf resolves e (through &, conversions and a uniquely defined local)
// to a composite literal, or nil.
func c15f4LitOf(f *an.Func, e ast.Expr) *ast.CompositeLit {
	for i := 0; i < 4 && e != nil; i++ {
		e = an.Strip(f.Info(), e)
		switch x := e.(type) {
		case *ast.CompositeLit:
			return x
		case *ast.Ident:
			e = f.UniqueDef(x)
		default:
			return nil
		}
	}
	return nil
}

// c15f4Uses lists the identifiers of f's body that refer to obj, each with its
// parent node.
func c15f4Uses(f *an.Func, obj types.Object) (ids []*ast.Ident, parents []ast.Node) {
	var stack []ast.Node
	ast.Inspect(f.Body, func(n ast.Node) bool {
		if n == nil {
			stack = stack[:len(stack)-1]
			return true
		}
		if id, ok := n.(*ast.Ident); ok && f.Info().Uses[id] == obj {
			var par ast.Node
			for i := len(stack) - 1; i >= 0; i-- {
				if _, isParen := stack[i].(*ast.ParenExpr); !isParen {
					par = stack[i]
					break
				}
			}
			ids, parents = append(ids, id), append(parents, par)
		}
		stack = append(stack, n)
		return true
	})
	return
}

// c15f4FailedSet: what updateMpp asks the store to do when the AMP shares of
// a complete set do not reconstruct.
func c15f4FailedSet(r *an.Run) {
	p := r.Prog
	r.Obl("failed-amp-set-is-canceled-alone", "GUARD",
		"updateMpp builds update descriptors only of type AddHTLCsUpdate or, below the fail resolution of its one reconstructAMPPreimages call, CancelHTLCsUpdate, and invoice-state descriptors only for Accepted or Settled: it never cancels the invoice; every return below that fail resolution hands back that very fail resolution together with a CancelHTLCsUpdate descriptor whose CancelHtlcs are the keys of the set the reconstruction was made for (the accepted HTLCs of ctx.setID()): either fn.KeySet of that set or a map that is made once, has no second name, is never shrunk and is written only as m[key] = … with the key variable of a loop over that set which writes it in every iteration; a SetID named by the descriptor is ctx.setID()",
		"only the set of the failing HTLC is loaded for the update: canceling the whole invoice leaves the held HTLCs of other sets Accepted on a Canceled invoice (neither the MPP timeout nor a replay releases them) and lets anyone who knows a reusable AMP invoice close it with one bad set; canceling keys outside the loaded accepted set (the new HTLC, HTLCs of other states) makes the store reject the update; the verdict of the failing HTLC must stay the reconstruction's fail resolution", 10,
		func(o *an.Obl) {
			f := p.Func(iv + "updateMpp")
			info := f.Info()
			rc := f.Calls(an.CalleeIs(iv+"reconstructAMPPreimages"), false)
			if !needExactly(o, f, "reconstructAMPPreimages", rc, 1) {
				return
			}
			failObj := c15LhsObj(f, rc[0], 1)
			if failObj == nil {
				o.FailAt(f.ID+"#reconstruct-results", rc[0].Where(), "the fail resolution of reconstructAMPPreimages is not bound (%s)", an.Text(rc[0].Node))
				return
			}
			failed := an.IsNil(c15LocalTerm(failObj), false, "failRes != nil (the reconstruction failed)")
			setCanon := f.ArgCanon(rc[0])[1]

			// 1. what updateMpp may ask the store to do at all
			below := func(n ast.Node) bool {
				v := f.Graph().Containing(n, false)
				if v == nil {
					return false
				}
				ok, _ := f.Guarded(an.Site{Fn: f, V: v, Node: n}, failed)
				return ok
			}
			updType := func(e ast.Expr, at ast.Node) {
				c := f.Canon(e)
				o.Site("%s: update type %s at %s", f.ID, c, f.Where(at.Pos()))
				switch c {
				case iv + "AddHTLCsUpdate":
				case iv + "CancelHTLCsUpdate":
					if !below(at) {
						o.FailAt(f.ID+"#cancel-outside-failed-reconstruction", f.Where(at.Pos()), "updateMpp builds a CancelHTLCsUpdate (`%s`) where the reconstruction is not known to have failed", an.Text(at))
					}
				default:
					o.FailAt(f.ID+"#update-type", f.Where(at.Pos()), "updateMpp asks the store for %s (`%s`); it may only add the HTLC or cancel the accepted HTLCs of a set that failed AMP reconstruction, never cancel the invoice", c, an.Text(at))
				}
			}
			newState := func(e ast.Expr, at ast.Node) {
				c := f.Canon(e)
				o.Site("%s: invoice state %s at %s", f.ID, c, f.Where(at.Pos()))
				if c != iv+"ContractAccepted" && c != iv+"ContractSettled" {
					o.FailAt(f.ID+"#invoice-state", f.Where(at.Pos()), "updateMpp asks for invoice state %s (`%s`); an HTLC can move the invoice only to Accepted or Settled", c, an.Text(at))
				}
			}
			ast.Inspect(f.Body, func(n ast.Node) bool {
				switch x := n.(type) {
				case *ast.CompositeLit:
					switch an.TypeID(info.TypeOf(x)) {
					case iv + "InvoiceUpdateDesc":
						if v, ok := c15LitKeys(x)["UpdateType"]; ok {
							updType(v, x)
						} else {
							o.FailAt(f.ID+"#untyped-update", f.Where(x.Pos()), "the update descriptor `%s` names no UpdateType", an.Text(x))
						}
					case iv + "InvoiceStateUpdateDesc":
						if v, ok := c15LitKeys(x)["NewState"]; ok {
							newState(v, x)
						} else {
							o.FailAt(f.ID+"#stateless-update", f.Where(x.Pos()), "the state descriptor `%s` names no NewState", an.Text(x))
						}
					}
				case *ast.AssignStmt:
					if len(x.Lhs) != len(x.Rhs) {
						return true
					}
					for i, l := range x.Lhs {
						switch {
						case an.Field(iv+"InvoiceUpdateDesc", "UpdateType", nil)(f, ast.Unparen(l)):
							updType(x.Rhs[i], x)
						case an.Field(iv+"InvoiceStateUpdateDesc", "NewState", nil)(f, ast.Unparen(l)):
							newState(x.Rhs[i], x)
						}
					}
				}
				return true
			})

			// 2. the returns below the failed reconstruction
			var rets []an.Site
			for _, s := range f.Returns() {
				if ok, _ := f.Guarded(s, failed); ok {
					rets = append(rets, s)
				}
			}
			if !need(o, f, "return below the failed reconstruction", rets, 1) {
				return
			}
			for _, s := range rets {
				rs := s.Node.(*ast.ReturnStmt)
				o.Site("%s: failed reconstruction answered by `%s`", f.ID, an.Text(rs))
				if len(rs.Results) != 3 {
					o.FailAt(f.ID+"#failed-set-exit", s.Where(), "`%s` is not a (descriptor, resolution, error) return", an.Text(rs))
					continue
				}
				if !c15IdentIs(info, rs.Results[1], failObj) {
					o.FailAt(f.ID+"#failed-set-verdict", s.Where(), "the failing HTLC is answered with %s, expected the fail resolution of the reconstruction", an.Text(rs.Results[1]))
				}
				if !an.IsNilIdent(info, rs.Results[2]) {
					o.FailAt(f.ID+"#failed-set-error", s.Where(), "a failed reconstruction returns the error %s: the set is not canceled and the HTLC gets no verdict", an.Text(rs.Results[2]))
				}
				lit := c15f4LitOf(f, rs.Results[0])
				if lit == nil || an.TypeID(info.TypeOf(lit)) != iv+"InvoiceUpdateDesc" {
					o.FailAt(f.ID+"#failed-set-not-canceled", s.Where(), "a failed reconstruction hands the store %s, expected a CancelHTLCsUpdate descriptor for the accepted HTLCs of the set (its shares are fixed: the set can never complete)", an.Text(rs.Results[0]))
					continue
				}
				keys := c15LitKeys(lit)
				if v, ok := keys["UpdateType"]; !ok || f.Canon(v) != iv+"CancelHTLCsUpdate" {
					o.FailAt(f.ID+"#failed-set-update-type", s.Where(), "a failed reconstruction hands the store an update of type %s, expected CancelHTLCsUpdate (only the set is canceled, the invoice stays open)", f.Canon(v))
				}
				if v, ok := keys["SetID"]; ok && f.Canon(an.Strip(info, v)) != "$p0.setID()" {
					o.FailAt(f.ID+"#failed-set-id", f.Where(v.Pos()), "the cancel descriptor names set %s, expected ctx.setID()", f.Canon(v))
				}
				ch, ok := keys["CancelHtlcs"]
				if !ok {
					o.FailAt(f.ID+"#failed-set-no-keys", s.Where(), "the cancel descriptor `%s` names no CancelHtlcs", an.Text(lit))
					continue
				}
				c15f4CancelSet(o, f, ch, setCanon)
			}
		})
}

// c15f4CancelSet: the expression ch is the key set of the HTLC set whose
// canonical form is setCanon.
func c15f4CancelSet(o *an.Obl, f *an.Func, ch ast.Expr, setCanon string) {
	info := f.Info()
	c := f.Canon(ch)
	o.Site("%s: canceled keys %s of the set %s", f.ID, c, setCanon)
	if c == "fn.KeySet("+setCanon+")" {
		return
	}
	id, ok := ast.Unparen(ch).(*ast.Ident)
	var obj types.Object
	if ok {
		obj = info.Uses[id]
	}
	if _, isVar := obj.(*types.Var); !isVar {
		o.FailAt(f.ID+"#canceled-keys", f.Where(ch.Pos()), "the canceled keys are %s, expected the keys of %s (fn.KeySet of it, or a map filled in a loop over it)", c, setCanon)
		return
	}
	c15PinnedWrites(o, f, id.Name, `^:= make\(map\[`)
	wantKey := "$key(" + setCanon + ")"
	var writes []an.Site
	ids, parents := c15f4Uses(f, obj)
	for i, u := range ids {
		switch par := parents[i].(type) {
		case *ast.IndexExpr:
			if par.X == ast.Expr(u) || ast.Unparen(par.X) == ast.Expr(u) {
				continue // judged with the assignment below
			}
		case *ast.KeyValueExpr:
			if ast.Unparen(par.Value) == ast.Expr(u) && an.Text(par.Key) == "CancelHtlcs" {
				continue
			}
		case *ast.CallExpr:
			if an.CalleeID(info, par) == "builtin.len" {
				continue
			}
		}
		o.FailAt(f.ID+"#canceled-keys-escape", f.Where(u.Pos()), "the map of canceled keys is used in `%s`: it can get a second name or be changed there; it may only be filled by m[key] = … in the loop over the failed set and handed to the descriptor", an.Text(parents[i]))
	}
	for _, v := range f.Graph().V {
		v.Inspect(false, func(n ast.Node) bool {
			switch x := n.(type) {
			case *ast.AssignStmt:
				for _, l := range x.Lhs {
					ix, ok := ast.Unparen(l).(*ast.IndexExpr)
					if !ok || !c15IdentIs(info, ix.X, obj) {
						continue
					}
					s := an.Site{Fn: f, V: v, Node: x}
					writes = append(writes, s)
					k := f.Canon(ix.Index)
					o.Site("%s: canceled key %s", f.ID, k)
					if k != wantKey || x.Tok != token.ASSIGN {
						o.FailAt(f.ID+"#canceled-key", s.Where(), "`%s` cancels the key %s, expected the key variable of a loop over %s (the accepted HTLCs of the set that failed; the new HTLC was never recorded, HTLCs of other sets are not loaded)", an.Text(x), k, setCanon)
					}
				}
			case *ast.IndexExpr:
				// a read m[k] outside an assignment target is harmless
			case *ast.CallExpr:
				if cid := an.CalleeID(info, x); (cid == "builtin.delete" || cid == "builtin.clear") && len(x.Args) > 0 && c15IdentIs(info, x.Args[0], obj) {
					o.FailAt(f.ID+"#canceled-keys-removed", f.Where(x.Pos()), "keys are removed from the cancel set by `%s`", an.Text(x))
				}
			}
			return true
		})
	}
	if !need(o, f, "m[key] = … filling the cancel set", writes, 1) {
		return
	}
	// the loop that fills it visits, and writes for, every member
	n := 0
	for _, hd := range c15RangeHeads(f, "^"+regexp.QuoteMeta(setCanon)+"$") {
		rs := hd.Node.(*ast.RangeStmt)
		stop := map[*flow.Vertex]bool{hd: true}
		in := false
		for _, w := range writes {
			if rs.Body.Pos() <= w.Node.Pos() && w.Node.End() <= rs.Body.End() {
				in = true
				stop[w.V] = true
			}
		}
		if !in {
			continue
		}
		n++
		o.Site("%s: the loop at %s writes the cancel set in every iteration", f.ID, f.Where(rs.Pos()))
		for _, e := range hd.Out {
			if e.Kind == flow.ERangeIn && !stop[e.To] && f.Graph().Reach(e.To, nil, stop)[hd] {
				o.FailAt(f.ID+"#canceled-key-skipped", f.Where(rs.Pos()), "an iteration of the loop over %s can complete without adding its key to the cancel set: an HTLC of the failed set stays held", setCanon)
			}
		}
	}
	if n != 1 {
		o.FailAt(f.ID+"#cancel-set-loop", f.Where(ch.Pos()), "expected one loop over %s that fills the cancel set, found %d", setCanon, n)
	}
}

// ---------------------------------------------------------------- 6c7db20

// c15f4IndexLookup matches, in the KV store's fetchInvoiceNumByRef, the local
// that holds the result of the closure which reads the index bucket passed as
// parameter paramIdx.
func c15f4IndexLookup(k *an.Func, paramIdx int) an.Term {
	return func(f *an.Func, e ast.Expr) bool {
		id, ok := e.(*ast.Ident)
		if !ok {
			return false
		}
		call, ok := k.UniqueDef(id).(*ast.CallExpr)
		if !ok {
			return false
		}
		fid, ok := ast.Unparen(call.Fun).(*ast.Ident)
		if !ok {
			return false
		}
		fl, ok := k.UniqueDef(fid).(*ast.FuncLit)
		if !ok {
			return false
		}
		ps := k.Params(false)
		if paramIdx >= len(ps) {
			return false
		}
		found, other := false, false
		ast.Inspect(fl.Body, func(n ast.Node) bool {
			c, ok := n.(*ast.CallExpr)
			if !ok {
				return true
			}
			sel, ok := ast.Unparen(c.Fun).(*ast.SelectorExpr)
			if !ok || sel.Sel.Name != "Get" {
				return true
			}
			if rid, ok := ast.Unparen(sel.X).(*ast.Ident); ok && k.Info().Uses[rid] == ps[paramIdx] {
				found = true
			} else {
				other = true
			}
			return true
		})
		return found && !other
	}
}

// c15f4RefLookup: a reference by hash and address is resolved the same way by
// the SQL store (getInvoiceByRef) and the KV store (fetchInvoiceNumByRef).
func c15f4RefLookup(r *an.Run) {
	p := r.Prog
	r.Obl("hash-and-address-reference-resolves-alike-in-both-stores", "MIRROR",
		"both stores report ErrInvRefEquivocation only when the lookup by the reference's payment address found an invoice and that invoice is not the one found by the hash; when the address is unknown the invoice found by the hash is returned. SQL (getInvoiceByRef): below `ref.PayHash() != nil` there is one GetInvoiceByAddr call, made for ref.PayAddr()[:]; every equivocation return lies below `!bytes.Equal(invoice.PaymentAddr, payAddr[:])` for the invoice GetInvoiceByHash returned and that same address, after that address lookup succeeded and not below errors.Is(err, sql.ErrNoRows) of its error; once errors.Is(err, sql.ErrNoRows) holds for that lookup every reachable return hands out the invoice found by hash with a nil error. KV (fetchInvoiceNumByRef): every equivocation return lies below `invoiceNumByAddr != nil`, `invoiceNumByHash != nil` and `!bytes.Equal` of the two; on every path without a set id on which the address lookup found nothing and the hash lookup found something, the hash's invoice number is returned with a nil error",
		"the registry turns ErrInvRefEquivocation into 'invoice not found' before any payment-address check is made: a store that calls an unknown address an equivocation answers an HTLC with the right hash and a wrong address differently from the other store (the documented behaviour of InvoiceRefByHashAndAddr is the fall back to the hash), so the same HTLC sequence gets different verdicts per backend", 14,
		func(o *an.Obl) {
			equivoc := an.PkgVar("invoices", "ErrInvRefEquivocation")
			eqReturns := func(f *an.Func) []an.Site {
				var out []an.Site
				for _, s := range f.Returns() {
					rs := s.Node.(*ast.ReturnStmt)
					if len(rs.Results) == 2 && an.Match(f, equivoc, rs.Results[1]) {
						out = append(out, s)
					}
				}
				return out
			}

			// ---- SQL
			f := p.Func(iv + "getInvoiceByRef")
			info := f.Info()
			hashGiven := an.IsNil(an.CallNamed("PayHash", an.Param(2)), false, "ref.PayHash() != nil")
			byHash := f.Calls(an.CalleeNamed("GetInvoiceByHash"), false)
			var byAddr []an.Site
			for _, s := range f.Calls(an.CalleeNamed("GetInvoiceByAddr"), false) {
				if ok, _ := f.Guarded(s, hashGiven); ok {
					byAddr = append(byAddr, s)
				}
			}
			eqs := eqReturns(f)
			if needExactly(o, f, "GetInvoiceByHash", byHash, 1) && need(o, f, "ErrInvRefEquivocation return", eqs, 1) &&
				needExactly(o, f, "GetInvoiceByAddr below ref.PayHash() != nil", byAddr, 1) {

				hashInv := c15LhsObj(f, byHash[0], 0)
				addrErr := c15LhsObj(f, byAddr[0], 1)
				if hashInv == nil || addrErr == nil {
					o.FailAt(f.ID+"#lookup-results", byAddr[0].Where(), "the invoice found by hash or the error of the address lookup is not bound to a local")
					return
				}
				addr := f.ArgCanon(byAddr[0])[1]
				o.Site("%s: address lookup for %s", f.ID, addr)
				if addr != "$p2.PayAddr()[:]" {
					o.FailAt(f.ID+"#address-looked-up", byAddr[0].Where(), "the address lookup is made for %s, expected the reference's payment address", addr)
				}
				invAddr := an.FieldPath(c15LocalTerm(hashInv), "PaymentAddr")
				refAddr := canonTerm("^" + regexp.QuoteMeta(addr) + "$")
				mismatch := an.AnyOf("!bytes.Equal(invoice.PaymentAddr, payAddr[:]) for the invoice found by hash",
					an.Truth(an.CallTo("bytes.Equal", nil, invAddr, refAddr), false, ""),
					an.Truth(an.CallTo("bytes.Equal", nil, refAddr, invAddr), false, ""))
				noRowsT := an.CallTo("errors.Is", nil, c15LocalTerm(addrErr), an.PkgVar("database/sql", "ErrNoRows"))
				for _, s := range eqs {
					guarded(o, f, s, hashGiven)
					guarded(o, f, s, mismatch)
					guarded(o, f, s, an.Truth(noRowsT, false, "!errors.Is(err, sql.ErrNoRows) for the address lookup"))
				}
				mustPass(o, f, "GetInvoiceByAddr (another invoice owns the address)", byAddr, an.OkErrNil, eqs)
				c15StableOnceRead(o, f, hashInv.Name())

				unknown := f.EdgesOf(an.Truth(noRowsT, true, "errors.Is(err, sql.ErrNoRows)"))
				if len(unknown) == 0 {
					o.FailAt(f.ID+"#unknown-address-not-told-apart", byAddr[0].Where(), "the error of the address lookup is never tested for sql.ErrNoRows: an unknown address cannot be told from one that another invoice owns")
				}
				for e := range unknown {
					reach := f.Graph().Reach(e.To, nil, nil)
					o.Site("%s: after the address proved unknown at %s the hash decides", f.ID, f.Where(e.From.Pos()))
					for _, s := range f.Returns() {
						if !reach[s.V] {
							continue
						}
						rs := s.Node.(*ast.ReturnStmt)
						if len(rs.Results) != 2 || !c15IdentIs(info, rs.Results[0], hashInv) || !an.IsNilIdent(info, rs.Results[1]) {
							o.FailAt(f.ID+"#unknown-address-not-ignored", s.Where(), "with a known hash and an address no invoice owns the lookup can end in `%s`, expected the invoice found by hash (the KV store falls back to the hash)", an.Text(rs))
						}
					}
				}
			}

			// ---- KV
			k := p.Func("channeldb.fetchInvoiceNumByRef")
			kinfo := k.Info()
			numByHash, numByAddr := c15f4IndexLookup(k, 0), c15f4IndexLookup(k, 1)
			hashFound := an.IsNil(numByHash, false, "invoiceNumByHash != nil")
			addrFound := an.IsNil(numByAddr, false, "invoiceNumByAddr != nil")
			keqs := eqReturns(k)
			if need(o, k, "ErrInvRefEquivocation return", keqs, 1) {
				for _, s := range keqs {
					guarded(o, k, s, hashFound)
					guarded(o, k, s, addrFound)
					guarded(o, k, s, an.AnyOf("the two invoice numbers differ",
						an.Truth(an.CallTo("bytes.Equal", nil, numByAddr, numByHash), false, ""),
						an.Truth(an.CallTo("bytes.Equal", nil, numByHash, numByAddr), false, "")))
				}
			}
			cut := flow.EdgeSet{}
			for _, fc := range []an.Fact{
				addrFound,
				an.IsNil(numByHash, true, "invoiceNumByHash == nil"),
				an.IsNil(an.CallNamed("SetID", an.Param(3)), false, "ref.SetID() != nil"),
			} {
				es := k.EdgesOf(fc)
				if len(es) == 0 {
					o.FailAt(k.ID+"#no-test-"+fc.Desc, k.Where(k.Body.Pos()), "no test establishing [%s] found in %s", fc.Desc, k.ID)
				}
				for e := range es {
					cut[e] = true
				}
			}
			reach := k.Graph().Reach(k.Graph().Entry, cut, nil)
			n := 0
			for _, s := range k.Returns() {
				if !reach[s.V] {
					continue
				}
				n++
				rs := s.Node.(*ast.ReturnStmt)
				o.Site("%s: address unknown, hash known: `%s`", k.ID, an.Text(rs))
				if len(rs.Results) != 2 || !an.Match(k, numByHash, rs.Results[0]) || !an.IsNilIdent(kinfo, rs.Results[1]) {
					o.FailAt(k.ID+"#unknown-address-not-ignored", s.Where(), "without a set id, with a known hash and an address the index does not know the lookup can end in `%s`, expected the invoice number found by hash", an.Text(rs))
				}
			}
			if n == 0 {
				o.FailAt(k.ID+"#hash-fallback", k.Where(k.Body.Pos()), "no return of %s is reachable when only the hash lookup finds an invoice", k.ID)
			}
		})
}

// ---------------------------------------------------------------- 4ebee0c

// c15f4Deletion is what one of the two KV deletion routines removes, per
// invoice.
type c15f4Deletion struct {
	fn      *an.Func            // the function (literal) holding the per-invoice statements
	targets map[string]an.Site  // bucket constant / helper name -> one site
	isNum   func(ast.Expr) bool // e is the invoice number
	isKey   func(ast.Expr) bool // e is the key of the invoice index (the payment hash)
	numDesc string
	keyDesc string
}

var c15f4BucketRe = regexp.MustCompile(`Bucket\(channeldb\.(\w+)\)$`)

// c15f4Role names the bucket an expression stands for by the bucket-name
// constant it was opened with ("" when it is no bucket opened in f).
func c15f4Role(f *an.Func, e ast.Expr) string {
	if m := c15f4BucketRe.FindStringSubmatch(f.Canon(e)); m != nil {
		return m[1]
	}
	return ""
}

// c15f4CheckDeletion applies the per-routine rules and returns the set of
// places entries are removed from.
func c15f4CheckDeletion(o *an.Obl, d *c15f4Deletion) {
	f := d.fn
	info := f.Info()
	kind := func(e ast.Expr) string {
		switch {
		case d.isNum(e):
			return "the invoice number"
		case d.isKey(e):
			return "the key of the invoice index"
		}
		return f.Canon(e)
	}
	wantNum := func(s an.Site, e ast.Expr, what string) {
		o.Site("%s: %s is keyed by %s", f.ID, what, kind(e))
		if !d.isNum(e) {
			o.FailAt(f.Root().ID+"#"+what+"-key", s.Where(), "%s: %s is given %s (`%s`), expected the invoice number (%s): the serialized invoice, its AMP sub-invoices and the references held by the other indexes are stored under the number, the payment hash (%s) is only the key of the invoice index", f.Root().ID, what, kind(e), an.Text(s.Node), d.numDesc, d.keyDesc)
		}
	}
	wantRole := func(s an.Site, e ast.Expr, what, role string) {
		if got := c15f4Role(f, e); got != role {
			o.FailAt(f.Root().ID+"#"+what+"-bucket", s.Where(), "%s: %s is given the bucket %s (`%s`), expected %s", f.Root().ID, what, f.Canon(e), an.Text(s.Node), role)
		}
	}
	// a value read from an index bucket (the invoice number that index holds)
	indexValue := func(e ast.Expr) (string, ast.Expr) {
		e = ast.Unparen(e)
		if id, ok := e.(*ast.Ident); ok {
			if def := f.UniqueDef(id); def != nil {
				e = ast.Unparen(def)
			}
		}
		c, ok := e.(*ast.CallExpr)
		if !ok || len(c.Args) != 1 {
			return "", nil
		}
		sel, ok := ast.Unparen(c.Fun).(*ast.SelectorExpr)
		if !ok || sel.Sel.Name != "Get" {
			return "", nil
		}
		return c15f4Role(f, sel.X), c.Args[0]
	}
	for _, s := range f.AllCalls(false) {
		c := s.Node.(*ast.CallExpr)
		switch id := an.CalleeID(info, c); {
		case id == "channeldb.delAMPInvoices" && len(c.Args) == 2:
			d.targets["delAMPInvoices"] = s
			wantNum(s, c.Args[0], "delAMPInvoices")
			wantRole(s, c.Args[1], "delAMPInvoices", "invoiceBucket")
		case id == "channeldb.delAMPSettleIndex" && len(c.Args) == 3:
			d.targets["delAMPSettleIndex"] = s
			wantNum(s, c.Args[0], "delAMPSettleIndex")
			wantRole(s, c.Args[1], "delAMPSettleIndex", "invoiceBucket")
			wantRole(s, c.Args[2], "delAMPSettleIndex", "settleIndexBucket")
		case id == "channeldb.fetchInvoice" && len(c.Args) >= 2:
			wantNum(s, c.Args[0], "fetchInvoice")
			wantRole(s, c.Args[1], "fetchInvoice", "invoiceBucket")
		case id == "bytes.Equal" && len(c.Args) == 2:
			for i := 0; i < 2; i++ {
				if role, _ := indexValue(c.Args[i]); role != "" && role != "invoiceIndexBucket" {
					wantNum(s, c.Args[1-i], "the consistency check of the "+role+" entry")
				}
			}
		case strings.HasSuffix(id, ".Delete") && len(c.Args) == 1:
			sel, ok := ast.Unparen(c.Fun).(*ast.SelectorExpr)
			if !ok {
				continue
			}
			role := c15f4Role(f, sel.X)
			if role == "" {
				continue
			}
			d.targets[role] = s
			switch role {
			case "invoiceBucket":
				wantNum(s, c.Args[0], "the removal of the serialized invoice")
			case "invoiceIndexBucket":
				o.Site("%s: the invoice index entry is removed under %s", f.ID, kind(c.Args[0]))
				if !d.isKey(c.Args[0]) {
					o.FailAt(f.Root().ID+"#invoice-index-key", s.Where(), "%s removes the invoice index entry %s (`%s`), expected the key under which the invoice number was found (%s)", f.Root().ID, kind(c.Args[0]), an.Text(c), d.keyDesc)
				}
			case "payAddrIndexBucket":
				// removed only when the entry points to this invoice
				arg := f.Canon(c.Args[0])
				var facts []an.Fact
				for _, eq := range f.Calls(an.CalleeIs("bytes.Equal"), false) {
					ec := eq.Node.(*ast.CallExpr)
					for i := 0; i < 2; i++ {
						if role, key := indexValue(ec.Args[i]); role == "payAddrIndexBucket" && f.Canon(key) == arg && d.isNum(ec.Args[1-i]) {
							facts = append(facts, an.Truth(func(_ *an.Func, e ast.Expr) bool { return e == ast.Expr(ec) }, true, ""))
						}
					}
				}
				if len(facts) == 0 {
					o.FailAt(f.Root().ID+"#pay-addr-entry-unchecked", s.Where(), "%s removes the payment address index entry %s without having compared the entry's value with the invoice number", f.Root().ID, arg)
				} else {
					guarded(o, f, s, an.AnyOf("the payment address entry holds this invoice's number", facts...))
				}
			}
		}
	}
}

// c15f4DeleteSiblings: DeleteInvoice and DeleteCanceledInvoices of the KV
// store remove the same things, each under the right key.
func c15f4DeleteSiblings(r *an.Run) {
	p := r.Prog
	r.Obl("kv-invoice-deletion-siblings-remove-the-same-entries", "MIRROR",
		"DB.DeleteInvoice (per delete reference) and DB.DeleteCanceledInvoices (per entry of the invoice index, only below invoice.State == ContractCanceled) remove entries from the same buckets and through the same helpers: the invoice index, the payment address index, the add index, the AMP settle-index entries (delAMPSettleIndex), the AMP sub-invoices (delAMPInvoices) and the serialized invoice; only the invoice's own settle-index entry is DeleteInvoice's alone (a canceled invoice was never settled). In both, the invoice number is the value the invoice index holds under the payment hash (DeleteInvoice: invoiceIndex.Get(ref.PayHash[:]); DeleteCanceledInvoices: the value parameter of the invoiceIndex.ForEach callback): fetchInvoice, delAMPInvoices, delAMPSettleIndex, the removal from the invoice bucket and every comparison with a value read from another index are given that number, the removal from the invoice index is given the key (the hash), the helpers get the invoice bucket (and the settle index), and the payment address entry is removed only below bytes.Equal of that entry's value with the invoice number",
		"the two stores must behave alike and a deleted invoice must be gone: deleting under the index key (the payment hash) removes nothing, so the serialized invoice, its payment-address entry and its AMP sub-invoices survive, the invoice is still found by its address and a later invoice reusing the number inherits the old HTLC records (a replayed circuit key then gets a verdict that was never given to it)", 27,
		func(o *an.Obl) {
			// DeleteCanceledInvoices: the callback of invoiceIndex.ForEach
			dc := p.Func("channeldb.DB.DeleteCanceledInvoices")
			var cb *an.Func
			var walk func(fn *an.Func)
			walk = func(fn *an.Func) {
				for _, s := range fn.Calls(an.CalleeNamed("ForEach"), false) {
					c := s.Node.(*ast.CallExpr)
					sel, ok := ast.Unparen(c.Fun).(*ast.SelectorExpr)
					if !ok || len(c.Args) != 1 || c15f4Role(fn, sel.X) != "invoiceIndexBucket" {
						continue
					}
					if fl, ok := ast.Unparen(c.Args[0]).(*ast.FuncLit); ok {
						cb = fn.LitFunc(fl)
						o.Site("%s: scan of the invoice index at %s", dc.ID, s.Where())
					}
				}
				for _, l := range fn.Lits {
					walk(l)
				}
			}
			walk(dc)
			var canceled, single *c15f4Deletion
			if cb == nil || len(cb.Params(false)) != 2 {
				o.FailAt(dc.ID+"#index-scan", dc.Where(dc.Body.Pos()), "no invoiceIndex.ForEach(func(k, v []byte) error {…}) found in %s", dc.ID)
			} else {
				ps := cb.Params(false)
				isParam := func(i int) func(ast.Expr) bool {
					return func(e ast.Expr) bool {
						id, ok := ast.Unparen(e).(*ast.Ident)
						return ok && cb.Info().Uses[id] == ps[i]
					}
				}
				canceled = &c15f4Deletion{fn: cb, targets: map[string]an.Site{}, isKey: isParam(0), isNum: isParam(1),
					keyDesc: "the callback's key parameter " + ps[0].Name(), numDesc: "the callback's value parameter " + ps[1].Name()}
				notReassigned(o, cb, ps[0].Name(), ps[1].Name())
				c15f4CheckDeletion(o, canceled)
				// only canceled invoices
				st := an.Cmp(an.FieldPath(an.ResultOf(an.CallTo("channeldb.fetchInvoice", nil), 0), "State"), an.EQ, an.PkgVar("invoices", "ContractCanceled"), "invoice.State == ContractCanceled")
				for _, s := range canceled.targets {
					guarded(o, cb, s, st)
				}
			}

			// DeleteInvoice: the loop over the references
			di := p.Func("channeldb.DB.DeleteInvoice")
			var body *an.Func
			var get *ast.CallExpr
			for _, l := range di.Lits {
				for _, s := range l.Calls(an.CalleeNamed("Get"), false) {
					c := s.Node.(*ast.CallExpr)
					if sel, ok := ast.Unparen(c.Fun).(*ast.SelectorExpr); ok && len(c.Args) == 1 && c15f4Role(l, sel.X) == "invoiceIndexBucket" {
						if get != nil {
							o.FailAt(di.ID+"#number-lookups", s.Where(), "%s reads the invoice index more than once", di.ID)
						}
						body, get = l, c
						o.Site("%s: invoice number lookup %s", di.ID, s.String())
					}
				}
			}
			if get == nil {
				o.FailAt(di.ID+"#number-lookup", di.Where(di.Body.Pos()), "no invoiceIndex.Get(…) found in %s", di.ID)
			} else {
				keyCanon := body.Canon(get.Args[0])
				if !reMatch(`^\$elem\(\$p1\)\.PayHash\[:\]$`, keyCanon) {
					o.FailAt(di.ID+"#number-lookup-key", body.Where(get.Pos()), "the invoice number is looked up under %s, expected the delete reference's payment hash", keyCanon)
				}
				single = &c15f4Deletion{fn: body, targets: map[string]an.Site{},
					isKey: func(e ast.Expr) bool { return body.Canon(e) == keyCanon },
					isNum: func(e ast.Expr) bool {
						e = ast.Unparen(e)
						if e == ast.Expr(get) {
							return true
						}
						id, ok := e.(*ast.Ident)
						return ok && ast.Unparen(body.UniqueDef(id)) == ast.Expr(get)
					},
					keyDesc: "ref.PayHash[:]", numDesc: "invoiceIndex.Get(ref.PayHash[:])"}
				c15f4CheckDeletion(o, single)
			}

			// sibling agreement
			if canceled == nil || single == nil {
				return
			}
			only := map[string]string{"settleIndexBucket": "the invoice's own settle-index entry: a canceled invoice was never settled"}
			names := func(d *c15f4Deletion) []string {
				var out []string
				for k := range d.targets {
					out = append(out, k)
				}
				sort.Strings(out)
				return out
			}
			o.Site("%s removes from %v", di.ID, names(single))
			o.Site("%s removes from %v", dc.ID, names(canceled))
			for _, k := range names(single) {
				if _, ok := canceled.targets[k]; !ok {
					if why, ex := only[k]; ex {
						o.Site("%s only: %s (%s)", di.ID, k, why)
						continue
					}
					o.FailAt(dc.ID+"#does-not-remove-"+k, dc.Where(dc.Body.Pos()), "%s removes entries through %s (%s), %s does not: what is left behind of a canceled invoice is still found by the other indexes", di.ID, k, single.targets[k].Where(), dc.ID)
				}
			}
			for _, k := range names(canceled) {
				if _, ok := single.targets[k]; !ok {
					o.FailAt(di.ID+"#does-not-remove-"+k, di.Where(di.Body.Pos()), "%s removes entries through %s (%s), %s does not", dc.ID, k, canceled.targets[k].Where(), di.ID)
				}
			}
			for _, k := range []string{"invoiceBucket", "invoiceIndexBucket", "payAddrIndexBucket", "addIndexBucket", "delAMPInvoices", "delAMPSettleIndex"} {
				if _, ok := single.targets[k]; !ok {
					o.FailAt(di.ID+"#does-not-remove-"+k, di.Where(di.Body.Pos()), "%s no longer removes entries through %s", di.ID, k)
				}
			}
		})
}
