package spec

import (
	"go/ast"
	"go/types"
	"sort"
	"strings"

	"lndlint/internal/an"
)

// directCalls: every rule that inspects "the call sites of F" finds them by
// resolving the callee of call expressions.  A function or method VALUE of F
// (`g := lc.generateRevocation; g(x)`, passing F as a callback) creates a call
// site those rules do not see.  For the callees this property's rules asked
// for, the loaded non-test code must not take such a value.
func directCalls(r *an.Run) {
	p := r.Prog
	q := an.QueriedCallees()
	r.Obl("inspected-callees-are-called-directly", "WHO",
		"no non-test function of the loaded packages takes a function or method value of a callee whose call sites the rules of this property inspect (tabled exceptions: callbacks that are handed to a scheduler and invoked exactly as written)",
		"a call through a value is invisible to every argument, ordering and who-may-call rule about that callee", 0,
		func(o *an.Obl) {
			var ids []string
			for id := range q {
				ids = append(ids, id)
			}
			sort.Strings(ids)
			o.Site("%d inspected callees", len(ids))
			for _, f := range p.Funcs(false) {
				if f.Lit != nil {
					continue
				}
				info := f.Info()
				// identifiers in call position
				called := map[*ast.Ident]bool{}
				ast.Inspect(f.Body, func(n ast.Node) bool {
					if c, ok := n.(*ast.CallExpr); ok {
						switch fn := ast.Unparen(c.Fun).(type) {
						case *ast.Ident:
							called[fn] = true
						case *ast.SelectorExpr:
							called[fn.Sel] = true
						case *ast.IndexExpr: // generic instantiation
							if id, ok := fn.X.(*ast.Ident); ok {
								called[id] = true
							}
							if sel, ok := fn.X.(*ast.SelectorExpr); ok {
								called[sel.Sel] = true
							}
						}
					}
					return true
				})
				ast.Inspect(f.Body, func(n ast.Node) bool {
					id, ok := n.(*ast.Ident)
					if !ok || called[id] {
						return true
					}
					fn, ok := info.Uses[id].(*types.Func)
					if !ok {
						return true
					}
					fid := an.FuncID(fn)
					if !q[fid] {
						return true
					}
					if why, ok := valueExempt[f.ID+"->"+fid]; ok {
						o.Site("%s takes a value of %s (%s)", f.ID, fid, why)
						return true
					}
					o.FailAt(f.ID+"#value-of:"+fid, f.Where(id.Pos()), "%s takes a function value of %s; the rules about %s only see direct calls", f.ID, fid, strings.TrimPrefix(fid, "lnwallet."))
					return true
				})
			}
		})
}

// valueExempt: "function->callee" -> reason.
var valueExempt = map[string]string{}
