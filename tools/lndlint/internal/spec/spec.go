// Package spec holds the lnd-specific rule instances: which functions,
// fields, calls and tables the engines of package an are applied to, per
// property of /verif/properties.jsonl.
package spec

import (
	"sort"

	"lndlint/internal/an"
)

// LoadSpec names packages to load from a module directory relative to the
// repository root ("" = root module).
type LoadSpec struct {
	Dir      string
	Patterns []string
}

// Spec is the check of one property.
type Spec struct {
	ID          string
	Loads       []LoadSpec
	Explanation string
	NotDecided  []string
	Assumptions []string
	Technique   string
	Engines     string
	Run         func(r *an.Run)
	// TagMatrix lists extra build configurations for the thorough tier.
	TagMatrix [][]string
	// Mutants are checker-validation witnesses for the thorough tier.
	Mutants []Mutant
	// Gaps are reported surviving mutants that are not closed yet; they are
	// never part of a check, only of `lndlint mutants -gaps`.
	Gaps []Mutant
}

var registry = map[string]*Spec{}

func register(s *Spec) {
	inner := s.Run
	s.Run = func(r *an.Run) {
		inner(r)
		for _, x := range specExtras[s.ID] {
			x(r)
		}
		loopCoverage(r, s.ID)
		directCalls(r)
	}
	registry[s.ID] = s
}

// specExtras holds obligations kept in their own files and attached to a
// spec by ID (filled by init functions; read when the spec runs).
var specExtras = map[string][]func(*an.Run){}

// Get returns the spec or nil.
func Get(id string) *Spec { return registry[id] }

// IDs lists registered properties.
func IDs() []string {
	var out []string
	for id := range registry {
		out = append(out, id)
	}
	sort.Strings(out)
	return out
}

var commonAssumptions = []string{
	"go/types resolves every callee, field and constant exactly as the compiler does for the default build configuration (quick) or each listed configuration (thorough)",
	"_test.go files, mocks and test helpers are outside the rules",
	"the obligations are necessary conditions of the property, not the property: see DESIGN.md section 6 and not_decided",
}
