package routing

import (
	"testing"

	"github.com/btcsuite/btcd/btcutil/v2"
	"github.com/lightningnetwork/lnd/lnwire"
	"github.com/lightningnetwork/lnd/routing/route"
	"github.com/stretchr/testify/require"
)

// TestProbeStaleNextHopAfterDistanceTie (package dir: routing).
//
//	source -- w -- x -- target
//	               |      |
//	               +- y --+
//
// x reaches the target directly (fee 1000, probability pX) or through y
// (x->y free and certain, y->target fee 1500, probability 0.5). With the
// default attempt cost both alternatives have the same int64 distance
// (203500). If x is taken off the heap first, w is expanded from x's direct
// entry (w's fee and the fee-limit check are computed for 1001000 msat). When
// y is expanded afterwards, processEdge replaces distance[x] on the equal
// distance because the probability is higher; x is expanded again, but w's new
// distance is larger (its proportional fee grew), so distance[w] keeps the
// entry computed for the old amount. The unravelled path is
// source->w->x->y->target, whose fee (12515 msat) was never checked against
// the fee limit (12100 msat; the path that was checked costs 12010).
//
// Which of x and y is pushed first depends on map iteration order, so the
// search is repeated.
//
// RESULT: passes on the unmodified tree. distanceHeap.Less (heap.go) breaks
// distance ties on the higher probability, so y is always expanded before x;
// in general every entry taken off the heap after x with x's distance has a
// probability <= x's, so an expanded node is never replaced. (All 200 runs end
// in errNoPathFound although source->w->x->target costs 12010 <= 12100: the
// tie replacement drops the cheaper alternative. That is a completeness matter,
// not one of the returned route being unpayable.)
func TestProbeStaleNextHopAfterDistanceTie(t *testing.T) {
	const (
		height   = 100
		amt      = lnwire.MilliSatoshi(1_000_000)
		feeLimit = lnwire.MilliSatoshi(12_100)
	)

	pol := func(base, rate lnwire.MilliSatoshi) *testChannelPolicy {
		return &testChannelPolicy{
			Expiry:      40,
			FeeBaseMsat: base,
			FeeRate:     rate,
			MinHTLC:     1,
			MaxHTLC:     lnwire.NewMSatFromSatoshis(100_000),
		}
	}
	const capacity = btcutil.Amount(100_000)
	testChannels := []*testChannel{
		symmetricTestChannel("source", "w", capacity, pol(0, 0), 1),
		symmetricTestChannel("w", "x", capacity, pol(1000, 10000), 2),
		symmetricTestChannel("x", "target", capacity, pol(1000, 0), 3),
		symmetricTestChannel("y", "target", capacity, pol(1500, 0), 4),
		symmetricTestChannel("x", "y", capacity, pol(0, 0), 5),
	}

	graph, err := createTestGraphFromChannels(
		t, true, testChannels, "source",
	)
	require.NoError(t, err)

	var (
		source = graph.aliasMap["source"]
		target = graph.aliasMap["target"]
		x      = graph.aliasMap["x"]
		y      = graph.aliasMap["y"]
	)

	cfg := &PathFindingConfig{
		MinProbability: DefaultMinRouteProbability,
		AttemptCost:    DefaultAttemptCost,
		AttemptCostPPM: DefaultAttemptCostPPM,
	}

	// Attempt cost for this amount: 100000 + 1000000*1000/1e6 msat.
	const penalty = 101_000.0

	// 1000 + penalty/pX = 203500.5 and 1500 + penalty/0.5 = 203500.
	pX := penalty / 202_500.5
	pY := 0.5

	restrictions := &RestrictParams{
		FeeLimit:  feeLimit,
		CltvLimit: 1000,
		ProbabilitySource: func(from, to route.Vertex,
			_ lnwire.MilliSatoshi, _ btcutil.Amount) float64 {

			switch {
			case from == x && to == target:
				return pX
			case from == y && to == target:
				return pY
			default:
				return 1
			}
		},
	}

	for i := 0; i < 200; i++ {
		path, err := dbFindPath(
			graph.v1Graph, nil, &mockBandwidthHints{},
			restrictions, cfg, source, target, amt, 0, height+18,
		)
		if err != nil {
			// No route is a sound answer.
			continue
		}

		rt, err := newRoute(
			source, path, height, finalHopParams{
				amt:       amt,
				totalAmt:  amt,
				cltvDelta: 18,
			}, nil,
		)
		require.NoError(t, err)

		require.LessOrEqualf(t, rt.TotalFees(), feeLimit,
			"run %d: route %v pays %v in fees, the fee limit is %v",
			i, rt, rt.TotalFees(), feeLimit)
	}
}
