package invoices_test

import (
	"context"
	"sync"
	"testing"
	"time"

	"github.com/lightningnetwork/lnd/clock"
	invpkg "github.com/lightningnetwork/lnd/invoices"
	"github.com/lightningnetwork/lnd/record"
	"github.com/stretchr/testify/require"
)

// probeStallDB passes every call through to the real store. When armed, the
// next UpdateInvoice call is stalled AFTER the real update returned (its
// transaction is finished) until the call after it has returned as well. This
// only fixes the interleaving of two goroutines of the registry, no result is
// changed.
type probeStallDB struct {
	invpkg.InvoiceDB

	mu        sync.Mutex
	armed     bool
	onStalled func()
	nextDone  chan struct{}
}

func (p *probeStallDB) UpdateInvoice(ctx context.Context, ref invpkg.InvoiceRef,
	setID *invpkg.SetID, cb invpkg.InvoiceUpdateCallback) (*invpkg.Invoice,
	error) {

	p.mu.Lock()
	stall := p.armed
	p.armed = false
	waitFor := p.nextDone
	p.mu.Unlock()

	inv, err := p.InvoiceDB.UpdateInvoice(ctx, ref, setID, cb)

	switch {
	case stall:
		// The replay has read the htlc as accepted. Let the old timer
		// fire now and wait until its update is done and it had time
		// to look for subscribers.
		p.onStalled()
		select {
		case <-waitFor:
		case <-time.After(5 * time.Second):
		}
		time.Sleep(200 * time.Millisecond)

	case waitFor != nil:
		p.mu.Lock()
		if p.nextDone != nil {
			close(p.nextDone)
			p.nextDone = nil
		}
		p.mu.Unlock()
	}

	return inv, err
}

// TestProbeReplayRacesSetTimeout: a partial mpp htlc X is held. The link
// restarts (it drops its subscriptions) and replays X. While the replay is
// between its database read ("X is accepted") and its subscription, the timer
// of the first delivery of X fires and cancels X in the database. Whatever the
// interleaving, the link that replayed X must be told that X is canceled.
//
// OBSERVED on the unmodified tree (KV and SQLite): X is canceled in the
// database, but no resolution ever reaches the replaying link: the old timer
// found no subscriber (cancelSingleHtlc runs without the registry lock), the
// timer started by the replay finds X already resolved and returns without
// notifying.
func TestProbeReplayRacesSetTimeout(t *testing.T) {
	t.Run("KV", func(t *testing.T) {
		probeReplayRacesSetTimeout(t, probeMakeKV)
	})
	t.Run("SQLite", func(t *testing.T) {
		probeReplayRacesSetTimeout(t, probeMakeSQLite)
	})
}

func probeReplayRacesSetTimeout(t *testing.T,
	makeDB func(t *testing.T) (invpkg.InvoiceDB, *clock.TestClock)) {

	defer timeout()()

	var (
		stallDB   *probeStallDB
		testClock *clock.TestClock
	)
	ctx := newTestContext(t, nil, func(t *testing.T) (invpkg.InvoiceDB,
		*clock.TestClock) {

		var db invpkg.InvoiceDB
		db, testClock = makeDB(t)
		stallDB = &probeStallDB{InvoiceDB: db}

		return stallDB, testClock
	})
	ctxb := t.Context()

	testInvoice := newInvoice(t, false, false)
	_, err := ctx.registry.AddInvoice(
		ctxb, testInvoice, testInvoicePaymentHash,
	)
	require.NoError(t, err)

	mppPayload := &mockPayload{
		mpp: record.NewMPP(testInvoiceAmount, [32]byte{}),
	}
	key := getCircuitKey(10)

	// First delivery of X: held, its timer is started.
	hodlChan1 := make(chan interface{}, 1)
	resolution, err := ctx.registry.NotifyExitHopHtlc(
		testInvoicePaymentHash, testInvoice.Terms.Value/2,
		testHtlcExpiry, testCurrentHeight, key, hodlChan1, nil,
		mppPayload,
	)
	require.NoError(t, err)
	require.Nil(t, resolution)

	// The link goes down.
	ctx.registry.HodlUnsubscribeAll(hodlChan1)

	// The link comes back and replays X; the old timer fires inside the
	// window.
	stallDB.mu.Lock()
	stallDB.armed = true
	stallDB.nextDone = make(chan struct{})
	stallDB.onStalled = func() {
		testClock.SetTime(testTime.Add(31 * time.Second))
	}
	stallDB.mu.Unlock()

	hodlChan2 := make(chan interface{}, 1)
	resolution, err = ctx.registry.NotifyExitHopHtlc(
		testInvoicePaymentHash, testInvoice.Terms.Value/2,
		testHtlcExpiry, testCurrentHeight, key, hodlChan2, nil,
		mppPayload,
	)
	require.NoError(t, err)

	// Either the replay itself is answered (fail), or it is held and the
	// cancellation follows on the subscription.
	if resolution == nil {
		select {
		case res := <-hodlChan2:
			resolution = res.(invpkg.HtlcResolution)

		case <-time.After(2 * time.Second):
			inv, err := ctx.registry.LookupInvoice(
				ctxb, testInvoicePaymentHash,
			)
			require.NoError(t, err)
			t.Fatalf("htlc X is %v in the database, but the "+
				"replaying link was never notified",
				inv.Htlcs[key].State)
		}
	}
	checkFailResolution(t, resolution, invpkg.ResultMppTimeout)
}
