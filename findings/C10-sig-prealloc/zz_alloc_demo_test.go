package lnwire

import (
	"bytes"
	"runtime"
	"testing"
)

// A commit_sig that announces 65535 HTLC signatures but carries none must
// not make the decoder allocate far beyond the 65535-byte message bound.
func TestDemoCommitSigSigCountAllocation(t *testing.T) {
	var b bytes.Buffer
	b.Write(make([]byte, 32))   // channel id
	b.Write(make([]byte, 64))   // commit sig
	b.Write([]byte{0xff, 0xff}) // num_htlcs = 65535, no signatures follow

	var before, after runtime.MemStats
	runtime.GC()
	runtime.ReadMemStats(&before)
	msg := &CommitSig{}
	err := msg.Decode(bytes.NewReader(b.Bytes()), 0)
	runtime.ReadMemStats(&after)
	if err == nil {
		t.Fatalf("truncated message decoded")
	}
	alloc := after.TotalAlloc - before.TotalAlloc
	t.Logf("decoding a %d-byte commit_sig allocated %d bytes", b.Len(), alloc)
	if alloc > 4*65535 {
		t.Fatalf("decoder allocated %d bytes for a %d-byte message (bound 65535)", alloc, b.Len())
	}
}
