package graphdb

import (
	"testing"

	"github.com/lightningnetwork/lnd/lnwire"
	"github.com/stretchr/testify/require"
)

// TestProbeRevivedZombieIsQueried: FilterKnownChanIDs documents that a zombie
// which the peer's timestamps bring back to life is "added to the set of IDs
// to query our peer for". This probe checks whether the revived channel is in
// the returned set. It also shows that a zombie stored with two blank keys
// (the marker used for channels whose funding validation failed, "so this
// edge can't be resurrected") is revived by nothing but the peer-claimed,
// unauthenticated timestamps of reply_channel_range.
func TestProbeRevivedZombieIsQueried(t *testing.T) {
	ctx := t.Context()
	graph := MakeTestGraph(t)
	v := lnwire.GossipVersion1
	vGraph := NewVersionedGraph(graph, v)

	scid := lnwire.ShortChannelID{BlockHeight: 2}
	require.NoError(t, graph.MarkEdgeZombie(
		ctx, v, scid.ToUint64(), [33]byte{}, [33]byte{},
	))

	unknown, err := vGraph.FilterKnownChanIDs(ctx, []ChannelUpdateInfo{{
		ShortChannelID: scid,
		Version:        v,
		Node1Freshness: lnwire.UnixTimestamp(1000),
		Node2Freshness: lnwire.UnixTimestamp(1000),
	}}, func(ChannelUpdateInfo) bool { return false })
	require.NoError(t, err)

	zombie, _, _, err := vGraph.IsZombieEdge(ctx, scid.ToUint64())
	require.NoError(t, err)
	t.Logf("blank-key zombie still zombie after peer-claimed "+
		"timestamps: %v", zombie)
	t.Logf("returned set of channels to query: %v", unknown)

	require.False(t, zombie)
	require.Contains(t, unknown, scid.ToUint64(),
		"revived zombie is not part of the set to query")
}
