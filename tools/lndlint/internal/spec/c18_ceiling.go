package spec

import (
	"go/ast"
	"go/types"

	"lndlint/internal/an"
)

// c18BudgetRateRe is the canonical form of the rate the budget pays for the
// request's inputs in BumpRequest.MaxFeeRateAllowed.
const c18BudgetRateRe = `^lnwallet/chainfee\.NewSatPerKWeight\(\$recv\.Budget, sweep\.calcSweepTxWeight\(\$recv\.Inputs, [^()]*\)\)$`

// c18RateCeilingClamps is the body of C18/rate-ceiling-clamps.
func c18RateCeilingClamps(o *an.Obl, p *an.Prog) {
	tp := sw + "TxPublisher."

	// ---- MaxFeeRateAllowed: min(Budget / weight, MaxFeeRate)
	f := p.Func(sw + "BumpRequest.MaxFeeRateAllowed")
	// the budget rate in full: the request's budget over the weight of the
	// request's inputs
	const budgetRe = c18BudgetRateRe
	budget := canonTerm(budgetRe)
	cap := an.FieldPath(an.Recv(), "MaxFeeRate")
	nCap, nBudget := 0, 0
	succ := f.SuccessReturns()
	for _, s := range succ {
		rs, _ := s.Node.(*ast.ReturnStmt)
		if rs == nil || len(rs.Results) != 2 {
			o.FailAt(f.ID+"#returns", s.Where(), "cannot read the rate returned at %s", s.String())
			continue
		}
		c := f.Canon(rs.Results[0])
		o.Site("MaxFeeRateAllowed returns %s", c)
		switch {
		case c == "$recv.MaxFeeRate":
			nCap++
			guarded(o, f, s, an.CmpX(budget, an.GT, cap, "Budget/weight > MaxFeeRate"))
		case reMatch(budgetRe, c):
			nBudget++
			guarded(o, f, s, an.CmpX(budget, an.LE, cap, "Budget/weight <= MaxFeeRate"))
		default:
			o.FailAt(f.ID+"#returns", s.Where(), "MaxFeeRateAllowed returns %s, expected r.MaxFeeRate or Budget over the weight of the request's inputs", c)
		}
	}
	if nCap != 1 || nBudget != 1 {
		o.FailAt(f.ID+"#exits", f.Where(f.Body.Pos()), "expected one exit with the configured maximum and one with the budget rate, found %d and %d", nCap, nBudget)
	}
	mustPass(o, f, "calcSweepTxWeight", f.Calls(an.CalleeIs(sw+"calcSweepTxWeight"), false), an.OkErrNil, succ)
	c17NoFieldWrites(o, f, "$recv.MaxFeeRate", "$recv.Budget", "$recv.Inputs")

	// ---- the fee function is built with exactly that value as ceiling
	g := p.Func(tp + "initializeFeeFunction")
	for _, fn := range p.Funcs(false, "sweep") {
		for _, s := range fn.Calls(an.CalleeIs(sw+"NewLinearFeeFunction"), true) {
			if fn.Root().ID != g.ID {
				o.FailAt(fn.ID+"#builds-fee-function", s.Where(), "%s builds a fee function; only initializeFeeFunction passes the checked ceiling", fn.ID)
			}
		}
	}
	nf := g.Calls(an.CalleeIs(sw+"NewLinearFeeFunction"), false)
	if need(o, g, "NewLinearFeeFunction", nf, 1) {
		for _, s := range nf {
			a := g.ArgCanon(s)
			o.Site("NewLinearFeeFunction ceiling = %s", a[0])
			if a[0] != "$p0.MaxFeeRateAllowed()" {
				o.FailAt(g.ID+"#ceiling", s.Where(), "the fee function's ceiling is %s, expected the request's MaxFeeRateAllowed() unchanged", a[0])
			}
		}
		mustPass(o, g, "MaxFeeRateAllowed", g.Calls(an.CalleeIs(sw+"BumpRequest.MaxFeeRateAllowed"), false), an.OkErrNil, nf)
	}
	notReassigned(o, g, c17ParamNames(g, 0)...)

	// ---- the constructor
	c18CtorClamps(o, p)

	// ---- the schedule clamps at the ceiling
	h := p.Func(sw + "LinearFeeFunction.feeRateAtPosition")
	notReassigned(o, h, c17ParamNames(h, 0)...)
	end := an.FieldPath(an.Recv(), "endingFeeRate")
	width := an.FieldPath(an.Recv(), "width")
	// the computed rate: the local that is returned
	var rate types.Object
	for _, s := range h.Returns() {
		rs, _ := s.Node.(*ast.ReturnStmt)
		if rs == nil || len(rs.Results) != 1 {
			continue
		}
		if id, ok := ast.Unparen(rs.Results[0]).(*ast.Ident); ok {
			if v, isVar := c17ObjOfIdent(h, id).(*types.Var); isVar && !v.IsField() {
				rate = v
			}
		}
	}
	for _, s := range h.Returns() {
		rs, _ := s.Node.(*ast.ReturnStmt)
		if rs == nil || len(rs.Results) != 1 {
			o.FailAt(h.ID+"#returns", s.Where(), "cannot read the rate returned at %s", s.String())
			continue
		}
		res := ast.Unparen(rs.Results[0])
		switch {
		case h.Canon(res) == "$recv.endingFeeRate":
			fs := []an.Fact{an.CmpX(an.Param(0), an.GE, width, "")}
			if rate != nil {
				fs = append(fs, an.CmpX(c17ObjTerm(rate), an.GT, end, ""))
			}
			guarded(o, h, s, an.AnyOf("p >= width or rate above the ceiling", fs...))
		case rate != nil && c17ObjTerm(rate)(h, res):
			below := an.CmpX(c17ObjTerm(rate), an.LE, end, "feeRate <= endingFeeRate")
			guarded(o, h, s, below)
			guarded(o, h, s, an.CmpX(an.Param(0), an.LT, width, "p < width"))
			c17HoldsSinceLastWrite(o, h, s, below, rate)
		default:
			o.FailAt(h.ID+"#returns", s.Where(), "feeRateAtPosition returns %s", an.Text(res))
		}
	}
	c17NoFieldWrites(o, h, "$recv.endingFeeRate", "$recv.width")
}
