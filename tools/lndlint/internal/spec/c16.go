package spec

import (
	"go/ast"
	"go/token"
	"go/types"
	"regexp"
	"sort"
	"strings"

	"lndlint/internal/an"
	"lndlint/internal/flow"
)

func init() {
	register(&Spec{
		ID:          "C16",
		Loads:       []LoadSpec{{Patterns: []string{"./payments/db"}}},
		Explanation: "Decides that the status function implements the documented 16-row table (so a payment with a settled attempt is never failed), that its four inputs are set only from the attempts' Failure/Settle fields and the failure reason, that the status predicates admit exactly the documented statuses, that Status/State are written only by setState from decidePaymentStatus below `sent <= total`, that Registrable and verifyAttempt hold the amount and terminal-state guards, and that in both stores every write of InitPayment / RegisterAttempt / SettleAttempt / FailAttempt / Delete* is reachable only through its gate, evaluated inside the same transaction on a status derived from the stored payment; the key-value store additionally refuses to settle or fail an attempt that already has a settle or fail record. After the repairs of round 4 (c16_fix4.go): amounts are added only through a saturating helper whose body is evaluated on boundary values; the kv hop codec persists and reads back every record verifyAttempt decides on; FinalHop() is dereferenced only below its nil test; both loaders list attempts by attempt id; the sql bulk delete's time window excludes nothing; every kv lookup by payment hash answers ErrPaymentNotInitiated; verifyAttempt's MPP / AMP / blinded rejections sit under exactly their mismatch conditions and stop the admission. After the repairs of round 5 (c16_fix5.go): the SQL loader always loads the hop rows and drops them from the answer only after SetState ran; an attempt without hash is stored under the payment hash by both stores; a blinded or MPP shard that delivers nothing is refused; the final hop of a stored attempt is dereferenced only below its own nil test, and a stored attempt without hops ends the admission.",
		NotDecided: []string{
			"concurrent histories (transaction isolation of bbolt / SQL is assumed)", "SQL statements and constraints of the native SQL store (e.g. the once-only attempt resolution there)",
			"agreement of the two backends on whole histories",
		},
		Assumptions: commonAssumptions,
		Engines:     "TABLE, GUARD, WHO, PATH, MIRROR",
		Run:         runC16,
	})
}

const pd = "payments/db."

// passesOnlyThrough checks that, starting at the vertex `from`, the targets
// cannot be reached once the ok-edges of `gate` are removed, and that from
// `entry` (a vertex dominating the gate's region) the targets cannot be
// reached without meeting the gate vertex.
func gateDominates(o *an.Obl, f *an.Func, gate an.Site, mode an.OkMode, targets []an.Site, what string) {
	ok, direct := f.OkEdges(gate, mode)
	if direct {
		o.FailAt(constructOf(f, gate)+"#unchecked", gate.Where(), "the result of %s is not checked", what)
		return
	}
	reach := f.Graph().Reach(gate.V, ok, nil)
	for _, t := range targets {
		o.Site("%s only after %s succeeded", t.String(), what)
		if reach[t.V] {
			o.FailAt(constructOf(f, t)+"-after-failed-"+what, t.Where(), "%s is reachable after %s failed", an.Text(t.Node), what)
		}
	}
}

func runC16(r *an.Run) {
	p := r.Prog

	r.Obl("status-table", "TABLE",
		"decidePaymentStatus returns, for each of the 16 valuations of (inflight, settled, htlc failed, payment failed), the status of the documented table: InFlight whenever an attempt is in flight; else Succeeded whenever one settled; else Failed when the payment failed; else InFlight when an attempt failed; else Initiated. The four flags are set only from h.Failure / h.Settle / reason, by one loop over the attempts parameter that is never left early; parameters and loop variable are never reassigned; nothing returns before the loop and the table is evaluated from the end of the loop (every branch between the loop and the switch counts)",
		"a payment with a settled attempt reported failed is paid again by the caller; a failed one reported in flight is never retried", 20,
		func(o *an.Obl) {
			f := p.Func(pd + "decidePaymentStatus")
			// flag writers
			wantGuard := map[string][]an.Fact{
				"paymentFailed": {an.IsNil(an.Param(1), false, "reason != nil")},
				"htlcFailed":    {an.IsNil(an.FieldPath(nil, "Failure"), false, "h.Failure != nil")},
				"htlcSettled":   {an.IsNil(an.FieldPath(nil, "Failure"), true, "h.Failure == nil"), an.IsNil(an.FieldPath(nil, "Settle"), false, "h.Settle != nil")},
				"inflight":      {an.IsNil(an.FieldPath(nil, "Failure"), true, "h.Failure == nil"), an.IsNil(an.FieldPath(nil, "Settle"), true, "h.Settle == nil")},
			}
			for name, facts := range wantGuard {
				ws := f.Assigns(an.LocalNamed(name), false)
				k := 0
				for _, w := range ws {
					as := w.Node.(*ast.AssignStmt)
					if as.Tok == token.DEFINE {
						// `paymentFailed := reason != nil` is the same writer as
						// `if reason != nil { paymentFailed = true }` over the
						// initial false: the flag is the comparison itself,
						// taken unconditionally
						if name == "paymentFailed" && len(as.Lhs) == 1 && len(as.Rhs) == 1 && c16IsNotNilOf(f, as.Rhs[0], an.Param(1)) {
							k++
							o.Site("flag %s is defined as %s", name, an.Text(as.Rhs[0]))
							onlyGuards(o, f, w, nil, "flag "+name)
						}
						continue
					}
					k++
					if an.Text(as.Rhs[0]) != "true" {
						o.FailAt(f.ID+"#flag-"+name, w.Where(), "%s is assigned %s", name, an.Text(as.Rhs[0]))
					}
					guardedAll(o, f, []an.Site{w}, facts...)
					// and by nothing else: an extra condition changes a row of the table
					onlyGuards(o, f, w, []string{`^reason != nil$`, `^!?\(?h\.Failure != nil\)?$`, `^!?\(?h\.Settle != nil\)?$`, `^h\.(Failure|Settle) == nil$`}, "flag "+name)
					if name != "paymentFailed" {
						if hdr := enclosingLoopHeader(f, as); hdr != "$p0" {
							o.FailAt(f.ID+"#flag-loop-"+name, w.Where(), "%s is derived from %s, expected the payment's attempts", name, hdr)
						}
					}
				}
				if k != 1 {
					o.FailAt(f.ID+"#flag-writers-"+name, f.Where(f.Body.Pos()), "%s has %d assignments, expected one", name, k)
				}
			}
			// the flags are gathered by one loop over the attempts parameter,
			// which looks at every attempt; the parameters and the loop
			// variable stand for the caller's values throughout
			var fixed []string
			for _, pv := range f.Params(false) {
				if pv != nil && pv.Name() != "" && pv.Name() != "_" {
					fixed = append(fixed, pv.Name())
				}
			}
			hds := c15RangeHeads(f, `.`)
			if len(hds) != 1 || f.Canon(hds[0].Node.(*ast.RangeStmt).X) != "$p0" {
				o.FailAt(f.ID+"#attempt-loop", f.Where(f.Body.Pos()), "expected exactly one loop in decidePaymentStatus, over the attempts parameter; found %d", len(hds))
				return
			}
			head := hds[0]
			for _, kv := range []ast.Expr{head.Node.(*ast.RangeStmt).Key, head.Node.(*ast.RangeStmt).Value} {
				if id, ok := kv.(*ast.Ident); ok && id.Name != "_" {
					fixed = append(fixed, id.Name)
				}
			}
			notReassigned(o, f, fixed...)
			c15LoopLeftOnlyBy(o, f, head, "attempts", nil)
			// nothing is decided before the loop ...
			for v := range f.Graph().Reach(f.Graph().Entry, nil, map[*flow.Vertex]bool{head: true}) {
				if v.Kind == flow.KReturn {
					o.FailAt(f.ID+"#early-exit", f.Where(v.Pos()), "decidePaymentStatus returns at %s before the attempts were examined", f.Where(v.Pos()))
				}
			}
			// ... and the table is evaluated from the end of the loop: every
			// branch between the loop and the documented switch is part of it
			var start *flow.Vertex
			for _, e := range head.Out {
				if e.Kind == flow.ERangeDone {
					start = e.To
				}
			}
			if start == nil {
				o.FailAt(f.ID+"#decision", f.Where(f.Body.Pos()), "cannot find the end of the attempt loop")
				return
			}
			names := []string{"inflight", "htlcSettled", "htlcFailed", "paymentFailed"}
			for mask := 0; mask < 16; mask++ {
				val := map[string]bool{}
				for i, n := range names {
					val[n] = mask&(1<<i) != 0
				}
				decide := func(fn *an.Func, v *flow.Vertex) (bool, bool) {
					e, ok := v.Node.(ast.Expr)
					if !ok {
						return false, false
					}
					e = ast.Unparen(e)
					neg := false
					if u, ok := e.(*ast.UnaryExpr); ok && u.Op == token.NOT {
						neg = true
						e = ast.Unparen(u.X)
					}
					id, ok := e.(*ast.Ident)
					if !ok {
						return false, false
					}
					b, known := val[id.Name]
					return b != neg, known
				}
				reach := f.ReachUnderFrom(start, decide)
				var outs []string
				for _, s := range f.Returns() {
					if reach[s.V] {
						outs = append(outs, an.Text(s.Node.(*ast.ReturnStmt).Results[0]))
					}
				}
				sort.Strings(outs)
				want := "StatusInitiated"
				switch {
				case val["inflight"]:
					want = "StatusInFlight"
				case val["htlcSettled"]:
					want = "StatusSucceeded"
				case val["paymentFailed"]:
					want = "StatusFailed"
				case val["htlcFailed"]:
					want = "StatusInFlight"
				}
				key := ""
				for _, n := range names {
					if val[n] {
						key += "T"
					} else {
						key += "F"
					}
				}
				o.Site("inflight,settled,htlcFailed,paymentFailed=%s -> %v", key, outs)
				if len(outs) != 1 || outs[0] != want {
					o.FailAt(f.ID+"#row-"+key, f.Where(head.Pos()), "for (inflight, settled, htlc failed, payment failed) = %s the status is %v, the documented table says %s", key, outs, want)
				}
			}
		})

	r.Obl("status-predicates", "TABLE",
		"initializable is nil only for StatusFailed; updatable is nil only for StatusInitiated and StatusInFlight; removable is an error only for StatusInFlight (and unknown values are errors everywhere)",
		"re-initiating an in-flight or succeeded payment pays twice; updating a terminal payment rewrites history", 12,
		func(o *an.Obl) {
			want := map[string]map[string]bool{ // true = nil (allowed)
				"initializable": {"StatusInitiated": false, "StatusInFlight": false, "StatusSucceeded": false, "StatusFailed": true},
				"updatable":     {"StatusInitiated": true, "StatusInFlight": true, "StatusSucceeded": false, "StatusFailed": false},
				"removable":     {"StatusInitiated": true, "StatusInFlight": false, "StatusSucceeded": true, "StatusFailed": true},
			}
			for name, tbl := range want {
				f := p.Func(pd + "PaymentStatus." + name)
				// the exits are read off the graph under the valuation
				// `ps == st` (every test of the receiver against a status
				// constant is decided, whatever it is written as: its own
				// case, one entry of a merged case list, an ==/!= in an if);
				// any other condition is left open, so that an exit that
				// depends on something else counts for every status
				known := map[string]bool{}
				for st := range tbl {
					known[st] = true
				}
				under := func(st string) an.Decide {
					return func(fn *an.Func, v *flow.Vertex) (bool, bool) {
						c, eq, ok := c16RecvStatusTest(fn, v)
						if !ok || !known[c] {
							return false, false
						}
						return (c == st) == eq, true
					}
				}
				for st, allow := range tbl {
					n := 0
					reach := f.ReachUnder(under(st))
					for _, s := range f.Returns() {
						if !reach[s.V] {
							continue
						}
						n++
						isNil := an.IsNilIdent(f.Info(), s.Node.(*ast.ReturnStmt).Results[0])
						o.Site("%s(%s) -> %s", name, st, an.Text(s.Node.(*ast.ReturnStmt).Results[0]))
						if isNil != allow {
							o.FailAt(f.ID+"#"+st, s.Where(), "%s() for %s returns %s; the table says allowed=%v", name, st, an.Text(s.Node.(*ast.ReturnStmt).Results[0]), allow)
						}
					}
					if n != 1 {
						o.FailAt(f.ID+"#case-"+st, f.Where(f.Body.Pos()), "%s has %d exits for %s, expected one", name, n, st)
					}
				}
				// default is an error: no nil exit is reachable for a value
				// that is none of the four statuses
				reach := f.ReachUnder(under(""))
				for _, s := range f.Returns() {
					if !an.IsNilIdent(f.Info(), s.Node.(*ast.ReturnStmt).Results[0]) {
						continue
					}
					if reach[s.V] {
						o.FailAt(f.ID+"#default-nil", s.Where(), "%s returns nil outside the four known statuses", name)
					}
				}
			}
		})

	r.Obl("status-and-state-derivation", "WHO",
		"MPPayment.Status and MPPayment.State are written only by setState, from decidePaymentStatus(m.HTLCs, m.FailureReason) and below `sentAmt <= m.Info.Value` with RemainingAmt = total - sent; SentAmt skips failed attempts only and grows its first result, once per non-failed attempt, only by `sum = addMsatSaturating(sum, h.Route.ReceiverAmt())` (never by a plain `+` / `+=`: the sum is compared against the payment amount and must not wrap), its second only by h.Route.TotalFees(); decidePaymentStatus is called only by setState and the SQL resolution shortcut; both stores' payment loaders call setState; m.Status is the unmodified result of decidePaymentStatus, m.State a literal whose five fields are exactly len(m.InFlightHTLCs()), m.Info.Value - SentAmt()#0, SentAmt()#1, TerminalInfo()#0 != nil, TerminalInfo()#1 != nil (setState's locals are never reassigned); SentAmt returns (sum of receiver amounts, sum of fees) in that order; TerminalInfo returns a settled attempt of m.HTLCs or the failure reason; no MPPayment literal sets Status or State (legacy duplicate payments aside); the SQL shortcut marks the attempt at each row's position with Settle for a settled row, Failure for a failed one, nothing only for NULL, and passes that list and the stored (Valid) failure reason",
		"a status set by hand, or computed from another attempt list, is not 'exactly the documented function of the attempts and failure reason'", 10,
		func(o *an.Obl) {
			ss := p.Func(pd + "MPPayment.setState")
			for _, fld := range []string{"Status", "State"} {
				for _, f := range p.Funcs(false, "payments/db") {
					for _, w := range f.Assigns(an.Field(pd+"MPPayment", fld, nil), false) {
						o.Site("writer %s", w.String())
						if f.ID != ss.ID {
							o.FailAt(f.ID+"#writes-"+fld, w.Where(), "%s writes MPPayment.%s", f.ID, fld)
							continue
						}
						guarded(o, f, w, an.CmpX(canonTerm(`^\$recv\.SentAmt\(\)$`), an.LE, canonTerm(`^\$recv\.Info\.Value$`), "sentAmt <= totalAmt"))
						mustPass(o, f, "decidePaymentStatus", f.Calls(an.CalleeIs(pd+"decidePaymentStatus"), false), an.OkErrNil, []an.Site{w})
						// what is written: the decided status itself / the state
						// built from the payment's own sums and terminal info
						as, isAs := w.Node.(*ast.AssignStmt)
						if !isAs || as.Tok != token.ASSIGN || len(as.Lhs) != 1 || len(as.Rhs) != 1 || !strings.HasPrefix(f.Canon(as.Lhs[0]), "$recv.") {
							o.FailAt(f.ID+"#write-shape-"+fld, w.Where(), "setState writes %s by `%s`, expected a plain assignment to the receiver's field", fld, an.Text(w.Node))
							continue
						}
						c := f.Canon(as.Rhs[0])
						o.Site("m.%s = %s", fld, c)
						switch fld {
						case "Status":
							if c != pd+"decidePaymentStatus($recv.HTLCs, $recv.FailureReason)" {
								o.FailAt(f.ID+"#status-value", w.Where(), "m.Status is set to %s, expected the (unmodified) result of decidePaymentStatus(m.HTLCs, m.FailureReason)", c)
							}
						case "State":
							u, _ := ast.Unparen(as.Rhs[0]).(*ast.UnaryExpr)
							var keys map[string]ast.Expr
							if u != nil && u.Op == token.AND {
								if cl, ok := ast.Unparen(u.X).(*ast.CompositeLit); ok {
									keys = c15LitKeys(cl)
								}
							}
							if keys == nil {
								o.FailAt(f.ID+"#state-value", w.Where(), "m.State is set to %s, expected a keyed MPPaymentState literal", c)
								break
							}
							want := map[string]string{
								"NumAttemptsInFlight": "len($recv.InFlightHTLCs())",
								"RemainingAmt":        "($recv.Info.Value - $recv.SentAmt())",
								"FeesPaid":            "$recv.SentAmt()#1",
								"HasSettledHTLC":      "($recv.TerminalInfo() != nil)",
								"PaymentFailed":       "($recv.TerminalInfo()#1 != nil)",
							}
							for k, wv := range want {
								v, ok := keys[k]
								if !ok {
									o.FailAt(f.ID+"#state-field-missing-"+k, w.Where(), "the state literal does not set %s", k)
									continue
								}
								if got := f.Canon(v); got != wv {
									o.FailAt(f.ID+"#state-field-"+k, f.Where(v.Pos()), "State.%s = %s, expected %s (a local that is redefined or modified after its definition prints as $v)", k, got, wv)
								}
							}
						}
					}
				}
			}
			// no payment is built with a status / state of the builder's choosing
			for _, cl := range p.CompositeLitsOf(p.LookupType("payments/db", "MPPayment")) {
				id := "<package level>"
				if cl.Fn != nil {
					id = cl.Fn.ID
				}
				lit := cl.Node.(*ast.CompositeLit)
				keys := c15LitKeys(lit)
				o.Site("MPPayment literal in %s at %s", id, cl.Where)
				if id == pd+"fetchDuplicatePayment" {
					continue // legacy duplicate payments are stored with their status
				}
				if keys == nil && len(lit.Elts) > 0 {
					o.FailAt(id+"#payment-literal", cl.Where, "%s builds an MPPayment with positional fields (Status and State included)", id)
					continue
				}
				for _, k := range []string{"Status", "State"} {
					if v, ok := keys[k]; ok {
						o.FailAt(id+"#literal-sets-"+k, cl.Where, "%s builds an MPPayment with %s: %s; only setState derives it", id, k, an.Text(v))
					}
				}
			}
			var ssLocals []string
			for _, v := range ss.Graph().V {
				if as, ok := v.Node.(*ast.AssignStmt); ok && as.Tok == token.DEFINE {
					for _, l := range as.Lhs {
						if id, ok := l.(*ast.Ident); ok && id.Name != "_" && id.Name != "err" {
							ssLocals = append(ssLocals, id.Name)
						}
					}
				}
			}
			notReassigned(o, ss, ssLocals...)
			for _, s := range ss.Calls(an.CalleeIs(pd+"decidePaymentStatus"), false) {
				a := ss.ArgCanon(s)
				if a[0] != "$recv.HTLCs" || a[1] != "$recv.FailureReason" {
					o.FailAt(ss.ID+"#status-inputs", s.Where(), "the status is decided from (%s, %s), expected the payment's attempts and failure reason", a[0], a[1])
				}
			}
			for _, s := range ss.Assigns(an.LocalNamed("totalAmt"), false) {
				if c := ss.Canon(s.Node.(*ast.AssignStmt).Rhs[0]); c != "$recv.Info.Value" {
					o.FailAt(ss.ID+"#total", s.Where(), "the payment total is taken from %s", c)
				}
			}
			for _, s := range ss.Assigns(an.LocalNamed("sentAmt"), false) {
				if c := ss.Canon(s.Node.(*ast.AssignStmt).Rhs[0]); !strings.HasPrefix(c, pd+"MPPayment.SentAmt($recv)") && !strings.HasPrefix(c, "$recv.SentAmt()") {
					o.FailAt(ss.ID+"#sent", s.Where(), "the sent amount is taken from %s", c)
				}
			}
			for _, cl := range p.CompositeLitsOf(p.LookupType("payments/db", "MPPaymentState")) {
				if cl.Fn == nil || cl.Fn.ID != ss.ID {
					continue
				}
				for _, el := range cl.Node.(*ast.CompositeLit).Elts {
					kv := el.(*ast.KeyValueExpr)
					c := an.Text(kv.Value)
					o.Site("State.%s = %s", an.Text(kv.Key), c)
					switch an.Text(kv.Key) {
					case "RemainingAmt":
						if c != "totalAmt - sentAmt" {
							o.FailAt(ss.ID+"#remaining", ss.Where(kv.Pos()), "RemainingAmt = %s", c)
						}
					case "HasSettledHTLC":
						if c != "settle != nil" {
							o.FailAt(ss.ID+"#has-settled", ss.Where(kv.Pos()), "HasSettledHTLC = %s", c)
						}
					case "PaymentFailed":
						if c != "failure != nil" {
							o.FailAt(ss.ID+"#payment-failed", ss.Where(kv.Pos()), "PaymentFailed = %s", c)
						}
					}
				}
			}
			// SentAmt: which sum is which (the first result is the one that grew
			// by the receiver amounts, the second the one that grew by the fees),
			// that both only ever grow by those, once per non-failed attempt, and
			// that the receiver amounts are added without wrapping (c16_fix4.go)
			c16f4SentAmt(o, p)
			// TerminalInfo: a settled attempt of the payment's own list, else
			// the payment's failure reason
			ti := p.Func(pd + "MPPayment.TerminalInfo")
			for _, s := range ti.Returns() {
				rs := s.Node.(*ast.ReturnStmt)
				if len(rs.Results) != 2 {
					continue
				}
				a, b := ti.Canon(rs.Results[0]), ti.Canon(rs.Results[1])
				o.Site("TerminalInfo returns (%s, %s)", a, b)
				switch {
				case a == "&$elem($recv.HTLCs)" && b == "nil":
					guarded(o, ti, s, an.IsNil(an.FieldPath(nil, "Settle"), false, "h.Settle != nil"))
				case a == "nil" && b == "$recv.FailureReason":
				default:
					o.FailAt(ti.ID+"#results", s.Where(), "TerminalInfo returns (%s, %s), expected (a settled attempt, nil) or (nil, the failure reason)", a, b)
				}
			}
			// the SQL shortcut feeds decidePaymentStatus with one attempt per
			// resolution row (Settle for a settled row, Failure for a failed
			// one, neither for NULL) and the stored failure reason
			cr := p.Func(pd + "computePaymentStatusFromResolutions")
			if dcs := cr.Calls(an.CalleeIs(pd+"decidePaymentStatus"), false); needExactly(o, cr, "decidePaymentStatus", dcs, 1) {
				listArg, reasonArg := callArg(dcs[0], 0), callArg(dcs[0], 1)
				lid, isID := ast.Unparen(listArg).(*ast.Ident)
				if c := cr.Canon(listArg); !isID || c != "make([]HTLCAttempt, len($p0))" {
					o.FailAt(cr.ID+"#attempt-list", dcs[0].Where(), "the shortcut decides from %s (%s), expected the list with one attempt per resolution row", an.Text(listArg), c)
				} else {
					c15PinnedWrites(o, cr, lid.Name, `^:= make\(\[\]HTLCAttempt, len\(\$p0\)\)$`)
				}
				for fld, st := range map[string]string{"Settle": "HTLCAttemptResolutionSettled", "Failure": "HTLCAttemptResolutionFailed"} {
					ws := cr.Assigns(an.Field(pd+"HTLCAttempt", fld, nil), false)
					if !needExactly(o, cr, "write of HTLCAttempt."+fld, ws, 1) {
						continue
					}
					as := ws[0].Node.(*ast.AssignStmt)
					if c := cr.Canon(as.Lhs[0]); c != "make([]HTLCAttempt, len($p0))[$key($p0)]."+fld {
						o.FailAt(cr.ID+"#row-target-"+fld, ws[0].Where(), "%s is recorded on %s, expected the attempt at the row's position", fld, c)
					}
					if u, ok := ast.Unparen(as.Rhs[0]).(*ast.UnaryExpr); !ok || u.Op != token.AND || as.Tok != token.ASSIGN {
						o.FailAt(cr.ID+"#row-value-"+fld, ws[0].Where(), "%s is set by `%s`, expected a non-nil marker", fld, an.Text(as))
					}
					guarded(o, cr, ws[0], an.Cmp(canonTerm(`^(HTLCAttemptResolutionType\()?\$elem\(\$p0\)\.Int32\)?$`), an.EQ, an.PkgVar("payments/db", st), "the row's resolution type == "+st))
				}
				// a row is left without mark (in flight) only when its resolution is NULL
				var marks []an.Site
				for _, fld := range []string{"Settle", "Failure"} {
					marks = append(marks, cr.Assigns(an.Field(pd+"HTLCAttempt", fld, nil), false)...)
				}
				everyIterationOr(o, cr, `^\$p0$`, marks, an.Truth(canonTerm(`^\$elem\(\$p0\)\.Valid$`), false, "the row's resolution is NULL"), "Settle / Failure mark")
				names := c15LocalsIn(cr, reasonArg)
				if len(names) != 1 {
					o.FailAt(cr.ID+"#reason-arg", dcs[0].Where(), "the shortcut passes %s as failure reason", an.Text(reasonArg))
				}
				for _, nm := range names {
					for _, w := range c15PinnedWrites(o, cr, nm, "", `^= &\$v:payments/db\.FailureReason$`) {
						if w.rhs == nil {
							continue
						}
						guarded(o, cr, w.site, an.Truth(canonTerm(`^\$p1\.Valid$`), true, "failReason.Valid"))
						for _, src := range c15LocalsIn(cr, w.rhs) {
							c15PinnedWrites(o, cr, src, `^:= FailureReason\(\$p1\.Int32\)$`, `^& $`)
						}
					}
				}
			}
			// callers of decidePaymentStatus
			for _, f := range p.Funcs(false, "payments/db") {
				for _, s := range f.Calls(an.CalleeIs(pd+"decidePaymentStatus"), false) {
					o.Site("caller %s", s.String())
					if f.ID != ss.ID && f.ID != pd+"computePaymentStatusFromResolutions" {
						o.FailAt(f.ID+"#decides-status", s.Where(), "%s calls decidePaymentStatus", f.ID)
					}
				}
			}
			// loaders
			for id, callee := range map[string]string{pd + "fetchPayment": "setState", pd + "fetchPaymentWithCompleteData": ""} {
				f := p.FuncOpt(id)
				if f == nil {
					o.FailAt(id+"#loader", "", "loader %s not found", id)
					continue
				}
				if callee == "" {
					continue
				}
				mustPass(o, f, callee, f.Calls(an.CalleeNamed(callee), false), an.OkErrNil, f.StrictSuccessReturnsOrNilPtr())
			}
			// the SQL builder hands out a payment only after SetState succeeded
			for _, f := range p.Funcs(false, "payments/db") {
				if f.Lit != nil {
					continue
				}
				cs := f.Calls(an.CalleeIs(pd+"MPPayment.SetState"), false)
				if len(cs) == 0 {
					continue
				}
				o.Site("%s derives the payment state (%d calls)", f.ID, len(cs))
				mustPass(o, f, "SetState", cs, an.OkErrNil, f.StrictSuccessReturnsOrNilPtr())
			}
			reach := p.Reachable(pd + "fetchPaymentWithCompleteData")
			if !reach[pd+"MPPayment.SetState"] && !reach[pd+"MPPayment.setState"] {
				o.FailAt(pd+"fetchPaymentWithCompleteData#setState", "", "the SQL loader no longer reaches setState")
			}
		})

	r.Obl("attempt-admission", "GUARD",
		"Registrable returns nil only when the status is updatable and, if attempts are in flight, no attempt has settled and the payment has not failed; verifyAttempt returns nil only below `addMsatSaturating(sentAmt, amt) <= payment.Info.Value` (the saturating sum, in either argument order, held in a local defined once; a plain `sentAmt + amt` is not accepted: it wraps for an amount near 2^64) with sentAmt from payment.SentAmt() and amt the attempt's receiver amount, and (for a non-MPP, non-blinded attempt) amt == payment value",
		"an attempt admitted beyond the payment amount, or after a settle, overpays the recipient", 6,
		func(o *an.Obl) {
			f := p.Func(pd + "MPPayment.Registrable")
			up := f.Calls(an.CalleeIs(pd+"PaymentStatus.updatable"), false)
			for _, s := range f.Returns() {
				if !an.IsNilIdent(f.Info(), s.Node.(*ast.ReturnStmt).Results[0]) {
					continue
				}
				mustPass(o, f, "Status.updatable", up, an.OkErrNil, []an.Site{s})
				st := an.FieldPath(an.Recv(), "Status")
				guarded(o, f, s, an.AnyOf("not in flight, or no settled attempt",
					an.Cmp(st, an.NE, an.PkgVar("payments/db", "StatusInFlight"), ""),
					an.Truth(an.FieldPath(an.FieldPath(an.Recv(), "State"), "HasSettledHTLC"), false, "")))
				guarded(o, f, s, an.AnyOf("not in flight, or payment not failed",
					an.Cmp(st, an.NE, an.PkgVar("payments/db", "StatusInFlight"), ""),
					an.Truth(an.FieldPath(an.FieldPath(an.Recv(), "State"), "PaymentFailed"), false, "")))
			}
			for _, s := range up {
				if c := f.Canon(s.Node.(*ast.CallExpr).Fun); !strings.HasPrefix(c, "$recv.Status.") {
					o.FailAt(f.ID+"#status-source", s.Where(), "Registrable tests %s", c)
				}
			}
			g := p.Func(pd + "verifyAttempt")
			val := an.FieldPath(an.FieldPath(an.Param(0), "Info"), "Value")
			for _, s := range g.Returns() {
				if !an.IsNilIdent(g.Info(), s.Node.(*ast.ReturnStmt).Results[0]) {
					continue
				}
				guarded(o, g, s, an.CmpX(c16f4SaturatedSum(`\$p0\.SentAmt\(\)(#0)?`, `\$p1\.Route\.ReceiverAmt\(\)`), an.LE, val, "addMsatSaturating(sentAmt, amt) <= payment.Info.Value"))
				guarded(o, g, s, an.AnyOf("blinded, MPP, or exact amount",
					an.Truth(an.LocalNamed("isBlinded"), true, ""),
					an.IsNil(an.LocalNamed("mpp"), false, ""),
					an.CmpX(an.LocalNamed("amt"), an.EQ, val, "")))
			}
			for _, s := range g.Assigns(an.LocalNamed("sentAmt"), false) {
				c := g.Canon(s.Node.(*ast.AssignStmt).Rhs[0])
				o.Site("verifyAttempt sentAmt <- %s", c)
				if !strings.Contains(c, "SentAmt(") || !strings.Contains(c, "$p0") {
					o.FailAt(g.ID+"#sent", s.Where(), "sentAmt is taken from %s", c)
				}
			}
			for _, s := range g.Assigns(an.LocalNamed("amt"), false) {
				c := g.Canon(s.Node.(*ast.AssignStmt).Rhs[0])
				o.Site("verifyAttempt amt <- %s", c)
				if c != "$p1.Route.ReceiverAmt()" {
					o.FailAt(g.ID+"#amt", s.Where(), "amt is taken from %s", c)
				}
			}
		})

	r.Obl("store-gates-dominate-writes", "PATH",
		"in both stores, inside the transaction closure: InitPayment's writes come after initializable() succeeded on the status of the stored payment (when one exists); RegisterAttempt's insert after Registrable() and verifyAttempt() succeeded on the payment loaded in that transaction; SettleAttempt/FailAttempt's write after updatable() succeeded; the Delete* methods' deletions after removable() succeeded; each gate's receiver is defined solely by the status/payment loader of that transaction, is not rewritten field-wise between loader and gate, and the SQL status shortcut is fed the resolutions and the failure reason of the same payment row; every function body of these methods that contains one of the tabled write calls contains the gates",
		"a gate evaluated on anything but the stored payment (or skipped on one path) admits exactly the re-initiation, over-registration or late update the property forbids", 24,
		func(o *an.Obl) {
			type gate struct {
				fn      string   // method
				gates   []string // callee last names
				writes  []string // callee last names of the writes
				loaders []string // allowed defining calls of the gate's receiver / first arg
			}
			kvLoad := []string{pd + "fetchPaymentStatus", pd + "fetchPayment"}
			sqlLoad := []string{pd + "computePaymentStatusFromDB", pd + "computePaymentStatusFromResolutions", pd + "fetchPaymentWithCompleteData"}
			table := []gate{
				{pd + "KVStore.InitPayment", []string{"initializable"}, []string{"Put", "Delete", "DeleteNestedBucket", "createPaymentIndexEntry"}, kvLoad},
				{pd + "KVStore.RegisterAttempt", []string{"Registrable", "verifyAttempt"}, []string{"Put"}, kvLoad},
				{pd + "KVStore.updateHtlcKey", []string{"updatable"}, []string{"Put"}, kvLoad},
				{pd + "KVStore.DeletePayment", []string{"removable"}, []string{"Delete", "DeleteNestedBucket"}, kvLoad},
				{pd + "KVStore.DeletePayments", []string{"removable"}, []string{"assign:deleteBuckets", "assign:deleteHtlcs", "assign:deleteIndexes"}, kvLoad},
				{pd + "SQLStore.InitPayment", []string{"initializable"}, []string{"InsertPayment", "DeletePayment"}, sqlLoad},
				{pd + "SQLStore.RegisterAttempt", []string{"Registrable", "verifyAttempt"}, []string{"InsertHtlcAttempt"}, sqlLoad},
				{pd + "SQLStore.SettleAttempt", []string{"updatable"}, []string{"SettleAttempt"}, sqlLoad},
				{pd + "SQLStore.FailAttempt", []string{"updatable"}, []string{"FailAttempt"}, sqlLoad},
				{pd + "SQLStore.DeleteFailedAttempts", []string{"removable"}, []string{"DeleteFailedAttempts"}, sqlLoad},
				{pd + "SQLStore.DeletePayment", []string{"removable"}, []string{"DeletePayment", "DeleteFailedAttempts"}, sqlLoad},
				{pd + "SQLStore.DeletePayments", []string{"removable"}, []string{"DeletePayment", "DeleteFailedAttempts", "DeletePayments"}, sqlLoad},
			}
			for _, g := range table {
				root := p.Func(g.fn)
				found := 0
				// every function body of the method (its own and each closure's)
				// that contains one of the tabled write calls also contains the
				// gates: a second transaction that writes has its own gate
				for _, lf := range append([]*an.Func{root}, root.Lits...) {
					var wn []string
					for _, w := range g.writes {
						if !strings.HasPrefix(w, "assign:") {
							wn = append(wn, w)
						}
					}
					if len(wn) == 0 {
						continue
					}
					ws := lf.Calls(an.CalleeNamed(wn...), false)
					if len(ws) == 0 {
						continue
					}
					for _, gname := range g.gates {
						if len(lf.Calls(an.CalleeNamed(gname), false)) == 0 {
							o.FailAt(g.fn+"#ungated-writes-"+gname, ws[0].Where(), "%s writes (%s) in a function body that does not evaluate the %s gate", lf.ID, an.Text(ws[0].Node), gname)
						}
					}
					o.Site("%s: %d write calls share their body with the gates %v", lf.ID, len(ws), g.gates)
				}
				for _, lf := range root.Lits {
					for _, gname := range g.gates {
						gs := lf.Calls(an.CalleeNamed(gname), false)
						if len(gs) == 0 {
							continue
						}
						found++
						var targets []an.Site
						var callNames []string
						for _, w := range g.writes {
							if name, ok := strings.CutPrefix(w, "assign:"); ok {
								// deletions are collected here and applied by the enclosing closure
								for _, v := range lf.Graph().V {
									as, isAs := v.Node.(*ast.AssignStmt)
									if !isAs {
										continue
									}
									l := ast.Unparen(as.Lhs[0])
									if ix, isIx := l.(*ast.IndexExpr); isIx {
										l = ix.X
									}
									if id, isID := l.(*ast.Ident); isID && id.Name == name {
										targets = append(targets, an.Site{Fn: lf, V: v, Node: as})
									}
								}
								continue
							}
							callNames = append(callNames, w)
						}
						if len(callNames) > 0 {
							targets = append(targets, lf.Calls(an.CalleeNamed(callNames...), false)...)
						}
						for _, gsite := range gs {
							// writes positioned before the gate in the same closure are not gated by it
							var after []an.Site
							for _, t := range targets {
								if t.Node.Pos() > gsite.Node.Pos() {
									after = append(after, t)
								} else {
									o.FailAt(g.fn+"#write-before-"+gname, t.Where(), "%s writes (%s) before the %s gate", g.fn, an.Text(t.Node), gname)
								}
							}
							if len(after) == 0 {
								o.FailAt(g.fn+"#no-writes-"+gname, gsite.Where(), "no write found after the %s gate of %s: the table of write calls is stale", gname, g.fn)
							}
							gateDominates(o, lf, gsite, an.OkErrNil, after, gname)
							if gname == "initializable" {
								// when a stored payment was found (loader ok), no
								// path reaches the writes around the gate
								for _, ld := range lf.Calls(an.CalleeIs(g.loaders...), false) {
									if ld.Node.Pos() > gsite.Node.Pos() {
										continue
									}
									oke, _ := lf.OkEdges(ld, an.OkErrNil)
									for e := range oke {
										rr := lf.Graph().Reach(e.To, nil, map[*flow.Vertex]bool{gsite.V: true})
										for _, t := range after {
											if rr[t.V] {
												o.FailAt(g.fn+"#init-bypasses-gate", t.Where(), "with a stored payment found, %s is reachable without the initializable gate", an.Text(t.Node))
											}
										}
									}
									o.Site("%s: stored-payment paths from %s all pass initializable", g.fn, ld.String())
								}
							}
							// receiver / argument provenance
							call := gsite.Node.(*ast.CallExpr)
							var subj ast.Expr
							if sel, ok := call.Fun.(*ast.SelectorExpr); ok && gname != "verifyAttempt" {
								subj = sel.X
							} else {
								subj = call.Args[0]
							}
							if sel, ok := subj.(*ast.SelectorExpr); ok && sel.Sel.Name == "Status" {
								subj = sel.X
							}
							id, ok := ast.Unparen(subj).(*ast.Ident)
							if !ok {
								o.FailAt(g.fn+"#gate-subject-"+gname, gsite.Where(), "cannot identify what %s is evaluated on (%s)", gname, an.Text(subj))
								continue
							}
							defs := definingCalls(lf, id)
							o.Site("%s: %s evaluated on %s defined by %v", g.fn, gname, id.Name, defs)
							if len(defs) == 0 {
								o.FailAt(g.fn+"#gate-provenance-"+gname, gsite.Where(), "%s is evaluated on %s, which is not defined solely by the payment loaders of this transaction", gname, id.Name)
							}
							// and loaded in this very run of the closure: a value that
							// survives a retried transaction is not the stored payment
							if lds := lf.Calls(an.CalleeIs(defs...), false); len(lds) > 0 {
								mustPass(o, lf, "the payment loader", lds, an.OkErrNil, []an.Site{gsite})
								// the loader is asked about the stored payment of this
								// transaction: attempts and failure reason of one and
								// the same row
								for _, ld := range lds {
									la := lf.ArgCanon(ld)
									o.Site("%s: loader %s%v", g.fn, an.CalleeID(lf.Info(), ld.Node.(*ast.CallExpr)), la)
									if an.CalleeID(lf.Info(), ld.Node.(*ast.CallExpr)) != pd+"computePaymentStatusFromResolutions" {
										continue
									}
									m := regexp.MustCompile(`^(.+)\.resolutionTypes\[(.+)\.ID\]$`).FindStringSubmatch(la[0])
									if m == nil || la[1] != m[2]+".FailReason" {
										o.FailAt(g.fn+"#loader-args-"+gname, ld.Where(), "the status is computed from (%s, %s), expected the batch-loaded resolutions and the failure reason of the same payment row", la[0], la[1])
									}
								}
								// and what the loader returned is what the gate sees: the
								// subject's fields are not rewritten in this closure
								subjObj := lf.Info().Uses[id]
								ast.Inspect(lf.Body, func(n ast.Node) bool {
									as, ok := n.(*ast.AssignStmt)
									if !ok {
										return true
									}
									for _, l := range as.Lhs {
										e := ast.Unparen(l)
										if _, plain := e.(*ast.Ident); plain {
											continue
										}
										for {
											switch x := ast.Unparen(e).(type) {
											case *ast.SelectorExpr:
												e = x.X
												continue
											case *ast.IndexExpr:
												e = x.X
												continue
											case *ast.StarExpr:
												e = x.X
												continue
											case *ast.SliceExpr:
												e = x.X
												continue
											}
											break
										}
										if rid, ok := ast.Unparen(e).(*ast.Ident); ok && subjObj != nil && lf.Info().Uses[rid] == subjObj {
											o.FailAt(g.fn+"#gate-subject-modified-"+gname, lf.Where(as.Pos()), "`%s` rewrites the loaded %s inside the transaction: the %s gate no longer sees the stored payment", an.Text(as), id.Name, gname)
										}
									}
									return true
								})
							} else if len(defs) > 0 {
								o.FailAt(g.fn+"#gate-loaded-elsewhere-"+gname, gsite.Where(), "%s is evaluated on %s, which is loaded outside the transaction closure", gname, id.Name)
							}
							for _, d := range defs {
								okd := false
								for _, l := range g.loaders {
									if d == l {
										okd = true
									}
								}
								if !okd {
									o.FailAt(g.fn+"#gate-provenance-"+gname, gsite.Where(), "%s is evaluated on %s, which can come from %s instead of the stored payment", gname, id.Name, d)
								}
							}
						}
					}
				}
				if found < len(g.gates) {
					o.FailAt(g.fn+"#gates", root.Where(root.Body.Pos()), "%s has %d of its %d gates (%v) inside its transaction", g.fn, found, len(g.gates), g.gates)
				}
			}
		})

	r.Obl("attempt-resolved-once", "GUARD",
		"KVStore.updateHtlcKey writes a settle or fail record only for a registered attempt that has neither a fail nor a settle record yet",
		"a second resolution of the same attempt turns a settled attempt into a failed one (or the reverse) and with it the payment's status", 3,
		func(o *an.Obl) {
			root := p.Func(pd + "KVStore.updateHtlcKey")
			for _, lf := range root.Lits {
				puts := lf.Calls(an.CalleeNamed("Put"), false)
				if len(puts) == 0 {
					continue
				}
				for _, s := range puts {
					for _, k := range []struct {
						key  string
						want bool // nil wanted?
					}{{"htlcAttemptInfoKey", false}, {"htlcFailInfoKey", true}, {"htlcSettleInfoKey", true}} {
						fact := an.IsNil(an.CallNamed("Get", nil, canonTerm(`htlcBucketKey\(`+pd+k.key+`, `)), k.want, "htlcsBucket.Get("+k.key+") nil="+map[bool]string{true: "yes", false: "no"}[k.want])
						// where the lookups were moved into a helper that
						// answers with a sentinel (`return ErrAttemptAlreadyFailed`)
						// the inlined code reads `err = ErrAttemptAlreadyFailed;
						// if err != nil { return err }`: the write is not
						// dominated by the test syntactically, but no path on
						// which the error variable holds a value that is never
						// nil takes the `err == nil` branch
						if ok, _ := lf.Guarded(s, fact); !ok && len(lf.EdgesOf(fact)) > 0 && !c16ReachableAvoiding(p, lf, s, fact) {
							o.Site("%s below [%s] on every path on which the error a failed test assigns is not nil", s.String(), fact.Desc)
							continue
						}
						guarded(o, lf, s, fact)
					}
				}
			}
		})

	r.Obl("resolution-belongs-to-the-gated-payment", "PATH",
		"SQLStore.SettleAttempt and FailAttempt record a resolution (queries keyed by the attempt index alone) only after checkAttemptResolvable succeeded for the ID of the payment whose status was gated and the same attempt ID; checkAttemptResolvable returns nil only for an attempt of that payment's own attempt list that has no resolution, and the already-settled / already-failed errors for a resolved one; verifyAttempt, which both stores call inside their write transaction before storing an attempt, admits an attempt only when payment.GetAttempt(attempt.AttemptID) finds none; the loaders used by the stores' entry points map a missing payment to ErrPaymentNotInitiated (fetchPaymentByHash: exactly one exit below errors.Is(err, sql.ErrNoRows), returning that sentinel; a row only when the query returned no error); checkAttemptResolvable answers a settled attempt with ErrAttemptAlreadySettled and a failed one with ErrAttemptAlreadyFailed; GetAttempt, called on the payment being verified, searches all of m.HTLCs for `htlc.AttemptID == id` and hands out that attempt",
		"a resolution recorded for an attempt of another payment mutates a payment whose status was never checked; a duplicate attempt ID replaces an attempt whose amount is still in flight and the sum check forgets it; backends that answer an unknown payment differently break callers that test the sentinel error", 8,
		func(o *an.Obl) {
			chkID := pd + "checkAttemptResolvable"
			for _, w := range []struct{ fn, query string }{
				{pd + "SQLStore.SettleAttempt", "SettleAttempt"},
				{pd + "SQLStore.FailAttempt", "FailAttempt"},
			} {
				root := p.Func(w.fn)
				n := 0
				for _, lf := range root.Lits {
					writes := lf.Calls(func(id string, c *ast.CallExpr) bool {
						return strings.HasSuffix(id, "."+w.query) && strings.Contains(id, "SQLQueries")
					}, false)
					if len(writes) == 0 {
						continue
					}
					n += len(writes)
					cs := lf.Calls(an.CalleeIs(chkID), false)
					mustPass(o, lf, "checkAttemptResolvable", cs, an.OkErrNil, writes)
					for _, c := range cs {
						a := lf.ArgCanon(c)
						o.Site("%s: checkAttemptResolvable(%s, %s)", w.fn, a[2], a[3])
						if !reMatch(`^`+regexpQuote(pd)+`fetchPaymentByHash\(.*\)\.GetPayment\(\)\.ID$`, a[2]) {
							o.FailAt(w.fn+"#ownership-payment", c.Where(), "the attempt's owner is checked against %s, expected the ID of the payment fetched by the hash of this call", a[2])
						}
						if a[3] != "$p2" {
							o.FailAt(w.fn+"#ownership-attempt", c.Where(), "ownership is checked for attempt %s, expected the attempt ID of this call", a[3])
						}
					}
					for _, wr := range writes {
						// the write is keyed by the same attempt ID
						if t := lf.Canon(callArg(wr, 1)); !strings.Contains(t, "AttemptIndex: int64($p2)") {
							o.FailAt(w.fn+"#write-key", wr.Where(), "the resolution is written for %s", t)
						}
					}
				}
				if n != 1 {
					o.FailAt(w.fn+"#writes", root.Where(root.Body.Pos()), "expected one resolution write in %s, found %d", w.fn, n)
				}
			}
			ck := p.Func(chkID)
			for _, s := range ck.Returns() {
				rs := s.Node.(*ast.ReturnStmt)
				c := an.Text(rs.Results[0])
				switch c {
				case "nil":
					o.Site("checkAttemptResolvable accepts at %s", s.Where())
					guarded(o, ck, s, an.Truth(an.FieldPath(an.FieldPath(nil, "ResolutionType"), "Valid"), false, "the attempt has no resolution"))
					guarded(o, ck, s, an.CmpX(an.FieldPath(nil, "AttemptIndex"), an.EQ, an.Param(3), "attempt.AttemptIndex == attemptID"))
					if hdr := enclosingLoopHeader(ck, rs); !strings.Contains(hdr, "FetchHtlcAttemptsForPayments(") {
						o.FailAt(chkID+"#list", s.Where(), "the attempt is looked up in %s", hdr)
					}
				}
			}
			// a resolved attempt is answered with the error that names its
			// resolution
			resTag := canonTerm(`^(HTLCAttemptResolutionType\()?\$elem\(.*FetchHtlcAttemptsForPayments\(.*\)\)\.ResolutionType\.Int32\)?$`)
			for errName, st := range map[string]string{"ErrAttemptAlreadySettled": "HTLCAttemptResolutionSettled", "ErrAttemptAlreadyFailed": "HTLCAttemptResolutionFailed"} {
				n := 0
				for _, s := range ck.Returns() {
					if an.Text(s.Node.(*ast.ReturnStmt).Results[0]) != errName {
						continue
					}
					n++
					guarded(o, ck, s, an.Cmp(resTag, an.EQ, an.PkgVar("payments/db", st), "the attempt's resolution type == "+st))
					guarded(o, ck, s, an.CmpX(an.FieldPath(nil, "AttemptIndex"), an.EQ, an.Param(3), "attempt.AttemptIndex == attemptID"))
				}
				if n != 1 {
					o.FailAt(chkID+"#"+errName, ck.Where(ck.Body.Pos()), "checkAttemptResolvable has %d exits with %s, expected one", n, errName)
				}
			}
			for _, s := range ck.Calls(an.CalleeNamed("FetchHtlcAttemptsForPayments"), false) {
				if t := ck.Canon(callArg(s, 1)); t != "[]int64{$p2}" {
					o.FailAt(chkID+"#payment", s.Where(), "the attempts are fetched for %s, expected the given payment only", t)
				}
			}
			// duplicate attempt IDs
			va := p.Func(pd + "verifyAttempt")
			ga := va.Calls(an.CalleeIs(pd+"MPPayment.GetAttempt"), false)
			if needExactly(o, va, "payment.GetAttempt", ga, 1) {
				if a := va.ArgCanon(ga[0]); a[0] != "$p1.AttemptID" {
					o.FailAt(va.ID+"#duplicate-id-arg", ga[0].Where(), "the duplicate check looks up %s", a[0])
				}
				if sel, ok := ast.Unparen(ga[0].Node.(*ast.CallExpr).Fun).(*ast.SelectorExpr); !ok || va.Canon(sel.X) != "$p0" {
					o.FailAt(va.ID+"#duplicate-id-payment", ga[0].Where(), "the duplicate check looks the attempt up on %s, expected the payment being verified", an.Text(ga[0].Node.(*ast.CallExpr).Fun))
				}
				// the `err` tested is the lookup's
				if eo := c15LhsObj(va, ga[0], 1); eo == nil {
					o.FailAt(va.ID+"#duplicate-id-result", ga[0].Where(), "the result of the duplicate lookup is discarded")
				}
				for _, s := range va.Returns() {
					if !an.IsNilIdent(va.Info(), s.Node.(*ast.ReturnStmt).Results[0]) {
						continue
					}
					// success only when the lookup found no attempt under that ID
					guarded(o, va, s, an.IsNil(an.LocalNamed("err"), false, "payment.GetAttempt(attempt.AttemptID) found nothing"))
				}
			}
			// GetAttempt searches every attempt of the payment for the ID
			gat := p.Func(pd + "MPPayment.GetAttempt")
			var gaParams []string
			for _, pv := range gat.Params(false) {
				gaParams = append(gaParams, pv.Name())
			}
			notReassigned(o, gat, gaParams...)
			nFound := 0
			for _, s := range gat.Returns() {
				rs := s.Node.(*ast.ReturnStmt)
				if len(rs.Results) != 2 {
					continue
				}
				if an.IsNilIdent(gat.Info(), rs.Results[0]) {
					// "not found": only after every attempt was looked at
					if an.IsNilIdent(gat.Info(), rs.Results[1]) {
						o.FailAt(gat.ID+"#not-found-nil", s.Where(), "GetAttempt reports 'not found' without an error")
					}
					continue
				}
				nFound++
				c := gat.Canon(rs.Results[0])
				o.Site("GetAttempt finds %s at %s", c, s.Where())
				if c != "&$elem($recv.HTLCs)" {
					o.FailAt(gat.ID+"#found", s.Where(), "GetAttempt hands out %s, expected an attempt of the payment's own list m.HTLCs", c)
				}
				guarded(o, gat, s, an.CmpX(canonTerm(`^\$elem\(\$recv\.HTLCs\)\.AttemptID$`), an.EQ, an.Param(0), "htlc.AttemptID == id"))
			}
			if nFound != 1 {
				o.FailAt(gat.ID+"#found-exits", gat.Where(gat.Body.Pos()), "GetAttempt has %d exits with an attempt, expected one", nFound)
			}
			if hds := c15RangeHeads(gat, `.`); len(hds) != 1 || gat.Canon(hds[0].Node.(*ast.RangeStmt).X) != "$recv.HTLCs" {
				o.FailAt(gat.ID+"#search-loop", gat.Where(gat.Body.Pos()), "GetAttempt is expected to search one loop over m.HTLCs")
			} else {
				c15LoopLeftOnlyBy(o, gat, hds[0], "attempts", func(rs *ast.ReturnStmt) bool {
					return len(rs.Results) == 2 && gat.Canon(rs.Results[0]) == "&$elem($recv.HTLCs)"
				})
			}
			// fetchPaymentByHash maps "no such row" to the sentinel and hands
			// out a row only when the query succeeded
			fb := p.Func(pd + "fetchPaymentByHash")
			noRows := an.CallTo("errors.Is", nil, nil, an.PkgVar("database/sql", "ErrNoRows"))
			nSent := 0
			for _, s := range fb.Returns() {
				rs := s.Node.(*ast.ReturnStmt)
				if len(rs.Results) != 2 {
					continue
				}
				isNo, _ := fb.Guarded(s, an.Truth(noRows, true, ""))
				c := fb.Canon(rs.Results[1])
				o.Site("fetchPaymentByHash returns error %s (below errors.Is(err, sql.ErrNoRows): %v)", c, isNo)
				switch {
				case isNo:
					nSent++
					if c != pd+"ErrPaymentNotInitiated" {
						o.FailAt(fb.ID+"#no-rows", s.Where(), "fetchPaymentByHash answers a missing row with %s, expected ErrPaymentNotInitiated", c)
					}
				case c == "nil":
					guarded(o, fb, s, an.Truth(noRows, false, "!errors.Is(err, sql.ErrNoRows)"))
					// (the flow graph does not correlate the two errors.Is tests:
					// "no error, or the error was ErrNoRows" and "not ErrNoRows"
					// together are "no error")
					guarded(o, fb, s, an.AnyOf("the query returned no error (or ErrNoRows, excluded by the other guard)",
						an.IsNil(an.ResultOf(an.CallNamed("FetchPayment", nil), 1), true, ""), an.Truth(noRows, true, "")))
				}
			}
			if nSent != 1 {
				o.FailAt(fb.ID+"#no-rows-exit", fb.Where(fb.Body.Pos()), "fetchPaymentByHash has %d exits below errors.Is(err, sql.ErrNoRows), expected one", nSent)
			}
			// unknown payments
			for _, e := range []string{"SQLStore.RegisterAttempt", "SQLStore.SettleAttempt", "SQLStore.FailAttempt", "SQLStore.Fail", "SQLStore.DeletePayment", "SQLStore.DeleteFailedAttempts"} {
				root := p.FuncOpt(pd + e)
				if root == nil {
					continue
				}
				for _, lf := range append([]*an.Func{root}, root.Lits...) {
					for _, s := range lf.AllCalls(false) {
						id := an.CalleeID(lf.Info(), s.Node.(*ast.CallExpr))
						if strings.HasSuffix(id, "SQLQueries.FetchPayment") {
							// allowed only after an existence check in the same closure
							pre := lf.Calls(an.CalleeIs(pd+"fetchPaymentByHash"), false)
							rows := 0
							for _, g := range lf.GuardsAt(s) {
								if strings.Contains(g, "rowsAffected") {
									rows++
								}
							}
							o.Site("%s reads the payment row directly at %s", pd+e, s.Where())
							if len(pre) == 0 && rows == 0 {
								o.FailAt(pd+e+"#raw-fetch", s.Where(), "%s fetches the payment with the raw query: a missing payment surfaces as sql.ErrNoRows instead of ErrPaymentNotInitiated", pd+e)
							}
						}
					}
				}
			}
			kd := p.Func(pd + "KVStore.DeletePayment")
			for _, lf := range kd.Lits {
				for _, s := range lf.Returns() {
					rs, isRet := s.Node.(*ast.ReturnStmt)
					if !isRet {
						continue
					}
					if ok, _ := lf.Guarded(s, an.IsNil(an.LocalNamed("bucket"), true, "")); ok && len(rs.Results) == 1 {
						o.Site("KVStore.DeletePayment on an unknown hash returns %s", an.Text(rs.Results[0]))
						if an.Text(rs.Results[0]) != "ErrPaymentNotInitiated" {
							o.FailAt(kd.ID+"#unknown-payment", s.Where(), "KVStore.DeletePayment answers an unknown payment with %s, the SQL store with ErrPaymentNotInitiated", an.Text(rs.Results[0]))
						}
					}
				}
			}
		})

	nullableByPresence(r, []string{"payments/db"}, 1, "the SQL store's guards decide admission, settlement and deletion from these columns; a failure reason of 0 (timeout) read as 'no reason' makes the guard path disagree with the loaded payment and with the KV store")

	retrySafeClosures(r, []string{"payments/db"}, `.`, 10, "both payment stores decide admission inside a retryable transaction; a value carried over from an aborted run is not the stored payment (see also store-gates-dominate-writes)")
}

// definingCalls returns the callee IDs of all definitions of the local id
// in f (empty when some definition is not a call).
func definingCalls(f *an.Func, id *ast.Ident) []string {
	info := f.Info()
	obj := info.Uses[id]
	if obj == nil {
		obj = info.Defs[id]
	}
	set := map[string]bool{}
	bad := false
	for fn := f; fn != nil; fn = fn.Parent {
		ast.Inspect(fn.Body, func(n ast.Node) bool {
			switch x := n.(type) {
			case *ast.AssignStmt:
				for i, l := range x.Lhs {
					lid, ok := l.(*ast.Ident)
					if !ok {
						continue
					}
					lo := info.Defs[lid]
					if lo == nil {
						lo = info.Uses[lid]
					}
					if lo != obj {
						continue
					}
					var rhs ast.Expr
					if len(x.Rhs) == 1 {
						rhs = x.Rhs[0]
					} else {
						rhs = x.Rhs[i]
					}
					if c, ok := ast.Unparen(rhs).(*ast.CallExpr); ok {
						if cid := an.CalleeID(info, c); cid != "" {
							set[cid] = true
							continue
						}
					}
					if an.IsNilIdent(info, rhs) {
						continue // reset at the start of a retried transaction
					}
					bad = true
				}
			case *ast.ValueSpec:
				for i, nm := range x.Names {
					if info.Defs[nm] == obj && len(x.Values) > i {
						bad = true
					}
				}
			}
			return true
		})
	}
	if bad {
		return nil
	}
	return keys(set)
}

// c16IsNotNilOf: e is `t != nil` (or `nil != t`) for the term t.
func c16IsNotNilOf(f *an.Func, e ast.Expr, t an.Term) bool {
	be, ok := ast.Unparen(e).(*ast.BinaryExpr)
	if !ok || be.Op != token.NEQ {
		return false
	}
	x, y := ast.Unparen(be.X), ast.Unparen(be.Y)
	if an.IsNilIdent(f.Info(), x) {
		x, y = y, x
	}
	return an.IsNilIdent(f.Info(), y) && an.Match(f, t, x)
}

// c16RecvStatusTest reads a vertex as a test of the receiver against a
// package-level constant: the entry `C` of `switch recv { case ..., C, ...: }`
// or the atom `recv == C` / `recv != C` (operands in either order) of a
// condition.  It returns the constant's name and whether the true edge means
// equality.
func c16RecvStatusTest(f *an.Func, v *flow.Vertex) (string, bool, bool) {
	constName := func(e ast.Expr) (string, bool) {
		var id *ast.Ident
		switch x := ast.Unparen(e).(type) {
		case *ast.Ident:
			id = x
		case *ast.SelectorExpr:
			id = x.Sel
		default:
			return "", false
		}
		if c, ok := f.Info().Uses[id].(*types.Const); ok && c.Parent() == c.Pkg().Scope() {
			return c.Name(), true
		}
		return "", false
	}
	switch v.Kind {
	case flow.KCase:
		ce, ok := v.Node.(ast.Expr)
		if !ok || v.Tag == nil || !an.Match(f, an.Recv(), v.Tag) {
			return "", false, false
		}
		if c, ok := constName(ce); ok {
			return c, true, true
		}
	case flow.KCond:
		e, ok := v.Node.(ast.Expr)
		if !ok {
			return "", false, false
		}
		be, ok := ast.Unparen(e).(*ast.BinaryExpr)
		if !ok || (be.Op != token.EQL && be.Op != token.NEQ) {
			return "", false, false
		}
		x, y := be.X, be.Y
		if !an.Match(f, an.Recv(), x) {
			x, y = y, x
		}
		if !an.Match(f, an.Recv(), x) {
			return "", false, false
		}
		if c, ok := constName(y); ok {
			return c, be.Op == token.EQL, true
		}
	}
	return "", false, false
}

// c16NeverNilError: e is an expression whose value is an error that is never
// nil: fmt.Errorf(...) / errors.New(...), or a package-level variable of the
// analysed program that is initialised by one of those and assigned nowhere
// (nor has its address taken) in its package.
func c16NeverNilError(p *an.Prog, f *an.Func, e ast.Expr) bool {
	info := f.Info()
	isCtor := func(e ast.Expr) bool {
		c, ok := ast.Unparen(e).(*ast.CallExpr)
		if !ok {
			return false
		}
		id := an.CalleeID(info, c)
		return id == "fmt.Errorf" || id == "errors.New"
	}
	if isCtor(e) {
		return true
	}
	var id *ast.Ident
	switch x := ast.Unparen(e).(type) {
	case *ast.Ident:
		id = x
	case *ast.SelectorExpr:
		id = x.Sel
	default:
		return false
	}
	v, ok := info.Uses[id].(*types.Var)
	if !ok || v.Pkg() == nil || v.Parent() != v.Pkg().Scope() || v.Pkg() != f.Pkg.Types {
		return false
	}
	initialised, written := false, false
	for _, file := range f.Pkg.Syntax {
		ast.Inspect(file, func(n ast.Node) bool {
			switch x := n.(type) {
			case *ast.ValueSpec:
				for i, nm := range x.Names {
					if f.Pkg.TypesInfo.Defs[nm] == v && len(x.Values) == len(x.Names) {
						c, ok := ast.Unparen(x.Values[i]).(*ast.CallExpr)
						if ok {
							cid := an.CalleeID(f.Pkg.TypesInfo, c)
							initialised = cid == "fmt.Errorf" || cid == "errors.New"
						}
					}
				}
			case *ast.AssignStmt:
				for _, l := range x.Lhs {
					if lid, ok := ast.Unparen(l).(*ast.Ident); ok && f.Pkg.TypesInfo.Uses[lid] == v {
						written = true
					}
				}
			case *ast.UnaryExpr:
				if lid, ok := ast.Unparen(x.X).(*ast.Ident); ok && x.Op == token.AND && f.Pkg.TypesInfo.Uses[lid] == v {
					written = true
				}
			}
			return true
		})
	}
	return initialised && !written
}

// c16ReachableAvoiding: can site be reached from the entry of f without
// traversing an edge that establishes fact, on a path that is feasible with
// respect to one piece of state: the local that was last assigned a never-nil
// error (c16NeverNilError) and not written since is not nil, so a test of it
// against nil takes its non-nil branch.  Everything else is left open (both
// branches), so the answer errs towards "reachable".
func c16ReachableAvoiding(p *an.Prog, f *an.Func, site an.Site, fact an.Fact) bool {
	info := f.Info()
	cut := f.EdgesOf(fact)
	objOf := func(e ast.Expr) types.Object {
		id, ok := ast.Unparen(e).(*ast.Ident)
		if !ok {
			return nil
		}
		if o := info.Defs[id]; o != nil {
			return o
		}
		return info.Uses[id]
	}
	// state after leaving v, given the state on entering it
	step := func(v *flow.Vertex, st types.Object) types.Object {
		if as, ok := v.Node.(*ast.AssignStmt); ok && (as.Tok == token.ASSIGN || as.Tok == token.DEFINE) && len(as.Lhs) == len(as.Rhs) {
			for i, l := range as.Lhs {
				o := objOf(l)
				if o == nil {
					continue
				}
				if _, isVar := o.(*types.Var); isVar && c16NeverNilError(p, f, as.Rhs[i]) {
					st = o
				} else if o == st {
					st = nil
				}
			}
			// a closure or address-of on the right can still write it
			for _, r := range as.Rhs {
				ast.Inspect(r, func(n ast.Node) bool {
					switch x := n.(type) {
					case *ast.FuncLit:
						st = nil
					case *ast.UnaryExpr:
						if x.Op == token.AND {
							st = nil
						}
					}
					return true
				})
			}
			return st
		}
		if st == nil || v.Kind == flow.KCond || v.Kind == flow.KCase || v.Kind == flow.KJoin {
			return st
		}
		// any other vertex that mentions the variable outside a plain read
		// in a call-free expression: give the knowledge up
		mentions := false
		v.Inspect(true, func(n ast.Node) bool {
			if id, ok := n.(*ast.Ident); ok && (info.Uses[id] == st || info.Defs[id] == st) {
				mentions = true
			}
			return true
		})
		if mentions {
			if _, isRet := v.Node.(*ast.ReturnStmt); !isRet {
				return nil
			}
		}
		return st
	}
	// the branch a nil test of the known variable takes
	decide := func(v *flow.Vertex, st types.Object) (bool, bool) {
		if st == nil || v.Kind != flow.KCond {
			return false, false
		}
		e, ok := v.Node.(ast.Expr)
		if !ok {
			return false, false
		}
		be, ok := ast.Unparen(e).(*ast.BinaryExpr)
		if !ok || (be.Op != token.EQL && be.Op != token.NEQ) {
			return false, false
		}
		x, y := be.X, be.Y
		if an.IsNilIdent(info, x) {
			x, y = y, x
		}
		if !an.IsNilIdent(info, y) || objOf(x) != st {
			return false, false
		}
		return be.Op == token.NEQ, true
	}
	type key struct {
		v  *flow.Vertex
		st types.Object
	}
	start := key{f.Graph().Entry, nil}
	seen := map[key]bool{start: true}
	work := []key{start}
	for len(work) > 0 {
		k := work[len(work)-1]
		work = work[:len(work)-1]
		if k.v == site.V {
			return true
		}
		val, known := decide(k.v, k.st)
		next := step(k.v, k.st)
		for _, e := range k.v.Out {
			if cut[e] {
				continue
			}
			if known && (e.Kind == flow.ETrue || e.Kind == flow.EFalse) && (e.Kind == flow.ETrue) != val {
				continue
			}
			nk := key{e.To, next}
			if !seen[nk] {
				seen[nk] = true
				work = append(work, nk)
			}
		}
	}
	return false
}
